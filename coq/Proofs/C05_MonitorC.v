(* C05 — completeness of the history monitors of Model/C05_Check.v: along every script from a (re)started tracker the
   observation trace computed from the MODEL state (mtrace, Proofs/C06_MonitorT.v) raises no code (10, 11, 13, 14).
   The proof is an invariant `MI` between the tracker state and the nine fields of the monitor's bookkeeping `sp`,
   together with: the dispatch fact (a current queue entry implies busy workers), and the equivalence of the monitor's
   observational quiescence with the model's `quiescent`. *)
From V Require Import Base.Common Base.CommonLemmas Model.C05_Tracker Model.C05_Check Model.C06_Check
  Proofs.C05_Tracker Proofs.C05_Monitor Proofs.C06_Status Proofs.C06_MonitorT.
Open Scope N_scope.

(* ---------- the worker-pool size never changes ---------- *)
Lemma dispatch_npin s : npin (dispatch s) = npin s.
Proof. destruct (dispatch_effect s) as (sp & su & E). apply E. Qed.
Lemma set_err_phase_npin s c : npin (set_err_phase s c) = npin s.
Proof. unfold set_err_phase. destruct (aget c (table s)); reflexivity. Qed.
Lemma enqueue_npin s p typ : npin (fst (enqueue s p typ)) = npin s.
Proof. unfold enqueue. destruct (track_new s p typ PQueued) as [[s1 i]|] eqn:Htn; [|reflexivity].
  destruct (track_new_some _ _ _ _ _ _ Htn) as (_ & _ & _ & _ & _ & _ & _ & _ & _ & _ & _ & Hn).
  destruct typ; match goal with |- context [if ?b then _ else _] => destruct b end; cbn [fst];
    rewrite ?dispatch_npin, ?set_err_phase_npin; cbn; exact Hn. Qed.
Lemma recover_with_npin s c x : npin (fst (recover_with s c x)) = npin s.
Proof. unfold recover_with. destruct x; try reflexivity; try apply enqueue_npin; destruct (aget c (pinset s)); try reflexivity; apply enqueue_npin. Qed.
Lemma recover_list_npin l : forall s, npin (fst (recover_list s l)) = npin s.
Proof. induction l as [|[c x] r IH]; intros s; [reflexivity|]. cbn [recover_list].
  pose proof (recover_with_npin s c x) as H. destruct (recover_with s c x) as [s' [|]]; cbn [fst] in *; [rewrite IH|]; exact H. Qed.
Lemma complete_npin s c f : npin (complete s c f) = npin s.
Proof. unfold complete. destruct (find _ (calls s)) as [cl|]; [|reflexivity]. destruct (aget c (table s)) as [o|]; [|reflexivity].
  destruct (negb (N.eqb (oid o) (coid cl))); [reflexivity|]. destruct (if f then _ else _) as [i' ok]. rewrite dispatch_npin.
  destruct ok; unfold clean; rewrite ?set_err_phase_npin; cbn; [destruct (current _ _ _)|]; reflexivity. Qed.
Lemma step_npin s e : npin (fst (step s e)) = npin s.
Proof. unfold step. destruct (step_raw s e) as [s' r] eqn:E. cbn [fst]. rewrite dispatch_npin.
  assert (Es : s' = fst (step_raw s e)) by now rewrite E. rewrite Es. clear. destruct e; cbn [step_raw fst].
  - unfold track. destruct (pmeta p); [reflexivity|]. destruct (premote p); [|rewrite enqueue_npin; reflexivity].
    match goal with |- context [track_new ?a ?b ?c ?d] => destruct (track_new a b c d) as [[s1 i]|] eqn:Htn end; [|reflexivity].
    destruct (track_new_some _ _ _ _ _ _ Htn) as (_ & _ & _ & _ & _ & _ & _ & _ & _ & _ & _ & Hn). cbn [fst]. rewrite dispatch_npin. cbn. exact Hn.
  - unfold untrack. rewrite enqueue_npin. reflexivity.
  - apply recover_with_npin.
  - apply recover_list_npin.
  - apply complete_npin.
  - reflexivity. Qed.

(* ---------- the dispatch fact: a current entry still queued means the workers of that queue are all busy ---------- *)
Definition has_current (t : list (N * oper)) (q : list (N * N)) : Prop := exists e, In e q /\ current t (fst e) (snd e) = true.
Definition dispatched (s : st) : Prop :=
  (has_current (table s) (pinq s) -> (npin s <= busy KPin s)%nat) /\
  (has_current (table s) (unpinq s) -> (1 <= busy KUnpin s)%nat).

Lemma fill_full t : forall q free st rest, fill t free q = (st, rest) -> has_current t rest -> length st = free.
Proof. induction q as [|[i c] r IH]; intros free st rest H [e [He Hc]]; cbn [fill] in H.
  - injection H as <- <-. destruct He.
  - destruct free as [|f]; [injection H as <- <-; reflexivity|]. destruct (current t i c) eqn:Hic.
    + destruct (fill t f r) as [st' rest'] eqn:Hf. injection H as <- <-. cbn [length]. f_equal. apply (IH f st' rest' Hf). exists e. auto.
    + apply (IH (S f) st rest H). exists e. auto. Qed.

Lemma busy_app k (s : st) l : busy k (set_calls s (calls s ++ l)) = (busy k s + length (filter (fun cl => ckind_eqb (ckd cl) k) l))%nat.
Proof. unfold busy. cbn [calls set_calls]. now rewrite filter_app, app_length. Qed.

Lemma dispatch_dispatched s : dispatched (dispatch s).
Proof. unfold dispatch.
  destruct (fill (table s) (npin s - busy KPin s) (pinq s)) as [sp qp] eqn:Hp.
  destruct (fill (table s) (1 - busy KUnpin s) (unpinq s)) as [su qu] eqn:Hu.
  unfold dispatched, has_current, busy. cbn [table pinq unpinq calls npin].
  assert (Fp : length (filter (fun cl => ckind_eqb (ckd cl) KPin)
                 (calls s ++ map (fun e => mk_call (fst e) (snd e) KPin) sp ++ map (fun e => mk_call (fst e) (snd e) KUnpin) su))
               = (busy KPin s + length sp)%nat).
  { unfold busy. rewrite !filter_app, !app_length. f_equal.
    assert (A : forall l : list (N * N), length (filter (fun cl => ckind_eqb (ckd cl) KPin) (map (fun e => mk_call (fst e) (snd e) KPin) l)) = length l)
      by (induction l; cbn; auto).
    assert (B : forall l : list (N * N), length (filter (fun cl => ckind_eqb (ckd cl) KPin) (map (fun e => mk_call (fst e) (snd e) KUnpin) l)) = 0%nat)
      by (induction l; cbn; auto).
    rewrite A, B. lia. }
  assert (Fu : length (filter (fun cl => ckind_eqb (ckd cl) KUnpin)
                 (calls s ++ map (fun e => mk_call (fst e) (snd e) KPin) sp ++ map (fun e => mk_call (fst e) (snd e) KUnpin) su))
               = (busy KUnpin s + length su)%nat).
  { unfold busy. rewrite !filter_app, !app_length. f_equal.
    assert (A : forall l : list (N * N), length (filter (fun cl => ckind_eqb (ckd cl) KUnpin) (map (fun e => mk_call (fst e) (snd e) KUnpin) l)) = length l)
      by (induction l; cbn; auto).
    assert (B : forall l : list (N * N), length (filter (fun cl => ckind_eqb (ckd cl) KUnpin) (map (fun e => mk_call (fst e) (snd e) KPin) l)) = 0%nat)
      by (induction l; cbn; auto).
    rewrite A, B. lia. }
  rewrite Fp, Fu. split; intros [e [He Hc]]; rewrite current_mark in Hc.
  - rewrite (fill_full _ _ _ _ _ Hp) by (exists e; auto). lia.
  - rewrite (fill_full _ _ _ _ _ Hu) by (exists e; auto). lia. Qed.

Lemma step_dispatched s e : dispatched (fst (step s e)).
Proof. unfold step. destruct (step_raw s e) as [s' r]. apply dispatch_dispatched. Qed.
Lemma init_dispatched q n ps i : dispatched (init q n ps i).
Proof. split; intros [e [[] _]]. Qed.

(* ---------- the monitor's quiescence is the model's ---------- *)
Lemma pending_status s c : Inv s -> pending_bits (st_bits (status_of s c)) = true ->
  exists o, aget c (table s) = Some o /\ live (oph o) = true.
Proof. intros I H. unfold status_of in H. destruct (aget c (table s)) as [o|] eqn:Ho.
  - exists o. split; auto. unfold op_status in H. destruct (otyp o), (oph o); cbn in H; try discriminate; reflexivity.
  - exfalso. destruct (aget c (pinset s)) as [p|]; [|discriminate]. destruct (pmeta p); [discriminate|].
    destruct (premote p); [discriminate|]. destruct (ipfs_has s c (pdirect p)); discriminate. Qed.

Lemma no_current_iff s : existsb (fun e => current (table s) (fst e) (snd e)) (pinq s ++ unpinq s) = true <->
  has_current (table s) (pinq s) \/ has_current (table s) (unpinq s).
Proof. rewrite existsb_exists. unfold has_current. split.
  - intros [e [He Hc]]. apply in_app_or in He. destruct He; [left|right]; eauto.
  - intros [[e [He Hc]]|[e [He Hc]]]; exists e; split; auto; apply in_or_app; auto. Qed.

Theorem quiescence_agrees n s r fs : Inv s -> dispatched s -> (0 < npin s)%nat ->
  o_quiescent (model_obs n s r fs) = quiescent s.
Proof. intros I [D1 D2] Hnp. unfold o_quiescent, quiescent, model_obs, o_inflight, o_status.
  destruct (calls s) as [|cl0 rest] eqn:Ec; [|reflexivity]. cbn [map andb].
  assert (Hb : forall k, busy k s = 0%nat) by (intros k; unfold busy; now rewrite Ec).
  assert (Hnc : existsb (fun e => current (table s) (fst e) (snd e)) (pinq s ++ unpinq s) = false).
  { destruct (existsb _ (pinq s ++ unpinq s)) eqn:E; auto. exfalso. apply no_current_iff in E. destruct E as [E|E].
    - apply D1 in E. rewrite Hb in E. lia.
    - apply D2 in E. rewrite Hb in E. lia. }
  rewrite Hnc. cbn [negb]. f_equal.
  destruct (existsb pending_bits (map (fun c => st_bits (status_of s c)) (nrange n))) eqn:E; auto. exfalso.
  apply existsb_exists in E. destruct E as [b [Hb1 Hb2]]. apply in_map_iff in Hb1. destruct Hb1 as [c [<- _]].
  destruct (pending_status s c I Hb2) as [o [Ho Hl]]. pose proof (inv_phase _ I _ _ Ho) as P. unfold phase_ok in P.
  destruct (oph o); try discriminate.
  - assert (existsb (fun e => current (table s) (fst e) (snd e)) (pinq s ++ unpinq s) = true); [|congruence].
    apply existsb_exists. exists (oid o, c). split; [|now apply current_oid]. apply in_or_app. destruct P as [[_ P]|[_ P]]; auto.
  - destruct P as (cl & Hin & _). rewrite Ec in Hin. destruct Hin. Qed.

(* ---------- where the operations of the table come from ---------- *)
Lemma op_frame_trans a b c : op_frame a b -> op_frame b c -> op_frame a c.
Proof. unfold op_frame. intros (A1 & A2 & A3 & A4) (B1 & B2 & B3 & B4). repeat split; try congruence.
  destruct A4 as [A4|[A4 A5]], B4 as [B4|[B4 B5]]; try (left; congruence); right; split; congruence. Qed.

(* origin of an entry: an entry of the state before (same id, type, pin), or a new operation for pin p *)
Definition from (s : st) (P : tpin -> Prop) (c : N) (o' : oper) : Prop :=
  (exists o, aget c (table s) = Some o /\ otyp o' = otyp o /\ opin o' = opin o) \/ (P (opin o') /\ pcid (opin o') = c) \/ otyp o' <> OPin.

Lemma from_frame s s' (P : tpin -> Prop) c o' : opframe s s' c -> aget c (table s') = Some o' -> from s P c o'.
Proof. unfold opframe. intros F H. rewrite H in F. destruct (aget c (table s)) as [o|] eqn:Ho; [|contradiction].
  left. exists o. destruct F as (_ & A & B & _). auto. Qed.

Lemma enqueue_from s p typ (P : tpin -> Prop) c o' : Inv s -> typ <> ORemote -> P p ->
  aget c (table (fst (enqueue s p typ))) = Some o' -> from s P c o'.
Proof. intros I Ht Hp H. destruct (N.eq_dec c (pcid p)) as [->|Hn].
  - destruct (track_new s p typ PQueued) as [[s1 i]|] eqn:Htn.
    + destruct (enqueue_result s p typ I Ht) as (o & Ho & T & R). rewrite H in Ho. injection Ho as <-.
      right. left. assert (E : opin o' = p).
      { destruct (snd (enqueue s p typ)); [|apply R]. apply R. congruence. }
      rewrite E. auto.
    + unfold enqueue in H. rewrite Htn in H. cbn [fst] in H. left. exists o'. auto.
  - eapply from_frame; [apply enqueue_frame; eauto|exact H]. Qed.

Lemma enqueue_persist s p typ c : Inv s -> typ <> ORemote -> aget c (table s) <> None -> aget c (table (fst (enqueue s p typ))) <> None.
Proof. intros I Ht H. destruct (N.eq_dec c (pcid p)) as [->|Hn].
  - destruct (enqueue_result s p typ I Ht) as (o & Ho & _). congruence.
  - pose proof (enqueue_frame s p typ c I Ht Hn) as F. unfold opframe in F. destruct (aget c (table s)); [|congruence].
    destruct (aget c (table (fst (enqueue s p typ)))); [discriminate|contradiction]. Qed.

Lemma recover_with_from s c0 x (P : tpin -> Prop) c o' : Inv s -> (forall c p, aget c (pinset s) = Some p -> pcid p = c /\ P p) ->
  aget c (table (fst (recover_with s c0 x))) = Some o' -> from s P c o'.
Proof. intros I K H. unfold recover_with in H.
  assert (Hpin : match aget c0 (pinset s) with Some p => aget c (table (fst (enqueue s p OPin))) = Some o' | None => aget c (table s) = Some o' end -> from s P c o').
  { destruct (aget c0 (pinset s)) as [p|] eqn:Hp; intros H'.
    - destruct (K _ _ Hp) as [_ Pp]. eapply enqueue_from; eauto. discriminate.
    - left. exists o'. auto. }
  destruct x; try (left; exists o'; auto; fail).
  - apply Hpin. destruct (aget c0 (pinset s)); exact H.
  - destruct (N.eq_dec c c0) as [->|Hn].
    + destruct (enqueue_result s (pincid c0) OUnpin I) as (o & Ho & T & _); [discriminate|]. cbn [pincid pcid] in Ho. assert (o = o') by congruence. subst o'.
      right. right. congruence.
    + apply (from_frame s (fst (enqueue s (pincid c0) OUnpin))); [|exact H]. apply enqueue_frame; [exact I | discriminate | exact Hn].
  - apply Hpin. destruct (aget c0 (pinset s)); exact H. Qed.

Lemma recover_with_persist s c0 x c : Inv s -> aget c (table s) <> None -> aget c (table (fst (recover_with s c0 x))) <> None.
Proof. intros I H. unfold recover_with. destruct x; auto; try (destruct (aget c0 (pinset s)); auto); apply enqueue_persist; auto; discriminate. Qed.

Lemma from_trans s1 s2 (P : tpin -> Prop) c o2 o3 : (forall c p, aget c (pinset s1) = Some p -> P p) ->
  from s1 P c o2 -> aget c (table s2) = Some o2 -> from s2 P c o3 -> from s1 P c o3.
Proof. intros _ F1 H2 F3. destruct F3 as [(o & Ho & T & Q)|[F3|F3]]; [|right; left; exact F3|right; right; exact F3].
  rewrite H2 in Ho. injection Ho as <-. destruct F1 as [(o1 & Ho1 & T1 & Q1)|[[F1 F1']|F1]].
  - left. exists o1. split; auto. split; congruence.
  - right. left. rewrite Q. auto.
  - right. right. congruence. Qed.

Lemma recover_list_from l (P : tpin -> Prop) : forall s c o', Inv s -> (forall c p, aget c (pinset s) = Some p -> pcid p = c /\ P p) ->
  aget c (table (fst (recover_list s l))) = Some o' -> from s P c o'.
Proof. induction l as [|[c0 x] r IH]; intros s c o' I K H; [left; exists o'; auto|]. cbn [recover_list] in H.
  pose proof (recover_with_inv s c0 x I) as I1. destruct (recover_with_fields s c0 x) as (_ & Hp & _).
  destruct (recover_with s c0 x) as [s1 [|]] eqn:E; cbn [fst] in *.
  - assert (K1 : forall c p, aget c (pinset s1) = Some p -> pcid p = c /\ P p) by (rewrite Hp; exact K).
    pose proof (IH s1 c o' I1 K1 H) as F3. destruct F3 as [(o & Ho & T & Q)|F3]; [|right; exact F3].
    assert (F1 : from s P c o) by (apply (recover_with_from s c0 x P c o I K); now rewrite E).
    destruct F1 as [(o1 & Ho1 & T1 & Q1)|[[F1 F1']|F1]].
    + left. exists o1. split; auto. split; congruence.
    + right. left. rewrite Q. auto.
    + right. right. congruence.
  - apply (recover_with_from s c0 x P c o' I K). now rewrite E. Qed.

Lemma recover_list_persist l : forall s c, Inv s -> aget c (table s) <> None -> aget c (table (fst (recover_list s l))) <> None.
Proof. induction l as [|[c0 x] r IH]; intros s c I H; [exact H|]. cbn [recover_list].
  pose proof (recover_with_inv s c0 x I) as I1. pose proof (recover_with_persist s c0 x c I H) as H1.
  destruct (recover_with s c0 x) as [s1 [|]]; cbn [fst] in *; auto. Qed.

Lemma dispatch_from s (P : tpin -> Prop) c o' : Inv s -> aget c (table (dispatch s)) = Some o' -> from s P c o'.
Proof. intros I H. eapply from_frame; [apply dispatch_frame; exact I|exact H]. Qed.
Lemma dispatch_persist s c : Inv s -> aget c (table s) <> None -> aget c (table (dispatch s)) <> None.
Proof. intros I H. pose proof (dispatch_frame s c I) as F. unfold opframe in F. destruct (aget c (table s)); [|congruence].
  destruct (aget c (table (dispatch s))); [discriminate|contradiction]. Qed.

(* one event: an entry afterwards comes from an entry before or from a pin P accepts; entries only disappear at a completion *)
Lemma step_from s e (P : tpin -> Prop) c o' : Inv s -> (forall c p, aget c (pinset s) = Some p -> pcid p = c /\ P p) ->
  (forall p, e = ETrack p -> P p) -> aget c (table (fst (step s e))) = Some o' -> from s P c o'.
Proof. intros I K Pe H. unfold step in H. pose proof (step_raw_inv s e I) as I1. destruct (step_raw s e) as [s1 r] eqn:E. cbn [fst] in *.
  assert (Es : s1 = fst (step_raw s e)) by now rewrite E.
  pose proof (dispatch_from s1 P c o' I1 H) as F3. destruct F3 as [(o & Ho & T & Q)|F3]; [|right; exact F3].
  assert (F1 : from s P c o).
  { rewrite Es in Ho. clear H E. destruct e as [p|c0|c0|ord|c0 f|c0 m]; cbn [step_raw fst] in Ho.
    - destruct (track_effect s p I) as (_ & _ & _ & Fo & Ft). destruct (N.eq_dec c (pcid p)) as [->|Hn]; [|eapply from_frame; eauto].
      unfold track in *. destruct (pmeta p); [eapply from_frame; eauto|]. destruct (premote p).
      + right. right. unfold ty in Ft. rewrite Ho in Ft. cbn in Ft. congruence.
      + set (s0 := set_last _ _) in *. assert (I0 : Inv s0) by (apply (inv_ext s); auto).
        assert (F0 : from s0 P (pcid p) o) by (eapply enqueue_from; eauto; discriminate). exact F0.
    - destruct (untrack_effect s c0 I) as (_ & _ & _ & Fo & Ft). destruct (N.eq_dec c c0) as [->|Hn]; [|eapply from_frame; eauto].
      right. right. unfold ty in Ft. rewrite Ho in Ft. cbn in Ft. congruence.
    - eapply recover_with_from; eauto.
    - eapply recover_list_from; eauto.
    - destruct (complete_effect s c0 f I) as (_ & _ & Fo & Fc). destruct (N.eq_dec c c0) as [->|Hn]; [|eapply from_frame; [apply Fo|]; eauto].
      destruct Fc as [[Esame _]|(cl & o0 & _ & _ & Ho0 & Hid & _ & _ & _ & Hres)]; [rewrite Esame in Ho; left; exists o; auto|].
      destruct (snd (call_outcome s c0 f (ckd cl) o0)); [congruence|]. destruct Hres as (o1 & Ho1 & T1 & _). rewrite Ho in Ho1. injection Ho1 as <-.
      (* the failed operation keeps its pin: read it off the table *)
      left. exists o0. split; auto. split; auto. clear -I Ho Ho0.
      unfold complete in Ho. destruct (find _ (calls s)) as [cl|]; [|congruence]. rewrite Ho0 in Ho.
      destruct (negb (N.eqb (oid o0) (coid cl))); [congruence|]. destruct (if f then _ else _) as [i' ok].
      match type of Ho with aget _ (table (dispatch ?s2)) = _ => destruct (dispatch_effect s2) as (sp & su & D); rewrite (de_table _ _ _ _ D), aget_mark in Ho;
        assert (Ht2 : aget c0 (table s2) = None \/ exists o2, aget c0 (table s2) = Some o2 /\ opin o2 = opin o0) end.
      { destruct ok; unfold clean, set_err_phase; cbn [table set_calls set_ipfs].
        - destruct (current _ _ _); cbn [table set_table]; [left; apply aget_adel_same | right; exists o0; auto].
        - rewrite Ho0. cbn [table set_table]. right. exists (set_phase PError o0). split; [apply aget_aput_same | reflexivity]. }
      destruct Ht2 as [E|(o2 & E & Q2)]; rewrite E in Ho; cbn in Ho; [discriminate|]. injection Ho as <-. rewrite mark1_opin. exact Q2.
    - left. exists o. auto. }
  destruct F1 as [(o1 & Ho1 & T1 & Q1)|[[F1 F1']|F1]].
  - left. exists o1. split; auto. split; congruence.
  - right. left. rewrite Q. auto.
  - right. right. congruence. Qed.

(* ---------- the facts the monitor remembers per cid ---------- *)
Definition dmobs (s : st) : list (N * N) := map (fun e => (fst e, mode_code (snd e))) (ipfs s).
Definition infobs (s : st) : list (N * N * N * N) := map (call_obs s) (calls s).
(* last instruction Untrack, daemon not touched behind the tracker since: once no operation is tracked the cid is unpinned *)
Definition Uc (s : st) (c : N) : Prop :=
  aget c (last s) = Some IUntrack /\ (aget c (table s) = None -> aget c (ipfs s) = None).
(* a pin moved to other peers whose local unpin succeeded *)
Definition Rc (s : st) (c : N) : Prop :=
  aget c (table s) = None /\ aget c (ipfs s) = None /\ exists p, aget c (last s) = Some (ITrack p) /\ premote p = true.

Lemma recover_list_ipfs l : forall s, ipfs (fst (recover_list s l)) = ipfs s.
Proof. induction l as [|[c x] r IH]; intros s; [reflexivity|]. cbn [recover_list].
  destruct (recover_with_fields s c x) as (A & _). destruct (recover_with s c x) as [s' [|]]; cbn [fst] in *; [rewrite IH|]; exact A. Qed.

Lemma kind_type_inj a b : kind_type a = kind_type b -> a = b.
Proof. destruct a, b; cbn; congruence. Qed.

Lemma lab_untrack s c : LInv false s -> aget c (last s) = Some IUntrack ->
  aget c (pinset s) = None /\ forall o, aget c (table s) = Some o -> otyp o = OUnpin.
Proof. intros L H. pose proof (li_lab _ _ L c) as Lc. unfold lab, ty in Lc. rewrite H in Lc. destruct Lc as [A B]. split; auto.
  intros o Ho. rewrite Ho in B. cbn in B. destruct B as [B|[B _]]; congruence. Qed.
Lemma lab_track s c p : LInv false s -> aget c (last s) = Some (ITrack p) -> aget c (pinset s) = Some p.
Proof. intros L H. pose proof (li_lab _ _ L c) as Lc. unfold lab in Lc. rewrite H in Lc. apply Lc. Qed.

Lemma Uc_frame s s' c : opframe s s' c -> aget c (last s') = aget c (last s) -> aget c (ipfs s') = aget c (ipfs s) -> Uc s c -> Uc s' c.
Proof. unfold Uc, opframe. intros F Hl Hi [A B]. rewrite Hl, Hi. split; auto. intros Hn. apply B. rewrite Hn in F.
  destruct (aget c (table s)); [contradiction|reflexivity]. Qed.
Lemma Rc_frame s s' c : opframe s s' c -> aget c (last s') = aget c (last s) -> aget c (ipfs s') = aget c (ipfs s) -> Rc s c -> Rc s' c.
Proof. unfold Rc, opframe. intros F Hl Hi (A & B & C). rewrite Hl, Hi. split; [|auto]. rewrite A in F.
  destruct (aget c (table s')); [contradiction|reflexivity]. Qed.

Lemma Uc_dispatch s c : Inv s -> Uc s c -> Uc (dispatch s) c.
Proof. intros I U. apply (Uc_frame s); auto; [now apply dispatch_frame | now rewrite dispatch_last | now rewrite dispatch_ipfs]. Qed.
Lemma Rc_dispatch s c : Inv s -> Rc s c -> Rc (dispatch s) c.
Proof. intros I U. apply (Rc_frame s); auto; [now apply dispatch_frame | now rewrite dispatch_last | now rewrite dispatch_ipfs]. Qed.

(* the two facts survive every event that does not re-instruct the cid or touch its daemon entry *)
Definition resets (e : event) (c : N) : Prop :=
  match e with ETrack p => pcid p = c | EUntrack c' => c' = c | EDaemon c' _ => c' = c | _ => False end.

Lemma Uc_step s e c : Inv s -> LInv false s -> Uc s c -> ~ resets e c -> Uc (fst (step s e)) c.
Proof. intros I L U Hr. unfold step. pose proof (step_raw_inv s e I) as I1. destruct (step_raw s e) as [s1 r] eqn:E. cbn [fst] in *.
  apply Uc_dispatch; auto. assert (Es : s1 = fst (step_raw s e)) by now rewrite E. rewrite Es. clear E Es I1.
  pose proof U as [A B]. destruct e as [p|c0|c0|ord|c0 f|c0 m]; cbn [step_raw fst resets] in *.
  - destruct (track_effect s p I) as (_ & Hl & Hi & Fo & _).
    apply (Uc_frame s); [apply Fo; intros H; apply Hr; auto | rewrite Hl; apply aget_aput_other; intros H; apply Hr; auto | now rewrite Hi | exact U].
  - destruct (untrack_effect s c0 I) as (_ & Hl & Hi & Fo & _).
    apply (Uc_frame s); [apply Fo; intros H; apply Hr; auto | rewrite Hl; apply aget_aput_other; intros H; apply Hr; auto | now rewrite Hi | exact U].
  - destruct (recover_with_fields s c0 (status_of s c0)) as (Hi & _ & Hl). unfold recover, Uc. rewrite Hl, Hi. split; auto. intros Hn. apply B.
    destruct (aget c (table s)) eqn:G; auto. exfalso. apply (recover_with_persist s c0 (status_of s c0) c I); congruence.
  - destruct (recover_list_fields (order_by ord (status_all s 0)) s) as (_ & Hl). unfold recover_all, Uc. rewrite Hl, recover_list_ipfs. split; auto.
    intros Hn. apply B. destruct (aget c (table s)) eqn:G; auto. exfalso. apply (recover_list_persist (order_by ord (status_all s 0)) s c I); congruence.
  - destruct (complete_effect s c0 f I) as (_ & Hl & Fo & Fc). destruct (N.eq_dec c c0) as [->|Hn].
    + destruct Fc as [[Es _]|(cl & o & _ & _ & Ho & _ & _ & Hty & Hip & Hres)]; [rewrite Es; split; auto|].
      destruct (lab_untrack s c0 L A) as [_ Hu']. rewrite (Hu' o Ho) in Hty.
      assert (Hk : ckd cl = KUnpin) by (apply kind_type_inj; now rewrite <- Hty). unfold Uc. rewrite Hl. split; auto.
      unfold call_outcome in *. rewrite Hk in *. destruct f; cbn [fst snd] in *.
      * destruct Hres as (o' & Ho' & _). congruence.
      * intros _. rewrite Hip. apply aget_adel_same.
    + destruct (Fo c Hn) as [F Hi]. apply (Uc_frame s); auto. now rewrite Hl.
  - unfold Uc. cbn [last table ipfs set_ipfs]. split; auto. intros Hn. specialize (B Hn).
    destruct m; [rewrite aget_aput_other | rewrite aget_adel_other]; auto. Qed.

Lemma Uc_untrack s c : Inv s -> Uc (fst (step s (EUntrack c))) c.
Proof. intros I. unfold step. pose proof (step_raw_inv s (EUntrack c) I) as I1. cbn [step_raw] in *. destruct (untrack s c) as [s1 r] eqn:E. cbn [fst] in *.
  apply Uc_dispatch; auto. assert (Es : s1 = fst (untrack s c)) by now rewrite E. rewrite Es.
  destruct (untrack_effect s c I) as (_ & Hl & _ & _ & Ht). unfold Uc. rewrite Hl, aget_aput_same. split; auto.
  intros Hn. unfold ty in Ht. rewrite Hn in Ht. discriminate. Qed.

Lemma recover_list_none l : forall s c, Inv s -> (forall c p, aget c (pinset s) = Some p -> pcid p = c) ->
  (forall x, In (c, x) l -> act x = None) -> aget c (table s) = None -> aget c (table (fst (recover_list s l))) = None.
Proof. induction l as [|[c0 x] r IH]; intros s c I K Hx Hn; [exact Hn|]. cbn [recover_list].
  pose proof (recover_with_inv s c0 x I) as I1. destruct (recover_with_fields s c0 x) as (_ & Hp & _).
  assert (Hn1 : aget c (table (fst (recover_with s c0 x))) = None).
  { destruct (N.eq_dec c c0) as [->|Hne].
    - rewrite (recover_with_noop s c0 x); auto. apply Hx. now left.
    - pose proof (recover_with_frame s c0 x c I (K c0) Hne) as F. unfold opframe in F. rewrite Hn in F.
      destruct (aget c (table (fst (recover_with s c0 x)))); [contradiction|reflexivity]. }
  destruct (recover_with s c0 x) as [s1 [|]]; cbn [fst] in *; auto.
  apply IH; auto; [now rewrite Hp | intros y Hy; apply Hx; now right]. Qed.

Lemma Rc_status s c : LInv false s -> Rc s c -> act (status_of s c) = None /\ forall x, entry_of s c = Some x -> act x = None.
Proof. intros L (A & _ & p & Hl & Hr). pose proof (lab_track s c p L Hl) as Hp. unfold status_of, entry_of. rewrite A, Hp, Hr.
  split; [destruct (pmeta p); reflexivity|]. intros x H. injection H as <-. destruct (pmeta p); reflexivity. Qed.

Lemma Rc_step s e c : Inv s -> LInv false s -> Rc s c -> ~ resets e c -> Rc (fst (step s e)) c.
Proof. intros I L R Hr. unfold step. pose proof (step_raw_inv s e I) as I1. destruct (step_raw s e) as [s1 r] eqn:E. cbn [fst] in *.
  apply Rc_dispatch; auto. assert (Es : s1 = fst (step_raw s e)) by now rewrite E. rewrite Es. clear E Es I1.
  destruct (Rc_status s c L R) as [St Se]. pose proof R as (A & B & p & Hlast & Hrem).
  destruct e as [p0|c0|c0|ord|c0 f|c0 m]; cbn [step_raw fst resets] in *.
  - destruct (track_effect s p0 I) as (_ & Hl & Hi & Fo & _).
    apply (Rc_frame s); [apply Fo; intros H; apply Hr; auto | rewrite Hl; apply aget_aput_other; intros H; apply Hr; auto | now rewrite Hi | exact R].
  - destruct (untrack_effect s c0 I) as (_ & Hl & Hi & Fo & _).
    apply (Rc_frame s); [apply Fo; intros H; apply Hr; auto | rewrite Hl; apply aget_aput_other; intros H; apply Hr; auto | now rewrite Hi | exact R].
  - destruct (recover_with_fields s c0 (status_of s c0)) as (Hi & _ & Hl). unfold recover. destruct (N.eq_dec c c0) as [->|Hn].
    + now rewrite (recover_with_noop s c0 _ St).
    + apply (Rc_frame s); auto; [|now rewrite Hl|now rewrite Hi]. apply recover_with_frame; auto. apply (li_keyed _ _ L).
  - destruct (recover_list_fields (order_by ord (status_all s 0)) s) as (_ & Hl). unfold recover_all, Rc. rewrite Hl, recover_list_ipfs.
    split; [|split; eauto]. apply recover_list_none; auto; [apply (li_keyed _ _ L)|].
    intros x Hx. apply Se. apply status_all0_in; [apply I | apply L|].
    apply (order_by_in ord (status_all s 0) (c, x)); auto. apply status_all0_nodup; [apply I | apply L].
  - destruct (complete_effect s c0 f I) as (_ & Hl & Fo & Fc). destruct (N.eq_dec c c0) as [->|Hn].
    + destruct Fc as [[Es _]|(cl & o & _ & _ & Ho & _)]; [now rewrite Es | congruence].
    + destruct (Fo c Hn) as [F Hi]. apply (Rc_frame s); auto. now rewrite Hl.
  - unfold Rc. cbn [last table ipfs set_ipfs]. split; auto. split; [|eauto].
    destruct m; [rewrite aget_aput_other | rewrite aget_adel_other]; auto. Qed.

(* the local unpin of a moved pin returned success *)
Lemma Rc_new s c p d t : Inv s -> LInv false s -> aget c (last s) = Some (ITrack p) -> premote p = true ->
  In (c, 1, d, t) (infobs s) -> Rc (fst (step s (EComplete c false))) c.
Proof. intros I L Hl Hrem Hin. unfold step. pose proof (step_raw_inv s (EComplete c false) I) as I1. cbn [step_raw fst] in *.
  apply Rc_dispatch; auto. unfold infobs in Hin. apply in_map_iff in Hin. destruct Hin as [cl [Eq Hcl]].
  destruct (inv_calls _ I _ Hcl) as (o & Ho & Hid & Hph & Hty).
  assert (Hc : ccid cl = c /\ ckd cl <> KPin).
  { unfold call_obs in Eq. destruct (ckd cl); [|injection Eq as ->; split; [reflexivity|discriminate]..].
    rewrite Ho in Eq. injection Eq as _ X. discriminate. }
  destruct Hc as [Hc Hk]. subst c.
  destruct (complete_effect s (ccid cl) false I) as (_ & Hla & _ & Fc).
  destruct Fc as [[_ Hno]|(cl' & o' & _ & Hc' & Ho' & _ & _ & Hty' & Hip & Hres)]; [exfalso; eapply Hno; eauto|].
  rewrite Ho in Ho'. injection Ho' as <-. assert (Hk' : ckd cl' = ckd cl) by (apply kind_type_inj; congruence).
  unfold call_outcome in *. rewrite Hk' in *. unfold Rc. rewrite Hla, Hip.
  destruct (ckd cl); [congruence| |]; cbn [fst snd] in *; (split; [exact Hres|]); (split; [apply aget_adel_same | eauto]). Qed.

(* ---------- the invariant between the tracker state and the monitor's bookkeeping ---------- *)
Definition heal_ctx (s : st) (x : sp) (d0 : list (N * N)) : Prop :=
  exists s0 ord s1 evs, Inv s0 /\ LInv false s0 /\ quiescent s0 = true /\ step s0 (ERecoverAll ord) = (s1, ROk) /\
    Forall ok_complete evs /\ s = run s1 evs /\ d0 = dmobs s0 /\ pinset s0 = pinset s /\ (forall c, In c (sp_unt x) -> Uc s0 c).

Record MI (s : st) (x : sp) : Prop := {
  mi_inv : Inv s; mi_linv : LInv false s; mi_np : (0 < npin s)%nat; mi_D : dispatched s;
  mi_pinset : sp_pinset x = pinset s; mi_last : sp_last x = last s;
  mi_hist_p : forall c p, aget c (pinset s) = Some p -> In p (sp_hist x);
  mi_hist_t : forall c o, aget c (table s) = Some o -> otyp o = OPin -> In (opin o) (sp_hist x) /\ pcid (opin o) = c;
  mi_unt : forall c, In c (sp_unt x) -> Uc s c;
  mi_remok : forall c, In c (sp_remok x) -> Rc s c;
  mi_dm : sp_prev_dm x = dmobs s; mi_inf : sp_prev_inf x = infobs s; mi_q : sp_prev_q x = quiescent s;
  mi_heal : forall d0, sp_heal x = Some d0 -> heal_ctx s x d0 }.

Lemma in_remove_c c c' l : In c (remove_c c' l) <-> In c l /\ c <> c'.
Proof. unfold remove_c. rewrite filter_In, negb_true_iff, N.eqb_neq. tauto. Qed.

Lemma sp_event_unt x e o c : In c (sp_unt (sp_event x e o)) ->
  (exists c', e = EUntrack c' /\ c' = c) \/ (In c (sp_unt x) /\ ~ resets e c).
Proof. destruct e as [p|c0|c0|ord|c0 f|c0 m]; cbn [sp_event sp_unt resets]; intros H.
  - apply in_remove_c in H. right. split; [tauto|]. intros E. apply H. auto.
  - destruct H as [<-|H]; [left; eauto|]. apply in_remove_c in H. right. split; [tauto|]. intros E. apply H. auto.
  - right. tauto. - right. tauto. - right. tauto.
  - apply in_remove_c in H. right. split; [tauto|]. intros E. apply H. auto. Qed.

Lemma sp_event_hist x e o : sp_hist (sp_event x e o) = match e with ETrack p => p :: sp_hist x | _ => sp_hist x end.
Proof. destruct e; reflexivity. Qed.

Section OneStep.
Variables (n : N) (fs : list N) (s : st) (x : sp) (e : event).
Hypothesis M : MI s x.
Let s' := fst (step s e).
Let r := snd (step s e).
Let o := model_obs n s' r fs.
Let x' := sp_event x e o.

Lemma os_inv : Inv s'. Proof. apply step_inv, M. Qed.
Lemma os_linv : LInv false s'. Proof. apply step_linv; [apply M | apply M | discriminate]. Qed.
Lemma os_q : o_quiescent o = quiescent s'.
Proof. apply quiescence_agrees; [apply os_inv | apply step_dispatched|]. unfold s'. rewrite step_npin. apply M. Qed.

Lemma os_fields : sp_pinset x' = pinset s' /\ sp_last x' = last s'.
Proof. destruct (step_fields s e (mi_inv _ _ M)) as [A B]. fold s' in A, B. rewrite A, B, <- (mi_pinset _ _ M), <- (mi_last _ _ M).
  unfold x'. destruct e; cbn [sp_event sp_pinset sp_last]; auto. Qed.

Lemma os_hist_sub p : In p (sp_hist x) -> In p (sp_hist x').
Proof. unfold x'. rewrite sp_event_hist. destruct e; auto. intros H. now right. Qed.

Lemma os_hist_p c p : aget c (pinset s') = Some p -> In p (sp_hist x').
Proof. destruct (step_fields s e (mi_inv _ _ M)) as [A _]. fold s' in A. rewrite A. unfold x'. rewrite sp_event_hist.
  destruct e as [p0|c0|c0|ord|c0 f|c0 m]; try apply (mi_hist_p _ _ M).
  - destruct (N.eq_dec c (pcid p0)) as [->|Hn].
    + rewrite aget_aput_same. intros H. injection H as <-. now left.
    + rewrite aget_aput_other by auto. intros H. right. now apply (mi_hist_p _ _ M c).
  - destruct (N.eq_dec c c0) as [->|Hn]; [rewrite aget_adel_same; discriminate|]. rewrite aget_adel_other by auto. apply (mi_hist_p _ _ M). Qed.

Lemma os_hist_t c o' : aget c (table s') = Some o' -> otyp o' = OPin -> In (opin o') (sp_hist x') /\ pcid (opin o') = c.
Proof. intros H T.
  assert (F : from s (fun p => In p (sp_hist x')) c o').
  { apply (step_from s e); auto; [apply M| |].
    - intros c0 p Hp. split; [apply (li_keyed _ _ (mi_linv _ _ M) c0 p Hp)|]. apply os_hist_sub. apply (mi_hist_p _ _ M c0 p Hp).
    - intros p ->. unfold x'. rewrite sp_event_hist. now left. }
  destruct F as [(o0 & Ho0 & T0 & Q0)|[F|F]]; [|exact F|congruence].
  rewrite Q0. destruct (mi_hist_t _ _ M c o0 Ho0) as [A B]; [congruence|]. split; auto. now apply os_hist_sub. Qed.

Lemma os_unt c : In c (sp_unt x') -> Uc s' c.
Proof. intros H. apply sp_event_unt in H. destruct H as [(c' & -> & ->)|[H Hr]].
  - apply Uc_untrack, M.
  - apply Uc_step; [apply M | apply M | apply (mi_unt _ _ M c H) | exact Hr]. Qed.

Lemma os_remok c : In c (sp_remok x') -> Rc s' c.
Proof. unfold x'. intros H.
  assert (Hold : In c (sp_remok x) -> ~ resets e c -> Rc s' c) by (intros A B; apply Rc_step; [apply M | apply M | apply (mi_remok _ _ M c A) | exact B]).
  destruct e as [p|c0|c0|ord|c0 f|c0 m]; cbn [sp_event sp_remok resets] in *.
  - apply in_remove_c in H. apply Hold; [tauto|]. intros E. apply H. auto.
  - apply in_remove_c in H. apply Hold; [tauto|]. intros E. apply H. auto.
  - apply Hold; auto. - apply Hold; auto.
  - destruct (aget c0 (sp_last x)) as [[p|]|] eqn:Hl; try (apply Hold; auto; fail).
    destruct (premote p && negb f && existsb (fun q => let '(c', k, _, _) := q in N.eqb c' c0 && N.eqb k 1) (sp_prev_inf x)) eqn:Cnd; [|apply Hold; auto].
    destruct H as [<-|H]; [|apply in_remove_c in H; apply Hold; tauto].
    rewrite !andb_true_iff in Cnd. destruct Cnd as [[C1 C2] C3]. apply negb_true_iff in C2. subst f.
    apply existsb_exists in C3. destruct C3 as [[[[c' k] d] t] [Hin Hk]]. apply andb_true_iff in Hk. destruct Hk as [K1 K2].
    apply N.eqb_eq in K1, K2. subst c' k. rewrite (mi_inf _ _ M) in Hin. rewrite (mi_last _ _ M) in Hl.
    apply (Rc_new s c0 p d t); auto; apply M.
  - apply in_remove_c in H. apply Hold; [tauto|]. intros E. apply H. auto. Qed.

Lemma os_heal d0 : sp_heal x' = Some d0 -> heal_ctx s' x' d0.
Proof. unfold x'. destruct (step_fields s e (mi_inv _ _ M)) as [Hps _]. fold s' in Hps.
  destruct e as [p|c0|c0|ord|c0 f|c0 m]; cbn [sp_event sp_heal]; try discriminate.
  - destruct (sp_prev_q x && N.eqb (o_ret o) 0) eqn:C; [|discriminate]. intros H. injection H as <-.
    apply andb_true_iff in C. destruct C as [C1 C2]. rewrite (mi_q _ _ M) in C1.
    assert (Hr : r = ROk). { unfold o, model_obs, o_ret in C2. destruct r; [reflexivity|discriminate]. }
    exists s, ord, s', []. split; [apply M|]. split; [apply M|]. split; [exact C1|].
    split; [unfold s', r in *; rewrite <- Hr; apply surjective_pairing|]. split; [constructor|]. split; [reflexivity|].
    split; [apply mi_dm, M|]. split; [symmetry; exact Hps|].
    intros c Hc. cbn [sp_unt] in Hc. now apply (mi_unt _ _ M).
  - destruct f; [discriminate|]. intros H. destruct (mi_heal _ _ M d0 H) as (s0 & ord & s1 & evs & A1 & A2 & A3 & A4 & A5 & A6 & A7 & A8 & A9).
    exists s0, ord, s1, (evs ++ [EComplete c0 false]). split; [exact A1|]. split; [exact A2|]. split; [exact A3|]. split; [exact A4|].
    split; [apply Forall_app; split; auto; constructor; [exists c0; reflexivity|constructor]|].
    split; [unfold s'; rewrite A6; symmetry; apply run_snoc|]. split; [exact A7|]. split; [rewrite A8; symmetry; exact Hps|exact A9]. Qed.

Theorem MI_step : MI s' x'.
Proof. constructor.
  - apply os_inv. - apply os_linv. - unfold s'. rewrite step_npin. apply M. - apply step_dispatched.
  - apply os_fields. - apply os_fields. - apply os_hist_p. - apply os_hist_t. - apply os_unt. - apply os_remok.
  - unfold x'. destruct e; reflexivity.
  - unfold x'. destruct e; reflexivity.
  - unfold x'. transitivity (o_quiescent o); [destruct e; reflexivity | apply os_q].
  - apply os_heal. Qed.
End OneStep.

(* ---------- the four codes on the model's own observation ---------- *)
Lemma o_st_model n s r fs c : In c (nrange n) -> o_st (model_obs n s r fs) c = st_bits (status_of s c).
Proof. intros H. unfold o_st, model_obs, o_status. now apply (nth_nrange (fun c => st_bits (status_of s c))). Qed.
Lemma o_dm_model n s r fs c : o_dm (model_obs n s r fs) c = match aget c (ipfs s) with Some d => Some (mode_code d) | None => None end.
Proof. unfold o_dm, model_obs, o_daemon. apply aget_map_snd. Qed.
Lemma err_bits_status x : err_bits (st_bits x) = is_error x.
Proof. destruct x; reflexivity. Qed.

Lemma code14_ok n s x r fs : MI s x -> opts_ok x (model_obs n s r fs) = true.
Proof. intros M. unfold opts_ok, model_obs, o_inflight. apply forallb_forall. intros q Hq. apply in_map_iff in Hq. destruct Hq as [cl [<- Hcl]].
  destruct (inv_calls _ (mi_inv _ _ M) _ Hcl) as (o0 & Ho & _ & _ & Hty). unfold call_obs. destruct (ckd cl); cbn [kind_type] in Hty; [|reflexivity..].
  rewrite Ho. cbn. destruct (mi_hist_t _ _ M _ _ Ho Hty) as [A B]. apply existsb_exists. exists (opin o0). split; auto.
  now rewrite B, !N.eqb_refl. Qed.

Lemma code10_ok n s x r fs : MI s x -> quiescent s = true -> conv_ok n x (model_obs n s r fs) = true.
Proof. intros M Q. pose proof (mi_inv _ _ M) as I. pose proof (mi_linv _ _ M) as L.
  unfold conv_ok. apply forallb_forall. intros c Hc. rewrite (o_st_model n s r fs c Hc), o_dm_model, err_bits_status.
  apply andb_true_iff. split; [apply andb_true_iff; split|].
  - rewrite (mi_pinset _ _ M). destruct (aget c (pinset s)) as [p|] eqn:Hp; auto. destruct (C05_Check.local_pin p) eqn:Hloc; auto.
    destruct (converged false s I L Q c) as [Cv _]. destruct (Cv p Hp Hloc) as [H|H]; [|rewrite H; apply orb_true_r].
    apply ipfs_has_eq in H. rewrite H. cbn. now rewrite N.eqb_refl.
  - destruct (memN c (sp_unt x)) eqn:Mu; auto. apply memN_in in Mu. destruct (mi_unt _ _ M c Mu) as [A B].
    destruct (aget c (table s)) as [o0|] eqn:Ho; [|rewrite (B eq_refl); reflexivity].
    destruct (lab_untrack s c L A) as [_ Hu]. unfold status_of. rewrite Ho. unfold op_status. rewrite (Hu o0 Ho), (quiescent_errors s I Q c o0 Ho). apply orb_true_r.
  - destruct (memN c (sp_remok x)) eqn:Mr; auto. apply memN_in in Mr. destruct (mi_remok _ _ M c Mr) as (_ & B & _). now rewrite B. Qed.

(* tracker_recover_heals for an untracked cid, with the per-cid fact in the place of "no daemon interference at all" *)
Lemma recover_heals_u s ord s1 evs c : Inv s -> LInv false s -> quiescent s = true ->
  step s (ERecoverAll ord) = (s1, ROk) -> Forall ok_complete evs -> quiescent (run s1 evs) = true ->
  Uc s c -> aget c (ipfs (run s1 evs)) = None.
Proof. intros I L Q Hs Hf Q2 [Hl Hu]. apply recover_all_parts in Hs as [-> Hr]. symmetry in Hr.
  pose proof (status_all0_nodup s (inv_nodup _ I) (li_pnodup _ _ L)) as Nd.
  assert (Xall : forall c' x, In (c', x) (order_by ord (status_all s 0)) -> x_ok s c' x).
  { intros c' x Hin. apply order_by_in in Hin; auto. apply entry_xok. apply status_all0_in; auto. apply I. apply L. }
  assert (Hentry : forall x, entry_of s c = Some x -> In (c, x) (order_by ord (status_all s 0))).
  { intros x Hx. apply order_by_in; auto. apply status_all0_in; auto. apply I. apply L. }
  pose proof (recover_list_inv (order_by ord (status_all s 0)) s I) as I1. fold (recover_all s ord) in I1.
  destruct (lab_untrack s c L Hl) as [Lp Lt]. pose proof (quiescent_errors s I Q c) as Qe.
  apply (goodu_quiescent c); auto; [now apply run_inv, dispatch_inv|].
  apply goodu_run; auto; [now apply dispatch_inv|].
  apply (goodu_frame c (fst (recover_all s ord))); auto using dispatch_frame, dispatch_pinset; [now rewrite dispatch_ipfs|].
  unfold recover_all in *. apply (recover_list_goodu c false); auto; [now apply order_by_nodup|].
  unfold goodu, needsu, entry_of in *. destruct (aget c (table s)) as [o0|] eqn:Ho.
  - right. exists SUnpinError. split; [|repeat split; auto; now rewrite (Qe o0 eq_refl)].
    apply Hentry. f_equal. unfold op_status. now rewrite (Qe o0 eq_refl), (Lt o0 eq_refl).
  - left. split; auto. Qed.

Lemma code13_ok n s x r fs d0 : MI s x -> quiescent s = true -> sp_heal x = Some d0 -> heal_ok n x d0 (model_obs n s r fs) = true.
Proof. intros M Q Hh. destruct (mi_heal _ _ M d0 Hh) as (s0 & ord & s1 & evs & I0 & L0 & Q0 & St & Fo & -> & -> & Hps & Hun).
  unfold heal_ok. apply forallb_forall. intros c Hc. rewrite o_dm_model. apply andb_true_iff. split.
  - rewrite (mi_pinset _ _ M), <- Hps. destruct (aget c (pinset s0)) as [p|] eqn:Hp; auto.
    destruct (C05_Check.local_pin p && negb (pdirect p && optN_eqb (aget c (dmobs s0)) (Some 1))) eqn:Cnd; auto.
    apply andb_true_iff in Cnd. destruct Cnd as [Hloc Hnr]. apply negb_true_iff in Hnr.
    destruct (recover_heals false s0 ord s1 evs I0 L0 Q0 St Fo Q c) as [H _].
    assert (Hnot : ~ (pdirect p = true /\ aget c (ipfs s0) = Some false)).
    { intros [A B]. rewrite A in Hnr. unfold dmobs in Hnr. rewrite aget_map_snd, B in Hnr. discriminate. }
    specialize (H p Hp Hloc Hnot). apply ipfs_has_eq in H. rewrite H. cbn. now rewrite N.eqb_refl.
  - destruct (memN c (sp_unt x)) eqn:Mu; auto. apply memN_in in Mu.
    rewrite (recover_heals_u s0 ord s1 evs c I0 L0 Q0 St Fo Q (Hun c Mu)). reflexivity. Qed.

(* ---------- code 11 ---------- *)
Definition ev_bounded (n : N) (e : event) : Prop :=
  match e with ETrack p => In (pcid p) (nrange n) | EUntrack c => In c (nrange n) | ERecover c => In c (nrange n) | _ => True end.

Lemma step_snd s e : snd (step s e) = snd (step_raw s e).
Proof. unfold step. destruct (step_raw s e). reflexivity. Qed.
Lemma step_fst s e : fst (step s e) = dispatch (fst (step_raw s e)).
Proof. unfold step. destruct (step_raw s e). reflexivity. Qed.

Lemma dispatch_entry s c o : Inv s -> aget c (table s) = Some o ->
  exists o', aget c (table (dispatch s)) = Some o' /\ otyp o' = otyp o /\ (oph o' = oph o \/ (oph o = PQueued /\ oph o' = PInProgress)).
Proof. intros I Ho. pose proof (dispatch_frame s c I) as F. unfold opframe in F. rewrite Ho in F.
  destruct (aget c (table (dispatch s))) as [o'|]; [|contradiction]. exists o'. destruct F as (_ & A & _ & B). auto. Qed.

Lemma track_remote_op s p : Inv s -> pmeta p = false -> premote p = true ->
  snd (step s (ETrack p)) = ROk /\
  exists o, aget (pcid p) (table (fst (step s (ETrack p)))) = Some o /\ otyp o = ORemote /\ oph o = PInProgress.
Proof. intros I Hm Hr. rewrite step_snd, step_fst. cbn [step_raw]. unfold track. rewrite Hm, Hr.
  set (s0 := set_last _ _). assert (I0 : Inv s0) by (apply (inv_ext s); auto).
  pose proof (track_inv s p I) as It. unfold track in It. rewrite Hm, Hr in It. fold s0 in It.
  destruct (track_new s0 p ORemote PInProgress) as [[s1 i]|] eqn:Htn; cbn [fst snd] in *; (split; [reflexivity|]).
  - destruct (track_new_some _ _ _ _ _ _ Htn) as (_ & _ & Ht & _).
    set (s2 := set_calls s1 _) in *. assert (H2 : aget (pcid p) (table s2) = Some (mk_op (next s0) ORemote PInProgress p)) by (cbn; rewrite Ht; apply aget_aput_same).
    destruct (dispatch_effect s2) as (sp1 & su1 & D1). assert (H3 : exists o, aget (pcid p) (table (dispatch s2)) = Some o /\ otyp o = ORemote /\ oph o = PInProgress).
    { rewrite (de_table _ _ _ _ D1), aget_mark, H2. cbn. eexists. split; [reflexivity|]. rewrite mark1_otyp, mark1_phase. cbn. split; auto. destruct (marked _ _ _); reflexivity. }
    destruct H3 as (o & Ho & T & P). destruct (dispatch_entry _ _ _ It Ho) as (o' & Ho' & T' & P'). exists o'. split; auto. split; [congruence|].
    destruct P' as [P'|[P' _]]; congruence.
  - destruct (track_new_none _ _ _ _ Htn) as (o0 & Ho0 & T0 & L0).
    assert (P0 : oph o0 = PInProgress).
    { pose proof (inv_phase _ I0 _ _ Ho0) as Ph. unfold phase_ok in Ph. destruct (oph o0); try discriminate; auto.
      destruct Ph as [[X _]|[X _]]; congruence. }
    destruct (dispatch_entry _ _ _ I0 Ho0) as (o' & Ho' & T' & P'). exists o'. split; auto. split; [congruence|].
    destruct P' as [P'|[P' _]]; congruence. Qed.

Lemma recover_full s c : Inv s -> LInv false s -> snd (step s (ERecover c)) = RFull ->
  is_error (status_of (fst (step s (ERecover c))) c) = true.
Proof. intros I L. rewrite step_snd, step_fst. cbn [step_raw]. unfold recover. intros Hr.
  pose proof (recover_with_inv s c (status_of s c) I) as I1.
  assert (H : exists o, aget c (table (fst (recover_with s c (status_of s c)))) = Some o /\ oph o = PError /\ otyp o <> ORemote).
  { unfold recover_with in *. destruct (status_of s c); try discriminate.
    - destruct (aget c (pinset s)) as [p|] eqn:Hp; [|discriminate]. destruct (enqueue_result s p OPin I) as (o & Ho & T & R); [discriminate|].
      rewrite Hr in R. rewrite (li_keyed _ _ L c p Hp) in Ho. exists o. split; auto. split; [apply R|congruence].
    - destruct (enqueue_result s (pincid c) OUnpin I) as (o & Ho & T & R); [discriminate|]. rewrite Hr in R. exists o. split; auto. split; [apply R|congruence].
    - destruct (aget c (pinset s)) as [p|] eqn:Hp; [|discriminate]. destruct (enqueue_result s p OPin I) as (o & Ho & T & R); [discriminate|].
      rewrite Hr in R. rewrite (li_keyed _ _ L c p Hp) in Ho. exists o. split; auto. split; [apply R|congruence]. }
  destruct H as (o & Ho & P & T). destruct (dispatch_entry _ _ _ I1 Ho) as (o' & Ho' & T' & P').
  rewrite (status_of_op _ _ _ Ho'). unfold op_status. destruct P' as [P'|[P' _]]; [|congruence]. rewrite P', P, T'. destruct (otyp o); try reflexivity. congruence. Qed.

Lemma code11_ok n fs s e : Inv s -> LInv false s -> ev_bounded n e ->
  inst_ok e (model_obs n (fst (step s e)) (snd (step s e)) fs) = true.
Proof. intros I L Hb. pose proof (step_inv s e I) as I'. unfold inst_ok.
  assert (Hret : o_ret (model_obs n (fst (step s e)) (snd (step s e)) fs) = ret_code (snd (step s e))) by reflexivity.
  destruct e as [p|c|c|ord|c f|c m]; cbn [ev_bounded] in Hb.
  - destruct (pmeta p) eqn:Hm.
    + rewrite Hret, step_snd. cbn [step_raw]. unfold track. now rewrite Hm.
    + rewrite (o_st_model _ _ _ _ _ Hb). destruct (premote p) eqn:Hr.
      * destruct (track_remote_op s p I Hm Hr) as [R (o & Ho & T & P)]. rewrite Hret, R. cbn [ret_code N.eqb andb].
        unfold status_of. rewrite Ho. unfold op_status. rewrite T. cbn [st_bits N.eqb Pos.eqb andb].
        pose proof (inv_phase _ I' _ _ Ho) as Ph. unfold phase_ok in Ph. rewrite P in Ph. destruct Ph as (cl & Hcl & Hid & Hc).
        destruct (inv_calls _ I' _ Hcl) as (o2 & Ho2 & _ & _ & Hty). rewrite Hc, Ho in Ho2. injection Ho2 as <-. rewrite T in Hty.
        apply existsb_exists. exists (call_obs (fst (step s (ETrack p))) cl). split; [unfold model_obs, o_inflight; now apply in_map|].
        unfold call_obs. destruct (ckd cl); cbn in Hty; try discriminate. now rewrite Hc, !N.eqb_refl.
      * destruct (instr_reported s (ETrack p) (pcid p) OPin I) as (o & Ho & T & R); [auto|]. rewrite Hret.
        unfold status_of. rewrite Ho. unfold op_status. rewrite T. destruct (snd (step s (ETrack p))); cbn [ret_code N.eqb Pos.eqb].
        -- destruct (oph o); try discriminate; reflexivity.
        -- now rewrite R.
  - rewrite (o_st_model _ _ _ _ _ Hb). destruct (instr_reported s (EUntrack c) c OUnpin I) as (o & Ho & T & R); [auto|]. rewrite Hret.
    unfold status_of. rewrite Ho. unfold op_status. rewrite T. destruct (snd (step s (EUntrack c))); cbn [ret_code N.eqb Pos.eqb].
    + destruct (oph o); try discriminate; reflexivity.
    + now rewrite R.
  - rewrite Hret. destruct (snd (step s (ERecover c))) eqn:R; cbn [ret_code N.eqb Pos.eqb]; [reflexivity|].
    rewrite (o_st_model _ _ _ _ _ Hb), err_bits_status. now apply recover_full.
  - rewrite Hret. destruct (snd (step s (ERecoverAll ord))); reflexivity.
  - rewrite Hret, step_snd. reflexivity.
  - rewrite Hret, step_snd. reflexivity. Qed.

(* ---------- the whole script ---------- *)
Lemma mtrace_pass n fs evs : forall s x, MI s x -> Forall (ev_bounded n) evs -> spec_walk n x (mtrace n fs s evs) = [].
Proof. induction evs as [|e r IH]; intros s x M Hb; [reflexivity|]. inversion Hb as [|? ? Hbe Hbr]; subst.
  cbn [mtrace]. rewrite spec_walk_cons.
  set (s' := fst (step s e)). set (o := model_obs n s' (snd (step s e)) fs). set (x' := sp_event x e o).
  pose proof (MI_step n fs s x e M) as M'. fold s' o x' in M'.
  pose proof (os_q n fs s x e M) as Hq. fold s' o in Hq.
  rewrite (IH s' x' M' Hbr), app_nil_r. unfold codes_at. cbv zeta. fold x'.
  pose proof (code11_ok n fs s e (mi_inv _ _ M) (mi_linv _ _ M) Hbe) as H11. fold s' in H11. fold o in H11.
  pose proof (code14_ok n s' x' (snd (step s e)) fs M') as H14. fold o in H14.
  rewrite H11, H14. cbn [app]. rewrite Hq.
  destruct (quiescent s') eqn:Q; cbn [andb].
  - pose proof (code10_ok n s' x' (snd (step s e)) fs M' Q) as H10. fold o in H10. rewrite H10. cbn [negb app].
    destruct (sp_heal x') as [d0|] eqn:Hh; [|reflexivity].
    pose proof (code13_ok n s' x' (snd (step s e)) fs d0 M' Q Hh) as H13. fold o in H13. now rewrite H13.
  - destruct (sp_heal x'); reflexivity. Qed.

Definition dm_of (i : list (N * bool)) : list (N * N) := map (fun e => (fst e, mode_code (snd e))) i.

Lemma init_of_dm q np n pins i : init_of (q, np, n, pins, dm_of i) = init q np (map (fun p => (pcid p, p)) pins) i.
Proof. cbn [init_of]. f_equal. unfold dm_of. rewrite map_map. cbn [fst snd]. rewrite <- (map_id i) at 2. apply map_ext.
  intros [c d]. cbn. destruct d; reflexivity. Qed.

Lemma wf_pins pins : NoDup (map pcid pins) -> wf_pinset (map (fun p => (pcid p, p)) pins).
Proof. intros H. split.
  - unfold akeys. rewrite map_map. exact H.
  - intros c p Hp. apply aget_some_in in Hp. apply in_map_iff in Hp. destruct Hp as [p' [E _]]. injection E as <- <-. reflexivity. Qed.

Lemma MI_init q np n pins i : (0 < np)%nat -> NoDup (map pcid pins) ->
  MI (init q np (map (fun p => (pcid p, p)) pins) i) (sp_init (q, np, n, pins, dm_of i)).
Proof. intros Hnp Hnd. constructor; cbn [sp_init sp_pinset sp_last sp_hist sp_unt sp_remok sp_prev_dm sp_prev_inf sp_prev_q sp_heal].
  - apply init_inv. - apply init_linv. now apply wf_pins. - exact Hnp. - apply init_dispatched.
  - reflexivity. - reflexivity.
  - intros c p Hp. apply aget_some_in in Hp. apply in_map_iff in Hp. destruct Hp as [p' [E Hin]]. injection E as _ <-. exact Hin.
  - intros c o H. discriminate.
  - intros c []. - intros c [].
  - reflexivity. - reflexivity. - reflexivity.
  - discriminate. Qed.

Theorem tracker_model_passes_monitor_l q np n pins i fs evs :
  (0 < np)%nat -> NoDup (map pcid pins) -> Forall (ev_bounded n) evs ->
  let cf := (q, np, n, pins, dm_of i) in spec_codes cf (mtrace n fs (init_of cf) evs) = [].
Proof. intros Hnp Hnd Hb. cbv zeta. unfold spec_codes. cbn [ncid_of]. rewrite init_of_dm.
  rewrite (mtrace_pass n fs evs _ _ (MI_init q np n pins i Hnp Hnd) Hb). reflexivity. Qed.

(* without a worker (ConcurrentPins = 0, which the configuration rejects) and with a cid the observation does not list,
   the two notions of quiescence part: the operation stays queued, nothing is in flight, no listed status is pending *)
Lemma quiescence_needs_worker :
  let s := fst (step (init 1 0 [] []) (ETrack (mk_pin 5 false false false 0))) in
  quiescent s = false /\ o_quiescent (model_obs 1 s ROk []) = true.
Proof. vm_compute. split; reflexivity. Qed.
