(* C14 — lemmas about the backup rotation (Model/C14_Backup.v). *)
From V Require Import Base.Common Model.C14_Backup.
From Coq Require Import Arith.

Section Rot.
Context {F : Type}.
Implicit Types o : nat -> option F.

Lemma prefix_le o keep from : prefix o keep from <= keep.
Proof. revert from; induction keep as [|k IH]; simpl; intros from; [lia|]. destruct (o from); [specialize (IH (S from))|]; lia. Qed.

Lemma prefix_some o keep : forall from i, i < prefix o keep from -> o (from + i) <> None.
Proof.
  induction keep as [|k IH]; simpl; intros from i Hi; [lia|].
  destruct (o from) eqn:E; [|lia].
  destruct i as [|i]; [rewrite Nat.add_0_r; congruence|].
  replace (from + S i) with (S from + i) by lia. apply IH. lia.
Qed.

Lemma prefix_stop o keep : forall from, prefix o keep from < keep -> o (from + prefix o keep from) = None.
Proof.
  induction keep as [|k IH]; simpl; intros from H; [lia|].
  destruct (o from) eqn:E; [|now rewrite Nat.add_0_r].
  replace (from + S (prefix o k (S from))) with (S from + prefix o k (S from)) by lia. apply IH. lia.
Qed.

Lemma prefix_ge o keep : forall from m, m <= keep -> (forall i, i < m -> o (from + i) <> None) -> m <= prefix o keep from.
Proof.
  induction keep as [|k IH]; simpl; intros from m Hm H; [lia|].
  destruct m as [|m]; [lia|].
  destruct (o from) eqn:E.
  - apply le_n_S. apply IH; [lia|]. intros i Hi. replace (S from + i) with (from + S i) by lia. apply H. lia.
  - exfalso. apply (H 0); [lia|]. now rewrite Nat.add_0_r.
Qed.

Lemma shift_spec top : forall o j,
  shift o top j = if j =? 0 then (if top =? 0 then o 0 else None)
                  else if j <=? top then o (j - 1) else o j.
Proof.
  induction top as [|t IH]; intros o j; simpl.
  - destruct (Nat.eqb_spec j 0); subst; auto. destruct (Nat.leb_spec j 0); auto; lia.
  - rewrite IH. unfold upd.
    destruct (Nat.eqb_spec j 0); subst.
    + destruct (Nat.eqb_spec t 0); subst; simpl; auto.
    + destruct (Nat.leb_spec j t).
      * destruct (Nat.leb_spec j (S t)); [|lia].
        destruct (Nat.eqb_spec (j - 1) t); [lia|]. destruct (Nat.eqb_spec (j - 1) (S t)); [lia|]. reflexivity.
      * destruct (Nat.eqb_spec j t); [lia|]. destruct (Nat.eqb_spec j (S t)); subst.
        -- destruct (Nat.leb_spec (S t) (S t)); [|lia]. simpl. now rewrite Nat.sub_0_r.
        -- destruct (Nat.leb_spec j (S t)); [lia|]. reflexivity.
Qed.

Lemma rotate_zero keep f o : rotate keep f o 0 = Some f.
Proof. reflexivity. Qed.

Lemma rotate_shift keep f o i : i < prefix o keep 0 -> S i < keep -> rotate keep f o (S i) = o i.
Proof.
  intros Hi Hs. pose proof (prefix_le o keep 0) as Hn. unfold rotate. set (n := prefix o keep 0) in *.
  unfold upd at 1. destruct (Nat.eqb_spec (S i) 0); [lia|]. rewrite shift_spec.
  destruct (Nat.eqb_spec (S i) 0); [lia|]. replace (S i - 1) with i by lia.
  destruct (Nat.leb_spec keep n).
  - destruct (Nat.leb_spec (S i) (n - 1)); [|lia].
    unfold upd. destruct (Nat.eqb_spec i (n - 1)); [lia|reflexivity].
  - destruct (Nat.leb_spec (S i) n); [|lia]. reflexivity.
Qed.

Lemma rotate_untouched keep f o j : 1 <= keep -> prefix o keep 0 < j \/ keep <= j -> rotate keep f o j = o j.
Proof.
  intros Hk Hj. pose proof (prefix_le o keep 0) as Hn. unfold rotate. set (n := prefix o keep 0) in *.
  unfold upd at 1. destruct (Nat.eqb_spec j 0); [lia|]. rewrite shift_spec.
  destruct (Nat.eqb_spec j 0); [lia|].
  destruct (Nat.leb_spec keep n).
  - destruct (Nat.leb_spec j (n - 1)); [lia|]. unfold upd. destruct (Nat.eqb_spec j (n - 1)); [lia|reflexivity].
  - destruct (Nat.leb_spec j n); [lia|reflexivity].
Qed.

(* the only folder that disappears is the one at keep-1 of a full prefix *)
Lemma rotate_only_oldest_lost keep f o i c : 1 <= keep -> o i = Some c ->
  (exists j, rotate keep f o j = Some c) \/ (i = keep - 1 /\ prefix o keep 0 = keep).
Proof.
  intros Hk Hc. pose proof (prefix_le o keep 0) as Hn.
  destruct (Nat.lt_ge_cases i (prefix o keep 0)) as [Hi|Hi].
  - destruct (Nat.lt_ge_cases (S i) keep) as [Hs|Hs].
    + left. exists (S i). now rewrite rotate_shift.
    + right. lia.
  - destruct (Nat.eq_dec i (prefix o keep 0)) as [E|E].
    + destruct (Nat.lt_ge_cases (prefix o keep 0) keep) as [Hlt|Hge].
      * exfalso. pose proof (prefix_stop o keep 0 Hlt) as Hs. simpl in Hs. rewrite <- E in Hs. congruence.
      * left. exists i. rewrite rotate_untouched; auto. lia.
    + left. exists i. rewrite rotate_untouched; auto. lia.
Qed.

(* nothing appears from nowhere *)
Lemma rotate_nothing_new keep f o j c : 1 <= keep -> rotate keep f o j = Some c -> c = f \/ exists i, o i = Some c.
Proof.
  intros Hk H. pose proof (prefix_le o keep 0) as Hn. unfold rotate in H. set (n := prefix o keep 0) in *.
  unfold upd at 1 in H. destruct (Nat.eqb_spec j 0); [left; congruence|]. rewrite shift_spec in H.
  destruct (Nat.eqb_spec j 0); [lia|]. right.
  destruct (Nat.leb_spec keep n).
  - destruct (Nat.leb_spec j (n - 1)); unfold upd in H.
    + destruct (Nat.eqb_spec (j - 1) (n - 1)); [discriminate|]. eauto.
    + destruct (Nat.eqb_spec j (n - 1)); [discriminate|]. eauto.
  - destruct (Nat.leb_spec j n); eauto.
Qed.
End Rot.

(* ---- CleanupRaft / makeBackup on directories ---- *)
Section Dir.
Context {S : Type}.
Implicit Types d : dir S.

Lemma cleanup_snapshot keep m (s : S) o : cleanup keep (mk_dir (Some (m, Some s)) o) = mk_dir None (rotate keep (m, Some s) o).
Proof. reflexivity. Qed.

Lemma cleanup_no_snapshot keep m o : cleanup keep (@mk_dir S (Some (m, None)) o) = mk_dir None o.
Proof. reflexivity. Qed.

Lemma cleanup_absent keep o : cleanup keep (@mk_dir S None o) = mk_dir None o.
Proof. reflexivity. Qed.

Lemma run_step_olds keep d st :
  olds (run_step keep d st) = match rotated_of st with f :: _ => rotate keep f (olds d) | [] => olds d end.
Proof. destruct st as [[[m [s|]]|] [|]]; reflexivity. Qed.

Lemma run_step_live keep d st : live (run_step keep d st) = None.
Proof. destruct st as [[[m [s|]]|] [|]]; reflexivity. Qed.

Lemma rotated_of_le1 (st : step S) : rotated_of st = [] \/ exists f, rotated_of st = [f].
Proof. destruct st as [[[m [s|]]|] [|]]; simpl; eauto. Qed.

Definition newest_first (d : dir S) (keep : nat) (fs : list (folder S)) :=
  forall i, i < length fs -> i < keep -> olds d i = nth_error (rev fs) i.

Lemma run_step_inv keep d st fs : 1 <= keep -> newest_first d keep fs ->
  newest_first (run_step keep d st) keep (fs ++ rotated_of st).
Proof.
  intros Hk Inv. unfold newest_first. rewrite run_step_olds.
  destruct (rotated_of_le1 st) as [E|[f E]]; rewrite E.
  - rewrite app_nil_r. exact Inv.
  - intros i Hi Hik. rewrite rev_app_distr. simpl. rewrite app_length in Hi. simpl in Hi.
    destruct i as [|i]; [reflexivity|]. simpl.
    rewrite rotate_shift; [apply Inv; lia| |exact Hik].
    apply Nat.lt_le_trans with (m := Nat.min (length fs) keep); [lia|].
    apply prefix_ge; [lia|]. intros k Hkk. simpl. rewrite Inv by lia.
    intros Hnone. apply nth_error_None in Hnone. rewrite rev_length in Hnone. lia.
Qed.

Lemma run_steps_inv keep sts : 1 <= keep -> forall d fs, newest_first d keep fs ->
  newest_first (run_steps keep d sts) keep (fs ++ flat_map rotated_of sts).
Proof.
  intros Hk. induction sts as [|st r IH]; intros d fs Inv; simpl.
  - now rewrite app_nil_r.
  - rewrite app_assoc. apply IH. now apply run_step_inv.
Qed.

Lemma run_steps_newest_first keep d sts i : 1 <= keep ->
  i < length (flat_map rotated_of sts) -> i < keep ->
  olds (run_steps keep d sts) i = nth_error (rev (flat_map rotated_of sts)) i.
Proof.
  intros Hk Hi Hik. apply (run_steps_inv keep sts Hk d []); auto.
  intros j Hj. simpl in Hj. lia.
Qed.

Lemma run_step_beyond keep d st j : 1 <= keep -> keep <= j -> olds (run_step keep d st) j = olds d j.
Proof.
  intros Hk Hj. rewrite run_step_olds. destruct (rotated_of st); auto. apply rotate_untouched; auto.
Qed.

Lemma run_steps_beyond keep sts : 1 <= keep -> forall d j, keep <= j -> olds (run_steps keep d sts) j = olds d j.
Proof.
  intros Hk. induction sts as [|st r IH]; intros d j Hj; simpl; auto.
  change (olds (run_steps keep (run_step keep d st) r) j = olds d j).
  rewrite IH by auto. now apply run_step_beyond.
Qed.

Lemma run_steps_live keep sts d : sts <> [] -> live (run_steps keep d sts) = None.
Proof.
  intros Hne. destruct (exists_last Hne) as [r [st ->]]. unfold run_steps. rewrite fold_left_app. simpl. apply run_step_live.
Qed.

(* SnapshotSave then LastStateRaw *)
Lemma last_state_after_save keep (payload : S) d : last_state_raw (snapshot_save keep payload d) = Some payload.
Proof. destruct d as [[[m [s|]]|] o]; reflexivity. Qed.

Lemma snapshot_save_keeps_previous keep (payload : S) m (s : S) o : 1 <= keep ->
  olds (snapshot_save keep payload (mk_dir (Some (m, Some s)) o)) 0 = Some (m, Some s).
Proof. reflexivity. Qed.

Lemma snapshot_save_no_previous keep (payload : S) (d : dir S) : last_state_raw d = None ->
  olds (snapshot_save keep payload d) = olds d.
Proof. destruct d as [[[m [s|]]|] o]; simpl; intros H; try discriminate; reflexivity. Qed.
End Dir.

(* ---- soundness of the boolean form used on the implementation's listings ---- *)
From V Require Import Model.C14_Check.

Lemma optN_eqb_eq a b : optN_eqb a b = true -> a = b.
Proof. destruct a, b; simpl; try discriminate; auto. intros H. apply N.eqb_eq in H. now subst. Qed.

Lemma fold_eqb_eq a b : fold_eqb a b = true -> a = b.
Proof.
  destruct a as [m s], b as [m' s']. unfold fold_eqb. simpl. rewrite andb_true_iff. intros [H1 H2].
  apply N.eqb_eq in H1. apply optN_eqb_eq in H2. now subst.
Qed.

Lemma ofold_eqb_eq a b : ofold_eqb a b = true -> a = b.
Proof. destruct a, b; simpl; try discriminate; auto. intros H. apply fold_eqb_eq in H. now subst. Qed.

Lemma bk_step_okb_sound keep before st after f :
  bk_step_okb keep before st after = true -> rotated_of st = [f] ->
  let o := to_olds before in let o' := to_olds after in let n := prefix o keep 0 in
  hd None after = None /\ o' 0%nat = Some f /\
  (forall i, (i < window before)%nat -> (i < n)%nat -> (S i < keep)%nat -> o' (S i) = o i) /\
  (forall j, (j < window before)%nat -> (n < j)%nat \/ (keep <= j)%nat -> o' j = o j).
Proof.
  unfold bk_step_okb. intros H E. rewrite E in H.
  repeat rewrite andb_true_iff in H. destruct H as [[[[_ H1] H2] H3] H4].
  apply ofold_eqb_eq in H1. apply ofold_eqb_eq in H2.
  rewrite forallb_forall in H3, H4.
  repeat split; auto.
  - intros i Hw Hi Hs. specialize (H3 i). rewrite in_seq in H3. specialize (H3 ltac:(lia)).
    destruct (Nat.ltb_spec i (prefix (to_olds before) keep 0)); [|lia].
    destruct (Nat.ltb_spec (S i) keep); [|lia]. simpl in H3. now apply ofold_eqb_eq.
  - intros j Hw Hj. specialize (H4 j). rewrite in_seq in H4. specialize (H4 ltac:(lia)).
    destruct (Nat.ltb_spec (prefix (to_olds before) keep 0) j); simpl in H4; [now apply ofold_eqb_eq|].
    destruct (Nat.leb_spec keep j); [now apply ofold_eqb_eq|lia].
Qed.
