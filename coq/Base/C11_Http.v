(* Shared by C11 (REST API) and C12 (IPFS proxy): byte strings, '/'-separated segments,
   url.Values as an association list, gorilla/mux path templates over segments. Definitions only. *)
From Coq Require Export String Ascii.
From V Require Import Base.Common.
Open Scope string_scope.

(* a string given by its bytes (the harness prints non-printable strings this way) *)
Fixpoint bs (l : list N) : string :=
  match l with [] => EmptyString | x :: r => String (ascii_of_N x) (bs r) end.

Definition slash : ascii := "/"%char.

(* "/a/b" -> [""; "a"; "b"];  "" -> [""];  "/a/" -> [""; "a"; ""] *)
Fixpoint split_on (c : ascii) (acc : string -> string) (s : string) : list string :=
  match s with
  | EmptyString => [acc EmptyString]
  | String a r => if Ascii.eqb a c then acc EmptyString :: split_on c (fun x => x) r
                  else split_on c (fun x => acc (String a x)) r
  end.
Definition segments (p : string) : list string := split_on slash (fun x => x) p.

Fixpoint has_char (c : ascii) (s : string) : bool :=
  match s with EmptyString => false | String a r => Ascii.eqb a c || has_char c r end.

Definition str_in (x : string) (l : list string) : bool := existsb (String.eqb x) l.

(* url.Values: key -> values in order of appearance *)
Definition qvals := list (string * list string).
Fixpoint qall (k : string) (q : qvals) : list string :=
  match q with [] => [] | (k', vs) :: r => if String.eqb k k' then vs else qall k r end.
Definition qget (k : string) (q : qvals) : string := match qall k q with v :: _ => v | [] => "" end.
Fixpoint qdel (k : string) (q : qvals) : qvals :=
  match q with [] => [] | (k', vs) :: r => if String.eqb k k' then qdel k r else (k', vs) :: qdel k r end.
Definition qset (k v : string) (q : qvals) : qvals := (k, [v]) :: qdel k q.
Definition qhas (k : string) (q : qvals) : bool := match qall k q with [] => false | _ => true end.

(* finite maps string -> A given as association lists (outcomes of abstract parsers) *)
Fixpoint sget {A} (k : string) (m : list (string * A)) : option A :=
  match m with [] => None | (k', v) :: r => if String.eqb k k' then Some v else sget k r end.

(* gorilla/mux path templates, segment-wise. A template segment is a literal, a variable matching one
   non-empty segment ({x}), a variable restricted to alternatives ({x:a|b|c}) or a tail variable ({x:.*})
   that swallows the remaining segments (joined with '/'). *)
Inductive tseg := TLit (s : string) | TVar (name : string) | TAlt (name : string) (alts : list string) | TRest (name : string).

Fixpoint join_slash (l : list string) : string :=
  match l with [] => "" | [x] => x | x :: r => x ++ "/" ++ join_slash r end.

Fixpoint match_segs (t : list tseg) (p : list string) : option (list (string * string)) :=
  match t, p with
  | [], [] => Some []
  | [TRest n], _ :: _ => Some [(n, join_slash p)]
  | TLit s :: t', x :: p' => if String.eqb s x then match_segs t' p' else None
  | TVar n :: t', x :: p' =>
      if String.eqb x "" then None else
      match match_segs t' p' with Some vs => Some ((n, x) :: vs) | None => None end
  | TAlt n alts :: t', x :: p' =>
      if str_in x alts then match match_segs t' p' with Some vs => Some ((n, x) :: vs) | None => None end else None
  | _, _ => None
  end.

(* parse one template segment: "{x}" | "{x:a|b}" | "{x:.*}" | literal *)
Fixpoint drop_last (s : string) : string :=
  match s with EmptyString => EmptyString | String a EmptyString => EmptyString | String a r => String a (drop_last r) end.
Fixpoint last_is (c : ascii) (s : string) : bool :=
  match s with EmptyString => false | String a EmptyString => Ascii.eqb a c | String _ r => last_is c r end.
Definition parse_tseg (s : string) : tseg :=
  match s with
  | String "{"%char r =>
      if last_is "}"%char r then
        let inner := drop_last r in
        match split_on ":"%char (fun x => x) inner with
        | [n] => TVar n
        | [n; pat] => if String.eqb pat ".*" then TRest n else TAlt n (split_on "|"%char (fun x => x) pat)
        | _ => TLit s
        end
      else TLit s
  | _ => TLit s
  end.
Definition parse_template (tpl : string) : list tseg := map parse_tseg (segments tpl).

Definition tseg_eqb (a b : tseg) : bool :=
  match a, b with
  | TLit x, TLit y => String.eqb x y
  | TVar x, TVar y => String.eqb x y
  | TAlt x l, TAlt y m => String.eqb x y && list_eqb String.eqb l m
  | TRest x, TRest y => String.eqb x y
  | _, _ => false
  end.

Definition opt_eqb {A} (eqb : A -> A -> bool) (a b : option A) : bool :=
  match a, b with Some x, Some y => eqb x y | None, None => true | _, _ => false end.
Definition pair_eqb {A B} (ea : A -> A -> bool) (eb : B -> B -> bool) (a b : A * B) : bool :=
  ea (fst a) (fst b) && eb (snd a) (snd b).
