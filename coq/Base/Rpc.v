(* RPC endpoint types (rpc_api.go: RPCClosed / RPCTrusted / RPCOpen) *)
Inductive ept := Closed | Trusted | Open.
Definition ept_eqb (a b : ept) : bool :=
  match a, b with Closed, Closed | Trusted, Trusted | Open, Open => true | _, _ => false end.
