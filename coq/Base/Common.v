(* Shared vocabulary: peers and CIDs are indices (N); small list utilities used by every model. *)
From Coq Require Export List NArith ZArith Bool Lia.
Export ListNotations.

Definition peer := N.
Definition cidt := N.

Definition memN (x : N) (l : list N) : bool := existsb (N.eqb x) l.

Fixpoint remove1 (x : N) (l : list N) : list N :=
  match l with [] => [] | y :: ys => if N.eqb x y then ys else y :: remove1 x ys end.

Fixpoint nodupb (l : list N) : bool :=
  match l with [] => true | x :: xs => negb (memN x xs) && nodupb xs end.

Definition subsetb (a b : list N) : bool := forallb (fun x => memN x b) a.
Definition seteqb (a b : list N) : bool := subsetb a b && subsetb b a.

Fixpoint list_eqb {A} (eqb : A -> A -> bool) (a b : list A) : bool :=
  match a, b with
  | [], [] => true
  | x :: xs, y :: ys => eqb x y && list_eqb eqb xs ys
  | _, _ => false
  end.

Definition optN_eqb (a b : option N) : bool :=
  match a, b with Some x, Some y => N.eqb x y | None, None => true | _, _ => false end.

(* association lists keyed by N *)
Fixpoint aget {V} (k : N) (m : list (N * V)) : option V :=
  match m with [] => None | (k', v) :: r => if N.eqb k k' then Some v else aget k r end.
Fixpoint adel {V} (k : N) (m : list (N * V)) : list (N * V) :=
  match m with [] => [] | (k', v) :: r => if N.eqb k k' then adel k r else (k', v) :: adel k r end.
Definition aput {V} (k : N) (v : V) (m : list (N * V)) : list (N * V) := (k, v) :: adel k m.
Definition akeys {V} (m : list (N * V)) : list N := map fst m.
