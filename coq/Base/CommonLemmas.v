From V Require Import Base.Common.
From Coq Require Import Permutation.

Lemma memN_in x l : memN x l = true <-> In x l.
Proof. unfold memN. rewrite existsb_exists. split.
  - intros [y [H E]]. apply N.eqb_eq in E. now subst.
  - intros H. exists x. split; auto. apply N.eqb_refl. Qed.

Lemma memN_false x l : memN x l = false <-> ~ In x l.
Proof. rewrite <- memN_in. destruct (memN x l); split; congruence. Qed.

Lemma nodupb_NoDup l : nodupb l = true <-> NoDup l.
Proof. induction l as [|x xs IH]; simpl.
  - split; auto. constructor.
  - rewrite andb_true_iff, negb_true_iff, memN_false, IH. split.
    + intros [A B]. now constructor.
    + intros H. inversion H; subst. auto. Qed.

Lemma subsetb_incl a b : subsetb a b = true <-> incl a b.
Proof. unfold subsetb, incl. rewrite forallb_forall. split; intros H x Hx.
  - apply memN_in; auto.
  - apply memN_in. auto. Qed.

Lemma in_firstn {A} (x : A) n l : In x (firstn n l) -> In x l.
Proof. intros H. rewrite <- (firstn_skipn n l). apply in_or_app. now left. Qed.

Lemma NoDup_firstn {A} n (l : list A) : NoDup l -> NoDup (firstn n l).
Proof. revert n. induction l as [|x xs IH]; intros n H; destruct n; simpl; try constructor.
  - inversion H; subst. intros Hin. apply in_firstn in Hin. auto.
  - inversion H; subst. auto. Qed.

Lemma in_remove1 x y l : In y (remove1 x l) -> In y l.
Proof. induction l as [|z zs IH]; simpl; auto. destruct (N.eqb x z); simpl; intuition. Qed.

Lemma in_remove1_neq x y l : In y l -> y <> x -> In y (remove1 x l).
Proof. induction l as [|z zs IH]; simpl; auto. intros [->|H] Hn.
  - destruct (N.eqb_spec x y); [congruence| now left].
  - destruct (N.eqb_spec x z); auto. right; auto. Qed.

(* association lists *)
Lemma aget_adel_same {V} k (m : list (N * V)) : aget k (adel k m) = None.
Proof. induction m as [|[k' v] r IH]; simpl; auto. destruct (N.eqb_spec k k'); simpl; auto.
  destruct (N.eqb_spec k k'); congruence. Qed.

Lemma aget_adel_other {V} k k' (m : list (N * V)) : k <> k' -> aget k (adel k' m) = aget k m.
Proof. intros Hn. induction m as [|[k2 v] r IH]; simpl; auto.
  destruct (N.eqb_spec k' k2); simpl.
  - subst. destruct (N.eqb_spec k k2); congruence.
  - destruct (N.eqb_spec k k2); auto. Qed.

Lemma aget_aput_same {V} k (v : V) m : aget k (aput k v m) = Some v.
Proof. unfold aput. simpl. now rewrite N.eqb_refl. Qed.

Lemma aget_aput_other {V} k k' (v : V) m : k <> k' -> aget k (aput k' v m) = aget k m.
Proof. intros Hn. unfold aput. simpl. destruct (N.eqb_spec k k'); [congruence|]. now apply aget_adel_other. Qed.

Lemma in_akeys_adel {V} k k' (m : list (N * V)) : In k (akeys (adel k' m)) -> In k (akeys m) /\ k <> k'.
Proof. induction m as [|[k2 v] r IH]; simpl; [tauto|]. destruct (N.eqb_spec k' k2); simpl.
  - intros H. apply IH in H. tauto.
  - intros [->|H]; [split; auto|]. apply IH in H. tauto. Qed.

Lemma NoDup_akeys_adel {V} k (m : list (N * V)) : NoDup (akeys m) -> NoDup (akeys (adel k m)).
Proof. induction m as [|[k2 v] r IH]; simpl; auto. intros H. inversion H; subst.
  destruct (N.eqb k k2); simpl; auto. constructor; auto. intros Hin. apply in_akeys_adel in Hin. tauto. Qed.

Lemma NoDup_akeys_aput {V} k (v : V) m : NoDup (akeys m) -> NoDup (akeys (aput k v m)).
Proof. intros H. unfold aput. simpl. constructor.
  - intros Hin. apply in_akeys_adel in Hin. tauto.
  - now apply NoDup_akeys_adel. Qed.
