(* C08 — byte strings: construction from byte lists (for harness-printed values), UTF-8 validity as
   Go's unicode/utf8.Valid decides it, split / join on one separator byte, prefix stripping. Definitions only. *)
From Coq Require Export String Ascii List NArith ZArith Bool.
Export ListNotations.
Open Scope N_scope.

(* a string given by its bytes (the harness prints non-printable strings this way) *)
Definition sb (l : list N) : string := string_of_list_ascii (map ascii_of_N l).
Definition bytes_of (s : string) : list N := map N_of_ascii (list_ascii_of_string s).

Definition cont (c : N) : bool := (128 <=? c) && (c <=? 191).

(* unicode/utf8.Valid: shortest forms only, no surrogates, nothing above U+10FFFF *)
Fixpoint utf8_bytes (l : list N) : bool :=
  match l with
  | [] => true
  | b :: r =>
    if b <? 128 then utf8_bytes r
    else if (194 <=? b) && (b <=? 223) then
      match r with c1 :: r1 => cont c1 && utf8_bytes r1 | _ => false end
    else if (224 <=? b) && (b <=? 239) then
      match r with
      | c1 :: c2 :: r2 =>
          (if b =? 224 then (160 <=? c1) && (c1 <=? 191)
           else if b =? 237 then (128 <=? c1) && (c1 <=? 159)
           else cont c1) && cont c2 && utf8_bytes r2
      | _ => false end
    else if (240 <=? b) && (b <=? 244) then
      match r with
      | c1 :: c2 :: c3 :: r3 =>
          (if b =? 240 then (144 <=? c1) && (c1 <=? 191)
           else if b =? 244 then (128 <=? c1) && (c1 <=? 143)
           else cont c1) && cont c2 && cont c3 && utf8_bytes r3
      | _ => false end
    else false
  end.
Definition utf8_valid (s : string) : bool := utf8_bytes (bytes_of s).

(* strings.Split(s, sep) for a one-byte separator: always at least one piece *)
Fixpoint split_on (sep : ascii) (s : string) : list string :=
  match s with
  | EmptyString => [EmptyString]
  | String c r =>
      if Ascii.eqb c sep then EmptyString :: split_on sep r
      else match split_on sep r with
           | h :: t => String c h :: t
           | [] => [String c EmptyString]
           end
  end.

(* strings.Join(l, sep) *)
Definition join_with (sep : string) (l : list string) : string := String.concat sep l.

Fixpoint has_char (c : ascii) (s : string) : bool :=
  match s with EmptyString => false | String d r => Ascii.eqb c d || has_char c r end.

(* strings.Replace(s, " ", "", -1) *)
Fixpoint drop_char (c : ascii) (s : string) : string :=
  match s with EmptyString => EmptyString | String d r => if Ascii.eqb c d then drop_char c r else String d (drop_char c r) end.

(* strings.HasPrefix / strings.TrimPrefix *)
Fixpoint strip_prefix (p s : string) : option string :=
  match p with
  | EmptyString => Some s
  | String a p' => match s with String b s' => if Ascii.eqb a b then strip_prefix p' s' else None | EmptyString => None end
  end.

Definition comma : ascii := ","%char.

(* insertion sort of strings in byte order (sort.Strings on distinct or equal keys: the result is determined) *)
Fixpoint sinsert (x : string) (l : list string) : list string :=
  match l with [] => [x] | y :: r => if String.leb x y then x :: l else y :: sinsert x r end.
Definition ssort (l : list string) : list string := fold_right sinsert [] l.

Fixpoint kinsert {V} (x : string * V) (l : list (string * V)) : list (string * V) :=
  match l with [] => [x] | y :: r => if String.leb (fst x) (fst y) then x :: l else y :: kinsert x r end.
Definition ksort {V} (l : list (string * V)) : list (string * V) := fold_right kinsert [] l.

Fixpoint slookup {V} (k : string) (m : list (string * V)) : option V :=
  match m with [] => None | (k', v) :: r => if String.eqb k k' then Some v else slookup k r end.
Definition skeys {V} (m : list (string * V)) : list string := map fst m.
Fixpoint snodup (l : list string) : bool :=
  match l with [] => true | x :: r => negb (existsb (String.eqb x) r) && snodup r end.

(* keys strictly increasing: the canonical representation of a Go map *)
Fixpoint keys_sorted {V} (m : list (string * V)) : bool :=
  match m with
  | a :: ((b :: _) as r) => String.ltb (fst a) (fst b) && keys_sorted r
  | _ => true
  end.
