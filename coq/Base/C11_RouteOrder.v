(* Shared by C11 (REST routes) and C12 (proxy routes): when may two gorilla/mux routes be registered in either order?
   mux takes the first registered route that matches, so the order of two routes matters only if some request can
   match both. Definitions only (the lemmas are in Proofs/RouteOrder.v); used by the table obligations and by Diag/. *)
From V Require Import Base.Common Base.C11_Http.
Open Scope string_scope.
Open Scope list_scope.

Definition is_rest (a : tseg) : bool := match a with TRest _ => true | _ => false end.

(* does a (non-tail) template segment accept the path segment x *)
Definition seg_acc (a : tseg) (x : string) : bool :=
  match a with
  | TLit s => String.eqb s x
  | TVar _ => negb (String.eqb x "")
  | TAlt _ l => str_in x l
  | TRest _ => false
  end.

(* true: provably no path segment is accepted by both (false: do not know) *)
Definition seg_disjoint (a b : tseg) : bool :=
  match a, b with
  | TLit x, TLit y => negb (String.eqb x y)
  | TLit x, TVar _ => String.eqb x ""
  | TVar _, TLit x => String.eqb x ""
  | TLit x, TAlt _ l => negb (str_in x l)
  | TAlt _ l, TLit x => negb (str_in x l)
  | TAlt _ l, TAlt _ l' => negb (existsb (fun x => str_in x l') l)
  | _, _ => false
  end.

(* true: provably no segment list is matched (match_segs) by both templates. A tail variable {x:.*} is treated
   conservatively: from the position where one of the templates has it the answer is "do not know". *)
Fixpoint tpl_disjoint (t1 t2 : list tseg) : bool :=
  match t1, t2 with
  | [], [] => false
  | [], _ :: _ => true
  | _ :: _, [] => true
  | a :: t1', b :: t2' => if is_rest a || is_rest b then false else seg_disjoint a b || tpl_disjoint t1' t2'
  end.

(* true: provably there is no d such that t1 matches d ++ [""] (the path with a trailing '/') and t2 matches d
   (StrictSlash: a route also answers its path followed by one '/') *)
Definition seg_rejects_empty (a : tseg) : bool :=
  match a with
  | TLit s => negb (String.eqb s "")
  | TVar _ => true
  | TAlt _ l => negb (str_in "" l)
  | TRest _ => false
  end.
Fixpoint tpl_skew (t1 t2 : list tseg) : bool :=
  match t1, t2 with
  | [], _ => true
  | a :: t1', [] => match t1' with [] => seg_rejects_empty a | _ :: _ => true end
  | a :: t1', b :: t2' => if is_rest a || is_rest b then false else seg_disjoint a b || tpl_skew t1' t2'
  end.

(* apart under StrictSlash matching too: no request path is answered (exactly or with the trailing-slash redirect) by both *)
Definition tpl_apart (t1 t2 : list tseg) : bool := tpl_disjoint t1 t2 && tpl_skew t1 t2 && tpl_skew t2 t1.

(* a template as text (Diag/) *)
Definition show_tseg (a : tseg) : string :=
  match a with
  | TLit s => s
  | TVar n => "{" ++ n ++ "}"
  | TAlt n l => "{" ++ n ++ ":" ++ String.concat "|" l ++ "}"
  | TRest n => "{" ++ n ++ ":.*}"
  end.
Definition show_tpl (t : list tseg) : string := String.concat "/" (map show_tseg t).

(* ---- order-insensitive comparison of two first-match tables ----
   eqb: equality of entries; apart x y: the order of x and y is irrelevant. l2 is accepted iff it is l1 up to exchanging
   neighbours that are apart: the head x of l1 is looked up in l2 (first occurrence), everything registered before it
   there must be apart from x, and the rest must compare likewise. Equivalently: l2 is a permutation of l1 in which every
   two entries that are NOT apart keep their relative order. *)
Section Trace.
  Context {A : Type}.
  Variable eqb : A -> A -> bool.
  Variable apart : A -> A -> bool.

  Fixpoint extract (x : A) (l : list A) : option (list A * list A) :=
    match l with
    | [] => None
    | y :: r => if eqb x y then Some ([], r)
                else match extract x r with Some (p, s) => Some (y :: p, s) | None => None end
    end.

  Fixpoint trace_equiv (l1 l2 : list A) : bool :=
    match l1 with
    | [] => match l2 with [] => true | _ :: _ => false end
    | x :: l1' =>
        match extract x l2 with
        | Some (p, s) => forallb (apart x) p && trace_equiv l1' (p ++ s)
        | None => false
        end
    end.

  (* ---- naming the differences (Diag/) ---- *)
  Definition count_in (x : A) (l : list A) : nat := List.length (filter (eqb x) l).
  (* entries occurring more often in l1 than in l2 *)
  Definition surplus (l1 l2 : list A) : list A := filter (fun x => negb (Nat.leb (count_in x l1) (count_in x l2))) l1.
  Fixpoint index_of (x : A) (l : list A) (i : nat) : option nat :=
    match l with [] => None | y :: r => if eqb x y then Some i else index_of x r (S i) end.
  (* pairs x before y in l1, not apart, both present in l2, with y before x in l2 *)
  Fixpoint inverted (l1 l2 : list A) : list (A * A) :=
    match l1 with
    | [] => []
    | x :: r =>
        flat_map (fun y => if apart x y || eqb x y then [] else
                    match index_of x l2 0, index_of y l2 0 with
                    | Some i, Some j => if Nat.ltb j i then [(x, y)] else []
                    | _, _ => []
                    end) r ++ inverted r l2
    end.
End Trace.
