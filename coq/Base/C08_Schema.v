(* C08 — vocabulary of the generated struct-tag table (Gen/C08Tags.v): field types and per-field tag data. *)
From Coq Require Import String List.

Inductive ty :=
  | TInt | TUint | TStr | TBool | TBytes        (* Go integers, strings, booleans, []byte *)
  | TTime | TCid | TPeer                        (* time.Time, cid.Cid, peer.ID: library types with their own marshalers *)
  | TMaddr                                      (* api.Multiaddr: the wrapper that knows how to (de)serialize itself *)
  | TMaddrIface                                 (* multiaddr.Multiaddr: a bare interface *)
  | TStatus | TMode                             (* api.TrackerStatus, api.PinMode: own JSON methods *)
  | TSlice (t : ty) | TMap (t : ty) | TPtr (t : ty)   (* []T, map[string]T, *T *)
  | TStruct (name : string)                     (* another struct of the table *)
  | TOther (src : string).                      (* anything the translator does not know *)

(* one (promoted) field: Go name, JSON key / omitempty / "-", codec key / omitempty / "-", type *)
Record field := mk_field {
  f_go : string;
  f_json : string; f_jomit : bool; f_jskip : bool;
  f_codec : string; f_comit : bool; f_cskip : bool;
  f_ty : ty }.

Definition schema := list (string * list field).
