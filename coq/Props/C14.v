(* C14 — State export/import, Raft snapshots read offline, backup rotation, peerstore file round-trip.
   Statements only; every proof is `exact <lemma of Proofs/C14_*.v>`. *)
From V Require Import Base.Common Model.C14_Backup Model.C14_Peerstore Model.C14_State Model.C14_Check Proofs.C14_Backup Proofs.C14_Peerstore Proofs.C14_State Proofs.C14_Monitor.
From Coq Require Import Permutation.

(* ---------------- backup rotation (data_helper.go makeBackup, raft.go CleanupRaft) ---------------- *)

(* listBackups: the contiguous run of existing backups from index 0, cut at keep *)
Theorem backup_prefix_is_contiguous {F} (o : nat -> option F) keep :
  let n := prefix o keep 0 in
  n <= keep /\ (forall i, i < n -> o i <> None) /\ (n < keep -> o n = None).
Proof. exact (conj (prefix_le o keep 0) (conj (prefix_some o keep 0) (prefix_stop o keep 0))). Qed.
Print Assumptions backup_prefix_is_contiguous.

(* one rotation, for every retention keep >= 1, every pre-existing set of backups o (a total function on
   indices) and every folder f being backed up: f becomes old.0; the contiguous prefix moves up by one
   below keep; whatever lies beyond the prefix, or at/after keep, is untouched; the only folder that can
   disappear is the one at keep-1 of a full prefix; nothing else appears *)
Theorem backup_rotation {F} keep (f : F) (o : nat -> option F) : 1 <= keep ->
  let n := prefix o keep 0 in let o' := rotate keep f o in
  o' 0 = Some f /\
  (forall i, i < n -> S i < keep -> o' (S i) = o i) /\
  (forall j, n < j \/ keep <= j -> o' j = o j) /\
  (forall i c, o i = Some c -> (exists j, o' j = Some c) \/ (i = keep - 1 /\ n = keep)) /\
  (forall j c, o' j = Some c -> c = f \/ exists i, o i = Some c).
Proof.
  exact (fun Hk => conj (rotate_zero keep f o) (conj (rotate_shift keep f o)
        (conj (fun j => rotate_untouched keep f o j Hk)
        (conj (fun i c => rotate_only_oldest_lost keep f o i c Hk) (fun j c => rotate_nothing_new keep f o j c Hk))))).
Qed.
Print Assumptions backup_rotation.

(* CleanupRaft rotates exactly when the data folder holds a snapshot; otherwise the folder is simply deleted
   and no backup is touched *)
Theorem cleanup_rotates_iff_snapshot {S} keep m (s : S) (o : nat -> option (folder S)) :
  cleanup keep (mk_dir (Some (m, Some s)) o) = mk_dir None (rotate keep (m, Some s) o) /\
  cleanup keep (mk_dir (Some (m, None)) o) = mk_dir None o /\
  cleanup keep (mk_dir None o) = mk_dir None o.
Proof. exact (conj (cleanup_snapshot keep m s o) (conj (cleanup_no_snapshot keep m o) (cleanup_absent keep o))). Qed.
Print Assumptions cleanup_rotates_iff_snapshot.

(* every history of clean / backup operations from every directory: the folders handed to the rotation are
   old.0, old.1, ... newest first, as many as keep allows; indices >= keep are never touched (so at most keep
   rotated backups are managed); the data folder is gone after every operation *)
Theorem backup_rotation_history {S} keep (d : dir S) (sts : list (step S)) : 1 <= keep ->
  let fs := flat_map rotated_of sts in let d' := run_steps keep d sts in
  (forall i, i < length fs -> i < keep -> olds d' i = nth_error (rev fs) i) /\
  (forall j, keep <= j -> olds d' j = olds d j) /\
  (sts <> [] -> live d' = None).
Proof.
  exact (fun Hk => conj (fun i => run_steps_newest_first keep d sts i Hk)
        (conj (run_steps_beyond keep sts Hk d) (run_steps_live keep sts d))).
Qed.
Print Assumptions backup_rotation_history.

(* the boolean form evaluated on the implementation's directory listings implies the rotation relation on the listed window *)
Theorem backup_step_okb_sound keep before st after f :
  bk_step_okb keep before st after = true -> rotated_of st = [f] ->
  let o := to_olds before in let o' := to_olds after in let n := prefix o keep 0 in
  hd None after = None /\ o' 0 = Some f /\
  (forall i, i < window before -> i < n -> S i < keep -> o' (S i) = o i) /\
  (forall j, j < window before -> n < j \/ keep <= j -> o' j = o j).
Proof. exact (bk_step_okb_sound keep before st after f). Qed.
Print Assumptions backup_step_okb_sound.

(* non-vacuity: keep = 2, backups at 0, 1 and 3: the folder at 1 is discarded, 0 moves to 1, 3 is untouched *)
Example backup_example :
  let o := fun i => match i with 0 => Some 10 | 1 => Some 11 | 3 => Some 13 | _ => None end in
  map (rotate 2 7 o) [0; 1; 2; 3; 4] = [Some 7; Some 10; None; Some 13; None].
Proof. reflexivity. Qed.

(* ---------------- peerstore file (pstoremgr.go) ---------------- *)

(* for every file: LoadPeerstore returns exactly the addresses of the lines that start with '/' and parse, in file
   order; no element is nil; ImportPeersFromPeerstore never crashes, whatever the host already knows *)
Theorem peerstore_skips_garbage (ls : list line) :
  load_lines ls = flat_map keep_line ls /\
  (forall a, In a (load_lines ls) -> a <> None) /\
  (forall self ps, import_file true self ls ps <> ICrash).
Proof. exact (conj (load_lines_char ls) (conj (load_lines_no_nil ls) (fun self ps => import_file_no_crash self ls ps))). Qed.
Print Assumptions peerstore_skips_garbage.

(* the file written for any well-formed list of peer infos loads as their /p2p-suffixed addresses in order, and a fresh host
   that imports it reports the same infos, in the same (priority) order, whatever the order it is asked in *)
Theorem peerstore_roundtrip (infos : list pinfo) (self2 : N) (query : list N) :
  wf_infos infos -> ~ In self2 (map fst infos) -> Permutation query (map fst infos) ->
  load_lines (save_lines infos) = loaded_of infos /\ reload self2 infos query = Some infos.
Proof. exact (fun Hw Hs Hp => conj (load_save infos) (reload_roundtrip self2 infos query Hw Hs Hp)). Qed.
Print Assumptions peerstore_roundtrip.

(* what PeerInfos returns is always well formed (for every peerstore reachable by imports and every list of distinct
   peers), so the round trip applies to whatever a host saves at shutdown: whatever file the host started from, what
   it saves reads back identically on another host *)
(* whatever the file held before the save (an earlier shutdown's longer list, comments, garbage), what is read back
   afterwards is what was saved now: nothing of the previous content survives *)
Theorem peerstore_resave_replaces_file (prev : list line) (infos : list pinfo) :
  load_lines (save_onto prev infos) = load_lines (save_lines infos) /\ save_onto prev infos = save_onto [] infos.
Proof. exact (conj eq_refl eq_refl). Qed.
Print Assumptions peerstore_resave_replaces_file.

Theorem peerstore_roundtrip_from_any_file (ls : list line) (self self2 : N) (peers query : list N) (ps : pstore) :
  import_file true self ls ps_empty = IOk ps -> NoDup peers ->
  let infos := peer_infos self ps peers in
  wf_infos infos /\
  (~ In self2 (map fst infos) -> Permutation query (map fst infos) -> reload self2 infos query = Some infos).
Proof.
  exact (fun E Hnd => conj (proj1 (peer_infos_wf self ps peers (import_peers_ok self _ _ _ _ ps_empty_ok E) Hnd))
                           (roundtrip_from_any_file ls self peers self2 query ps E Hnd)).
Qed.
Print Assumptions peerstore_roundtrip_from_any_file.

(* S14, before the repair (fix: LoadPeerstore skips lines that fail to parse): the line "/foo" yields a nil element and
   the import dereferences it. Kept as the witness of what the corpus input used to do. *)
Example peerstore_nil_before_fix :
  load_lines_before_fix [LText slash None] = [None] /\ import_file false 0 [LText slash None] ps_empty = ICrash /\
  load_lines [LText slash None] = [].
Proof. repeat split. Qed.

(* non-vacuity: two peers, one with two IP addresses and one with a DNS address *)
Example peerstore_example :
  let infos := [(5, [(1, false); (3, false)]); (7, [(2, true)])]%N in
  wf_infos infos /\ reload 0 infos [7; 5]%N = Some infos.
Proof.
  split; [|reflexivity]. split; [repeat constructor; simpl; intuition discriminate|].
  intros pi [<-|[<-|[]]]; (split; [discriminate|split; [repeat constructor; unfold tr_key; simpl; lia|simpl; auto]]).
Qed.

(* ---------------- pinsets: Marshal/Unmarshal, snapshots read offline, export/import ---------------- *)
(* (V.Model.C14_State: a pin is (cid, (content, #origins)); `ord` is the datastore's query order, any permutation) *)

(* serialising then deserialising onto an empty store reproduces the pinset (onto a non-empty store: C01, S1) *)
Theorem marshal_unmarshal_id ord s : order_oracle ord -> keys_nodup s -> same_pinset (unmarshal (marshal ord s) []) s.
Proof. exact (marshal_unmarshal_same ord s). Qed.
Print Assumptions marshal_unmarshal_id.

(* SnapshotSave then LastStateRaw / OfflineState, from every directory state (with or without a previous snapshot,
   any backups, any retention): the saved stream is the newest snapshot and reads back as the same pinset *)
Theorem snapshot_offline_id keep ord s (d : dir snapshot) : order_oracle ord -> keys_nodup s ->
  last_state_raw (snapshot_save keep (marshal ord s) d) = Some (marshal ord s) /\
  same_pinset (offline_state (snapshot_save keep (marshal ord s) d) []) s.
Proof. exact (fun Ho Hn => conj (last_state_after_save keep (marshal ord s) d) (snapshot_offline_same keep ord s d Ho Hn)). Qed.
Print Assumptions snapshot_offline_id.

(* saving over data that holds a snapshot rotates it into old.0 first; otherwise no backup is touched *)
Theorem snapshot_save_keeps_previous_snapshot {S} keep (payload : S) m (s : S) o (d : dir S) : 1 <= keep ->
  olds (snapshot_save keep payload (mk_dir (Some (m, Some s)) o)) 0 = Some (m, Some s) /\
  (last_state_raw d = None -> olds (snapshot_save keep payload d) = olds d).
Proof. exact (fun Hk => conj (snapshot_save_keeps_previous keep payload m s o Hk) (snapshot_save_no_previous keep payload d)). Qed.
Print Assumptions snapshot_save_keeps_previous_snapshot.

(* export then import is NOT the identity for every pinset: a pin with origins is exported but its line does not decode (S19) *)
Theorem export_import_id_refuted :
  exists ord s, order_oracle ord /\ keys_nodup s /\ import_lines (export ord s) [] = None.
Proof.
  exists (fun x => x), [(1, (1, 1))]%N. split; [intros s; apply Permutation_refl|]. split; [repeat constructor; simpl; tauto|reflexivity].
Qed.
Print Assumptions export_import_id_refuted.

(* under the guard that no pin carries origins, for every pinset and every listing order *)
Theorem export_import_id_partial ord s : order_oracle ord -> keys_nodup s -> no_origins s ->
  exists s', import_lines (export ord s) [] = Some s' /\ same_pinset s' s.
Proof. exact (export_import_same ord s). Qed.
Print Assumptions export_import_id_partial.

(* raft state manager: exporting from any data directory and importing into ANY other one (whatever it held, any
   backups, any retention) succeeds and leaves exactly the exported pinset; what the destination held before is its
   newest backup *)
Theorem raft_export_import_id_partial keep ord1 ord2 (dsrc ddst : dir snapshot) :
  order_oracle ord1 -> order_oracle ord2 -> no_origins (offline_state dsrc []) ->
  exists d', raft_import keep ord2 (raft_export ord1 dsrc) ddst = (d', ImpOk) /\
             same_pinset (offline_state d' []) (offline_state dsrc []).
Proof. exact (raft_export_import keep ord1 ord2 dsrc ddst). Qed.
Print Assumptions raft_export_import_id_partial.

Theorem raft_import_previous_is_newest_backup keep ord ls m (sn : snapshot) o : 1 <= keep ->
  olds (fst (raft_import keep ord ls (mk_dir (Some (m, Some sn)) o))) 0 = Some (m, Some sn).
Proof. exact (raft_import_keeps_previous keep ord ls m sn o). Qed.
Print Assumptions raft_import_previous_is_newest_backup.

(* a stream that does not import leaves the destination empty (the Clean has happened), not half-imported *)
Theorem raft_import_failure_leaves_empty keep ord ls (d : dir snapshot) : import_lines ls [] = None ->
  raft_import keep ord ls d = (cleanup keep d, ImpErr) /\ offline_state (cleanup keep d) [] = [].
Proof. exact (raft_import_failure keep ord ls d). Qed.
Print Assumptions raft_import_failure_leaves_empty.

(* crdt state manager: for EVERY pinset without origins (the guard of S19, refuted above by export_import_id_refuted) and every
   listing order - the empty pinset included: since fix-S33 an import that added nothing does not commit an empty batch *)
Theorem crdt_export_import_id_partial ord s s0 : order_oracle ord -> keys_nodup s -> no_origins s ->
  exists s', crdt_import (export ord s) s0 = (s', ImpOk) /\ same_pinset s' s.
Proof. exact (crdt_export_import ord s s0). Qed.
Print Assumptions crdt_export_import_id_partial.

(* regression (S33, fixed): the export of the empty pinset used to crash the crdt import after the Clean; it now succeeds and
   leaves the empty pinset, whatever the destination held. The input is in corpus/C14. *)
Example crdt_import_empty_regression :
  crdt_import_before_fix (export (fun x => x) []) [(1, (1, 0))]%N = ([], ImpCrash) /\
  crdt_import (export (fun x => x) []) [(1, (1, 0))]%N = ([], ImpOk).
Proof. split; reflexivity. Qed.

(* non-vacuity of the guards *)
Example pinset_example :
  let s := [(3, (1, 0)); (5, (2, 0))]%N in
  keys_nodup s /\ no_origins s /\ s <> [] /\ import_lines (export (@rev entry) s) [] = Some [(3, (1, 0)); (5, (2, 0))]%N.
Proof. repeat split; try discriminate. repeat constructor; simpl; intuition discriminate. Qed.

(* ---------------- the run-time monitors of Model/C14_Check.v and the theorems above ---------------- *)
(* For each case kind: (completeness) a case annotated with the model's own outputs raises no code, for every input allowed
   by the stated guards - so an implementation that agrees with the model on an input satisfies every monitored clause on it,
   and no monitor can alarm on behaviour the model allows; (soundness) a case on which a monitor's code is absent satisfies
   the Prop-level clause the code stands for. Definitions of the model outputs and the Prop-level readings: Proofs/C14_Monitor.v. *)

(* backup rotation (codes 1, 10, 11): every retention keep >= 1, every listed set of at least keep pre-existing backups
   (the monitors only see the listed window; the harness lists old.0..old.7 with keep <= 6), every history of steps *)
Theorem backup_model_passes_monitor id keep olds0 sts : 1 <= keep -> keep <= length olds0 ->
  check_case (id, PBackup keep olds0 sts (bk_model_obs keep (None :: olds0) sts)) = [].
Proof. exact (bk_model_passes_monitor_l id keep olds0 sts). Qed.
Print Assumptions backup_model_passes_monitor.

(* no code 10 and no code 11: every step is a rotation of the listing the previous step left (bk_steps_spec: data folder gone,
   the rotated folder is old.0, the contiguous prefix moved up by one below keep, the rest untouched) and after every step
   the folders rotated so far are old.0, old.1, ... newest first below keep (bk_hist_spec) *)
Theorem backup_monitor_sound id keep olds0 sts obs :
  (forall c, In c (check_case (id, PBackup keep olds0 sts obs)) -> snd (fst c) <> 10%N /\ snd (fst c) <> 11%N) ->
  bk_steps_spec keep (None :: olds0) sts obs /\ bk_hist_spec keep [] sts obs.
Proof. exact (bk_monitor_sound_l id keep olds0 sts obs). Qed.
Print Assumptions backup_monitor_sound.

Example backup_monitor_example :
  let olds0 := [Some (10, Some 1); Some (11, None); None]%N in
  let sts := [(Some (7, Some 2), true); (Some (8, None), true); (Some (9, None), false)]%N in
  1 <= 2 /\ 2 <= length olds0 /\
  bk_model_obs 2 (None :: olds0) sts =
    [[None; Some (7, Some 2); Some (10, Some 1); None]; [None; Some (7, Some 2); Some (10, Some 1); None];
     [None; Some (9, None); Some (7, Some 2); None]]%N /\
  (* a listing that lost the shifted folder is rejected by the step monitor and by the history monitor *)
  check_case (0%N, PBackup 2 olds0 [(Some (7, Some 2), true)] [[None; Some (7, Some 2); None; None]])%N = [(0, 1, 0); (0, 10, 0)]%N /\
  check_case (0%N, PBackup 2 olds0 [(Some (7, Some 2), true); (Some (9, Some 3), true)]
                  [[None; Some (7, Some 2); Some (10, Some 1); None]; [None; Some (9, Some 3); Some (10, Some 1); None]])%N
    = [(0, 1, 0); (0, 10, 0); (0, 11, 0)]%N.
Proof. cbv zeta. repeat split; try (cbn; lia); vm_compute; reflexivity. Qed.

(* peerstore, arbitrary files (codes 1, 12): every file, host identity and query - no guard at all *)
Theorem peerstore_file_model_passes_monitor id self ls query :
  check_case (id, PPsFile self ls query (load_lines ls) (ps_file_model_infos self ls query)) = [].
Proof. exact (ps_file_model_passes_monitor_l id self ls query). Qed.
Print Assumptions peerstore_file_model_passes_monitor.

Theorem peerstore_file_monitor_sound id self ls query obs_load obs_infos :
  (forall c, In c (check_case (id, PPsFile self ls query obs_load obs_infos)) -> snd (fst c) <> 12%N) ->
  (forall a, In a obs_load -> a <> None) /\ obs_infos <> None.
Proof. exact (ps_file_monitor_sound_l id self ls query obs_load obs_infos). Qed.
Print Assumptions peerstore_file_monitor_sound.

(* peerstore, save on host 1 / load on host 2 (codes 1, 13): every peerstore host 1 can have built (address sets, priorities),
   every duplicate-free query, host 2 not among the saved peers and asked for exactly the saved peers in any order *)
Theorem peerstore_save_model_passes_monitor id self1 self2 pre query query2 :
  let obs0 := ps_save_model_obs0 self1 pre query in
  NoDup query -> ~ In self2 (map fst obs0) -> Permutation query2 (map fst obs0) ->
  check_case (id, PPsSave self1 self2 pre query query2 obs0 (save_lines obs0) (load_lines (save_lines obs0))
                          (reload self2 obs0 query2)) = [].
Proof. exact (ps_save_model_passes_monitor_l id self1 self2 pre query query2). Qed.
Print Assumptions peerstore_save_model_passes_monitor.

(* no code 13: the loaded addresses group into, and host 2 reports, the same peers in the same (priority) order as host 1
   saved, each with the same set of addresses *)
Theorem peerstore_save_monitor_sound id self1 self2 pre query query2 obs0 obs_lines obs_load obs2 :
  (forall c, In c (check_case (id, PPsSave self1 self2 pre query query2 obs0 obs_lines obs_load obs2)) -> snd (fst c) <> 13%N) ->
  exists g l2, group_loaded obs_load = Some g /\ obs2 = Some l2 /\ same_peers_same_addrs g obs0 /\ same_peers_same_addrs l2 obs0.
Proof. exact (ps_save_monitor_sound_l id self1 self2 pre query query2 obs0 obs_lines obs_load obs2). Qed.
Print Assumptions peerstore_save_monitor_sound.

Example peerstore_monitor_example :
  let pre := [(5%N, [(3%N, false); (1%N, false)], Some 1); (7%N, [(2%N, true); (4%N, false)], Some 0); (1%N, [(6%N, false)], None)] in
  let obs0 := ps_save_model_obs0 1 pre [5; 7; 1]%N in
  obs0 = [(7, [(2, true)]); (5, [(1, false); (3, false)])]%N /\
  NoDup [5; 7; 1]%N /\ ~ In 9%N (map fst obs0) /\ Permutation [5; 7]%N (map fst obs0) /\
  (* a reload that swaps the priority order is rejected *)
  check_case (0%N, PPsSave 1 9 pre [5; 7; 1] [5; 7] obs0 (save_lines obs0) (load_lines (save_lines obs0))
                          (Some [(5, [(1, false); (3, false)]); (7, [(2, true)])]))%N = [(0, 1, 0); (0, 13, 0)]%N.
Proof. cbv zeta. split; [reflexivity|]. split; [repeat constructor; simpl; intuition discriminate|].
  split; [simpl; intuition discriminate|]. split; [apply perm_swap|vm_compute; reflexivity]. Qed.

(* dsstate Marshal / Unmarshal (codes 1, 14): every cid-sorted pinset (how the harness writes pinsets), every datastore order *)
Theorem marshal_model_passes_monitor id ord pins : order_oracle ord -> cid_sorted pins ->
  check_case (id, PMarshal pins (Some (sorted_entries (unmarshal (marshal ord pins) [])))) = [].
Proof. exact (marshal_model_passes_monitor_l id ord pins). Qed.
Print Assumptions marshal_model_passes_monitor.

Theorem marshal_monitor_sound id pins obs :
  (forall c, In c (check_case (id, PMarshal pins obs)) -> snd (fst c) <> 14%N) -> obs = Some pins.
Proof. exact (marshal_monitor_sound_l id pins obs). Qed.
Print Assumptions marshal_monitor_sound.

(* snapshots (codes 1, 15, 10): every retention keep >= 1, every table the harness's interner can produce (one row per number,
   rows cid-sorted, no two rows with the same content), at least keep listed backups, every number in the listing and in the
   operations a row of the table, every history of SnapshotSave / CleanupRaft / bare folder / newer snapshot / peer start *)
Theorem snapshot_model_passes_monitor id keep t olds0 ops : 1 <= keep -> keep <= length olds0 -> table_ok t ->
  listing_ok t olds0 -> (forall op, In op ops -> op_ok t op) ->
  check_case (id, PSnap keep t olds0 ops (snap_model_obs keep t (None :: olds0) ops)) = [].
Proof. exact (snap_model_passes_monitor_l id keep t olds0 ops). Qed.
Print Assumptions snapshot_model_passes_monitor.

(* no code 15 and no code 10: snap_spec - after a save (or a newer snapshot) both offline readings are the saved pinset; a peer
   started on a snapshot lists it; cleaning / saving over data that held a snapshot leaves it as old.0, shifts the prefix below
   keep, touches nothing else *)
Theorem snapshot_monitor_sound id keep t olds0 ops obs :
  (forall c, In c (check_case (id, PSnap keep t olds0 ops obs)) -> snd (fst c) <> 15%N /\ snd (fst c) <> 10%N) ->
  snap_spec keep t (None :: olds0) ops obs.
Proof. exact (snap_monitor_sound_l id keep t olds0 ops obs). Qed.
Print Assumptions snapshot_monitor_sound.

Example snapshot_monitor_example :
  let t := [(0, []); (1, [(3, (1, 0)); (5, (2, 0))]); (2, [(3, (1, 0))])]%N in
  let olds0 := [Some (4, Some 2); None]%N in
  let ops := [OSave 1; OMore 2; OSave 0; OClean; OBare 6; OStart]%N in
  table_ok t /\ listing_ok t olds0 /\ (forall op, In op ops -> op_ok t op) /\
  map (fun o => fst (fst o)) (snap_model_obs 2 t (None :: olds0) ops) =
    [[Some (0, Some 1); Some (4, Some 2); None]; [Some (0, Some 2); Some (4, Some 2); None];
     [Some (0, Some 0); Some (0, Some 2); Some (4, Some 2)]; [None; Some (0, Some 0); Some (0, Some 2)];
     [Some (6, None); Some (0, Some 0); Some (0, Some 2)]; [Some (6, None); Some (0, Some 0); Some (0, Some 2)]]%N.
Proof. cbv zeta. split; [|split; [|split]].
  - split; [simpl; repeat constructor; simpl; intuition discriminate|]. split.
    + intros i es [E|[E|[E|[]]]]; injection E as <- <-; repeat constructor; unfold klt, ekey; simpl; lia.
    + intros i j es [E|[E|[E|[]]]] [F|[F|[F|[]]]]; congruence.
  - intros f [<-|[<-|[]]] m i E; [injection E as <- <-; unfold in_table; simpl; tauto|discriminate].
  - intros op [<-|[<-|[<-|[<-|[<-|[<-|[]]]]]]]; unfold op_ok, in_table; simpl; tauto.
  - vm_compute. reflexivity. Qed.

(* export / import through a state manager (codes 1, 16, 17, 18). For every manager, retention, table, destination, datastore
   order, stream (edited or not) and listing window, the model's own answers fail no monitor except in the shape of the
   listed finding (code 17 with tag 1: origins-undecodable-import) ... *)
Theorem export_model_only_known_findings id mgr keep t src dst0 ord lines edited w :
  order_oracle ord -> cid_sorted (pinset_of t src) ->
  let exported := ord (pinset_of t src) in
  (edited = false -> lines = map JPin exported) ->
  forall c, In c (check_case (export_model_case id mgr keep t src dst0 exported lines edited w)) ->
    snd (fst c) = 17%N /\ snd c = 1%N /\ is_S19 exported = true.
Proof. exact (export_model_only_findings_l id mgr keep t src dst0 ord lines edited w). Qed.
Print Assumptions export_model_only_known_findings.

(* ... and outside it (no pin with origins) no code at all, for every pinset (the empty one included) and both managers *)
Theorem export_model_passes_monitor id mgr keep t src dst0 ord lines edited w :
  order_oracle ord -> cid_sorted (pinset_of t src) ->
  let exported := ord (pinset_of t src) in
  (edited = false -> lines = map JPin exported) ->
  no_origins (pinset_of t src) ->
  check_case (export_model_case id mgr keep t src dst0 exported lines edited w) = [].
Proof. exact (export_model_passes_monitor_l id mgr keep t src dst0 ord lines edited w). Qed.
Print Assumptions export_model_passes_monitor.

(* no codes 16, 17, 18: the export lists exactly the source pinset; an unedited stream imports successfully and leaves exactly
   that pinset; the import did not take the process down *)
Theorem export_monitor_sound id mgr keep t src dst0 exported lines edited obs_res obs_after obs_listing :
  (forall c, In c (check_case (id, PExport mgr keep t src dst0 exported lines edited obs_res obs_after obs_listing)) ->
             snd (fst c) <> 16%N /\ snd (fst c) <> 17%N /\ snd (fst c) <> 18%N) ->
  sorted_entries exported = pinset_of t src /\
  (edited = false -> obs_res = 0%N /\ obs_after = pinset_of t src) /\
  obs_res <> 2%N.
Proof. exact (export_monitor_sound_l id mgr keep t src dst0 exported lines edited obs_res obs_after obs_listing). Qed.
Print Assumptions export_monitor_sound.

Example export_monitor_example :
  let t := [(0, []); (1, [(3, (1, 0)); (5, (2, 0))]); (2, [(3, (1, 1))])]%N in
  cid_sorted (pinset_of t 1) /\ no_origins (pinset_of t 1) /\
  (* raft, destination holding pinset 2: the import replaces it and keeps it as old.0 *)
  export_model_obs 0 2 t (Some 2%N) (map JPin (rev (pinset_of t 1))) 2 =
    (0, pinset_of t 1, [Some (0, Some 1); Some (7, Some 2); None])%N /\
  (* the finding shape: the monitor fails with its tag on the model's own answer *)
  check_case (export_model_case 0 0 2 t 2 None (pinset_of t 2) (map JPin (pinset_of t 2)) false 1)%N = [(0, 17, 1)]%N /\
  (* the empty pinset through the crdt manager into a populated destination: accepted; the crash it used to be is rejected *)
  check_case (export_model_case 0 1 2 t 0 (Some 1%N) [] [] false 1)%N = [] /\
  check_case (0, PExport 1 2 t 0 (Some 1%N) [] [] false 2 [] [])%N = [(0, 1, 0); (0, 17, 0); (0, 18, 0)]%N.
Proof. cbv zeta. split; [|split; [reflexivity|split; [|split; [|split]]]]; try (vm_compute; reflexivity).
  change (pinset_of _ 1%N) with [(3, (1, 0)); (5, (2, 0))]%N. repeat constructor; unfold klt, ekey; simpl; lia. Qed.
