(* C14 — State export/import, Raft snapshots read offline, backup rotation, peerstore file round-trip.
   Statements only; every proof is `exact <lemma of Proofs/C14_*.v>`. *)
From V Require Import Base.Common Model.C14_Backup Model.C14_Peerstore Model.C14_State Model.C14_Check Proofs.C14_Backup Proofs.C14_Peerstore Proofs.C14_State.
From Coq Require Import Permutation.

(* ---------------- backup rotation (data_helper.go makeBackup, raft.go CleanupRaft) ---------------- *)

(* listBackups: the contiguous run of existing backups from index 0, cut at keep *)
Theorem backup_prefix_is_contiguous {F} (o : nat -> option F) keep :
  let n := prefix o keep 0 in
  n <= keep /\ (forall i, i < n -> o i <> None) /\ (n < keep -> o n = None).
Proof. exact (conj (prefix_le o keep 0) (conj (prefix_some o keep 0) (prefix_stop o keep 0))). Qed.
Print Assumptions backup_prefix_is_contiguous.

(* one rotation, for every retention keep >= 1, every pre-existing set of backups o (a total function on
   indices) and every folder f being backed up: f becomes old.0; the contiguous prefix moves up by one
   below keep; whatever lies beyond the prefix, or at/after keep, is untouched; the only folder that can
   disappear is the one at keep-1 of a full prefix; nothing else appears *)
Theorem backup_rotation {F} keep (f : F) (o : nat -> option F) : 1 <= keep ->
  let n := prefix o keep 0 in let o' := rotate keep f o in
  o' 0 = Some f /\
  (forall i, i < n -> S i < keep -> o' (S i) = o i) /\
  (forall j, n < j \/ keep <= j -> o' j = o j) /\
  (forall i c, o i = Some c -> (exists j, o' j = Some c) \/ (i = keep - 1 /\ n = keep)) /\
  (forall j c, o' j = Some c -> c = f \/ exists i, o i = Some c).
Proof.
  exact (fun Hk => conj (rotate_zero keep f o) (conj (rotate_shift keep f o)
        (conj (fun j => rotate_untouched keep f o j Hk)
        (conj (fun i c => rotate_only_oldest_lost keep f o i c Hk) (fun j c => rotate_nothing_new keep f o j c Hk))))).
Qed.
Print Assumptions backup_rotation.

(* CleanupRaft rotates exactly when the data folder holds a snapshot; otherwise the folder is simply deleted
   and no backup is touched *)
Theorem cleanup_rotates_iff_snapshot {S} keep m (s : S) (o : nat -> option (folder S)) :
  cleanup keep (mk_dir (Some (m, Some s)) o) = mk_dir None (rotate keep (m, Some s) o) /\
  cleanup keep (mk_dir (Some (m, None)) o) = mk_dir None o /\
  cleanup keep (mk_dir None o) = mk_dir None o.
Proof. exact (conj (cleanup_snapshot keep m s o) (conj (cleanup_no_snapshot keep m o) (cleanup_absent keep o))). Qed.
Print Assumptions cleanup_rotates_iff_snapshot.

(* every history of clean / backup operations from every directory: the folders handed to the rotation are
   old.0, old.1, ... newest first, as many as keep allows; indices >= keep are never touched (so at most keep
   rotated backups are managed); the data folder is gone after every operation *)
Theorem backup_rotation_history {S} keep (d : dir S) (sts : list (step S)) : 1 <= keep ->
  let fs := flat_map rotated_of sts in let d' := run_steps keep d sts in
  (forall i, i < length fs -> i < keep -> olds d' i = nth_error (rev fs) i) /\
  (forall j, keep <= j -> olds d' j = olds d j) /\
  (sts <> [] -> live d' = None).
Proof.
  exact (fun Hk => conj (fun i => run_steps_newest_first keep d sts i Hk)
        (conj (run_steps_beyond keep sts Hk d) (run_steps_live keep sts d))).
Qed.
Print Assumptions backup_rotation_history.

(* the boolean form evaluated on the implementation's directory listings implies the rotation relation on the listed window *)
Theorem backup_step_okb_sound keep before st after f :
  bk_step_okb keep before st after = true -> rotated_of st = [f] ->
  let o := to_olds before in let o' := to_olds after in let n := prefix o keep 0 in
  hd None after = None /\ o' 0 = Some f /\
  (forall i, i < window before -> i < n -> S i < keep -> o' (S i) = o i) /\
  (forall j, j < window before -> n < j \/ keep <= j -> o' j = o j).
Proof. exact (bk_step_okb_sound keep before st after f). Qed.
Print Assumptions backup_step_okb_sound.

(* non-vacuity: keep = 2, backups at 0, 1 and 3: the folder at 1 is discarded, 0 moves to 1, 3 is untouched *)
Example backup_example :
  let o := fun i => match i with 0 => Some 10 | 1 => Some 11 | 3 => Some 13 | _ => None end in
  map (rotate 2 7 o) [0; 1; 2; 3; 4] = [Some 7; Some 10; None; Some 13; None].
Proof. reflexivity. Qed.

(* ---------------- peerstore file (pstoremgr.go) ---------------- *)

(* for every file: LoadPeerstore returns exactly the addresses of the lines that start with '/' and parse, in file
   order; no element is nil; ImportPeersFromPeerstore never crashes, whatever the host already knows *)
Theorem peerstore_skips_garbage (ls : list line) :
  load_lines ls = flat_map keep_line ls /\
  (forall a, In a (load_lines ls) -> a <> None) /\
  (forall self ps, import_file true self ls ps <> ICrash).
Proof. exact (conj (load_lines_char ls) (conj (load_lines_no_nil ls) (fun self ps => import_file_no_crash self ls ps))). Qed.
Print Assumptions peerstore_skips_garbage.

(* the file written for any well-formed list of peer infos loads as their /p2p-suffixed addresses in order, and a fresh host
   that imports it reports the same infos, in the same (priority) order, whatever the order it is asked in *)
Theorem peerstore_roundtrip (infos : list pinfo) (self2 : N) (query : list N) :
  wf_infos infos -> ~ In self2 (map fst infos) -> Permutation query (map fst infos) ->
  load_lines (save_lines infos) = loaded_of infos /\ reload self2 infos query = Some infos.
Proof. exact (fun Hw Hs Hp => conj (load_save infos) (reload_roundtrip self2 infos query Hw Hs Hp)). Qed.
Print Assumptions peerstore_roundtrip.

(* what PeerInfos returns is always well formed (for every peerstore reachable by imports and every list of distinct
   peers), so the round trip applies to whatever a host saves at shutdown: whatever file the host started from, what
   it saves reads back identically on another host *)
Theorem peerstore_roundtrip_from_any_file (ls : list line) (self self2 : N) (peers query : list N) (ps : pstore) :
  import_file true self ls ps_empty = IOk ps -> NoDup peers ->
  let infos := peer_infos self ps peers in
  wf_infos infos /\
  (~ In self2 (map fst infos) -> Permutation query (map fst infos) -> reload self2 infos query = Some infos).
Proof.
  exact (fun E Hnd => conj (proj1 (peer_infos_wf self ps peers (import_peers_ok self _ _ _ _ ps_empty_ok E) Hnd))
                           (roundtrip_from_any_file ls self peers self2 query ps E Hnd)).
Qed.
Print Assumptions peerstore_roundtrip_from_any_file.

(* S14, before the repair (fix: LoadPeerstore skips lines that fail to parse): the line "/foo" yields a nil element and
   the import dereferences it. Kept as the witness of what the corpus input used to do. *)
Example peerstore_nil_before_fix :
  load_lines_before_fix [LText slash None] = [None] /\ import_file false 0 [LText slash None] ps_empty = ICrash /\
  load_lines [LText slash None] = [].
Proof. repeat split. Qed.

(* non-vacuity: two peers, one with two IP addresses and one with a DNS address *)
Example peerstore_example :
  let infos := [(5, [(1, false); (3, false)]); (7, [(2, true)])]%N in
  wf_infos infos /\ reload 0 infos [7; 5]%N = Some infos.
Proof.
  split; [|reflexivity]. split; [repeat constructor; simpl; intuition discriminate|].
  intros pi [<-|[<-|[]]]; (split; [discriminate|split; [repeat constructor; unfold tr_key; simpl; lia|simpl; auto]]).
Qed.

(* ---------------- pinsets: Marshal/Unmarshal, snapshots read offline, export/import ---------------- *)
(* (V.Model.C14_State: a pin is (cid, (content, #origins)); `ord` is the datastore's query order, any permutation) *)

(* serialising then deserialising onto an empty store reproduces the pinset (onto a non-empty store: C01, S1) *)
Theorem marshal_unmarshal_id ord s : order_oracle ord -> keys_nodup s -> same_pinset (unmarshal (marshal ord s) []) s.
Proof. exact (marshal_unmarshal_same ord s). Qed.
Print Assumptions marshal_unmarshal_id.

(* SnapshotSave then LastStateRaw / OfflineState, from every directory state (with or without a previous snapshot,
   any backups, any retention): the saved stream is the newest snapshot and reads back as the same pinset *)
Theorem snapshot_offline_id keep ord s (d : dir snapshot) : order_oracle ord -> keys_nodup s ->
  last_state_raw (snapshot_save keep (marshal ord s) d) = Some (marshal ord s) /\
  same_pinset (offline_state (snapshot_save keep (marshal ord s) d) []) s.
Proof. exact (fun Ho Hn => conj (last_state_after_save keep (marshal ord s) d) (snapshot_offline_same keep ord s d Ho Hn)). Qed.
Print Assumptions snapshot_offline_id.

(* saving over data that holds a snapshot rotates it into old.0 first; otherwise no backup is touched *)
Theorem snapshot_save_keeps_previous_snapshot {S} keep (payload : S) m (s : S) o (d : dir S) : 1 <= keep ->
  olds (snapshot_save keep payload (mk_dir (Some (m, Some s)) o)) 0 = Some (m, Some s) /\
  (last_state_raw d = None -> olds (snapshot_save keep payload d) = olds d).
Proof. exact (fun Hk => conj (snapshot_save_keeps_previous keep payload m s o Hk) (snapshot_save_no_previous keep payload d)). Qed.
Print Assumptions snapshot_save_keeps_previous_snapshot.

(* export then import is NOT the identity for every pinset: a pin with origins is exported but its line does not decode (S19) *)
Theorem export_import_id_refuted :
  exists ord s, order_oracle ord /\ keys_nodup s /\ import_lines (export ord s) [] = None.
Proof.
  exists (fun x => x), [(1, (1, 1))]%N. split; [intros s; apply Permutation_refl|]. split; [repeat constructor; simpl; tauto|reflexivity].
Qed.
Print Assumptions export_import_id_refuted.

(* under the guard that no pin carries origins, for every pinset and every listing order *)
Theorem export_import_id_partial ord s : order_oracle ord -> keys_nodup s -> no_origins s ->
  exists s', import_lines (export ord s) [] = Some s' /\ same_pinset s' s.
Proof. exact (export_import_same ord s). Qed.
Print Assumptions export_import_id_partial.

(* raft state manager: exporting from any data directory and importing into ANY other one (whatever it held, any
   backups, any retention) succeeds and leaves exactly the exported pinset; what the destination held before is its
   newest backup *)
Theorem raft_export_import_id_partial keep ord1 ord2 (dsrc ddst : dir snapshot) :
  order_oracle ord1 -> order_oracle ord2 -> no_origins (offline_state dsrc []) ->
  exists d', raft_import keep ord2 (raft_export ord1 dsrc) ddst = (d', ImpOk) /\
             same_pinset (offline_state d' []) (offline_state dsrc []).
Proof. exact (raft_export_import keep ord1 ord2 dsrc ddst). Qed.
Print Assumptions raft_export_import_id_partial.

Theorem raft_import_previous_is_newest_backup keep ord ls m (sn : snapshot) o : 1 <= keep ->
  olds (fst (raft_import keep ord ls (mk_dir (Some (m, Some sn)) o))) 0 = Some (m, Some sn).
Proof. exact (raft_import_keeps_previous keep ord ls m sn o). Qed.
Print Assumptions raft_import_previous_is_newest_backup.

(* a stream that does not import leaves the destination empty (the Clean has happened), not half-imported *)
Theorem raft_import_failure_leaves_empty keep ord ls (d : dir snapshot) : import_lines ls [] = None ->
  raft_import keep ord ls d = (cleanup keep d, ImpErr) /\ offline_state (cleanup keep d) [] = [].
Proof. exact (raft_import_failure keep ord ls d). Qed.
Print Assumptions raft_import_failure_leaves_empty.

(* crdt state manager: additionally the empty pinset does not survive the trip (Commit of an empty batch crashes) *)
Theorem crdt_export_import_id_refuted :
  exists ord s0, order_oracle ord /\ crdt_import (export ord []) s0 = ([], ImpCrash).
Proof. exists (fun x => x), []. split; [intros s; apply Permutation_refl|reflexivity]. Qed.
Print Assumptions crdt_export_import_id_refuted.

Theorem crdt_export_import_id_partial ord s s0 : order_oracle ord -> keys_nodup s -> no_origins s -> s <> [] ->
  exists s', crdt_import (export ord s) s0 = (s', ImpOk) /\ same_pinset s' s.
Proof. exact (crdt_export_import ord s s0). Qed.
Print Assumptions crdt_export_import_id_partial.

(* non-vacuity of the guards *)
Example pinset_example :
  let s := [(3, (1, 0)); (5, (2, 0))]%N in
  keys_nodup s /\ no_origins s /\ s <> [] /\ import_lines (export (@rev entry) s) [] = Some [(3, (1, 0)); (5, (2, 0))]%N.
Proof. repeat split; try discriminate. repeat constructor; simpl; intuition discriminate. Qed.
