(* C13 — Added content is fully delivered, readable from its blocks, and pinned as asked (cluster logic).
   Statements only; every proof is `exact <lemma of Proofs/C13_Theorems.v>`.
   Quantification: every importer stream (blocks {cid, size, links}, duplicates allowed) and root, every
   shard limit, every MaxLinks > 0, every script of BlockAllocate answers (e_alloc), of BlockPut outcomes per
   (round, destination) (e_put: ok / daemon error / gorpc error) and of Pin outcomes (e_pin).
   Premises: `strict` = the importer stops at the first error of DAGService.Add; the theorems below are the
   `_partial` forms under that guard, importer_swallow_refuted is the refutation without it;
   `sizes_by_cid` = content addressing (equal CIDs, equal sizes). Traces are chronological. *)
From V Require Import Base.Common Model.C13_Adder Model.C13_Check Model.C13_Spec Proofs.C13_Theorems Proofs.C13_Monitor.
From V Require Import Model.C13_Importer Model.C13_ImporterSpec Model.C13_ShapeCheck Proofs.C13_Importer Proofs.C13_Trickle Proofs.C13_ShapeMonitor Proofs.C13_ImporterLink Proofs.C13_ImporterThm.
From V Require Import Model.C13_Tree Model.C13_TreeSpec Model.C13_TreeCheck Proofs.C13_Tree.
From Coq Require Import Sorting.Permutation.
Open Scope N_scope.

(* BlockAdder.Add fails exactly when every destination errored; otherwise the destinations that did not
   answer with a gorpc error survive, and at least one of them stored the block *)
Theorem block_adder_rule out dests :
  (ba_add out dests = None <-> forall d, In d dests -> is_err (out d) = true) /\
  (forall s, ba_add out dests = Some s ->
     s = filter (fun d => negb (is_rpc (out d))) dests /\ (exists d, In d dests /\ out d = POk) /\
     (forall d, In d dests -> out d = POk -> In d s)).
Proof. exact (block_adder_rule_l out dests). Qed.
Print Assumptions block_adder_rule.

(* the k-th call of each kind received the k-th scripted answer (so the theorems below speak about every fault placement) *)
Theorem trace_follows_oracles_shard e stream root r t : strict stream -> 0 < e_maxlinks e -> sizes_by_cid stream ->
  shard_run e stream root = (r, t) -> wf e any_pin 0 0 0 t.
Proof. exact (fun H1 H2 H3 => trace_follows_oracles_shard_l e stream root H1 H2 H3 r t). Qed.
Print Assumptions trace_follows_oracles_shard.

Theorem trace_follows_oracles_single e stream root r t : strict stream ->
  single_run e stream root = (r, t) -> wf e any_pin 0 0 0 t.
Proof. exact (fun H1 => trace_follows_oracles_single_l e stream root H1 r t). Qed.
Print Assumptions trace_follows_oracles_single.

(* sharded add, success: the data blocks put are exactly the de-duplicated stream, in order; every round stored
   its block on at least one daemon; every node of every shard DAG and of the cluster DAG was put *)
Theorem delivered_equals_produced e stream root c t : strict stream -> 0 < e_maxlinks e -> sizes_by_cid stream ->
  shard_run e stream root = (ROk c, t) ->
  data_puts t = dedup (cids_of stream) /\
  Forall (fun x => snd x <> None) (puts t) /\
  (forall k cc ds r, nth_error (puts t) k = Some (cc, ds, r) -> exists d, In d ds /\ e_put e (N.of_nat k) d = POk) /\
  (forall p, In p (ok_pins t) -> pty p = TShard \/ pty p = TClusterDAG ->
     exists l, pcid p = dag_root (e_maxlinks e) l /\ incl (make_dag (e_maxlinks e) l) (put_cids t)).
Proof. exact (fun H1 H2 H3 => delivered_equals_produced_l e stream root H1 H2 H3 c t). Qed.
Print Assumptions delivered_equals_produced.

Theorem delivered_equals_produced_single e stream root c t : strict stream ->
  single_run e stream root = (ROk c, t) ->
  data_puts t = cids_of stream /\
  (forall k cc ds r, nth_error (puts t) k = Some (cc, ds, r) -> exists d, In d ds /\ e_put e (N.of_nat k) d = POk).
Proof. exact (fun H1 => delivered_equals_produced_single_l e stream root H1 c t). Qed.
Print Assumptions delivered_equals_produced_single.

(* hence, with the importer's contract (link-closed stream containing the root), what was delivered is closed
   under links from the root *)
Theorem delivered_closed e stream root c t : strict stream -> 0 < e_maxlinks e -> sizes_by_cid stream ->
  link_closed stream -> In root (cids_of stream) ->
  shard_run e stream root = (ROk c, t) -> forall x, reach stream root x -> In x (data_puts t).
Proof. exact (fun H1 H2 H3 => delivered_closed_l e stream root H1 H2 H3 c t). Qed.
Print Assumptions delivered_closed.

Theorem delivered_closed_single e stream root c t : strict stream ->
  link_closed stream -> In root (cids_of stream) ->
  single_run e stream root = (ROk c, t) -> forall x, reach stream root x -> In x (data_puts t).
Proof. exact (fun H1 => delivered_closed_single_l e stream root H1 c t). Qed.
Print Assumptions delivered_closed_single.

(* without faults no destination is ever dropped: every round reaches all the destinations it was given *)
Theorem no_fault_keeps_destinations e stream root r t : strict stream -> 0 < e_maxlinks e -> sizes_by_cid stream ->
  (forall k d, e_put e k d = POk) -> shard_run e stream root = (r, t) ->
  Forall (fun x => match x with (_, ds, res) => ds <> [] -> res = Some ds end) (puts t).
Proof. exact (fun H1 H2 H3 Hnf H => no_fault_keeps_destinations_l e any_pin 0 0 0 t Hnf (trace_follows_oracles_shard_l e stream root H1 H2 H3 r t H)). Qed.
Print Assumptions no_fault_keeps_destinations.

(* the links of the shard pins, in order, are the de-duplicated stream: a partition of the blocks *)
Theorem shards_partition e stream root c t : strict stream -> 0 < e_maxlinks e -> sizes_by_cid stream ->
  shard_run e stream root = (ROk c, t) ->
  flat_map (fun p => flatten_data (pcid p)) (filter is_shard_pin (ok_pins t)) = dedup (cids_of stream).
Proof. exact (fun H1 H2 H3 => shards_partition_l e stream root H1 H2 H3 c t). Qed.
Print Assumptions shards_partition.

(* every shard pin ever issued (also in runs that fail later) accounts for exactly the sizes of its links and is under the limit *)
Theorem shard_under_limit e stream root r t q : strict stream -> 0 < e_maxlinks e -> sizes_by_cid stream ->
  shard_run e stream root = (r, t) -> In q (all_pins t) -> pty q = TShard ->
  pssize q < e_limit e /\ pssize q = sum_sizes stream (flatten_data (pcid q)).
Proof. exact (fun H1 H2 H3 => shard_under_limit_l e stream root H1 H2 H3 r t q). Qed.
Print Assumptions shard_under_limit.

(* a block that does not fit an empty shard makes the add fail: success implies every block is under the limit *)
Theorem oversized_block_fails e stream root c t b : strict stream -> 0 < e_maxlinks e -> sizes_by_cid stream ->
  shard_run e stream root = (ROk c, t) -> In b stream -> bsize b < e_limit e.
Proof. exact (fun H1 H2 H3 => oversized_block_fails_l e stream root H1 H2 H3 c t b). Qed.
Print Assumptions oversized_block_fails.

(* every shard pin ever issued is deep enough to cover its DAG, and no deeper than needed: 1 when the node
   links the blocks directly, 2 when it goes through leaf nodes *)
Theorem shard_depth_covers e stream root r t q : strict stream -> 0 < e_maxlinks e -> sizes_by_cid stream ->
  shard_run e stream root = (r, t) -> In q (all_pins t) -> pty q = TShard ->
  covers (pcid q) (Z.to_nat (pdepth q)) = true /\ (pdepth q = 1 \/ pdepth q = 2)%Z /\
  (pdepth q = 1%Z <-> covers (pcid q) 1 = true).
Proof. exact (fun H1 H2 H3 => shard_depth_covers_l e stream root H1 H2 H3 r t q). Qed.
Print Assumptions shard_depth_covers.

(* S13: the condition shipped in shard.Flush (`len(nodes) > len(links)+1`) gives depth 1 for MaxLinks+1 links,
   which does not cover the data blocks; the repaired condition gives 2 *)
Theorem shard_depth_shipped_refuted :
  let links := map N.of_nat (seq 0 5985) in
  let nodes := make_dag 5984 (map CData links) in
  shard_depth_shipped nodes links = 1%Z /\ covers (dag_root 5984 (map CData links)) 1 = false /\ shard_depth nodes links = 2%Z.
Proof. exact shard_depth_shipped_refuted_l. Qed.
Print Assumptions shard_depth_shipped_refuted.

(* success: exactly the shard pins (type, name, allocation of the shard unless replicated everywhere, depth,
   reference to the previous shard, requested factors, accounted size), then the cluster-DAG pin (everywhere,
   direct, referencing the root) and the meta pin of the root (requested factors, referencing the cluster DAG);
   every pin call succeeded; the shards partition the stream; every put went to destinations inside the
   allocation its shard pin carries *)
Theorem final_pins_sharded e stream root c t : strict stream -> 0 < e_maxlinks e -> sizes_by_cid stream ->
  shard_run e stream root = (ROk c, t) ->
  c = CData root /\ exists xs, xs <> [] /\
    ok_pins t = shard_pins_of e 0 None xs ++ [cdag_pin e root xs; meta_pin e root xs] /\
    all_pins t = ok_pins t /\
    concat (map r_links xs) = dedup (cids_of stream) /\
    Forall (fun x => r_size x = sum_sizes stream (r_links x) /\ r_size x < e_limit e /\ In (Some (r_allocs x)) (alloc_results t)) xs /\
    within_allocation e t.
Proof. exact (fun H1 H2 H3 => final_pins_sharded_l e stream root H1 H2 H3 c t). Qed.
Print Assumptions final_pins_sharded.

(* unsharded success: exactly one pin, of the root, recursive, with the requested factors and the allocation
   obtained by the single BlockAllocate call; every put went to that allocation (or to the local daemon with local=true) *)
Theorem final_pins_single e stream root c t : strict stream ->
  single_run e stream root = (ROk c, t) ->
  c = CData root /\ exists al,
    ok_pins t = [single_pin e root al] /\ all_pins t = ok_pins t /\
    (stream <> [] -> alloc_results t = [Some al] /\ e_alloc e 0 = Some al) /\
    Forall (fun x => incl (snd (fst x)) (if e_local e then [0] else al)) (puts t).
Proof. exact (fun H1 => final_pins_single_l e stream root H1 c t). Qed.
Print Assumptions final_pins_single.

(* failure: no successful pin of the root (neither a data pin nor a meta pin) *)
Theorem failure_no_root_pin e stream root er t q : strict stream -> 0 < e_maxlinks e -> sizes_by_cid stream ->
  shard_run e stream root = (RErr er, t) -> In q (ok_pins t) -> pcid q <> CData root.
Proof. exact (fun H1 H2 H3 => failure_no_root_pin_l e stream root H1 H2 H3 er t q). Qed.
Print Assumptions failure_no_root_pin.

Theorem failure_no_root_pin_single e stream root er t : strict stream ->
  single_run e stream root = (RErr er, t) -> ok_pins t = [].
Proof. exact (fun H1 => failure_no_root_pin_single_l e stream root H1 er t). Qed.
Print Assumptions failure_no_root_pin_single.

(* the retry of ingestBlock recurses at most once *)
Theorem ingest_fuel_enough e stream root r t : strict stream -> 0 < e_maxlinks e -> sizes_by_cid stream ->
  shard_run e stream root = (r, t) -> r <> RErr EFuel.
Proof. exact (fun H1 H2 H3 => ingest_fuel_enough_l e stream root H1 H2 H3 r t). Qed.
Print Assumptions ingest_fuel_enough.

(* finding unixfs-balanced-first-leaf-error-swallowed: the guard `strict` cannot be dropped. With an importer that goes on
   after a failed DAGService.Add of block 1 (first BlockAllocate fails, resp. every destination refuses the
   first put) the add succeeds, the root 3 is pinned, block 1 is reachable from it and was never delivered
   (unsharded: never put; sharded: its only put failed, yet the shard pin lists it) *)
Theorem importer_swallow_refuted :
  sizes_by_cid swallow_stream /\ link_closed swallow_stream /\ reach swallow_stream 3 1 /\
  (exists t, single_run swallow_env_alloc swallow_stream 3 = (ROk (CData 3), t) /\ ~ In 1 (data_puts t) /\
             exists q, In q (ok_pins t) /\ pcid q = CData 3) /\
  (exists t, shard_run swallow_env_put swallow_stream 3 = (ROk (CData 3), t) /\
             Exists (fun x => fst (fst x) = CData 1 /\ snd x = None) (puts t) /\
             flat_map (fun p => flatten_data (pcid p)) (filter is_shard_pin (ok_pins t)) = [1; 2; 3]).
Proof. exact importer_swallow_refuted_l. Qed.
Print Assumptions importer_swallow_refuted.

(* non-vacuity: a concrete sharded add with two shards, a dropped destination and a duplicate block succeeds *)
Example sharded_example :
  let e := mkenv 1 2 100 5984 false (fun k => if k =? 0 then Some [1; 2] else Some [3])
                 (fun j d => if (j =? 1) && (d =? 2) then PRpc else POk) (fun _ => true) in
  let stream := [mkb 1 40 []; mkb 2 50 []; mkb 1 40 []; mkb 3 30 [1; 2]] in
  strict stream /\ sizes_by_cid stream /\ link_closed stream /\
  fst (shard_run e stream 3) = ROk (CData 3) /\
  map pssize (filter is_shard_pin (ok_pins (snd (shard_run e stream 3)))) = [90; 30] /\
  map pallocs (filter is_shard_pin (ok_pins (snd (shard_run e stream 3)))) = [[1; 2]; [3]].
Proof.
  split; [intros b [<-|[<-|[<-|[<-|[]]]]]; reflexivity|].
  split; [intros b b' [<-|[<-|[<-|[<-|[]]]]] [<-|[<-|[<-|[<-|[]]]]]; simpl; intros; congruence|].
  split; [intros b l [<-|[<-|[<-|[<-|[]]]]]; simpl; intuition (subst; auto)|].
  vm_compute. repeat split.
Qed.

(* ---- the run-time monitors of Model/C13_Check.v (codes 10..15) and the theorems above ----
   check_case applies them to the implementation's result r and chronological trace t for a generated input i
   (stream, root, limit, MaxLinks, scripted allocation / put / pin outcomes). *)

(* completeness: for every input whose importer is strict (and, sharded, MaxLinks > 0 and content-addressed sizes), the
   model's own result and trace — sharded, unsharded, or given up by the importer — pass all six monitors *)
Theorem model_passes_monitors i : strict (i_stream i) -> (i_shard i = true -> 0 < i_maxlinks i /\ sizes_by_cid (i_stream i)) ->
  let '(r, t) := run i in
  delivered_okb i r t = true /\ partition_okb i r t = true /\ under_limit_okb i r t = true /\ depth_okb i r t = true /\
  final_pins_okb i r t = true /\ failure_okb i r t = true.
Proof. exact (model_passes_monitors_l i). Qed.
Print Assumptions model_passes_monitors.

(* soundness, code 10: the data blocks put are the (de-duplicated, when sharding) stream in order; every round stored its block
   on a daemon that answered ok; the root and every linked block of the stream were delivered; sharded: every node of
   every shard DAG and of the cluster DAG was put (delivered_spec, Proofs/C13_Monitor.v) *)
Theorem delivered_monitor_sound i r t : delivered_okb i r t = true -> is_ok r = true -> delivered_spec i t.
Proof. exact (delivered_okb_sound_l i r t). Qed.
Print Assumptions delivered_monitor_sound.

(* ... hence, with the importer's contract, everything reachable from the root was delivered *)
Theorem delivered_closed_monitor_sound i r t : delivered_okb i r t = true -> is_ok r = true ->
  link_closed (i_stream i) -> In (i_root i) (cids_of (i_stream i)) -> forall x, reach (i_stream i) (i_root i) x -> In x (data_puts t).
Proof. exact (delivered_closed_sound_l i r t). Qed.
Print Assumptions delivered_closed_monitor_sound.

(* code 11: the shard pins partition the de-duplicated stream, and the cluster DAG pinned is the DAG of the shard pins *)
Theorem partition_monitor_sound i r t : partition_okb i r t = true -> is_ok r = true -> i_shard i = true -> partition_spec i t.
Proof. exact (partition_okb_sound_l i r t). Qed.
Print Assumptions partition_monitor_sound.

(* code 12: every shard pin issued accounts for exactly the sizes of its blocks and is under the limit *)
Theorem under_limit_monitor_sound i r t : under_limit_okb i r t = true -> i_shard i = true ->
  forall q, In q (all_pins t) -> pty q = TShard ->
  pssize q < i_limit i /\ pssize q = sum_sizes (i_stream i) (flatten_data (pcid q)).
Proof. exact (under_limit_okb_sound_l i r t). Qed.
Print Assumptions under_limit_monitor_sound.

(* code 13: every shard pin issued is recursive or deep enough to cover its DAG *)
Theorem depth_monitor_sound i r t : depth_okb i r t = true ->
  forall q, In q (all_pins t) -> pty q = TShard -> (pdepth q < 0)%Z \/ covers (pcid q) (Z.to_nat (pdepth q)) = true.
Proof. exact (depth_okb_sound i r t). Qed.
Print Assumptions depth_monitor_sound.

(* code 14: success returns the root; sharded: the successful pins are the shard pins (requested factors, numbered, chained),
   then the cluster-DAG pin (everywhere, direct, referencing the root), then the meta pin of the root referencing the cluster
   DAG, and every put / data pin stayed within the allocation in force; unsharded: one recursive data pin of the root with the
   requested factors, puts to the local daemon only (local) or within the allocation *)
Theorem final_pins_monitor_sound i r t : final_pins_okb i r t = true -> is_ok r = true ->
  r = ROk (CData (i_root i)) /\ (if i_shard i then final_sharded_spec i t else final_single_spec i t).
Proof. exact (final_pins_okb_sound_l i r t). Qed.
Print Assumptions final_pins_monitor_sound.

(* code 15: a failed add leaves no successful pin of the root *)
Theorem failure_monitor_sound i r t : failure_okb i r t = true -> is_ok r = false ->
  forall q, In q (ok_pins t) -> pcid q <> CData (i_root i).
Proof. exact (failure_okb_sound i r t). Qed.
Print Assumptions failure_monitor_sound.

(* non-vacuity: the sharded example above as a harness input meets the premises and its run passes; the same trace without
   its first put, or an unsharded add whose root pin failed reported as a success, does not *)
Example c13_monitor_example :
  let i := mk_input true 1 2 100 5984 false [Some [1; 2]; Some [3]] [(1, 2, PRpc)] []
                    [mkb 1 40 []; mkb 2 50 []; mkb 1 40 []; mkb 3 30 [1; 2]] 3 false in
  strict (i_stream i) /\ 0 < i_maxlinks i /\ sizes_by_cid (i_stream i) /\
  fst (run i) = ROk (CData 3) /\ delivered_okb i (fst (run i)) (snd (run i)) = true /\ final_pins_okb i (fst (run i)) (snd (run i)) = true /\
  delivered_okb i (fst (run i)) (filter (fun ev => match ev with EPut (CData 1) _ _ => false | _ => true end) (snd (run i))) = false /\
  failure_okb i (RErr EPinFail) (snd (run i)) = false.
Proof. cbv zeta.
  split; [intros b [<-|[<-|[<-|[<-|[]]]]]; reflexivity|]. split; [reflexivity|].
  split; [intros b b' [<-|[<-|[<-|[<-|[]]]]] [<-|[<-|[<-|[<-|[]]]]]; simpl; intros; congruence|].
  vm_compute. repeat split. Qed.


(* ======================================================================================================================
   The importer for ONE file (Model/C13_Importer.v: size chunker, DagBuilderHelper, balanced and trickle layouts of
   go-unixfs v0.2.6 as written). Quantification: every byte string bs, every chunk size k > 0, every links-per-block
   ml >= min_links (2 for balanced, 1 for trickle; the shipped value is 174). A block is its content (Leaf chunk | Node of
   (child, recorded size)); the hash is any function without collision on the blocks of the DAG at hand (injective_on).
   Not covered (still differential, TestVerifC13Files): directories, HAMT, dag-pb / UnixFS encodings, SHA-256, rabin / buzhash.
   ====================================================================================================================== *)

(* the size splitter cuts the file into consecutive pieces: nothing lost, nothing reordered *)
Theorem chunk_concat k bs : 0 < k -> concat (chunk k bs) = bs.
Proof. exact (chunk_concat_l k bs). Qed.
Print Assumptions chunk_concat.

(* every chunk is non-empty and has at most k bytes, all but the last exactly k; the empty file has no chunk *)
Theorem chunk_sizes k bs : 0 < k ->
  Forall (fun c => c <> [] /\ blen c <= k) (chunk k bs) /\ all_but_last (fun c => blen c = k) (chunk k bs) /\ (chunk k bs = [] <-> bs = []).
Proof. exact (chunk_sizes_l k bs). Qed.
Print Assumptions chunk_sizes.

(* termination: the fuel the transcription passes to the layout loops suffices; the layout returns its root, the file size as
   the recorded size of the root, and hands the blocks to DAGService.Add in post-order (children first, left to right, root last) *)
Theorem importer_total trickle ml k bs : 0 < k -> min_links trickle <= ml ->
  let r := importer trickle ml k bs in
  r = inr (layout_tree r, blen bs, postorder (layout_tree r)) /\ read_back (layout_tree r) = bs.
Proof. exact (importer_total_l trickle ml k bs). Qed.
Print Assumptions importer_total.

(* the bound 2 is exact for balanced: with one link per block Layout never takes a chunk (the Go loop does not end) *)
Theorem balanced_one_link_diverges fuel d root fsz s : d_rest s <> [] -> layout_loop 1 fuel (S d) root fsz s = inl IFuel.
Proof. exact (balanced_one_link_diverges_thm fuel d root fsz s). Qed.
Print Assumptions balanced_one_link_diverges.

(* a sequential reader of the balanced DAG returns the file *)
Theorem balanced_read_back ml k bs : 0 < k -> 2 <= ml -> read_back (layout_tree (balanced_layout ml (chunk k bs))) = bs.
Proof. exact (fun Hk Hml => proj2 (importer_total_l false ml k bs Hk Hml)). Qed.
Print Assumptions balanced_read_back.

(* balanced: the leaves are the chunks in order (the empty file is one empty leaf); every internal node has between 1 and ml
   children and records for each the bytes below it; all leaves are at the same depth *)
Theorem balanced_leaves_in_order_and_fanout ml chunks : 2 <= ml ->
  let t := layout_tree (balanced_layout ml chunks) in
  (chunks <> [] -> leaves t = chunks) /\ (chunks = [] -> t = Leaf []) /\ all_nodes (node_ok ml) t /\ uniform (height t) t.
Proof. exact (balanced_shape_l ml chunks). Qed.
Print Assumptions balanced_leaves_in_order_and_fanout.

(* trickle: the leaves are the chunks in order (the empty file is an internal node without links); below the root no internal
   node is empty and every link records the bytes below it *)
Theorem trickle_leaves_in_order ml chunks : 1 <= ml ->
  let t := layout_tree (trickle_layout ml chunks) in
  leaves t = chunks /\ (exists ch, t = Node ch /\ (chunks <> [] -> ch <> [])) /\ (forall n, In n (below t) -> tnode_ok n).
Proof. exact (trickle_shape_l ml chunks). Qed.
Print Assumptions trickle_leaves_in_order.

(* trickle, the layer structure (tshape): every node has at most ml leaves first, sub-trees only after a full leaf layer, and the i-th
   sub-tree was made with maxDepth i/4 + 1 (four sub-trees per depth, depth 1 first), recursively; hence the fan-out of a node made
   with maxDepth m is at most ml + 4 (m - 1) *)
Theorem trickle_layers ml chunks : 1 <= ml -> tshape (S (length chunks)) ml None (layout_tree (trickle_layout ml chunks)).
Proof. exact (trickle_layout_shape ml chunks). Qed.
Print Assumptions trickle_layers.

Theorem trickle_fanout fuel ml m ch : tshape fuel ml (Some m) (Node ch) -> N.of_nat (length ch) <= ml + 4 * N.of_nat (m - 1).
Proof. exact (tshape_fanout fuel ml m ch). Qed.
Print Assumptions trickle_fanout.

(* both layouts: every link of every node records the number of file bytes below it, the root records the file size *)
Theorem importer_recorded_sizes trickle ml k bs : 0 < k -> min_links trickle <= ml ->
  let r := importer trickle ml k bs in
  all_nodes sized (layout_tree r) /\ layout_size r = blen bs /\ tsize (layout_tree r) = blen bs.
Proof. exact (importer_sizes_l trickle ml k bs). Qed.
Print Assumptions importer_recorded_sizes.

(* ... so a reader can seek: skipping every child whose recorded size lies before the offset yields bytes [off, off+n) of the file *)
Theorem importer_seek trickle ml k bs off n : 0 < k -> min_links trickle <= ml ->
  read_range (layout_tree (importer trickle ml k bs)) off n = firstn (N.to_nat n) (skipn (N.to_nat off) bs).
Proof. exact (importer_seek_l trickle ml k bs off n). Qed.
Print Assumptions importer_seek.

Theorem seek_correct t : all_nodes sized t -> forall off n,
  read_range t off n = firstn (N.to_nat n) (skipn (N.to_nat off) (read_back t)).
Proof. exact (read_range_correct t). Qed.
Print Assumptions seek_correct.

(* emission order: in the order of DAGService.Add every block's children come before it, the last block is the root, and
   every link of an emitted block goes to an emitted block *)
Theorem importer_emission_closed trickle ml k bs : 0 < k -> min_links trickle <= ml ->
  let r := importer trickle ml k bs in
  layout_emission r = postorder (layout_tree r) /\ children_first (layout_emission r) /\
  last (layout_emission r) (Leaf []) = layout_tree r /\
  (forall n c, In n (layout_emission r) -> In c (kids n) -> In c (layout_emission r)).
Proof. exact (importer_emission_l trickle ml k bs). Qed.
Print Assumptions importer_emission_closed.

(* hence the model's stream meets the importer contract the adder theorems above assume: strict, link-closed, contains the root,
   and (no CID collision among its blocks) equal CIDs have equal sizes *)
Theorem importer_stream_contract cid_of enc_size trickle ml k bs : 0 < k -> min_links trickle <= ml ->
  let r := importer trickle ml k bs in
  let stream := stream_of cid_of enc_size (layout_emission r) in
  strict stream /\ link_closed stream /\ In (cid_of (layout_tree r)) (cids_of stream) /\
  (injective_on (postorder (layout_tree r)) cid_of -> sizes_by_cid stream).
Proof. exact (importer_stream_contract_l cid_of enc_size trickle ml k bs). Qed.
Print Assumptions importer_stream_contract.

(* ONE FILE, END TO END (unsharded): for every file content, chunk size, layout and admissible links-per-block, every hash without
   collision on the DAG, every allocation / put-outcome / pin-outcome script: if the add succeeds then it returns the importer's
   root, exactly that root is pinned, every block reachable from the root was put to a daemon, and a reader that only has the
   blocks that were put gets back exactly the bytes of the file *)
Theorem single_file_delivered_closed_and_readable cid_of enc_size e trickle ml k bs c t : 0 < k -> min_links trickle <= ml ->
  let r := importer trickle ml k bs in
  let root := cid_of (layout_tree r) in
  let stream := stream_of cid_of enc_size (layout_emission r) in
  injective_on (postorder (layout_tree r)) cid_of ->
  single_run e stream root = (ROk c, t) ->
  c = CData root /\ (exists al, ok_pins t = [single_pin e root al]) /\
  (forall x, reach stream root x -> In x (data_puts t)) /\
  read_store (store_of cid_of (layout_emission r) (data_puts t)) (S (height (layout_tree r))) root = Some bs.
Proof. exact (fun Hk Hml Hinj => single_file_unsharded_l cid_of enc_size e trickle ml k bs Hk Hml Hinj c t). Qed.
Print Assumptions single_file_delivered_closed_and_readable.

(* the same through the sharding DAG service (every shard limit, MaxLinks > 0): the root is the same importer root, it is pinned
   by the meta pin, and the blocks put to the daemons are closed from it and read back to the file *)
Theorem single_file_delivered_closed_and_readable_sharded cid_of enc_size e trickle ml k bs c t : 0 < k -> min_links trickle <= ml ->
  let r := importer trickle ml k bs in
  let root := cid_of (layout_tree r) in
  let stream := stream_of cid_of enc_size (layout_emission r) in
  injective_on (postorder (layout_tree r)) cid_of -> 0 < e_maxlinks e ->
  shard_run e stream root = (ROk c, t) ->
  c = CData root /\ (exists q, In q (ok_pins t) /\ pcid q = CData root /\ pty q = TMeta) /\
  (forall x, reach stream root x -> In x (data_puts t)) /\
  read_store (store_of cid_of (layout_emission r) (data_puts t)) (S (height (layout_tree r))) root = Some bs.
Proof. exact (fun Hk Hml Hinj => single_file_sharded_l cid_of enc_size e trickle ml k bs Hk Hml Hinj c t). Qed.
Print Assumptions single_file_delivered_closed_and_readable_sharded.

(* ---- the monitors of Model/C13_ShapeCheck.v applied to the DAG the real importer built (codes 30, 32, 33) ---- *)
(* code 30: every link of an observed block goes to a block handed to the DAG service before it; the last one is the returned root *)
Theorem closed_monitor_sound bs root : closed_okb bs root = true ->
  links_before bs /\ exists pre b, bs = pre ++ [b] /\ ob_id b = root.
Proof. exact (closed_okb_sound bs root). Qed.
Print Assumptions closed_monitor_sound.

(* codes 32 / 33 say what they should *)
Theorem shape_monitors_sound lo hi d t :
  (fanout_okb lo hi t = true <-> all_nodes (fun n => match n with Leaf _ => True | Node ch => lo <= N.of_nat (length ch) <= hi end) t) /\
  (uniformb d t = true <-> uniform d t) /\ (sizes_okb t = true <-> all_nodes sized t).
Proof. exact (conj (fanout_okb_iff lo hi t) (conj (uniformb_iff d t) (sizes_okb_iff t))). Qed.
Print Assumptions shape_monitors_sound.

(* completeness: the model's own DAG passes them *)
Theorem balanced_passes_monitors ml chunks : 2 <= ml ->
  let t := layout_tree (balanced_layout ml chunks) in
  fanout_okb 1 ml t = true /\ uniformb (height t) t = true /\ sizes_okb t = true.
Proof. exact (balanced_passes ml chunks). Qed.
Print Assumptions balanced_passes_monitors.

Theorem trickle_passes_monitors ml chunks : 1 <= ml ->
  let t := layout_tree (trickle_layout ml chunks) in
  trickle_okb (S (length chunks)) ml None t = true /\
  sizes_okb t = true /\ (chunks <> [] -> forallb (fun n => match n with Node [] => false | _ => true end) (postorder t) = true).
Proof. exact (fun H => conj (trickle_passes_shape ml chunks H) (trickle_passes ml chunks H)). Qed.
Print Assumptions trickle_passes_monitors.

(* the trickle monitor (code 32) decides the layer structure *)
Theorem trickle_monitor_sound ml fuel md t : trickle_okb fuel ml md t = true <-> tshape fuel ml md t.
Proof. exact (trickle_okb_iff ml fuel md t). Qed.
Print Assumptions trickle_monitor_sound.

(* non-vacuity: an 11-byte file, chunks of 2 bytes, 2 links per block: the balanced DAG of depth 3 (12 blocks); a collision-free
   CID function on it; an unsharded add to peers 1 and 2 where peer 2 drops out at the third block succeeds, pins the root, and
   the blocks put read back to the file; bytes 3..7 by seeking *)
Example single_file_example :
  let bs := [10; 11; 12; 13; 14; 15; 16; 17; 18; 19; 20] in
  let r := importer false 2 2 bs in
  let cid_of := fun t => tsize t * 10000 + hd 0 (read_back t) * 10 + N.of_nat (height t) in
  let e := mkenv 1 2 0 5984 false (fun _ => Some [1; 2]) (fun j d => if (j =? 2) && (d =? 2) then PRpc else POk) (fun _ => true) in
  let stream := stream_of cid_of (fun t => tsize t + 7) (layout_emission r) in
  length (layout_emission r) = 12%nat /\ height (layout_tree r) = 3%nat /\
  injective_on (postorder (layout_tree r)) cid_of /\
  fst (single_run e stream (cid_of (layout_tree r))) = ROk (CData (cid_of (layout_tree r))) /\
  read_store (store_of cid_of (layout_emission r) (data_puts (snd (single_run e stream (cid_of (layout_tree r))))))
             4 (cid_of (layout_tree r)) = Some bs /\
  read_range (layout_tree r) 3 5 = [13; 14; 15; 16; 17] /\
  layout_tree (importer true 2 2 bs) <> layout_tree r.
Proof. cbv zeta. split; [reflexivity|]. split; [reflexivity|]. split; [apply nodup_injective_on; vm_compute; reflexivity|].
  split; [vm_compute; reflexivity|]. split; [vm_compute; reflexivity|]. split; [vm_compute; reflexivity|]. vm_compute. discriminate. Qed.


(* ======================================================================================================================
   FILE TREES (Model/C13_Tree.v: ipfsadd AddAllAndPin / addDir / addFile / addNode / outputDirs / PinRoot, go-mfs Mkdir /
   PutNode / GetNode / Flush / Close, go-unixfs BasicDirectory, sorted dag-pb links, the hidden filter of go-ipfs-files, wrap).
   Quantification: every tree (File bytes | Dir of named entries, names unique per directory: names_unique), hidden on/off,
   wrap on/off, every chunk size k > 0, layout, links-per-block >= min_links (params_ok). No HAMT: the code never shards a
   directory while uio.HAMTShardingSize = 0 (hamt_off; nothing in ipfs-cluster sets it, and go-mfs builds plain BasicDirectories),
   so there is NO bound on the directory width. go-mfs emits the directory nodes in Go map order and several times: the
   theorems are stated for EVERY emission em' that has the same blocks as the model's (same_blocks), any order, any multiplicity.
   ====================================================================================================================== *)

(* the guard, shipped value *)
Example hamt_off_shipped : hamt_off 0 = true /\ hamt_off 262144 = false.
Proof. split; reflexivity. Qed.

(* the blocks handed to DAGService.Add for a tree are closed under links and contain the returned root *)
Theorem tree_emission_closed p wrap top mfs t : params_ok p ->
  let x := import_tree p wrap top mfs t in dclosed (import_emission x) /\ In (import_root x) (import_emission x).
Proof. exact (fun Hp : params_ok p => import_closed p Hp wrap top mfs t). Qed.
Print Assumptions tree_emission_closed.

(* ... so every emission with these blocks meets the importer contract the adder theorems assume *)
Theorem tree_stream_contract cid_of enc_size em root : dclosed em -> In root em ->
  let stream := tstream_of cid_of enc_size em in
  strict stream /\ link_closed stream /\ In (cid_of root) (cids_of stream) /\ (dinjective_on em cid_of -> sizes_by_cid stream).
Proof. exact (tstream_contract cid_of enc_size em root). Qed.
Print Assumptions tree_stream_contract.

(* a directory node links exactly the names of its entries, each once, sorted by name (Go string order), each to the final node of
   that entry: insertion order does not matter *)
Theorem dir_links_named p es :
  exists ls, dag_of p (Dir es) = DDir ls /\ Permutation (map fst ls) (map fst es) /\ sorted_names (map fst ls) /\
    forall n d, In (n, d) ls <-> exists c, In (n, c) es /\ d = dag_of p c.
Proof. exact (dir_links_named_l p es). Qed.
Print Assumptions dir_links_named.

(* reading back: from any store that holds a link-closed set of blocks containing the final node of a tree, every file of the tree
   is found by its path and reads back byte for byte *)
Theorem tree_read_back cid_of st em p : dclosed em -> (forall n, In n em -> st (cid_of n) = Some (tcontent_of cid_of n)) ->
  params_ok p -> forall t, In (dag_of p t) em -> names_unique t = true ->
  forall path bs, In (path, bs) (files_of t) -> read_file st (S (file_height p bs)) (cid_of (dag_of p t)) path = Some bs.
Proof. exact (fun Hc Hst => tree_read_back_gen cid_of st em Hc Hst p). Qed.
Print Assumptions tree_read_back.

(* A TREE, END TO END (unsharded): every tree, hidden / wrap option, import parameters, every emission with the model's blocks,
   every hash without collision on them, every allocation / put-outcome / pin-outcome script: if the add succeeds then it returns
   the importer's root, exactly that root is pinned, every block reachable from it was put, and a reader that only has the blocks
   that were put finds every (visible) file by its path from the root and gets back exactly its bytes *)
Theorem tree_delivered_closed_and_readable cid_of enc_size e p (wrap hid : bool) (top mfs : name) t em' c tr : params_ok p ->
  let vis := visible hid t in
  let seen := if wrap then Dir [(top, vis)] else vis in
  let x := import_tree p wrap top mfs vis in
  let root := cid_of (import_root x) in
  let stream := tstream_of cid_of enc_size em' in
  same_blocks (import_emission x) em' -> dinjective_on em' cid_of -> names_unique seen = true ->
  single_run e stream root = (ROk c, tr) ->
  c = CData root /\ (exists al, ok_pins tr = [single_pin e root al]) /\
  (forall y, reach stream root y -> In y (data_puts tr)) /\
  forall path bs, In (path, bs) (files_of seen) ->
    read_file (tstore_of cid_of em' (data_puts tr)) (S (file_height p bs)) root path = Some bs.
Proof. exact (fun (Hp : params_ok p) Hs Hi Hu => tree_unsharded_l cid_of enc_size e p wrap hid top mfs t Hp em' Hs Hi Hu c tr). Qed.
Print Assumptions tree_delivered_closed_and_readable.

(* the same through the sharding DAG service *)
Theorem tree_delivered_closed_and_readable_sharded cid_of enc_size e p (wrap hid : bool) (top mfs : name) t em' c tr : params_ok p ->
  let vis := visible hid t in
  let seen := if wrap then Dir [(top, vis)] else vis in
  let x := import_tree p wrap top mfs vis in
  let root := cid_of (import_root x) in
  let stream := tstream_of cid_of enc_size em' in
  same_blocks (import_emission x) em' -> dinjective_on em' cid_of -> names_unique seen = true ->
  0 < e_maxlinks e -> shard_run e stream root = (ROk c, tr) ->
  c = CData root /\ (exists q, In q (ok_pins tr) /\ pcid q = CData root /\ pty q = TMeta) /\
  (forall y, reach stream root y -> In y (data_puts tr)) /\
  forall path bs, In (path, bs) (files_of seen) ->
    read_file (tstore_of cid_of em' (data_puts tr)) (S (file_height p bs)) root path = Some bs.
Proof. exact (fun (Hp : params_ok p) Hs Hi Hu => tree_sharded_l cid_of enc_size e p wrap hid top mfs t Hp em' Hs Hi Hu c tr). Qed.
Print Assumptions tree_delivered_closed_and_readable_sharded.

(* non-vacuity: the tree {".h": 2 bytes, "b": 5 bytes, "a": {"x": 3 bytes, "sub": {"y": 1 byte}}, "e": {}} without hidden files, chunks of 2,
   2 links per block: 34 emissions, the root links a, b, e in that order whatever the entry order, .h is not in the DAG *)
Example tree_example :
  let t := Dir [([98], File [1; 2; 3; 4; 5]); ([46; 104], File [9; 9]); ([101], Dir []);
                ([97], Dir [([120], File [6; 7; 8]); ([115; 117; 98], Dir [([121], File [10])])])] in
  let p := mk_ip false 2 2 in
  let x := import_tree p false [116] [] (visible false t) in
  params_ok p /\ names_unique (visible false t) = true /\ length (import_emission x) = 34%nat /\
  (exists a b e, import_root x = DDir [([97], a); ([98], b); ([101], e)] /\ e = DDir []) /\
  map fst (files_of (visible false t)) = [[[98]]; [[97]; [120]]; [[97]; [115; 117; 98]; [121]]].
Proof. cbv zeta. split; [split; reflexivity|]. split; [reflexivity|]. split; [reflexivity|]. split; [|reflexivity].
  eexists _, _, _. split; vm_compute; reflexivity. Qed.
