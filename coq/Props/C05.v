(* C05 — Each peer's IPFS pinset converges to what the shared pinset assigns to it.
   Statements only; every proof is `exact <lemma of Proofs/C05_Tracker.v>`.
   Quantification: every queue size q, worker count n, initial shared state ps (well keyed) and daemon content i of a
   (re)started tracker, and every event list evs: Track / Untrack (each preceded by the matching change of the shared
   state), Recover, RecoverAll with every visiting order, completion of any in-flight IPFS call with or without a fault,
   and - where stated - arbitrary changes of the daemon behind the tracker's back (EDaemon). *)
From V Require Import Base.Common Model.C05_Tracker Model.C05_Check Proofs.C05_Tracker Proofs.C05_Monitor Proofs.C06_MonitorT Proofs.C05_MonitorC.
Open Scope N_scope.

Definition reached (q n : nat) (ps : list (N * tpin)) (i : list (N * bool)) (evs : list event) : st := run (init q n ps i) evs.

(* at most one current operation per cid *)
Theorem one_op_per_cid q n ps i evs : NoDup (akeys (table (reached q n ps i evs))).
Proof. exact (inv_nodup _ (reached_inv q n ps i evs)). Qed.
Print Assumptions one_op_per_cid.

(* a call in flight always belongs to the operation currently tracked for its cid, which is in progress:
   a cancelled (replaced) operation never completes, so it can never clean or mark its successor *)
Theorem cancelled_op_never_cleans_successor q n ps i evs cl : In cl (calls (reached q n ps i evs)) ->
  exists o, aget (ccid cl) (table (reached q n ps i evs)) = Some o /\ oid o = coid cl /\ oph o = PInProgress /\
            otyp o = kind_type (ckd cl).
Proof. exact (inv_calls _ (reached_inv q n ps i evs) cl). Qed.
Print Assumptions cancelled_op_never_cleans_successor.

(* queued / in-progress only while an operation is pending: at quiescence every remaining operation is a failed one *)
Theorem quiescent_only_failed_ops q n ps i evs c o : quiescent (reached q n ps i evs) = true ->
  aget c (table (reached q n ps i evs)) = Some o -> oph o = PError.
Proof. exact (fun Q => quiescent_errors _ (reached_inv q n ps i evs) Q c o). Qed.
Print Assumptions quiescent_only_failed_ops.

(* converged or error, for every cid the shared state assigns to this peer (or to everyone) - even when the daemon
   content is changed behind the tracker's back *)
Theorem tracker_quiescent_converged q n ps i evs c p : wf_pinset ps ->
  let s := reached q n ps i evs in
  quiescent s = true -> aget c (pinset s) = Some p -> pmeta p = false -> premote p = false ->
  aget c (ipfs s) = Some (pdirect p) \/ is_error (status_of s c) = true.
Proof. exact (converged_local_l q n ps i evs c p). Qed.
Print Assumptions tracker_quiescent_converged.

(* removed cids are unpinned or in error; a pin that moved to other peers is unpinned unless that unpin failed
   (best effort). Daemon content only changed by the tracker. *)
Theorem tracker_quiescent_converged_removed q n ps i evs c : wf_pinset ps -> Forall tracker_ev evs ->
  let s := reached q n ps i evs in
  quiescent s = true ->
  (aget c (last s) = Some IUntrack -> aget c (ipfs s) = None \/ is_error (status_of s c) = true) /\
  (forall p, aget c (last s) = Some (ITrack p) -> pmeta p = false -> premote p = true ->
     aget c (ipfs s) = None \/ exists o, aget c (table s) = Some o /\ otyp o = ORemote /\ oph o = PError).
Proof. exact (converged_removed_l q n ps i evs c). Qed.
Print Assumptions tracker_quiescent_converged_removed.

(* Track of a pin allocated here and Untrack: after a nil return the operation is queued or in progress (a new one, or
   the same-type operation already pending), after ErrFullQueue the cid is in error; nothing is dropped silently *)
Theorem enqueue_full_is_reported q n ps i evs e c typ :
  match e with
  | ETrack p => pmeta p = false /\ premote p = false /\ c = pcid p /\ typ = OPin
  | EUntrack c' => c = c' /\ typ = OUnpin
  | _ => False end ->
  let s := reached q n ps i evs in
  exists o, aget c (table (fst (step s e))) = Some o /\ otyp o = typ /\
    match snd (step s e) with RFull => oph o = PError | ROk => live (oph o) = true end.
Proof. exact (instr_reported _ e c typ (reached_inv q n ps i evs)). Qed.
Print Assumptions enqueue_full_is_reported.

(* a recover round: from a quiescent state, RecoverAll (any visiting order) that returns nil, then every call in
   flight succeeds, up to quiescence: every pin allocated here is held by the daemon in the recorded mode - except where
   the daemon itself refuses (recorded direct, held recursively) - and every removed cid is unpinned *)
Theorem tracker_recover_heals q n ps i evs ord s1 evs2 c : wf_pinset ps ->
  let s := reached q n ps i evs in
  quiescent s = true -> step s (ERecoverAll ord) = (s1, ROk) ->
  Forall ok_complete evs2 -> quiescent (run s1 evs2) = true ->
  (forall p, aget c (pinset s) = Some p -> pmeta p = false -> premote p = false ->
     ~ (pdirect p = true /\ aget c (ipfs s) = Some false) -> aget c (ipfs (run s1 evs2)) = Some (pdirect p)) /\
  (Forall tracker_ev evs -> aget c (last s) = Some IUntrack -> aget c (ipfs (run s1 evs2)) = None).
Proof. exact (recover_heals_l q n ps i evs ord s1 evs2 c). Qed.
Print Assumptions tracker_recover_heals.

(* the pin re-issued by Recover / RecoverAll is the one recorded in the shared state (mode and options) *)
Theorem recover_reissues_recorded_pin q n ps i evs c x o : wf_pinset ps ->
  let s := reached q n ps i evs in
  aget c (table (fst (recover_with s c x))) = Some o -> oid o = next s -> otyp o = OPin ->
  aget c (pinset s) = Some (opin o).
Proof. exact (recover_reissues_l q n ps i evs c x o). Qed.
Print Assumptions recover_reissues_recorded_pin.

(* non-vacuity: a direct-mode pin recorded in the state and missing from the daemon is re-pinned direct by a recover
   round; a cancelled pin leaves nothing behind; the guard of tracker_recover_heals is needed *)
Definition ex_direct : tpin := mk_pin 1 false false true 7.
Example recover_round_example :
  let s := reached 1 1 [(1, ex_direct)] [] [] in
  quiescent s = true /\ status_of s 1 = SPinError /\
  let s1 := fst (step s (ERecoverAll [])) in
  snd (step s (ERecoverAll [])) = ROk /\ map ccid (calls s1) = [1] /\
  let s2 := run s1 [EComplete 1 false] in
  quiescent s2 = true /\ aget 1 (ipfs s2) = Some true /\ status_of s2 1 = SPinned /\ status_all s2 0 = [(1, SPinned)].
Proof. vm_compute. repeat split. Qed.

Example cancel_example :
  let s := reached 1 1 [] [] [ETrack (mk_pin 2 false false false 3); EUntrack 2; EComplete 2 false] in
  quiescent s = true /\ aget 2 (ipfs s) = None /\ status_of s 2 = SUnpinned /\ table s = [].
Proof. vm_compute. repeat split. Qed.

Example recover_cannot_downgrade_example :
  let s := reached 1 1 [(1, ex_direct)] [(1, false)] [] in
  let s2 := run (fst (step s (ERecoverAll []))) [EComplete 1 false] in
  quiescent s2 = true /\ aget 1 (ipfs s2) = Some false /\ status_of s2 1 = SPinError.
Proof. vm_compute. repeat split. Qed.

Example full_queue_example :
  let s := reached 1 1 [] [] [ETrack (mk_pin 1 false false false 1); ETrack (mk_pin 2 false false false 2)] in
  snd (step s (ETrack (mk_pin 3 false false true 3))) = RFull /\
  status_of (fst (step s (ETrack (mk_pin 3 false false true 3)))) 3 = SPinError.
Proof. vm_compute. repeat split. Qed.

(* ---- the run-time monitors of Model/C05_Check.v (spec_codes: 10, 11, 13, 14) mean what they should: soundness ----
   A case is a configuration cf and a history l of (event, observation of the implementation after it). *)

(* the monitor's own record of the shared state and of the last instruction per cid is the model's, along every script *)
Theorem monitor_shared_state cf l :
  sp_pinset (sp_after cf l) = pinset (run (init_of cf) (map fst l)) /\ sp_last (sp_after cf l) = last (run (init_of cf) (map fst l)).
Proof. exact (sp_shared_state_l cf l). Qed.
Print Assumptions monitor_shared_state.

(* code 10 absent: at every quiescent observation (nothing in flight, no pending status) each pin the shared state - the model's
   `pinset` after the same events - assigns to this peer is held by the daemon in the recorded mode or its status is an error
   (the observed form of tracker_quiescent_converged); a cid whose last instruction was Untrack is unpinned or in error, a pin
   moved elsewhere whose local unpin succeeded is unpinned *)
Theorem conv_monitor_sound cf pre e o post : ~ In 10 (spec_codes cf (pre ++ (e, o) :: post)) -> o_quiescent o = true ->
  conv_spec (ncid_of cf) (pinset (run (init_of cf) (map fst (pre ++ [(e, o)])))) o /\
  conv_removed_spec (ncid_of cf) (sp_after cf (pre ++ [(e, o)])) o.
Proof. exact (conv_monitor_sound_l cf pre e o post). Qed.
Print Assumptions conv_monitor_sound.

(* code 11 absent: after a nil return the instruction is queued / in progress (a remote pin: status remote and its unpin in
   flight), after ErrFullQueue the cid is in error (the observed form of enqueue_full_is_reported) *)
Theorem inst_monitor_sound cf pre e o post : ~ In 11 (spec_codes cf (pre ++ (e, o) :: post)) -> inst_spec e o.
Proof. exact (inst_monitor_sound_l cf pre e o post). Qed.
Print Assumptions inst_monitor_sound.

(* code 13 absent: the observed form of tracker_recover_heals *)
Theorem heal_monitor_sound cf pre e o post d0 : ~ In 13 (spec_codes cf (pre ++ (e, o) :: post)) -> o_quiescent o = true ->
  sp_heal (sp_after cf (pre ++ [(e, o)])) = Some d0 -> heal_spec (ncid_of cf) (sp_after cf (pre ++ [(e, o)])) d0 o.
Proof. exact (heal_monitor_sound_l cf pre e o post d0). Qed.
Print Assumptions heal_monitor_sound.

(* code 14 absent: every pin request in flight carries the mode and options of a pin recorded for that cid (initially or by
   a Track of the script so far) - the observed form of recover_reissues_recorded_pin *)
Theorem opts_monitor_sound cf pre e o post c d t : ~ In 14 (spec_codes cf (pre ++ (e, o) :: post)) ->
  In (c, 0, d, t) (o_inflight o) ->
  exists p, In p (recorded_pins cf (pre ++ [(e, o)])) /\ pcid p = c /\ (if pdirect p then 1 else 0) = d /\ ptag p = t.
Proof. exact (opts_monitor_sound_l cf pre e o post c d t). Qed.
Print Assumptions opts_monitor_sound.

(* non-vacuity: Track a direct pin, its call in flight, then done and held direct: accepted; held recursively instead, or the
   call in flight carrying another tag: rejected *)
Example c05_monitor_example :
  let cf : cfg := (1%nat, 1%nat, 2, [], []) in
  let p := mk_pin 1 false false true 7 in
  let h dm t := [(ETrack p, (0, [128; 32], [(1, 32)], [], [(1, 0, 1, t)], []));
                 (EComplete 1 false, (0, [128; 16], [(1, 16)], dm, [], []))] in
  spec_codes cf (h [(1, 2)] 7) = [] /\ spec_codes cf (h [(1, 1)] 7) = [10] /\ spec_codes cf (h [(1, 2)] 8) = [14].
Proof. vm_compute. repeat split. Qed.

(* ---- completeness of the monitors for the model ---- *)

(* the dispatch fact (every state reached by an event): a current entry still waiting in a queue means every worker of that
   queue is busy *)
Theorem dispatch_leaves_no_idle_worker s e : dispatched (fst (step s e)).
Proof. exact (step_dispatched s e). Qed.
Print Assumptions dispatch_leaves_no_idle_worker.

(* the monitor's observational quiescence (no call in flight, no listed status pending) IS the model's `quiescent`, for every
   state satisfying the invariant and the dispatch fact, with at least one pin worker - whatever cids the observation lists *)
Theorem monitor_quiescence_agrees n s r fs : Inv s -> dispatched s -> (0 < npin s)%nat ->
  o_quiescent (model_obs n s r fs) = quiescent s.
Proof. exact (quiescence_agrees n s r fs). Qed.
Print Assumptions monitor_quiescence_agrees.

(* for every queue size, worker count > 0, initial pins (one per cid) and daemon content, and every script whose Track / Untrack /
   Recover cids are among the n cids the observation lists: the observation trace computed from the model (mtrace: return value,
   Status of each cid, StatusAll, daemon, calls in flight, after every event) raises no monitor code (10, 11, 13, 14) *)
Theorem tracker_model_passes_monitor q np n pins i fs evs :
  (0 < np)%nat -> NoDup (map pcid pins) -> Forall (ev_bounded n) evs ->
  let cf := (q, np, n, pins, dm_of i) in spec_codes cf (mtrace n fs (init_of cf) evs) = [].
Proof. exact (tracker_model_passes_monitor_l q np n pins i fs evs). Qed.
Print Assumptions tracker_model_passes_monitor.

(* non-vacuity: a script with a full queue, a failed pin, an untrack, daemon interference, a recover round; its model trace has
   quiescent observations and passes. And the premise np > 0 of monitor_quiescence_agrees is needed: without a worker a cid the
   observation does not list stays queued while the observation looks quiescent *)
Example c05_model_trace_example :
  let evs := [ETrack (mk_pin 0 false false true 7); ETrack (mk_pin 1 false false false 8); ETrack (mk_pin 2 false true false 9);
              EComplete 0 true; EComplete 2 false; EComplete 1 false; EUntrack 1; EDaemon 0 (Some false); EComplete 1 false;
              ERecoverAll [0; 1]; EComplete 0 false; ERecover 0] in
  let cf : cfg := (1%nat, 1%nat, 3, [], dm_of []) in
  Forall (ev_bounded 3) evs /\ spec_codes cf (mtrace 3 [] (init_of cf) evs) = [] /\
  existsb (fun eo => o_quiescent (snd eo)) (mtrace 3 [] (init_of cf) evs) = true /\
  (let s := fst (step (init 1 0 [] []) (ETrack (mk_pin 5 false false false 0))) in
   quiescent s = false /\ o_quiescent (model_obs 1 s ROk []) = true).
Proof. cbv zeta. split; [repeat constructor; vm_compute; tauto|]. repeat split; vm_compute; reflexivity. Qed.
