(* C04 — Pin, unpin and update change the pinset exactly as requested, or not at all.
   Statements only; every proof is `exact <lemma of Proofs/C04_ClusterOps.v>`.
   Quantification: every configuration c (default factors, follower mode, allocator), every environment e
   (time, metrics, what IPFS resolves / returns), every Go-map iteration order ord, every pinset st that
   satisfies the invariant of reachable pinsets (inv, itself proved for every history), every call.
   step (CPin h o) is by definition step (CRpcPin (pin_with_opts h o)); path calls reduce to CID calls. *)
From V Require Import Base.Common Model.C03_Alloc Model.C04_ClusterOps Proofs.C04_ClusterOps Model.C04_Check Proofs.C04_Check.
From V Require Import Proofs.C03_Monitor Proofs.C04_Monitor.
From V Require Import Model.C04_Guards Gen.C04Guards Proofs.C04_Guards.
From Coq Require Import String.
From Coq Require Import Permutation.
Open Scope Z_scope.

(* --- call kinds reduce to the two operations --- *)
Theorem pin_calls_reduce c e ord st h o pa :
  step c e ord st (CPin h o) = step c e ord st (CRpcPin (pin_with_opts h o)) /\
  (aget pa (e_resolve e) = Some h -> step c e ord st (CPinPath pa o) = step c e ord st (CPin h o)
                                  /\ step c e ord st (CUnpinPath pa) = step c e ord st (CUnpin h)) /\
  (aget pa (e_resolve e) = None -> step c e ord st (CPinPath pa o) = (RErr EResolve, st)
                                /\ step c e ord st (CUnpinPath pa) = (RErr EResolve, st)) /\
  (follower c = false -> forall p u, o_update (p_opts p) = Some u -> u <> p_cid p ->
     step c e ord st (CRpcPin p) = step c e ord st (CPinUpdate u (p_cid p) (p_opts p))).
Proof. exact (pin_calls_reduce_s c e ord st h o pa). Qed.
Print Assumptions pin_calls_reduce.

(* --- refused => nothing changes; follower => everything is refused --- *)
Theorem refused_unchanged c e ord st k x st' : step c e ord st k = (RErr x, st') -> st' = st.
Proof. exact (refused_unchanged_l c e ord st k x st'). Qed.
Print Assumptions refused_unchanged.

Theorem follower_refuses c e ord st k : follower c = true -> exists x, step c e ord st k = (RErr x, st).
Proof. exact (follower_refuses_l c e ord st k). Qed.
Print Assumptions follower_refuses.

(* --- the listed refusals --- *)
Theorem refuse_bad_factors c e ord st p :
  no_redirect p -> factors_valid (o_rmin (with_defaults c (p_opts p))) (o_rmax (with_defaults c (p_opts p))) = false ->
  exists x, step c e ord st (CRpcPin p) = (RErr x, st).
Proof. exact (refuse_bad_factors_l c e ord st p []). Qed.
Print Assumptions refuse_bad_factors.

Theorem refuse_expired c e ord st p :
  no_redirect p -> expire_past (e_now e) (o_expire (p_opts p)) = true -> exists x, step c e ord st (CRpcPin p) = (RErr x, st).
Proof. exact (refuse_expired_l c e ord st p []). Qed.
Print Assumptions refuse_expired.

Theorem refuse_type_change c e ord st p ex :
  no_redirect p -> aget (p_cid p) st = Some ex -> p_ty ex <> p_ty p -> exists x, step c e ord st (CRpcPin p) = (RErr x, st).
Proof. exact (refuse_type_change_l c e ord st p [] ex). Qed.
Print Assumptions refuse_type_change.

Theorem refuse_downgrade c e ord st p ex :
  no_redirect p -> aget (p_cid p) st = Some ex -> o_mode (p_opts ex) = 0%N -> o_mode (p_opts p) <> 0%N ->
  exists x, step c e ord st (CRpcPin p) = (RErr x, st).
Proof. exact (refuse_downgrade_l c e ord st p [] ex). Qed.
Print Assumptions refuse_downgrade.

Theorem refuse_unpin_absent c e ord st h : aget h st = None -> exists x, step c e ord st (CUnpin h) = (RErr x, st).
Proof. exact (refuse_unpin_absent_l c e st h). Qed.
Print Assumptions refuse_unpin_absent.

Theorem refuse_update_absent c e ord st f t o : aget f st = None -> exists x, step c e ord st (CPinUpdate f t o) = (RErr x, st).
Proof. exact (refuse_update_absent_l c e st f t o). Qed.
Print Assumptions refuse_update_absent.

(* --- a successful pin: one entry for that CID, carrying the requested options (defaults substituted), others untouched --- *)
Theorem pin_ok_entry c e ord st p q st' :
  inv st -> no_redirect p -> step c e ord st (CRpcPin p) = (ROk q, st') ->
  p_cid q = p_cid p /\
  aget (p_cid p) st' = Some (pb_norm q) /\
  (forall h, h <> p_cid p -> aget h st' = aget h st) /\
  (p_opts q = with_defaults c (p_opts p) \/
   exists ex, aget (p_cid p) st = Some ex /\ opts_equal (with_defaults c (p_opts p)) (p_opts ex) = true /\ p_opts q = p_opts ex) /\
  factors_valid (o_rmin (with_defaults c (p_opts p))) (o_rmax (with_defaults c (p_opts p))) = true /\
  inv st'.
Proof. exact (pin_ok_entry_s c e ord st p q st'). Qed.
Print Assumptions pin_ok_entry.

(* its allocation is the one given with the request / kept from the entry, or the result of C03's allocate *)
Theorem pin_ok_allocation c e ord st p q st' :
  no_redirect p -> p_ty p <> MetaT -> step c e ord st (CRpcPin p) = (ROk q, st') ->
  exists p2, chosen c st p [] p2 /\ p_opts q = p_opts p2 /\
    ((p_allocs p2 <> [] /\ p_allocs q = p_allocs p2) \/
     (p_allocs p2 = [] /\ allocate (e_now e) (alloc_input c e p2 (aget (p_cid p) st) []) ord = Ok (p_allocs q))).
Proof. exact (fun NR T H => pin_ok_allocation_l c e ord st p [] q st' (pin_core_ok_main c e ord st p [] q st' NR H) T). Qed.
Print Assumptions pin_ok_allocation.

(* a first pin of a CID: the allocation satisfies C03 (no duplicates, min <= healthy holders <= max) *)
Theorem pin_new_allocation_valid c e ord st h o q st' :
  (forall xs, Permutation (ord xs) xs) -> NoDup (map mpeer (e_metrics e)) ->
  aget h st = None -> no_redirect (pin_with_opts h o) ->
  step c e ord st (CPin h o) = (ROk q, st') ->
  let o' := with_defaults c o in
  let i := mk_input (o_rmin o') (o_rmax o') [] (e_metrics e) [] (o_ualloc o) (alloc_rev c) in
  allocate (e_now e) i ord = Ok (p_allocs q) /\ NoDup (p_allocs q) /\
  (valid_factors (o_rmin o') (o_rmax o') -> o_rmin o' <= healthy_count (e_now e) i (p_allocs q) <= o_rmax o').
Proof. exact (fun Ho Hm G NR H => pin_new_allocation_valid_l c e ord st h o q st' Ho Hm G NR
                (pin_core_ok_main c e ord st (pin_with_opts h o) [] q st' NR H)). Qed.
Print Assumptions pin_new_allocation_valid.

(* --- re-pinning --- *)
(* PinOptions.Equals answers true only when no option differs: name, mode, factors, shard size, user allocations,
   expiry, every non-empty metadata key (added, changed or removed), the set of origins *)
Theorem equals_detects_every_difference a b : opts_equal a b = true -> opts_same a b.
Proof. exact (opts_equal_sound a b). Qed.
Print Assumptions equals_detects_every_difference.

Theorem equals_accepts_identical a b : set_update None a = set_update None b -> NoDup (map fst (o_meta a)) -> opts_equal a b = true.
Proof. exact (opts_equal_complete a b). Qed.
Print Assumptions equals_accepts_identical.

(* identical options: entry and allocations stay *)
Theorem repin_same_keeps_allocs c e ord st p q st' ex :
  inv st -> no_redirect p -> aget (p_cid p) st = Some ex ->
  set_update None (with_defaults c (p_opts p)) = set_update None (p_opts ex) -> NoDup (map fst (o_meta (p_opts p))) ->
  p_ty p <> MetaT ->
  (p_allocs ex <> [] \/ (o_rmin (p_opts ex) < 0 /\ o_rmax (p_opts ex) < 0)) ->
  step c e ord st (CRpcPin p) = (ROk q, st') ->
  p_allocs q = p_allocs ex /\ p_opts q = p_opts ex /\ aget (p_cid p) st' = Some (pb_norm (set_allocs (p_allocs ex) ex)).
Proof. exact (fun I NR G E ND T A H =>
  repin_same_keeps_allocs_l c e ord st p q st' ex (inv_keyed st I) G (opts_equal_complete _ _ E ND) T A
    (pin_core_ok_main c e ord st p [] q st' NR H)). Qed.
Print Assumptions repin_same_keeps_allocs.

(* any option changed, added or removed: the stored options are the new ones *)
Theorem repin_changed_is_stored c e ord st p q st' ex :
  no_redirect p -> aget (p_cid p) st = Some ex ->
  ~ opts_same (with_defaults c (p_opts p)) (p_opts ex) ->
  p_ty p <> MetaT ->
  step c e ord st (CRpcPin p) = (ROk q, st') ->
  p_opts q = with_defaults c (p_opts p) /\
  exists s, aget (p_cid p) st' = Some s /\ p_opts s = pb_norm_opts (p_depth p) (with_defaults c (p_opts p)).
Proof. exact (fun NR G D T H => repin_changed_is_stored_l c e ord st p q st' ex G D T (pin_core_ok_main c e ord st p [] q st' NR H)). Qed.
Print Assumptions repin_changed_is_stored.

(* the instance that used to fail (S4): a metadata key of the stored entry that the new request does not carry *)
Theorem repin_removed_metadata_key_is_stored c e ord st h o q st' ex k v :
  no_redirect (pin_with_opts h o) -> aget h st = Some ex ->
  k <> 0%N -> aget k (o_meta (p_opts ex)) = Some v -> aget k (o_meta o) = None ->
  step c e ord st (CPin h o) = (ROk q, st') ->
  exists s, aget h st' = Some s /\ aget k (o_meta (p_opts s)) = None /\ o_meta (p_opts s) = o_meta o.
Proof. exact (repin_removed_metadata_key_s c e ord st h o q st' ex k v). Qed.
Print Assumptions repin_removed_metadata_key_is_stored.

(* --- unpin: exactly that entry; for a meta pin exactly it, its cluster DAG and the DAG's links --- *)
Theorem unpin_exact c e ord st h q st' :
  step c e ord st (CUnpin h) = (ROk q, st') ->
  aget h st = Some q /\ aget h st' = None /\
  ((p_ty q = DataT /\ forall h', h' <> h -> aget h' st' = aget h' st) \/
   (p_ty q = MetaT /\ exists r ls, p_ref q = Some r /\ aget r (e_links e) = Some ls /\
       forall h', (In h' (h :: r :: ls) -> aget h' st' = None) /\ (~ In h' (h :: r :: ls) -> aget h' st' = aget h' st))).
Proof. exact (unpin_exact_l c e st h q st'). Qed.
Print Assumptions unpin_exact.

(* --- update: the new CID gets the source's allocations and options (source recorded; name / expiry overridden
       when given), the source and everything else stay --- *)
Theorem update_copies c e ord st f t o q st' :
  step c e ord st (CPinUpdate f t o) = (ROk q, st') ->
  exists ex, aget f st = Some ex /\ p_ty ex = DataT /\
    q = updated_pin (e_now e) ex f t o /\
    aget t st' = Some (pb_norm q) /\
    (forall h, h <> t -> aget h st' = aget h st) /\
    p_allocs q = p_allocs ex /\ p_cid q = t /\ o_update (p_opts q) = Some f /\
    o_rmin (p_opts q) = o_rmin (p_opts ex) /\ o_rmax (p_opts q) = o_rmax (p_opts ex) /\
    o_mode (p_opts q) = o_mode (p_opts ex) /\ o_shard (p_opts q) = o_shard (p_opts ex) /\
    o_meta (p_opts q) = o_meta (p_opts ex) /\ o_origins (p_opts q) = o_origins (p_opts ex) /\
    o_name (p_opts q) = (if (o_name o =? 0)%N then o_name (p_opts ex) else o_name o) /\
    o_expire (p_opts q) = (match o_expire o with Some x => if t_after x (e_now e) then Some x else o_expire (p_opts ex) | None => o_expire (p_opts ex) end).
Proof. exact (update_copies_l c e st f t o q st'). Qed.
Print Assumptions update_copies.

(* --- histories: every pinset reachable from the empty one by any call list, under any environments and map
       orders, has one entry per CID, each stored under its own CID, in stored normal form, with valid factors;
       hence every statement above applies at every point of every history --- *)
Theorem histories c h :
  let st := run c [] h in
  NoDup (akeys st) /\ forall k p, aget k st = Some p -> p_cid p = k /\ pb_norm p = p /\
                                  factors_valid (o_rmin (p_opts p)) (o_rmax (p_opts p)) = true.
Proof. exact (inv_run c h [] inv_empty). Qed.
Print Assumptions histories.

Theorem histories_step c e ord st k : inv st -> inv (snd (step c e ord st k)).
Proof. exact (inv_step c e ord st k). Qed.
Print Assumptions histories_step.

(* --- the boolean monitor applied to the implementation's observations means what it should (soundness of the
       clauses "refused => unchanged", "follower => refused", "one entry per CID"; st_equiv: same keys, entries equal
       up to the order of allocations and of metadata) --- *)
Theorem spec_okb_refused_sound c e st k x st' : spec_okb c e st k (OErr x) st' = true -> st_equiv st st'.
Proof. exact (spec_okb_refused_sound_l c e st k x st'). Qed.
Print Assumptions spec_okb_refused_sound.

Theorem spec_okb_follower_sound c e st k q st' : spec_okb c e st k (OOk q) st' = true -> follower c = false.
Proof. exact (spec_okb_follower_sound_l c e st k q st'). Qed.
Print Assumptions spec_okb_follower_sound.

Theorem spec_okb_one_entry c e st k r st' : spec_okb c e st k r st' = true -> NoDup (akeys st').
Proof. exact (spec_okb_one_entry_l c e st k r st'). Qed.
Print Assumptions spec_okb_one_entry.

(* --- non-vacuity: a history that pins, re-pins with a metadata key removed, updates, unpins --- *)
Example c04_example :
  let c := mk_cfg 2 3 false false in
  let e := mk_env 0 [mk_metric 0 (Some 70%N) 3600 true; mk_metric 1 (Some 10%N) 3600 true; mk_metric 2 (Some 30%N) 3600 true] [] [] in
  let o1 := mk_opts 0 0 1%N 0%N 0%N [] None [(1%N, 1%N); (2%N, 2%N)] None [] in
  let o2 := mk_opts 0 0 1%N 0%N 0%N [] None [(1%N, 1%N)] None [] in
  let id := fun x : list N => x in
  let st := run c [] [(e, id, CPin 1%N o1); (e, id, CPin 1%N o2); (e, id, CPinUpdate 1%N 2%N o2); (e, id, CUnpin 1%N)] in
  aget 1%N st = None /\
  match aget 2%N st with Some s => o_meta (p_opts s) = [(1%N, 1%N)] /\ p_allocs s = [1; 2; 0]%N /\ o_update (p_opts s) = Some 1%N | None => False end.
Proof. vm_compute. auto. Qed.

(* --- the monitor and the model (Proofs/C04_Monitor.v) --- *)

(* completeness: for every configuration, environment, Go-map order, pinset and call, what the model answers (result and
   pinset) passes the monitor. Input invariants (what the harness guarantees, each stated): the pinset is reachable (inv) and its
   entries have one value per metadata key and duplicate-free allocations (inv2: both kept by every call, inv2_step); the
   call's metadata is a map and an RPC pin's allocations are a set (call_wf); one metric per peer; ord is a permutation *)
Theorem step_passes_monitor c e ord st k : inv2 st -> call_wf k -> order_oracle ord -> one_metric_per_peer e ->
  spec_okb c e st k (obsres_of (fst (step c e ord st k))) (snd (step c e ord st k)) = true.
Proof. exact (step_passes_monitor_l c e ord st k). Qed.
Print Assumptions step_passes_monitor.

Theorem monitor_invariant_kept c e ord st k : inv2 st -> call_wf k -> order_oracle ord -> one_metric_per_peer e ->
  inv2 (snd (step c e ord st k)).
Proof. exact (inv2_step c e ord st k). Qed.
Print Assumptions monitor_invariant_kept.

(* ... hence at every point of every call history, each call with its own environment and map order *)
Theorem history_passes_monitor c h e ord k : hist_wf (h ++ [(e, ord, k)]) ->
  let st := run c [] h in
  spec_okb c e st k (obsres_of (fst (step c e ord st k))) (snd (step c e ord st k)) = true.
Proof. exact (history_passes_monitor_l c h e ord k). Qed.
Print Assumptions history_passes_monitor.

(* soundness of the remaining clauses: what an accepted successful observation means *)
(* unpin: the entry was there and is the one returned; it is gone; for a meta pin it, its cluster DAG and the DAG's links are
   gone; every other entry is as before (unchanged_outside: same keys, entries equal up to the order of allocations / metadata) *)
Theorem spec_okb_unpin_sound c e st h q st' : spec_okb c e st (CUnpin h) (OOk q) st' = true ->
  exists p, aget h st = Some p /\ pin_equiv p q /\
    ((p_ty p <> MetaT /\ aget h st' = None /\ unchanged_outside [h] st st') \/
     (p_ty p = MetaT /\ exists rf ls, p_ref p = Some rf /\ aget rf (e_links e) = Some ls /\
        (forall k, In k (h :: rf :: ls) -> aget k st' = None) /\ unchanged_outside (h :: rf :: ls) st st')).
Proof. exact (spec_okb_unpin_sound_l c e st h q st'). Qed.
Print Assumptions spec_okb_unpin_sound.

(* update: the source was pinned; the new CID's entry is the source entry under the new CID (source recorded, name / expiry
   overridden as coded) and is what was returned; nothing else changed *)
Theorem spec_okb_update_sound c e st f t o q st' : spec_okb c e st (CPinUpdate f t o) (OOk q) st' = true ->
  exists ex s, aget f st = Some ex /\ aget t st' = Some s /\
    pin_equiv s (pb_norm (updated_pin (e_now e) ex f t o)) /\ pin_equiv s (pb_norm q) /\ unchanged_outside [t] st st'.
Proof. exact (spec_okb_update_sound_l c e st f t o q st'). Qed.
Print Assumptions spec_okb_update_sound.

(* pin (no update redirect): none of the listed refusal conditions held; the CID has one entry, it is what was returned, of the
   requested type, carrying the requested options as the property reads them (opts_read_same), nothing else changed, and the
   allocation clause holds *)
Theorem spec_okb_pin_sound c e st p0 q st' : no_redirectb p0 = true -> spec_okb c e st (CRpcPin p0) (OOk q) st' = true ->
  let h := p_cid p0 in let o' := with_defaults c (p_opts p0) in
  factors_valid (o_rmin o') (o_rmax o') = true /\ expire_past (e_now e) (o_expire o') = false /\
  (forall ex, aget h st = Some ex -> p_ty ex = p_ty p0 /\ (o_mode (p_opts ex) = 0%N -> o_mode o' = 0%N)) /\
  exists s, aget h st' = Some s /\ unchanged_outside [h] st st' /\ pin_equiv s (pb_norm q) /\ p_ty s = p_ty p0 /\
            opts_read_same (p_opts s) (pb_norm_opts (p_depth s) o') /\ alloc_clause c e st p0 s = true.
Proof. exact (spec_okb_pin_sound_l c e st p0 q st'). Qed.
Print Assumptions spec_okb_pin_sound.

Theorem spec_okb_pin_redirect_sound c e st p0 u q st' : o_update (p_opts p0) = Some u -> u <> p_cid p0 ->
  spec_okb c e st (CRpcPin p0) (OOk q) st' = true ->
  exists ex s, aget u st = Some ex /\ aget (p_cid p0) st' = Some s /\
    pin_equiv s (pb_norm (updated_pin (e_now e) ex u (p_cid p0) (p_opts p0))) /\ pin_equiv s (pb_norm q) /\
    unchanged_outside [p_cid p0] st st'.
Proof. exact (spec_okb_pin_redirect_sound_l c e st p0 u q st'). Qed.
Print Assumptions spec_okb_pin_redirect_sound.

Theorem spec_okb_calls_reduce c e st h o pa r st' :
  spec_okb c e st (CPin h o) r st' = spec_okb c e st (CRpcPin (pin_with_opts h o)) r st' /\
  (aget pa (e_resolve e) = Some h -> spec_okb c e st (CPinPath pa o) r st' = spec_okb c e st (CPin h o) r st' /\
                                     spec_okb c e st (CUnpinPath pa) r st' = spec_okb c e st (CUnpin h) r st').
Proof. exact (C04_Monitor.spec_okb_calls_reduce c e st h o pa r st'). Qed.
Print Assumptions spec_okb_calls_reduce.

(* the allocation clause read: literally the stored request -> its allocations stay; an option differs and allocations are
   named -> they are stored; a first pin without named allocations -> C03's property alloc_spec of the stored allocation *)
Theorem alloc_clause_readings c e st p0 s :
  alloc_clause c e st p0 s = true -> p_ty p0 <> MetaT -> mode_of_depth (p_depth p0) = o_mode (with_defaults c (p_opts p0)) ->
  let o' := with_defaults c (p_opts p0) in
  (forall ex, aget (p_cid p0) st = Some ex -> identical_req o' (p_depth p0) ex = true -> literal_req o' ex = true ->
              p_allocs ex <> [] -> Permutation (p_allocs s) (p_allocs ex)) /\
  ((forall ex, aget (p_cid p0) st = Some ex -> identical_req o' (p_depth p0) ex = false) -> p_allocs p0 <> [] ->
   everywhere o' = false -> Permutation (p_allocs s) (p_allocs p0)) /\
  (aget (p_cid p0) st = None -> p_allocs p0 = [] -> one_metric_per_peer e -> valid_factors (o_rmin o') (o_rmax o') ->
   alloc_spec (e_now e) (mk_input (o_rmin o') (o_rmax o') [] (e_metrics e) [] (o_ualloc o') (alloc_rev c)) (p_allocs s)).
Proof. exact (fun H T M => conj (fun ex Ex I1 I2 Ne => alloc_clause_identical c e st p0 s ex H T M Ex I1 I2 Ne)
               (conj (fun Hid Ne Ev => alloc_clause_explicit c e st p0 s H T M Hid Ne Ev)
                     (fun Ex Pa Hm Vf => alloc_clause_first c e st p0 s H T M Ex Pa Hm Vf))). Qed.
Print Assumptions alloc_clause_readings.

(* ---- the guard chains: source = model, model chains = step ---- *)
(* the ordered guard / effect / call steps of setupReplicationFactor (+ isReplicationFactorValid), checkPinType, setupPin, pin,
   Unpin and PinUpdate, translated from cluster.go and cluster_config.go at this run (Gen/C04Guards.v), are the model's lists *)
Theorem c04_guards_source_is_model : gen_guard_table = model_guard_table.
Proof. exact c04_guards_source_is_model_l. Qed.
Print Assumptions c04_guards_source_is_model.

(* interpreting the model's lists for pin() (with setupPin, setupReplicationFactor, checkPinType called as the lists say) decides
   exactly as pin_core: every refusal is pin_core's refusal with the pinset unchanged, the redirect is the PinUpdate redirect,
   a commit logs the pin the interpretation ends with *)
Theorem c04_pin_guards_are_step c e ord st p bl :
  let r := run_pin (pin_ctx c e ord st p bl) in
  match fst r with
  | Done (Refuse cls) => exists er, err_of_class cls = Some er /\ pin_core c e ord st p bl = (RErr er, st)
  | Done (Redirect f) => f = "PinUpdate"%string /\ exists u, o_update (p_opts p) = Some u /\ (u =? p_cid p)%N = false
                         /\ pin_core c e ord st p bl = pin_update_op c e st u (p_cid p) (p_opts p)
  | Done (Commit op) => op = "LogPin"%string /\ pin_core c e ord st p bl = (ROk (x_pin (snd r)), log_pin st (x_pin (snd r)))
  | _ => False end.
Proof. exact (run_pin_spec c e ord st p bl). Qed.
Print Assumptions c04_pin_guards_are_step.

Theorem c04_unpin_guards_are_step c e st h :
  match fst (run_unpin (unpin_ctx c e st h)) with
  | Done (Refuse cls) => exists er, err_of_class cls = Some er /\ unpin_op c e st h = (RErr er, st)
  | Done (Commit op) => op = "LogUnpin"%string /\ exists p st', aget h st = Some p /\ unpin_op c e st h = (ROk p, st')
  | _ => False end.
Proof. exact (run_unpin_spec c e st h). Qed.
Print Assumptions c04_unpin_guards_are_step.

Theorem c04_update_guards_are_step c e st f t o :
  match fst (run_update (update_ctx c e st f o)) with
  | Done (Refuse cls) => exists er, err_of_class cls = Some er /\ pin_update_op c e st f t o = (RErr er, st)
  | Done (Commit op) => op = "LogPin"%string /\ exists ex, aget f st = Some ex
        /\ pin_update_op c e st f t o = (ROk (updated_pin (e_now e) ex f t o), log_pin st (updated_pin (e_now e) ex f t o))
  | _ => False end.
Proof. exact (run_update_spec c e st f t o). Qed.
Print Assumptions c04_update_guards_are_step.

(* non-vacuity: the history of c04_example satisfies every guard; the monitor accepts the model's answer to a re-pin with a
   metadata key removed and rejects the same answer with the old metadata left in place (the shape of S4) *)
Example c04_monitor_example :
  let c := mk_cfg 2 3 false false in
  let e := mk_env 0 [mk_metric 0 (Some 70%N) 3600 true; mk_metric 1 (Some 10%N) 3600 true; mk_metric 2 (Some 30%N) 3600 true] [] [] in
  let o1 := mk_opts 0 0 1%N 0%N 0%N [] None [(1%N, 1%N); (2%N, 2%N)] None [] in
  let o2 := mk_opts 0 0 1%N 0%N 0%N [] None [(1%N, 1%N)] None [] in
  let id := fun x : list N => x in
  let h := [(e, id, CPin 1%N o1)] in
  hist_wf (h ++ [(e, id, CPin 1%N o2)]) /\
  let st := run c [] h in
  let r := step c e id st (CPin 1%N o2) in
  spec_okb c e st (CPin 1%N o2) (obsres_of (fst r)) (snd r) = true /\
  spec_okb c e st (CPin 1%N o2) (obsres_of (fst r)) st = false.
Proof. cbv zeta. split.
  - intros x [<-|[<-|[]]]; (split; [|split]); cbn; try (intros xs; apply Permutation_refl);
      unfold meta_nodup, one_metric_per_peer; cbn; repeat constructor; cbn; intuition discriminate.
  - split; vm_compute; reflexivity. Qed.
