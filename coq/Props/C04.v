(* C04 — statements only (placeholder while the check is brought up end to end). *)
From V Require Import Base.Common Model.C03_Alloc Model.C04_ClusterOps.
Open Scope Z_scope.

Theorem refused_follower c e ord st k : follower c = true -> match k with CPinPath _ _ | CUnpinPath _ => True | _ => exists x, step c e ord st k = (RErr x, st) end.
Proof. intros H. destruct k; simpl; auto; unfold pin_core, pin_update_op, unpin_op; rewrite H; eauto. Qed.
Print Assumptions refused_follower.
