(* C18 — Concurrent use of the API never races, panics, deadlocks or tears results.
   Statements only. Part 1: obligations on the table regenerated from the Go source at every run. *)
From V Require Import Model.C18_Table Model.C18_Exempt Gen.Locksets Proofs.C18_Table.

(* the hand-written exemption table (see Model/C18_Exempt.v for the rule): currently empty *)
Example exemptions_are : exemptions = [].
Proof. reflexivity. Qed.

(* every syntactic access to a tracked field satisfies the premise of lockset_drf for the field's designated
   guard: writes hold it exclusively, reads of anything that is written hold it at least shared *)
Theorem discipline_holds : forall a, In a accesses -> access_ok exemptions accesses a.
Proof. exact discipline_holds_l. Qed.
Print Assumptions discipline_holds.

Theorem lock_order_acyclic : exists rank : string -> nat, forall held acquired where_,
  In (held, acquired, where_) nesting -> (rank held < rank acquired)%nat.
Proof. exact lock_order_acyclic_l. Qed.
Print Assumptions lock_order_acyclic.

Theorem accessors_atomic : atomic_okb exemptions accesses accessors = true.
Proof. exact accessors_atomic_l. Qed.
Print Assumptions accessors_atomic.

Theorem no_lock_leaks : leaks = [].
Proof. exact no_lock_leaks_l. Qed.
Print Assumptions no_lock_leaks.

Theorem table_covers_guards : coverage_okb tracked locks accesses = true.
Proof. exact table_covers_guards_l. Qed.
Print Assumptions table_covers_guards.
