(* C18 — Concurrent use of the API never races, panics, deadlocks or tears results.
   Statements only; every proof is `exact <lemma of Proofs/C18_*.v>`.

   Quantification: every number of threads, every thread program, every interleaving (the machine of
   Model/C18_Conc.v), every schedule of appenders and readers of the object models, every capacity.
   Tie to the source: Gen/Locksets.v (accesses, nesting, leaks, accessors, tracked, locks) is regenerated
   from the Go source at every run; the theorems that mention it are re-checked by coqc against what the
   code says now. Not modelled (sampled by the -race stress run only): the Go memory model below the
   level of data-race freedom, channel-based blocking, panics outside these structures. *)
From V Require Import Model.C18_Table Model.C18_Exempt Model.C18_Conc Model.C18_Wait Model.C18_Glue Model.C18_Objects Model.C18_Check
  Gen.Locksets Proofs.C18_Table Proofs.C18_Conc Proofs.C18_Wait Proofs.C18_WaitGlue Proofs.C18_WaitTable Proofs.C18_Glue Proofs.C18_Objects
  Proofs.C18_Tie Proofs.C18_Check.

(* The hand-written exemption table (rule and justification: Model/C18_Exempt.v). Functions listed here
   would be initialisers that run before the object is visible to a second goroutine. It is empty: on the
   repaired tree even the informers' SetClient takes the mutex. *)
Example exemptions_are : exemptions = [].
Proof. reflexivity. Qed.

(* ------------------------------------------------------------------------------------------------ *)
(* general, proved once                                                                               *)

(* If every thread performs every write of x holding guard x exclusively and every read holding it at
   least shared, no reachable state of any interleaving has two threads about to make conflicting accesses. *)
Theorem lockset_drf (guard : loc -> option lock) (progs : nat -> list ev) s0 s :
  init_ok s0 -> prog_inv progs s0 -> (forall i, disciplined guard (progs i)) -> reach s0 s -> ~ race s.
Proof. exact (lockset_drf_l guard progs s0 s). Qed.
Print Assumptions lockset_drf.

(* With locks acquired along a strict order (and released before a thread ends) no interleaving of any n
   threads reaches a state where every unfinished thread waits for a mutex — pending writers included. *)
Theorem acyclic_no_lock_deadlock (rank : lname -> nat) (progs : nat -> list ev) n s0 s :
  init_ok s0 -> prog_inv progs s0 ->
  (forall i, ordered rank (progs i)) -> (forall i, balanced (progs i)) -> (forall i, n <= i -> progs i = []) ->
  reach s0 s -> ~ deadlocked n s.
Proof. exact (acyclic_no_lock_deadlock_l rank progs n s0 s). Qed.
Print Assumptions acyclic_no_lock_deadlock.

(* The machine with `Wait g` (Model/C18_Wait.v: a thread blocks until every thread of the group g has finished -
   sync.WaitGroup.Wait for the goroutines the WaitGroup covers, a plain receive for whoever closes the channel).
   If the wait-for relation
       "holds lock L while acquiring M"  +  "holds L while waiting for group G"
     + "a thread of G acquires L"        +  "a thread of G waits for G'"
   can be ranked strictly (is acyclic) - gordered states exactly these four clauses, per thread program and the groups
   gs that cover it - then no interleaving of any n threads reaches a state in which every unfinished thread is blocked
   on a lock or on a group. *)
Theorem acyclic_wait_for_no_deadlock (rank : node -> nat) (grp : nat -> list group) (progs : nat -> list gev) n s0 s :
  ginit_ok s0 -> gprog_inv progs s0 ->
  (forall i, gordered rank (grp i) (progs i)) -> (forall i, gbalanced (progs i)) -> (forall i, n <= i -> progs i = []) ->
  greach grp s0 s -> ~ gdeadlocked grp n s.
Proof. exact (acyclic_wait_for_no_deadlock_l rank grp progs n s0 s). Qed.
Print Assumptions acyclic_wait_for_no_deadlock.

(* it generalises acyclic_no_lock_deadlock: the same statement, obtained from the theorem with waits through the
   embedding of the lock-only machine (no waits, no groups) *)
Theorem lock_deadlock_freedom_is_the_wait_free_case (rank : lname -> nat) (progs : nat -> list ev) n s0 s :
  init_ok s0 -> prog_inv progs s0 ->
  (forall i, ordered rank (progs i)) -> (forall i, balanced (progs i)) -> (forall i, n <= i -> progs i = []) ->
  reach s0 s -> ~ deadlocked n s.
Proof. exact (acyclic_no_lock_deadlock_from_wait rank progs n s0 s). Qed.
Print Assumptions lock_deadlock_freedom_is_the_wait_free_case.

(* ------------------------------------------------------------------------------------------------ *)
(* the table generated from the current source                                                        *)

(* every syntactic access to a tracked field satisfies the premise of lockset_drf for the field's
   designated guard (Model/C18_Table.v: guards) *)
Theorem discipline_holds : forall a, In a accesses -> access_ok exemptions accesses a.
Proof. exact discipline_holds_l. Qed.
Print Assumptions discipline_holds.

(* hence: threads whose reads and writes of the tracked fields are instances of table entries, made with
   at least the locks the entry lists, never race, in any number and any interleaving *)
Theorem table_drf (progs : nat -> list ev) s0 s :
  init_ok s0 -> prog_inv progs s0 -> (forall i, conforms exemptions accesses (progs i)) -> reach s0 s -> ~ race s.
Proof. exact (table_drf_l exemptions accesses progs s0 s discipline_okb_holds). Qed.
Print Assumptions table_drf.

(* the (held, acquired) pairs of the source, calls followed, can be ranked strictly *)
Theorem lock_order_acyclic : exists rank : string -> nat, forall held acquired where_,
  In (held, acquired, where_) nesting -> (rank held < rank acquired)%nat.
Proof. exact lock_order_acyclic_l. Qed.
Print Assumptions lock_order_acyclic.

(* the wait-for graph of the source - the nesting pairs, (lock held -> group waited for) for every X.Wait() / plain
   receive and every call that may wait, (group -> lock | group) for everything a code unit the group covers may
   acquire or wait for, calls followed - can be ranked strictly: it has no cycle *)
Theorem wait_graph_acyclic : exists rank : string -> nat, forall a b where_,
  In (a, b, where_) (wait_edges nesting waits covers) -> (rank a < rank b)%nat.
Proof. exact wait_graph_acyclic_l. Qed.
Print Assumptions wait_graph_acyclic.

(* the table still lists the waits the property is about (Cluster.Shutdown collecting the cluster's goroutines, with
   the code units that WaitGroup covers; the tracker's Shutdown) - a rename or a pattern the translator no longer
   recognises must not make the obligation above hold vacuously *)
Theorem table_covers_waits : wait_coverage_okb waits members = true.
Proof. exact table_covers_waits_l. Qed.
Print Assumptions table_covers_waits.

(* every plain receive from a channel field has a closer that is sure to run: its close is reached whenever it runs, and
   the `go` statement that starts it is reached on every path of its launcher (no return statement before it, no condition
   the wait is not under too), up to a constructor. This is the machine's "the threads of a group exist" for channels:
   a wait for a goroutine that was never started is not a cycle, it is a wait for nobody (Model/C18_Table.v: startedb) *)
Theorem waited_goroutines_always_started : started_okb launches closers chan_waits = true.
Proof. exact waited_goroutines_always_started_l. Qed.
Print Assumptions waited_goroutines_always_started.

(* no new shared state outside the table: every map / slice field of the owner types that is mutated, assigned or handed on
   outside a constructor and is used by code reachable from two goroutine entry points (a unit started by `go`, an exported
   method) is tracked by the table (and so falls under discipline_holds) or is in the justified exemption list *)
Example shared_exemptions_are : shared_exemptions = [].
Proof. reflexivity. Qed.
Theorem untracked_shared_fields : untracked_shared shared_exemptions shared_untracked = [].
Proof. exact untracked_shared_fields_l. Qed.
Print Assumptions untracked_shared_fields.

(* hence: threads whose acquisitions and waits are instances of edges of that graph (from every lock held there and
   from every group that covers the thread) never reach a state in which every unfinished thread is blocked *)
Theorem table_no_wait_deadlock (grp : nat -> list group) (progs : nat -> list gev) n s0 s :
  ginit_ok s0 -> gprog_inv progs s0 ->
  (forall i, gconforms (wait_edges nesting waits covers) (grp i) (progs i)) -> (forall i, gbalanced (progs i)) ->
  (forall i, n <= i -> progs i = []) ->
  greach grp s0 s -> ~ gdeadlocked grp n s.
Proof. exact (table_no_wait_deadlock_l grp progs n s0 s). Qed.
Print Assumptions table_no_wait_deadlock.

(* the pinned source (S30-S32: Cluster.Shutdown waits for c.wg holding shutdownLock; watchPeers and ready(), which c.wg
   covers, take shutdownLock; ready() calls Shutdown): the rank test fails on that part of its table, no rank exists,
   and the two programs "Shutdown" / "watchPeers as pinned" do reach a state where both are blocked *)
Theorem wait_graph_as_pinned_refuted :
  wait_graph_okb [] pinned_waits pinned_covers = false /\
  (~ exists rank : string -> nat, forall a b w, In (a, b, w) (wait_edges [] pinned_waits pinned_covers) -> (rank a < rank b)%nat) /\
  (forall o, exists s, greach (sd_grp o) (start_of (sd_progs_pinned o)) s /\ gdeadlocked (sd_grp o) 2 s).
Proof. exact wait_graph_as_pinned_refuted_l. Qed.
Print Assumptions wait_graph_as_pinned_refuted.

(* the repaired pair (the covered goroutine takes no lock; a goroutine nobody waits for sets `removed` under
   shutdownLock): no interleaving of Shutdown, watchPeers and that goroutine deadlocks *)
Theorem shutdown_watchpeers_repaired_no_deadlock o s :
  greach (sd_grp o) (start_of (sd_progs_repaired o)) s -> ~ gdeadlocked (sd_grp o) 3 s.
Proof. exact (sd_repaired_never_deadlocks o s). Qed.
Print Assumptions shutdown_watchpeers_repaired_no_deadlock.

(* no function returns, or ends, with a lock held and no deferred unlock; no unmatched unlock; every
   function that touches a tracked field or its mutex was followed *)
Theorem no_lock_leaks : leaks = [].
Proof. exact no_lock_leaks_l. Qed.
Print Assumptions no_lock_leaks.

(* every value-returning function makes all its accesses to written fields inside one critical section *)
Theorem accessors_atomic : atomic_okb exemptions accesses accessors = true.
Proof. exact accessors_atomic_l. Qed.
Print Assumptions accessors_atomic.

(* the table still contains every field the property names, with its designated mutex *)
Theorem table_covers_guards : coverage_okb tracked locks accesses = true.
Proof. exact table_covers_guards_l. Qed.
Print Assumptions table_covers_guards.

(* ------------------------------------------------------------------------------------------------ *)
(* torn results                                                                                       *)

(* Cluster.Alerts, as the current source has it (all reads in one critical section, by the table): for
   every maximum, every interleaving of appenders and readers, a reader returns the reverse of the list as
   it was at one instant — never an index panic; and so no empty and no duplicated entry. *)
Theorem alerts_not_torn :
  reader_variant exemptions accesses "ipfscluster.Cluster.Alerts" = Atomic /\
  forall maxa sched, forallb (aev_of Atomic) sched = true ->
  forall r res, In (r, res) (a_out (arun maxa sched)) ->
    (exists k, k <= length sched /\ res = AOk (rev (a_list (arun maxa (firstn k sched))))) /\
    (NoDup (appended sched) -> ~ In 0%N (appended sched) -> exists l, res = AOk l /\ NoDup l /\ ~ In 0%N l).
Proof. exact alerts_not_torn_l. Qed.
Print Assumptions alerts_not_torn.

(* the pinned source (length read and allocation before the lock; S17a) did tear: witnesses *)
Theorem alerts_torn_as_pinned_refuted :
  (exists maxa sched r, forallb (aev_of Outside) sched = true /\ In (r, APanic) (a_out (arun maxa sched))) /\
  (exists maxa sched r l, forallb (aev_of Outside) sched = true /\ ~ In 0%N (appended sched) /\
                          In (r, AOk l) (a_out (arun maxa sched)) /\ In 0%N l).
Proof. exact (conj alerts_panic_as_pinned alerts_empty_entry_as_pinned). Qed.
Print Assumptions alerts_torn_as_pinned_refuted.

(* Window.Latest, as the current source has it: both words of the returned value are those of the metric
   added last at one instant (nil before the first Add), for every capacity and interleaving *)
Theorem window_latest_atomic :
  reader_variant exemptions accesses "metrics.Window.Latest" = Atomic /\
  forall cap sched, cap > 0 -> forallb (wev_of Atomic) sched = true ->
  forall r v, In (r, v) (w_out (wrun cap sched)) ->
  exists k, k <= length sched /\
    v = (last (added (firstn k sched)) 0%N, last (added (firstn k sched)) 0%N).
Proof. exact window_latest_atomic_l. Qed.
Print Assumptions window_latest_atomic.

(* the pinned source (ring value read after RUnlock; S17b) could return the words of two metrics *)
Theorem window_latest_torn_as_pinned_refuted : exists cap sched r a b,
  cap > 0 /\ forallb (wev_of Outside) sched = true /\ In (r, (a, b)) (w_out (wrun cap sched)) /\ a <> b.
Proof. exact window_latest_torn_as_pinned. Qed.
Print Assumptions window_latest_torn_as_pinned_refuted.

(* ------------------------------------------------------------------------------------------------ *)
(* the boolean check applied to slices returned under stress means what it says                        *)
Theorem view_okb_sound rs : view_okb rs = true ->
  NoDup (expand rs) /\ ~ In 0%N (expand rs) /\
  (forall x y, In x (expand rs) -> In y (expand rs) -> (x <= y + view_len rs)%N).
Proof. exact (view_okb_sound_l rs). Qed.
Print Assumptions view_okb_sound.

(* non-vacuity: the machine can run, the discipline can be violated, the checks can fail *)
Example machine_can_race : exists s, race s.
Proof. exact machine_can_race_l. Qed.
Example check_rejects_torn_view : view_okb [(3%N, 1%N); (0%N, 1%N)] = false /\ view_okb [(2%N, 3%N)] = false /\ view_okb [(5%N, 3%N)] = true.
Proof. repeat split. Qed.
