(* C06 — Reported pin status is truthful and consistent between its two views.
   Statements only; every proof is `exact <lemma of Proofs/C06_*.v>`.
   Tracker part: every queue size, worker count, initial shared state and daemon content, every event list (including
   changes of the daemon behind the tracker's back), every cid, every filter mask f : N.
   Cluster-wide part: every member list, allocation list and reply vector. *)
From V Require Import Base.Common Model.C05_Tracker Model.C05_Check Model.C06_Check Model.C06_Global Model.C06_GlobalCheck
  Proofs.C05_Tracker Proofs.C06_Status Proofs.C06_Global Proofs.C06_Monitor Proofs.C06_MonitorT Proofs.C05_MonitorC Proofs.C06_MonitorQ Proofs.C06_MonitorF.
Open Scope N_scope.

Definition reached (q n : nat) (ps : list (N * tpin)) (i : list (N * bool)) (evs : list event) : st := run (init q n ps i) evs.

(* the twelve status constants are pairwise disjoint bits *)
Theorem tracker_status_bits_disjoint x y : x <> y -> N.land (st_bits x) (st_bits y) = 0.
Proof. exact (bits_disjoint x y). Qed.
Print Assumptions tracker_status_bits_disjoint.

Theorem match_spec stb f : match_ stb f = true <-> f = 0 \/ stb = 0 \/ N.land stb f <> 0.
Proof. exact (Proofs.C06_Status.match_spec stb f). Qed.
Print Assumptions match_spec.

(* a union filter matches exactly what one of its parts matches *)
Theorem match_union stb f g : f <> 0 -> g <> 0 -> match_ stb (N.lor f g) = match_ stb f || match_ stb g.
Proof. exact (Proofs.C06_Status.match_union stb f g). Qed.
Print Assumptions match_union.

(* a filtered listing is exactly the unfiltered listing restricted to the filter: every state, every mask *)
Theorem status_filter_law s f : status_all s f = filter (fun e => match_ (st_bits (snd e)) f) (status_all s 0).
Proof. exact (status_filter_law_l s f). Qed.
Print Assumptions status_filter_law.

(* the per-cid status and the listing agree (as classes; absence from the listing = unpinned) at every reachable state *)
Theorem status_views_agree q n ps i evs c : wf_pinset ps ->
  class_of (status_of (reached q n ps i evs) c) =
  match listed (reached q n ps i evs) c with Some x => class_of x | None => CUnpinned end.
Proof. exact (views_agree_reached q n ps i evs c). Qed.
Print Assumptions status_views_agree.

(* at quiescence both views are the facts: error iff the last pin/unpin of the cid failed or the cid should be pinned
   here and the daemon does not hold it in the recorded mode; otherwise unpinned iff not in the shared state, sharded
   iff meta, remote iff allocated elsewhere, pinned iff the daemon holds it as recorded *)
Theorem status_truthful q n ps i evs c : wf_pinset ps -> stable_run (init q n ps i) evs ->
  quiescent (reached q n ps i evs) = true ->
  class_of (status_of (reached q n ps i evs) c) = expected_class (reached q n ps i evs) c /\
  match listed (reached q n ps i evs) c with Some x => class_of x | None => CUnpinned end
    = expected_class (reached q n ps i evs) c.
Proof. exact (truthful_reached q n ps i evs c). Qed.
Print Assumptions status_truthful.

(* queued / in progress only while an operation is pending *)
Theorem status_pending_only_while_pending q n ps i evs c :
  quiescent (reached q n ps i evs) = true -> class_of (status_of (reached q n ps i evs) c) <> CPending.
Proof. exact (no_pending_l _ c (reached_inv q n ps i evs)). Qed.
Print Assumptions status_pending_only_while_pending.

(* cluster-wide view of one cid: a peer appears at most once *)
Theorem global_once self follower members pin replies : NoDup (akeys (global_cid self follower members pin replies)).
Proof. exact (global_cid_once_l self follower members pin replies). Qed.
Print Assumptions global_once.

(* allocated peers carry their own report, cluster_error when unreachable, nothing when the caller is not authorised;
   the other members carry remote; nobody else appears *)
Theorem global_view self members g replies :
  g_every g = false -> NoDup (g_alloc g) -> honest (combine (g_alloc g) replies) ->
  (forall d r, In (d, r) (combine (g_alloc g) replies) ->
     aget d (global_cid self false members (Some g) replies) = shown r) /\
  (forall m, In m members -> ~ In m (g_alloc g) -> aget m (global_cid self false members (Some g) replies) = Some 256) /\
  (forall x, ~ In x members -> ~ In x (g_alloc g) -> aget x (global_cid self false members (Some g) replies) = None).
Proof. exact (global_cid_view self members g replies). Qed.
Print Assumptions global_view.

Theorem global_unpinned self members replies m : In m members ->
  aget m (global_cid self false members None replies) = Some 128.
Proof. exact (global_cid_unpinned self members replies m). Qed.
Print Assumptions global_unpinned.

(* listing: every cid once, every peer at most once per cid *)
Theorem global_slice_once self follower members replies :
  NoDup (akeys (global_slice self follower members replies)) /\
  forall c m, aget c (global_slice self follower members replies) = Some m -> NoDup (akeys m).
Proof. exact (global_slice_ok self follower members replies). Qed.
Print Assumptions global_slice_once.

(* non-vacuity *)
Example views_example :
  let s := reached 1 1 [(1, mk_pin 1 false false true 7); (2, mk_pin 2 false true false 8); (3, mk_pin 3 true false false 9)]
                   [(1, true)] [EUntrack 4; EComplete 4 true] in
  quiescent s = true /\ stable_run (init 1 1 [(1, mk_pin 1 false false true 7); (2, mk_pin 2 false true false 8); (3, mk_pin 3 true false false 9)] [(1, true)]) [EUntrack 4; EComplete 4 true] /\
  map (fun c => status_of s c) [1; 2; 3; 4; 5] = [SPinned; SRemote; SSharded; SUnpinError; SUnpinned] /\
  status_all s 14 = [(4, SUnpinError)] /\ status_all s 16 = [(1, SPinned)].
Proof. vm_compute. repeat split. Qed.

Example global_example :
  global_cid 0 false [0; 1; 2; 3] (Some (mk_gpin [1; 2; 5] false)) [RInfo 1 16; RErr; RAuth] = [(2, 2); (1, 16); (3, 256); (0, 256)].
Proof. vm_compute. reflexivity. Qed.

(* ---- the run-time monitors and the statements above ---- *)

(* cluster-wide view (Model/C06_GlobalCheck.v, codes 30 / 31 / 32). Completeness: a case that carries the model's own answer
   as the observation produces nothing at all (no code 1, 30, 31, 32), for every member list, pin, reply vector *)
Theorem gcid_model_passes id self follower members pin replies :
  C06_GlobalCheck.check_case (id, GCid self follower members pin replies (global_cid self follower members pin replies)) = [].
Proof. exact (gcid_model_passes_l id self follower members pin replies). Qed.
Print Assumptions gcid_model_passes.

Theorem gslice_model_passes id self follower members replies :
  C06_GlobalCheck.check_case (id, GSlice self follower members replies (global_slice self follower members replies)) = [].
Proof. exact (gslice_model_passes_l id self follower members replies). Qed.
Print Assumptions gslice_model_passes.

(* the fact behind code 32 (new): a member that could not be asked shows cluster_error under every listed cid *)
Theorem global_slice_errored (self : N) (follower : bool) (members : list N) (replies : list sreply) (m c : N) (e : list (N * N)) :
  In (m, SErr) (combine (if follower then [self] else members) replies) ->
  aget c (global_slice self follower members replies) = Some e -> aget m e = Some 2.
Proof. exact (slice_errored_l self follower members replies m c e). Qed.
Print Assumptions global_slice_errored.

(* soundness: an observed answer on which only code 1 may appear has each peer once and, for a non-follower: the unpinned cid
   is unpinned on every member; for a pinned cid with honest replies and distinct allocations, view_spec (allocated peers show
   their own report / cluster_error / nothing, other members remote, nobody else listed) *)
Theorem gcid_monitor_sound id self follower members pin replies obs :
  (forall k t, In (id, k, t) (C06_GlobalCheck.check_case (id, GCid self follower members pin replies obs)) -> k = 1) ->
  NoDup (akeys obs) /\
  (follower = false ->
     match pin with
     | Some g => g_every g = false -> NoDup (g_alloc g) -> honest (combine (g_alloc g) replies) -> view_spec members g replies obs
     | None => forall m, In m members -> aget m obs = Some 128 end).
Proof. exact (gcid_monitor_sound_l id self follower members pin replies obs). Qed.
Print Assumptions gcid_monitor_sound.

Theorem gslice_monitor_sound (id self : N) (follower : bool) (members : list N) (replies : list sreply) (obs : list (N * list (N * N))) :
  (forall k t, In (id, k, t) (C06_GlobalCheck.check_case (id, GSlice self follower members replies obs)) -> k = 1) ->
  NoDup (akeys obs) /\ (forall c e, In (c, e) obs -> NoDup (akeys e)) /\
  (forall m c e, In (m, SErr) (combine (if follower then [self] else members) replies) -> In (c, e) obs -> aget m e = Some 2).
Proof. exact (gslice_monitor_sound_l id self follower members replies obs). Qed.
Print Assumptions gslice_monitor_sound.

(* tracker views (Model/C06_Check.v), the two monitors that need no bookkeeping. Soundness: code 22 absent -> at every
   observation of the history Status and the listing agree as classes; code 23 absent -> every recorded filtered listing is
   the unfiltered one restricted to its mask *)
Theorem views_agree_monitor_sound c cf l e o : ~ In 22 (spec_codes6 cf l) -> In (e, o) l -> In c (nrange (ncid_of cf)) ->
  class_bits (o_st o c) = entry_class (o_all o) c.
Proof. exact (views_agree_monitor_sound_l c cf l e o). Qed.
Print Assumptions views_agree_monitor_sound.

Theorem filter_law_monitor_sound cf l e o f lf : ~ In 23 (spec_codes6 cf l) -> In (e, o) l -> In (f, lf) (o_masks o) ->
  forall a, In a lf <-> In a (o_all o) /\ match_ (snd a) f = true.
Proof. exact (filter_law_monitor_sound_l cf l e o f lf). Qed.
Print Assumptions filter_law_monitor_sound.

(* completeness of those two: along every event list from a (re)started tracker the model's own observations (mtrace: what the
   harness records, computed from the model state, with the listings for any masks fs) raise neither code *)
Theorem model_views_pass q np ps i nc fs evs x : wf_pinset ps ->
  ~ In 22 (spec_walk6 nc x (mtrace nc fs (init q np ps i) evs)) /\ ~ In 23 (spec_walk6 nc x (mtrace nc fs (init q np ps i) evs)).
Proof. exact (model_views_pass_l q np ps i nc fs evs x). Qed.
Print Assumptions model_views_pass.

(* non-vacuity: the global example above as a harness case passes; an answer listing a stranger, or a listing that forgets the
   cluster_error of an unreachable member, does not *)
Example c06_monitor_example :
  let g := mk_gpin [1; 2; 5] false in
  honest (combine (g_alloc g) [RInfo 1 16; RErr; RAuth]) /\ NoDup (g_alloc g) /\
  C06_GlobalCheck.check_case (9, GCid 0 false [0; 1; 2; 3] (Some g) [RInfo 1 16; RErr; RAuth] [(2, 2); (1, 16); (3, 256); (0, 256)]) = [] /\
  C06_GlobalCheck.check_case (9, GCid 0 false [0; 1; 2; 3] (Some g) [RInfo 1 16; RErr; RAuth] [(7, 16); (2, 2); (1, 16); (3, 256); (0, 256)])
    = [(9, 1, 0); (9, 31, 0)] /\
  C06_GlobalCheck.check_case (9, GSlice 0 false [0; 1] [SList [(4, 0, 16)]; SErr] [(4, [(0, 16)])]) = [(9, 1, 0); (9, 32, 0)] /\
  C06_GlobalCheck.check_case (9, GSlice 0 false [0; 1] [SList [(4, 0, 16)]; SErr] (global_slice 0 false [0; 1] [SList [(4, 0, 16)]; SErr])) = [].
Proof. cbv zeta. split; [intros d r H; simpl in H; destruct H as [E|[E|[E|[]]]]; inversion E; subst; auto|].
  split; [simpl; repeat constructor; simpl; intuition discriminate|]. repeat split; vm_compute; reflexivity. Qed.

(* ---- tracker views, the monitors about quiescence and pending work (codes 20, 21, 24) ---- *)

(* soundness, codes 20 / 21: at every quiescent observation the class Status reports for a listed cid, resp. the class of its
   listing entry, is one the script allows (expected_spec over the monitor's record sp6: error if the last finished pin / unpin
   of the cid failed - sharded also allowed for a meta pin -; otherwise unpinned / sharded / remote / pinned-or-error by the
   shared state and the daemon as observed) *)
Theorem truthful_monitor_sound cf pre e o post c : o_quiescent o = true -> In c (nrange (ncid_of cf)) ->
  (~ In 20 (spec_codes6 cf (pre ++ (e, o) :: post)) -> expected_spec (sp6_after cf (pre ++ [(e, o)])) o c (class_bits (o_st o c))) /\
  (~ In 21 (spec_codes6 cf (pre ++ (e, o) :: post)) -> expected_spec (sp6_after cf (pre ++ [(e, o)])) o c (entry_class (o_all o) c)).
Proof. exact (truthful_monitor_sound_l cf pre e o post c). Qed.
Print Assumptions truthful_monitor_sound.

(* soundness, code 24: a listed cid shown as pinning / unpinning has a call in flight; one shown as queued waits behind a call *)
Theorem pending_monitor_sound cf pre e o post c : ~ In 24 (spec_codes6 cf (pre ++ (e, o) :: post)) -> In c (nrange (ncid_of cf)) ->
  (o_st o c = 32 \/ o_st o c = 64 -> exists k d, inflight_of (o_inflight o) c = Some (k, d)) /\
  (o_st o c = 512 \/ o_st o c = 1024 -> o_inflight o <> []).
Proof. exact (pending_monitor_sound_l cf pre e o post c). Qed.
Print Assumptions pending_monitor_sound.

(* completeness, code 24: with at least one pin worker, the model's own observations never raise it, along every event list
   (uses the dispatch fact: a current entry still queued means the workers of its queue are all busy) *)
Theorem model_pending_pass q np ps i nc fs evs x : (0 < np)%nat -> ~ In 24 (spec_walk6 nc x (mtrace nc fs (init q np ps i) evs)).
Proof. exact (model_pending_pass_l q np ps i nc fs evs x). Qed.
Print Assumptions model_pending_pass.

Example c06_pending_example :
  let evs := [ETrack (mk_pin 0 false false true 7); ETrack (mk_pin 1 false false false 8); EComplete 0 false; EComplete 1 true] in
  let cf : cfg := (1%nat, 1%nat, 2, [], []) in
  spec_codes6 cf (mtrace 2 [0; 16] (init_of cf) evs) = [] /\
  map (fun eo => o_status (snd eo)) (mtrace 2 [] (init_of cf) evs) = [[32; 128]; [32; 512]; [16; 32]; [16; 4]].
Proof. vm_compute. split; reflexivity. Qed.

(* ---- completeness of codes 20 / 21 (both views truthful at quiescence) for the model ----
   Hypotheses on the script, both needed (c06_truthful_example, last two conjuncts):
   * stable_run: a cid does not change between meta and non-meta without an unpin (Cluster.pin refuses it);
   * ord_run: the order recorded with a failing RecoverAll never lists a cid that RecoverAll newly put in error. The harness
     guarantees it: `ord` is built from the list RecoverAll returned (harness/stateless/c05_rig_test.go, exec "recoverall"), and
     stateless.RecoverAll returns `resp, err` before appending the cid whose enqueue failed. *)
Theorem truthful_model_passes q np n pins i fs evs : (0 < np)%nat -> NoDup (map pcid pins) ->
  let cf := (q, np, n, pins, dm_of i) in
  stable_run (init_of cf) evs -> ord_run (init_of cf) evs ->
  ~ In 20 (spec_codes6 cf (mtrace n fs (init_of cf) evs)) /\ ~ In 21 (spec_codes6 cf (mtrace n fs (init_of cf) evs)).
Proof. exact (truthful_model_passes_l q np n pins i fs evs). Qed.
Print Assumptions truthful_model_passes.

(* the invariant behind it, one event: FI ties the monitor's record sp6 to the tracker state; its core (f_g1 / f_g2): a cid is
   in s6_failed exactly when the operation tracked for it is a pin / unpin operation, in error once it is no longer live *)
Theorem failed_record_follows_operations n fs s x e : FI s x -> ev_stable s e -> ord_ok s e ->
  FI (fst (step s e)) (sp6_event x e (model_obs n (fst (step s e)) (snd (step s e)) fs)).
Proof. exact (FI_step n fs s x e). Qed.
Print Assumptions failed_record_follows_operations.

(* non-vacuity: three pins missing from the daemon, one worker, queue of one: RecoverAll fails at the third cid. With the order the
   harness would record (nothing recovered before... here []) both hypotheses hold and the trace passes through a failed pin, daemon
   interference and a second recover. With an order that lists the cid RecoverAll stopped at, the model's own trace raises 20 and 21;
   and an unstable script (remote pin, then meta pin on the same cid, the unpin fails) raises 20 as well *)
Example c06_truthful_example :
  let pins := [mk_pin 0 false false false 1; mk_pin 1 false false false 2; mk_pin 2 false false false 3] in
  let cf : cfg := (1%nat, 1%nat, 3, pins, dm_of []) in
  let evs ord := [ERecoverAll ord; EComplete 0 false; EComplete 1 true; EDaemon 2 (Some false); ERecover 1; EComplete 1 false] in
  NoDup (map pcid pins) /\ stable_run (init_of cf) (evs []) /\ ord_run (init_of cf) (evs []) /\
  snd (step (init_of cf) (ERecoverAll [])) = RFull /\
  spec_codes6 cf (mtrace 3 [] (init_of cf) (evs [])) = [] /\
  spec_codes6 cf (mtrace 3 [] (init_of cf) (evs [0; 1; 2])) = [20; 21] /\
  (let cf2 : cfg := (1%nat, 1%nat, 1, [], dm_of []) in
   spec_codes6 cf2 (mtrace 1 [] (init_of cf2) [ETrack (mk_pin 0 false true false 1); ETrack (mk_pin 0 true false false 2); EComplete 0 true]) = [20; 21]).
Proof. cbv zeta. split; [simpl; repeat constructor; simpl; intuition discriminate|].
  split; [vm_compute; tauto|]. split.
  - cbn [ord_run ord_ok]. repeat split; try exact I. intros _ c _ _ [].
  - repeat split; vm_compute; reflexivity. Qed.
