(* C06 — Reported pin status is truthful and consistent between its two views.
   Statements only; every proof is `exact <lemma of Proofs/C06_*.v>`.
   Tracker part: every queue size, worker count, initial shared state and daemon content, every event list (including
   changes of the daemon behind the tracker's back), every cid, every filter mask f : N.
   Cluster-wide part: every member list, allocation list and reply vector. *)
From V Require Import Base.Common Model.C05_Tracker Model.C05_Check Model.C06_Check Model.C06_Global
  Proofs.C05_Tracker Proofs.C06_Status Proofs.C06_Global.
Open Scope N_scope.

Definition reached (q n : nat) (ps : list (N * tpin)) (i : list (N * bool)) (evs : list event) : st := run (init q n ps i) evs.

(* the twelve status constants are pairwise disjoint bits *)
Theorem tracker_status_bits_disjoint x y : x <> y -> N.land (st_bits x) (st_bits y) = 0.
Proof. exact (bits_disjoint x y). Qed.
Print Assumptions tracker_status_bits_disjoint.

Theorem match_spec stb f : match_ stb f = true <-> f = 0 \/ stb = 0 \/ N.land stb f <> 0.
Proof. exact (Proofs.C06_Status.match_spec stb f). Qed.
Print Assumptions match_spec.

(* a union filter matches exactly what one of its parts matches *)
Theorem match_union stb f g : f <> 0 -> g <> 0 -> match_ stb (N.lor f g) = match_ stb f || match_ stb g.
Proof. exact (Proofs.C06_Status.match_union stb f g). Qed.
Print Assumptions match_union.

(* a filtered listing is exactly the unfiltered listing restricted to the filter: every state, every mask *)
Theorem status_filter_law s f : status_all s f = filter (fun e => match_ (st_bits (snd e)) f) (status_all s 0).
Proof. exact (status_filter_law_l s f). Qed.
Print Assumptions status_filter_law.

(* the per-cid status and the listing agree (as classes; absence from the listing = unpinned) at every reachable state *)
Theorem status_views_agree q n ps i evs c : wf_pinset ps ->
  class_of (status_of (reached q n ps i evs) c) =
  match listed (reached q n ps i evs) c with Some x => class_of x | None => CUnpinned end.
Proof. exact (views_agree_reached q n ps i evs c). Qed.
Print Assumptions status_views_agree.

(* at quiescence both views are the facts: error iff the last pin/unpin of the cid failed or the cid should be pinned
   here and the daemon does not hold it in the recorded mode; otherwise unpinned iff not in the shared state, sharded
   iff meta, remote iff allocated elsewhere, pinned iff the daemon holds it as recorded *)
Theorem status_truthful q n ps i evs c : wf_pinset ps -> stable_run (init q n ps i) evs ->
  quiescent (reached q n ps i evs) = true ->
  class_of (status_of (reached q n ps i evs) c) = expected_class (reached q n ps i evs) c /\
  match listed (reached q n ps i evs) c with Some x => class_of x | None => CUnpinned end
    = expected_class (reached q n ps i evs) c.
Proof. exact (truthful_reached q n ps i evs c). Qed.
Print Assumptions status_truthful.

(* queued / in progress only while an operation is pending *)
Theorem status_pending_only_while_pending q n ps i evs c :
  quiescent (reached q n ps i evs) = true -> class_of (status_of (reached q n ps i evs) c) <> CPending.
Proof. exact (no_pending_l _ c (reached_inv q n ps i evs)). Qed.
Print Assumptions status_pending_only_while_pending.

(* cluster-wide view of one cid: a peer appears at most once *)
Theorem global_once self follower members pin replies : NoDup (akeys (global_cid self follower members pin replies)).
Proof. exact (global_cid_once_l self follower members pin replies). Qed.
Print Assumptions global_once.

(* allocated peers carry their own report, cluster_error when unreachable, nothing when the caller is not authorised;
   the other members carry remote; nobody else appears *)
Theorem global_view self members g replies :
  g_every g = false -> NoDup (g_alloc g) -> honest (combine (g_alloc g) replies) ->
  (forall d r, In (d, r) (combine (g_alloc g) replies) ->
     aget d (global_cid self false members (Some g) replies) = shown r) /\
  (forall m, In m members -> ~ In m (g_alloc g) -> aget m (global_cid self false members (Some g) replies) = Some 256) /\
  (forall x, ~ In x members -> ~ In x (g_alloc g) -> aget x (global_cid self false members (Some g) replies) = None).
Proof. exact (global_cid_view self members g replies). Qed.
Print Assumptions global_view.

Theorem global_unpinned self members replies m : In m members ->
  aget m (global_cid self false members None replies) = Some 128.
Proof. exact (global_cid_unpinned self members replies m). Qed.
Print Assumptions global_unpinned.

(* listing: every cid once, every peer at most once per cid *)
Theorem global_slice_once self follower members replies :
  NoDup (akeys (global_slice self follower members replies)) /\
  forall c m, aget c (global_slice self follower members replies) = Some m -> NoDup (akeys m).
Proof. exact (global_slice_ok self follower members replies). Qed.
Print Assumptions global_slice_once.

(* non-vacuity *)
Example views_example :
  let s := reached 1 1 [(1, mk_pin 1 false false true 7); (2, mk_pin 2 false true false 8); (3, mk_pin 3 true false false 9)]
                   [(1, true)] [EUntrack 4; EComplete 4 true] in
  quiescent s = true /\ stable_run (init 1 1 [(1, mk_pin 1 false false true 7); (2, mk_pin 2 false true false 8); (3, mk_pin 3 true false false 9)] [(1, true)]) [EUntrack 4; EComplete 4 true] /\
  map (fun c => status_of s c) [1; 2; 3; 4; 5] = [SPinned; SRemote; SSharded; SUnpinError; SUnpinned] /\
  status_all s 14 = [(4, SUnpinError)] /\ status_all s 16 = [(1, SPinned)].
Proof. vm_compute. repeat split. Qed.

Example global_example :
  global_cid 0 false [0; 1; 2; 3] (Some (mk_gpin [1; 2; 5] false)) [RInfo 1 16; RErr; RAuth] = [(2, 2); (1, 16); (3, 256); (0, 256)].
Proof. vm_compute. reflexivity. Qed.
