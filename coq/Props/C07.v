(* C07 — Untrusted peers cannot alter the pinset, drive IPFS or read closed endpoints.
   Statements only; every proof is `exact <lemma>`.
   `policy`, `authf_gen` (Gen/Policy.v) and `rpc_methods`, `known_services`, `registered_services`
   (Gen/RPCMethods.v) are regenerated from rpc_policy.go / rpc_api.go at every run: they are THE CODE.
   `open_spec`, `local_only_spec`, `trusted_spec` are THE SPECIFICATION, written by hand (Model/C07_Spec.v)
   and repeated literally below. Finite obligations are bounded by the generated tables and settled by
   vm_compute (Proofs/C07_Tables.v); everything about trust functions, callers and histories is general. *)
From Coq Require Import String.
From V Require Import Base.Common Base.Rpc Model.C07_Auth Model.C07_Spec Model.C07_Tables Gen.Policy Gen.RPCMethods
  Proofs.C07_Auth Proofs.C07_Tables.
Open Scope string_scope.

(* ---- the specification, literally ---- *)
Example open_spec_is : open_spec = ["Cluster.ID"; "Cluster.Version"; "Cluster.PeerAdd"].
Proof. reflexivity. Qed.
Example local_only_spec_is : local_only_spec = [
  "Cluster.BlockAllocate"; "Cluster.ConnectGraph"; "Cluster.Join";
  "Cluster.Pin"; "Cluster.PinGet"; "Cluster.PinPath"; "Cluster.Pins";
  "Cluster.Recover"; "Cluster.RecoverAll"; "Cluster.RepoGC";
  "Cluster.SendInformerMetric"; "Cluster.SendInformersMetrics"; "Cluster.Alerts";
  "Cluster.Status"; "Cluster.StatusAll"; "Cluster.StatusAllLocal"; "Cluster.StatusLocal";
  "Cluster.Unpin"; "Cluster.UnpinPath";
  "PinTracker.RecoverAll"; "PinTracker.Track"; "PinTracker.Untrack";
  "IPFSConnector.BlockGet"; "IPFSConnector.ConfigKey"; "IPFSConnector.Pin"; "IPFSConnector.PinLs";
  "IPFSConnector.PinLsCid"; "IPFSConnector.Resolve"; "IPFSConnector.Unpin";
  "Consensus.Peers";
  "PeerMonitor.LatestMetrics"; "PeerMonitor.MetricNames"].
Proof. reflexivity. Qed.
Example trusted_spec_is : trusted_spec = [
  "Cluster.PeerRemove"; "Cluster.Peers"; "Cluster.RecoverAllLocal"; "Cluster.RecoverLocal"; "Cluster.RepoGCLocal";
  "PinTracker.Recover"; "PinTracker.Status"; "PinTracker.StatusAll";
  "IPFSConnector.BlockPut"; "IPFSConnector.RepoStat"; "IPFSConnector.SwarmPeers";
  "Consensus.AddPeer"; "Consensus.LogPin"; "Consensus.LogUnpin"; "Consensus.RmPeer"].
Proof. reflexivity. Qed.

(* ---- the decision function ---- *)
(* general: whatever the policy map, the trust verdict and the endpoint: allowed -> Open entry, or Trusted entry and a trusted caller *)
Theorem authorize_sound pol trusted ep : authorize pol trusted ep = true ->
  lookup ep pol = Some Open \/ (lookup ep pol = Some Trusted /\ trusted = true).
Proof. exact (authorize_sound_l pol trusted ep). Qed.
Print Assumptions authorize_sound.

(* default deny: an endpoint without entry is refused to everybody *)
Theorem authorize_default_deny pol trusted ep : lookup ep pol = None -> authorize pol trusted ep = false.
Proof. exact (authorize_missing pol trusted ep). Qed.
Print Assumptions authorize_default_deny.

(* the function literal installed by newRPCServer (translated from the source) is the modelled one *)
Theorem authf_source_is_model e trusted : authf_gen e trusted = authorize_entry e trusted.
Proof. exact (authf_l e trusted). Qed.
Print Assumptions authf_source_is_model.

(* ---- the policy table against the method set (isRPCPolicyValid accepts; nothing stale) ---- *)
Theorem policy_total m : In m rpc_methods -> exists t, lookup m policy = Some t.
Proof. exact (policy_total_l m). Qed.
Print Assumptions policy_total.

Theorem policy_no_unknown k t : In (k, t) policy -> In k rpc_methods.
Proof. exact (policy_no_unknown_l k t). Qed.
Print Assumptions policy_no_unknown.

Theorem policy_keys_unique k : In k (map fst policy) -> count_str k (map fst policy) = 1%nat.
Proof. exact (policy_keys_unique_l k). Qed.
Print Assumptions policy_keys_unique.

Theorem services_all_registered s : In s known_services -> In s registered_services.
Proof. exact (services_registered_l s). Qed.
Print Assumptions services_all_registered.

(* ---- the property ---- *)
(* a caller that is not trusted is let in only on identity, version and the join handshake — for EVERY endpoint name *)
Theorem untrusted_only_open ep : authorize policy false ep = true -> In ep open_spec.
Proof. exact (untrusted_only_open_l ep). Qed.
Print Assumptions untrusted_only_open.

(* endpoints meant for local use are refused to every remote caller, trusted or not, under every trust function *)
Theorem local_only_refused_to_all_remote ep : In ep local_only_spec ->
  forall (trust : N -> bool) (caller : N), call_allowed policy false (trust caller) ep = false.
Proof. exact (local_only_refused_l ep). Qed.
Print Assumptions local_only_refused_to_all_remote.

(* the inter-peer endpoints are decided by trust and nothing else; the open ones are open *)
Theorem trusted_spec_decided_by_trust ep : In ep trusted_spec -> forall trusted, authorize policy trusted ep = trusted.
Proof. exact (trusted_spec_l ep). Qed.
Print Assumptions trusted_spec_decided_by_trust.

Theorem open_spec_allowed_to_all ep : In ep open_spec -> forall trusted, authorize policy trusted ep = true.
Proof. exact (open_spec_l ep). Qed.
Print Assumptions open_spec_allowed_to_all.

(* the three specification tables classify every endpoint the peer offers exactly once, and nothing else *)
Theorem spec_tables_partition_methods :
  (forall m, In m rpc_methods -> count_str m spec_all = 1%nat) /\ (forall s, In s spec_all -> In s rpc_methods).
Proof. exact spec_partition_l. Qed.
Print Assumptions spec_tables_partition_methods.

(* ---- trust ---- *)
Theorem trust_raft_everyone p : trust_raft p = true.
Proof. exact (trust_raft_all p). Qed.
Print Assumptions trust_raft_everyone.

(* for every configuration, every history of Trust/Distrust calls and every peer *)
Theorem trust_follows_history cfg h p :
  trust_crdt cfg h p = true <->
  trust_all cfg = true \/ p = self cfg \/ last_op p h = Some true \/ (last_op p h = None /\ In p (configured cfg)).
Proof. exact (trust_follows_history_l cfg h p). Qed.
Print Assumptions trust_follows_history.

Theorem trust_follows_configuration cfg p :
  trust_crdt cfg [] p = true <-> trust_all cfg = true \/ p = self cfg \/ In p (configured cfg).
Proof. exact (trust_configured cfg p). Qed.
Print Assumptions trust_follows_configuration.

(* the configuration as written in the file: for every trusted_peers value (absent, null, any list in any order, "*" at
   any position) a peer other than the component itself is trusted after loading iff it, or "*", is listed *)
Theorem trust_follows_configuration_file me tp p :
  trust_crdt (cfg_of_json me tp) [] p = true <-> p = me \/ exists l, tp = Some l /\ (In TStar l \/ In (TPeer p) l).
Proof. exact (trust_json_l me tp p). Qed.
Print Assumptions trust_follows_configuration_file.

Example no_trusted_peers_key_trusts_nobody : trust_crdt (cfg_of_json 0 None) [] 3 = false /\
  trust_crdt (cfg_of_json 0 (Some [TPeer 2; TStar; TPeer 4])) [] 3 = true /\
  trust_crdt (cfg_of_json 0 (Some [TPeer 2; TPeer 4])) [] 3 = false.
Proof. vm_compute. repeat split. Qed.

(* the environment pass of the configuration Manager (save to the JSON form, load again) changes nobody's trust,
   for every configuration, history and peer *)
Theorem trust_survives_environment_pass cfg h p : trust_crdt (env_pass cfg) h p = trust_crdt cfg h p.
Proof. exact (env_pass_same_trust cfg h p). Qed.
Print Assumptions trust_survives_environment_pass.

Theorem trust_call_takes_effect cfg h p : trust_crdt cfg (h ++ [TTrust p])%list p = true.
Proof. exact (trust_after_trust cfg h p). Qed.
Print Assumptions trust_call_takes_effect.

Theorem distrust_call_takes_effect cfg h p : trust_all cfg = false -> p <> self cfg ->
  trust_crdt cfg (h ++ [TDistrust p])%list p = false.
Proof. exact (trust_after_distrust cfg h p). Qed.
Print Assumptions distrust_call_takes_effect.

Theorem trust_call_is_local_to_its_peer cfg h o p : op_peer o <> p ->
  trust_crdt cfg (h ++ [o])%list p = trust_crdt cfg h p.
Proof. exact (trust_other_unchanged cfg h o p). Qed.
Print Assumptions trust_call_is_local_to_its_peer.

(* ---- CRDT broadcasts: a replica merges validated messages only; the validator is the trust of the signer ---- *)
(* any number of broadcasts signed by a peer the replica does not trust: nothing gets through *)
Theorem untrusted_broadcast_ignored (U : Type) cfg h (msgs : list (N * U)) u :
  trust_crdt cfg h u = false -> (forall m, In m msgs -> fst m = u) -> deliver cfg h msgs = [].
Proof. exact (deliver_untrusted_nil cfg h msgs u). Qed.
Print Assumptions untrusted_broadcast_ignored.

(* mixed with other traffic: the outcome is the same as if the untrusted peer had published nothing *)
Theorem untrusted_broadcast_no_effect (U : Type) cfg h (msgs : list (N * U)) u :
  trust_crdt cfg h u = false ->
  deliver cfg h msgs = deliver cfg h (filter (fun m => negb (N.eqb (fst m) u)) msgs).
Proof. exact (deliver_drops_untrusted cfg h msgs u). Qed.
Print Assumptions untrusted_broadcast_no_effect.

Theorem delivered_was_signed_by_trusted (U : Type) cfg h (msgs : list (N * U)) x :
  In x (deliver cfg h msgs) -> exists s, In (s, x) msgs /\ trust_crdt cfg h s = true.
Proof. exact (deliver_in cfg h msgs x). Qed.
Print Assumptions delivered_was_signed_by_trusted.

(* non-vacuity *)
Example c07_example :
  authorize policy false "Cluster.ID" = true /\ authorize policy true "Cluster.Pin" = false /\
  authorize policy true "Consensus.LogPin" = true /\ authorize policy false "Consensus.LogPin" = false /\
  trust_crdt (mk_crdt_cfg false 0%N [1%N]) [TTrust 2%N; TDistrust 1%N] 2%N = true /\
  trust_crdt (mk_crdt_cfg false 0%N [1%N]) [TTrust 2%N; TDistrust 1%N] 1%N = false /\
  deliver (mk_crdt_cfg false 0%N [1%N]) [] [(1%N, "a"); (2%N, "b"); (0%N, "c")] = ["a"; "c"].
Proof. vm_compute. repeat split. Qed.
