(* C07 — Untrusted peers cannot alter the pinset, drive IPFS or read closed endpoints.
   Statements only; every proof is `exact <lemma>`.
   `policy`, `authf_gen` (Gen/Policy.v) and `rpc_methods`, `known_services`, `registered_services`
   (Gen/RPCMethods.v) are regenerated from rpc_policy.go / rpc_api.go at every run: they are THE CODE.
   `open_spec`, `local_only_spec`, `trusted_spec` are THE SPECIFICATION, written by hand (Model/C07_Spec.v)
   and repeated literally below. Finite obligations are bounded by the generated tables and settled by
   vm_compute (Proofs/C07_Tables.v); everything about trust functions, callers and histories is general. *)
From Coq Require Import String.
From V Require Import Base.Common Base.Rpc Model.C07_Auth Model.C07_Spec Model.C07_Tables Gen.Policy Gen.RPCMethods
  Model.C07_Check Proofs.C07_Auth Proofs.C07_Tables Proofs.C07_Monitor.
Open Scope string_scope.

(* ---- the specification, literally ---- *)
Example open_spec_is : open_spec = ["Cluster.ID"; "Cluster.Version"; "Cluster.PeerAdd"].
Proof. reflexivity. Qed.
Example local_only_spec_is : local_only_spec = [
  "Cluster.BlockAllocate"; "Cluster.ConnectGraph"; "Cluster.Join";
  "Cluster.Pin"; "Cluster.PinGet"; "Cluster.PinPath"; "Cluster.Pins";
  "Cluster.Recover"; "Cluster.RecoverAll"; "Cluster.RepoGC";
  "Cluster.SendInformerMetric"; "Cluster.SendInformersMetrics"; "Cluster.Alerts";
  "Cluster.Status"; "Cluster.StatusAll"; "Cluster.StatusAllLocal"; "Cluster.StatusLocal";
  "Cluster.Unpin"; "Cluster.UnpinPath";
  "PinTracker.RecoverAll"; "PinTracker.Track"; "PinTracker.Untrack";
  "IPFSConnector.BlockGet"; "IPFSConnector.ConfigKey"; "IPFSConnector.Pin"; "IPFSConnector.PinLs";
  "IPFSConnector.PinLsCid"; "IPFSConnector.Resolve"; "IPFSConnector.Unpin";
  "Consensus.Peers";
  "PeerMonitor.LatestMetrics"; "PeerMonitor.MetricNames"].
Proof. reflexivity. Qed.
Example trusted_spec_is : trusted_spec = [
  "Cluster.PeerRemove"; "Cluster.Peers"; "Cluster.RecoverAllLocal"; "Cluster.RecoverLocal"; "Cluster.RepoGCLocal";
  "PinTracker.Recover"; "PinTracker.Status"; "PinTracker.StatusAll";
  "IPFSConnector.BlockPut"; "IPFSConnector.RepoStat"; "IPFSConnector.SwarmPeers";
  "Consensus.AddPeer"; "Consensus.LogPin"; "Consensus.LogUnpin"; "Consensus.RmPeer"].
Proof. reflexivity. Qed.

(* ---- the decision function ---- *)
(* general: whatever the policy map, the trust verdict and the endpoint: allowed -> Open entry, or Trusted entry and a trusted caller *)
Theorem authorize_sound pol trusted ep : authorize pol trusted ep = true ->
  lookup ep pol = Some Open \/ (lookup ep pol = Some Trusted /\ trusted = true).
Proof. exact (authorize_sound_l pol trusted ep). Qed.
Print Assumptions authorize_sound.

(* default deny: an endpoint without entry is refused to everybody *)
Theorem authorize_default_deny pol trusted ep : lookup ep pol = None -> authorize pol trusted ep = false.
Proof. exact (authorize_missing pol trusted ep). Qed.
Print Assumptions authorize_default_deny.

(* the function literal installed by newRPCServer (translated from the source) is the modelled one *)
Theorem authf_source_is_model e trusted : authf_gen e trusted = authorize_entry e trusted.
Proof. exact (authf_l e trusted). Qed.
Print Assumptions authf_source_is_model.

(* ---- the policy table against the method set (isRPCPolicyValid accepts; nothing stale) ---- *)
Theorem policy_total m : In m rpc_methods -> exists t, lookup m policy = Some t.
Proof. exact (policy_total_l m). Qed.
Print Assumptions policy_total.

Theorem policy_no_unknown k t : In (k, t) policy -> In k rpc_methods.
Proof. exact (policy_no_unknown_l k t). Qed.
Print Assumptions policy_no_unknown.

Theorem policy_keys_unique k : In k (map fst policy) -> count_str k (map fst policy) = 1%nat.
Proof. exact (policy_keys_unique_l k). Qed.
Print Assumptions policy_keys_unique.

Theorem services_all_registered s : In s known_services -> In s registered_services.
Proof. exact (services_registered_l s). Qed.
Print Assumptions services_all_registered.

(* ---- the property ---- *)
(* a caller that is not trusted is let in only on identity, version and the join handshake — for EVERY endpoint name *)
Theorem untrusted_only_open ep : authorize policy false ep = true -> In ep open_spec.
Proof. exact (untrusted_only_open_l ep). Qed.
Print Assumptions untrusted_only_open.

(* endpoints meant for local use are refused to every remote caller, trusted or not, under every trust function *)
Theorem local_only_refused_to_all_remote ep : In ep local_only_spec ->
  forall (trust : N -> bool) (caller : N), call_allowed policy false (trust caller) ep = false.
Proof. exact (local_only_refused_l ep). Qed.
Print Assumptions local_only_refused_to_all_remote.

(* the inter-peer endpoints are decided by trust and nothing else; the open ones are open *)
Theorem trusted_spec_decided_by_trust ep : In ep trusted_spec -> forall trusted, authorize policy trusted ep = trusted.
Proof. exact (trusted_spec_l ep). Qed.
Print Assumptions trusted_spec_decided_by_trust.

Theorem open_spec_allowed_to_all ep : In ep open_spec -> forall trusted, authorize policy trusted ep = true.
Proof. exact (open_spec_l ep). Qed.
Print Assumptions open_spec_allowed_to_all.

(* the three specification tables classify every endpoint the peer offers exactly once, and nothing else *)
Theorem spec_tables_partition_methods :
  (forall m, In m rpc_methods -> count_str m spec_all = 1%nat) /\ (forall s, In s spec_all -> In s rpc_methods).
Proof. exact spec_partition_l. Qed.
Print Assumptions spec_tables_partition_methods.

(* ---- trust ---- *)
Theorem trust_raft_everyone p : trust_raft p = true.
Proof. exact (trust_raft_all p). Qed.
Print Assumptions trust_raft_everyone.

(* for every configuration, every history of Trust/Distrust calls and every peer *)
Theorem trust_follows_history cfg h p :
  trust_crdt cfg h p = true <->
  trust_all cfg = true \/ p = self cfg \/ last_op p h = Some true \/ (last_op p h = None /\ In p (configured cfg)).
Proof. exact (trust_follows_history_l cfg h p). Qed.
Print Assumptions trust_follows_history.

Theorem trust_follows_configuration cfg p :
  trust_crdt cfg [] p = true <-> trust_all cfg = true \/ p = self cfg \/ In p (configured cfg).
Proof. exact (trust_configured cfg p). Qed.
Print Assumptions trust_follows_configuration.

(* the configuration as written in the file: for every trusted_peers value (absent, null, any list in any order, "*" at
   any position) a peer other than the component itself is trusted after loading iff it, or "*", is listed *)
Theorem trust_follows_configuration_file me tp p :
  trust_crdt (cfg_of_json me tp) [] p = true <-> p = me \/ exists l, tp = Some l /\ (In TStar l \/ In (TPeer p) l).
Proof. exact (trust_json_l me tp p). Qed.
Print Assumptions trust_follows_configuration_file.

Example no_trusted_peers_key_trusts_nobody : trust_crdt (cfg_of_json 0 None) [] 3 = false /\
  trust_crdt (cfg_of_json 0 (Some [TPeer 2; TStar; TPeer 4])) [] 3 = true /\
  trust_crdt (cfg_of_json 0 (Some [TPeer 2; TPeer 4])) [] 3 = false.
Proof. vm_compute. repeat split. Qed.

(* the environment pass of the configuration Manager (save to the JSON form, load again) changes nobody's trust,
   for every configuration, history and peer *)
Theorem trust_survives_environment_pass cfg h p : trust_crdt (env_pass cfg) h p = trust_crdt cfg h p.
Proof. exact (env_pass_same_trust cfg h p). Qed.
Print Assumptions trust_survives_environment_pass.

Theorem trust_call_takes_effect cfg h p : trust_crdt cfg (h ++ [TTrust p])%list p = true.
Proof. exact (trust_after_trust cfg h p). Qed.
Print Assumptions trust_call_takes_effect.

Theorem distrust_call_takes_effect cfg h p : trust_all cfg = false -> p <> self cfg ->
  trust_crdt cfg (h ++ [TDistrust p])%list p = false.
Proof. exact (trust_after_distrust cfg h p). Qed.
Print Assumptions distrust_call_takes_effect.

Theorem trust_call_is_local_to_its_peer cfg h o p : op_peer o <> p ->
  trust_crdt cfg (h ++ [o])%list p = trust_crdt cfg h p.
Proof. exact (trust_other_unchanged cfg h o p). Qed.
Print Assumptions trust_call_is_local_to_its_peer.

(* ---- CRDT broadcasts: a replica merges validated messages only; the validator is the trust of the signer ---- *)
(* any number of broadcasts signed by a peer the replica does not trust: nothing gets through *)
Theorem untrusted_broadcast_ignored (U : Type) cfg h (msgs : list (N * U)) u :
  trust_crdt cfg h u = false -> (forall m, In m msgs -> fst m = u) -> deliver cfg h msgs = [].
Proof. exact (deliver_untrusted_nil cfg h msgs u). Qed.
Print Assumptions untrusted_broadcast_ignored.

(* mixed with other traffic: the outcome is the same as if the untrusted peer had published nothing *)
Theorem untrusted_broadcast_no_effect (U : Type) cfg h (msgs : list (N * U)) u :
  trust_crdt cfg h u = false ->
  deliver cfg h msgs = deliver cfg h (filter (fun m => negb (N.eqb (fst m) u)) msgs).
Proof. exact (deliver_drops_untrusted cfg h msgs u). Qed.
Print Assumptions untrusted_broadcast_no_effect.

Theorem delivered_was_signed_by_trusted (U : Type) cfg h (msgs : list (N * U)) x :
  In x (deliver cfg h msgs) -> exists s, In (s, x) msgs /\ trust_crdt cfg h s = true.
Proof. exact (deliver_in cfg h msgs x). Qed.
Print Assumptions delivered_was_signed_by_trusted.

(* non-vacuity *)
Example c07_example :
  authorize policy false "Cluster.ID" = true /\ authorize policy true "Cluster.Pin" = false /\
  authorize policy true "Consensus.LogPin" = true /\ authorize policy false "Consensus.LogPin" = false /\
  trust_crdt (mk_crdt_cfg false 0%N [1%N]) [TTrust 2%N; TDistrust 1%N] 2%N = true /\
  trust_crdt (mk_crdt_cfg false 0%N [1%N]) [TTrust 2%N; TDistrust 1%N] 1%N = false /\
  deliver (mk_crdt_cfg false 0%N [1%N]) [] [(1%N, "a"); (2%N, "b"); (0%N, "c")] = ["a"; "c"].
Proof. vm_compute. repeat split. Qed.

(* ---------------- the run-time monitors of Model/C07_Check.v / Model/C07_CheckSpec.v and the theorems above ---------------- *)
(* The harnesses record what the IMPLEMENTATION did (real gorpc calls between libp2p hosts, real crdt components); check_case
   turns each record into failure codes: code 1 = the observation differs from the model (authorize over the generated policy,
   trust_crdt, validator), code 2 = the observation itself violates the property over the hand-written specification tables.
   For each case kind: (completeness) the case annotated with the model's own output raises no code, for every input - no guard
   is needed for C07; (soundness) a case on which a code is absent satisfies the Prop-level clause the code stands for.
   Helper definitions (dobs, deliver_cases, published, arrived_payloads, deliver_model_obs): Proofs/C07_Monitor.v. *)

(* -- RPC grid (codes 1, 2): every trust mode (raft; crdt with any "*" flag, list and Trust/Distrust history), every caller,
      every endpoint NAME (method or not) -- *)
Theorem auth_model_passes_monitor id m caller ep :
  check_case (id, CAuth m caller ep (call_allowed policy (N.eqb caller 0) (trust_of m caller) ep)) = [].
Proof. exact (auth_model_passes_monitor_l id m caller ep). Qed.
Print Assumptions auth_model_passes_monitor.

(* no code 2: a remote caller that was served was not served on a local-only endpoint, and if the called peer does not trust it,
   it was served on identity / version / join handshake only (the observation-level form of local_only_refused_to_all_remote and
   untrusted_only_open) *)
Theorem auth_monitor_sound id m caller ep passed :
  (forall c, In c (check_case (id, CAuth m caller ep passed)) -> snd (fst c) <> 2%N) -> passed = true -> caller <> 0%N ->
  ~ In ep local_only_spec /\ (trust_of m caller = false -> In ep open_spec).
Proof. exact (auth_monitor_sound_l id m caller ep passed). Qed.
Print Assumptions auth_monitor_sound.

(* no code 1: the verdict is the model's; a remote caller that was served called a method of a registered service whose policy
   entry is Open, or Trusted with the caller trusted by the called peer's consensus component (authorize_sound on the observation) *)
Theorem auth_agreement_sound id m caller ep passed :
  (forall c, In c (check_case (id, CAuth m caller ep passed)) -> snd (fst c) <> 1%N) ->
  passed = call_allowed policy (N.eqb caller 0) (trust_of m caller) ep /\
  (passed = true -> caller <> 0%N ->
   In ep rpc_methods /\ (lookup ep policy = Some Open \/ (lookup ep policy = Some Trusted /\ trust_of m caller = true))).
Proof. exact (auth_agreement_sound_l id m caller ep passed). Qed.
Print Assumptions auth_agreement_sound.

Example auth_monitor_example :
  let m := MCrdt false [1%N] [TTrust 2%N; TDistrust 1%N] in
  call_allowed policy (N.eqb 2 0) (trust_of m 2%N) "Consensus.LogPin" = true /\
  call_allowed policy (N.eqb 1 0) (trust_of m 1%N) "Consensus.LogPin" = false /\
  call_allowed policy (N.eqb 1 0) (trust_of m 1%N) "Cluster.ID" = true /\
  call_allowed policy (N.eqb 0 0) (trust_of m 0%N) "Cluster.Pin" = true /\
  (* a local-only endpoint served to a remote peer, a trusted endpoint served to a distrusted peer: codes 1 and 2 *)
  check_case (7%N, CAuth MRaft 1%N "Cluster.Pin" true) = [(7, 1, 0); (7, 2, 0)]%N /\
  check_case (7%N, CAuth m 1%N "PinTracker.Status" true) = [(7, 1, 0); (7, 2, 0)]%N /\
  (* a trusted peer refused on an inter-peer endpoint: not what the model does (code 1), no violation of the property (no code 2) *)
  check_case (7%N, CAuth m 2%N "Consensus.LogPin" false) = [(7, 1, 0)]%N.
Proof. vm_compute. repeat split. Qed.

(* -- the generated tables are what the running peer carries (code 1 only) -- *)
(* reflection on the service objects lists the methods in whatever order *)
Theorem methods_model_passes_monitor id l : Permutation.Permutation l rpc_methods -> check_case (id, CMethods l) = [].
Proof. exact (methods_model_passes_monitor_l id l). Qed.
Print Assumptions methods_model_passes_monitor.

Theorem methods_monitor_sound id l :
  (forall c, In c (check_case (id, CMethods l)) -> snd (fst c) <> 1%N) -> Permutation.Permutation l rpc_methods.
Proof. exact (methods_monitor_sound_l id l). Qed.
Print Assumptions methods_monitor_sound.

(* the run-time policy is a Go map: whatever order it is walked in *)
Theorem policy_model_passes_monitor id l : Permutation.Permutation l policy -> check_case (id, CPolicy l) = [].
Proof. exact (policy_model_passes_monitor_l id l). Qed.
Print Assumptions policy_model_passes_monitor.

(* no code 1: the map the configuration carries answers every key as the generated table: authF over it = the model over `policy` *)
Theorem policy_monitor_sound id l :
  (forall c, In c (check_case (id, CPolicy l)) -> snd (fst c) <> 1%N) ->
  (forall k, lookup k l = lookup k policy) /\ (forall trusted ep, authorize l trusted ep = authorize policy trusted ep).
Proof. exact (policy_monitor_sound_l id l). Qed.
Print Assumptions policy_monitor_sound.

(* isRPCPolicyValid: the model's verdict is `true` (policy_total) *)
Theorem policy_valid_model_passes_monitor id : check_case (id, CPolicyValid true) = [].
Proof. exact (policy_valid_model_passes_monitor_l id). Qed.
Print Assumptions policy_valid_model_passes_monitor.

Theorem policy_valid_monitor_sound id ok :
  (forall c, In c (check_case (id, CPolicyValid ok)) -> snd (fst c) <> 1%N) -> ok = true.
Proof. exact (policy_valid_monitor_sound_l id ok). Qed.
Print Assumptions policy_valid_monitor_sound.

Example tables_monitor_example :
  Permutation.Permutation (rev rpc_methods) rpc_methods /\ Permutation.Permutation (rev policy) policy /\
  check_case (3%N, CMethods (rev rpc_methods)) = [] /\ check_case (3%N, CPolicy (rev policy)) = [] /\
  (* a method the table does not know, a missing method, a listed method twice; an entry changed, an entry missing; a refusal *)
  check_case (3%N, CMethods ("PeerMonitor.NoSuchMethod" :: rpc_methods)) = [(3, 1, 0)]%N /\
  check_case (3%N, CMethods (tl rpc_methods)) = [(3, 1, 0)]%N /\
  check_case (3%N, CMethods ("Cluster.ID" :: rpc_methods)) = [(3, 1, 0)]%N /\
  check_case (3%N, CPolicy (("Cluster.Pin", Trusted) :: policy)) = [(3, 1, 0)]%N /\
  check_case (3%N, CPolicy (tl policy)) = [(3, 1, 0)]%N /\
  check_case (3%N, CPolicyValid false) = [(3, 1, 0)]%N.
Proof. split; [apply Permutation.Permutation_sym, Permutation.Permutation_rev|].
  split; [apply Permutation.Permutation_sym, Permutation.Permutation_rev|]. vm_compute. repeat split. Qed.

(* -- package crdt, IsTrustedPeer(0..n-1) after a history (code 1): every "*" flag, configured list, history, n -- *)
Theorem trust_model_passes_monitor id star l h n :
  check_case (id, CTrust star l h (map (trust_crdt (mk_crdt_cfg star 0%N l) h) (seqN 0 n))) = [].
Proof. exact (trust_model_passes_monitor_l id star l h n). Qed.
Print Assumptions trust_model_passes_monitor.

(* no code 1: every answer is what the configuration and the history call for (trust_follows_history on the observation) *)
Theorem trust_monitor_sound id star l h obs :
  (forall c, In c (check_case (id, CTrust star l h obs)) -> snd (fst c) <> 1%N) ->
  forall i, (i < length obs)%nat -> let p := N.of_nat i in
    nth i obs false = trust_crdt (mk_crdt_cfg star 0%N l) h p /\
    (nth i obs false = true <-> star = true \/ p = 0%N \/ last_op p h = Some true \/ (last_op p h = None /\ In p l)).
Proof. exact (trust_monitor_sound_l id star l h obs). Qed.
Print Assumptions trust_monitor_sound.

(* -- the same with the configuration as written in the file (codes 1, 2): every trusted_peers value (absent, null, any list,
      "*" anywhere), with or without the Manager's environment pass, every history, every n -- *)
Theorem trustj_model_passes_monitor id tp (env : bool) h n :
  let cfg := if env then env_pass (cfg_of_json 0%N tp) else cfg_of_json 0%N tp in
  check_case (id, CTrustJ tp env h (map (trust_crdt cfg h) (seqN 0 n))) = [].
Proof. exact (trustj_model_passes_monitor_l id tp env h n). Qed.
Print Assumptions trustj_model_passes_monitor.

(* no code 2: right after loading, a peer other than the component itself is reported trusted only if it, or "*", is written in
   the file (trust_follows_configuration_file, left to right, on the observation) *)
Theorem trustj_monitor_sound id tp env h obs :
  (forall c, In c (check_case (id, CTrustJ tp env h obs)) -> snd (fst c) <> 2%N) -> h = [] ->
  forall i, (i < length obs)%nat -> nth i obs false = true ->
    i = 0%nat \/ exists l, tp = Some l /\ (In TStar l \/ In (TPeer (N.of_nat i)) l).
Proof. exact (trustj_monitor_sound_l id tp env h obs). Qed.
Print Assumptions trustj_monitor_sound.

(* no code 1: every answer is the model's on the loaded configuration - the environment pass changes nothing -: the component
   itself, "*" written, a later Trust call, or written in the file and not touched since *)
Theorem trustj_agreement_sound id tp env h obs :
  (forall c, In c (check_case (id, CTrustJ tp env h obs)) -> snd (fst c) <> 1%N) ->
  forall i, (i < length obs)%nat -> let p := N.of_nat i in
    nth i obs false = trust_crdt (cfg_of_json 0%N tp) h p /\
    (nth i obs false = true <->
     p = 0%N \/ (exists l, tp = Some l /\ In TStar l) \/ last_op p h = Some true \/
     (last_op p h = None /\ exists l, tp = Some l /\ In (TPeer p) l)).
Proof. exact (trustj_agreement_sound_l id tp env h obs). Qed.
Print Assumptions trustj_agreement_sound.

Example trust_monitor_example :
  map (trust_crdt (mk_crdt_cfg false 0%N [1%N; 3%N]) [TTrust 2%N; TDistrust 1%N; TDistrust 0%N]) (seqN 0 5)
    = [true; false; true; true; false] /\
  map (trust_crdt (env_pass (cfg_of_json 0%N (Some [TPeer 2%N; TStar; TPeer 4%N]))) [TDistrust 2%N]) (seqN 0 4)
    = [true; true; true; true] /\
  map (trust_crdt (cfg_of_json 0%N None) [TTrust 3%N]) (seqN 0 4) = [true; false; false; true] /\
  (* Distrust without effect: code 1 *)
  check_case (5%N, CTrust false [1%N; 3%N] [TTrust 2%N; TDistrust 1%N] [true; true; true; true]) = [(5, 1, 0)]%N /\
  (* a section without the trusted_peers key loaded as trust-all (the shape of seeded change C07c): codes 1 and 2 *)
  check_case (5%N, CTrustJ None false [] [true; true; true; true]) = [(5, 1, 0); (5, 2, 0)]%N /\
  (* a listed peer reported untrusted: not the model (code 1), not a violation of the monitored direction (no code 2) *)
  check_case (5%N, CTrustJ (Some [TPeer 2%N]) true [] [true; false; false; false]) = [(5, 1, 0)]%N.
Proof. vm_compute. repeat split. Qed.

(* -- package crdt, a signed update handed to peer 0 directly or through a relay (codes 1, 2): every trust state of peer 0,
      signer, forwarder, relay verdict -- *)
Theorem deliver_model_passes_monitor id star l h signer forwarder relay_ok :
  check_case (id, CDeliver star l h signer forwarder relay_ok (relay_ok && validator (mk_crdt_cfg star 0%N l) h signer)) = [].
Proof. exact (deliver_model_passes_monitor_l id star l h signer forwarder relay_ok). Qed.
Print Assumptions deliver_model_passes_monitor.

(* no code 2: an update signed by a peer the replica does not trust did not reach its state, whoever handed it over *)
Theorem deliver_monitor_sound id star l h signer forwarder relay_ok arrived :
  (forall c, In c (check_case (id, CDeliver star l h signer forwarder relay_ok arrived)) -> snd (fst c) <> 2%N) ->
  trust_crdt (mk_crdt_cfg star 0%N l) h signer = false -> arrived = false.
Proof. exact (deliver_monitor_sound_l id star l h signer forwarder relay_ok arrived). Qed.
Print Assumptions deliver_monitor_sound.

(* no code 1: it arrived iff the relay passed it on and the SIGNER is trusted - never a function of the forwarder *)
Theorem deliver_agreement_sound id star l h signer forwarder relay_ok arrived :
  (forall c, In c (check_case (id, CDeliver star l h signer forwarder relay_ok arrived)) -> snd (fst c) <> 1%N) ->
  arrived = relay_ok && trust_crdt (mk_crdt_cfg star 0%N l) h signer.
Proof. exact (deliver_agreement_sound_l id star l h signer forwarder relay_ok arrived). Qed.
Print Assumptions deliver_agreement_sound.

(* any number of messages (any payload type, signers, forwarders, relay verdicts), against `deliver` of the theorems
   untrusted_broadcast_ignored / untrusted_broadcast_no_effect / delivered_was_signed_by_trusted: the message list annotated with
   the model's verdicts raises no code, is the published list, and - every relay passing on - what arrives is `deliver` *)
Theorem deliver_list_model_passes_monitor (U : Type) id star l h (fwd : N * U -> N) (rok : N * U -> bool) (msgs : list (N * U)) :
  let cfg := mk_crdt_cfg star 0%N l in
  C07_Check.failing (deliver_cases id star l h (deliver_model_obs cfg h fwd rok msgs)) = [] /\
  published (deliver_model_obs cfg h fwd rok msgs) = msgs /\
  ((forall m, In m msgs -> rok m = true) -> arrived_payloads (deliver_model_obs cfg h fwd rok msgs) = deliver cfg h msgs).
Proof. exact (deliver_list_model_passes_l id star l h fwd rok msgs). Qed.
Print Assumptions deliver_list_model_passes_monitor.

(* no code 2 on any case of an observed message list: whatever reached the state is among what the model's replica merges from
   the published list, and nothing signed by an untrusted peer arrived *)
Theorem deliver_list_monitor_sound (U : Type) id star l h (obs : list (dobs U)) :
  let cfg := mk_crdt_cfg star 0%N l in
  (forall c, In c (C07_Check.failing (deliver_cases id star l h obs)) -> snd (fst c) <> 2%N) ->
  (forall x, In x (arrived_payloads obs) -> In x (deliver cfg h (published obs))) /\
  (forall u, trust_crdt cfg h u = false -> forall o, In o obs -> d_signer o = u -> d_arrived o = false).
Proof. exact (deliver_list_monitor_sound_l id star l h obs). Qed.
Print Assumptions deliver_list_monitor_sound.

(* no code 1 on any case, every relay passing on: what reached the state is exactly what the model's replica merges *)
Theorem deliver_list_agreement_sound (U : Type) id star l h (obs : list (dobs U)) :
  (forall c, In c (C07_Check.failing (deliver_cases id star l h obs)) -> snd (fst c) <> 1%N) ->
  (forall o, In o obs -> d_relay_ok o = true) ->
  arrived_payloads obs = deliver (mk_crdt_cfg star 0%N l) h (published obs).
Proof. exact (deliver_list_agreement_l id star l h obs). Qed.
Print Assumptions deliver_list_agreement_sound.

Example deliver_monitor_example :
  let cfg := mk_crdt_cfg false 0%N [1%N] in
  let msgs := [(1%N, "a"); (2%N, "b"); (0%N, "c"); (2%N, "d")] in
  (* peer 0 trusts itself and peer 1: the updates signed by 2 are dropped, also when the trusted peer 1 hands them over *)
  arrived_payloads (deliver_model_obs cfg [] (fun _ => 1%N) (fun _ => true) msgs) = ["a"; "c"] /\
  deliver cfg [] msgs = ["a"; "c"] /\
  (* after Trust(2) they arrive, unless the relay dropped them *)
  arrived_payloads (deliver_model_obs cfg [TTrust 2%N] (fun _ => 1%N) (fun m => negb (N.eqb (fst m) 2) || String.eqb (snd m) "d") msgs)
    = ["a"; "c"; "d"] /\
  (* a validator looking at the forwarder (1, trusted) instead of the signer (2, not trusted): codes 1 and 2 *)
  check_case (9%N, CDeliver false [1%N] [] 2 1 true true) = [(9, 1, 0); (9, 2, 0)]%N /\
  (* an update of a trusted signer that the relay passed on and that never arrived: code 1 only *)
  check_case (9%N, CDeliver false [1%N; 2%N] [] 2 1 true false) = [(9, 1, 0)]%N /\
  C07_Check.failing (deliver_cases 9%N false [1%N] []
     [mk_dobs 1%N "a" 1%N true true; mk_dobs 2%N "b" 1%N true true]) = [(9, 1, 0); (9, 2, 0)]%N.
Proof. vm_compute. repeat split. Qed.

(* -- root package, call sequences: calls interleaved with LATER Trust / Distrust calls on one running peer (codes 1, 11) -- *)

(* Trust follows later Trust / Distrust calls, as seen through the RPC authorisation: for every trust mode (raft; crdt with any
   "*" flag, configured list and earlier history), every remote caller, every endpoint NAME and every sequence of (call | Trust |
   Distrust) steps of any length, the verdict of the model on a call standing anywhere in the sequence (after `pre`, before `post`)
   is authF with the trust state AT THAT MOMENT: a caller not trusted then is refused on every endpoint that is not open and a
   local-only endpoint is refused, whatever was answered earlier; a trusted_spec endpoint answers exactly the current trust *)
Theorem auth_follows_trust_changes m caller ep pre p post : caller <> 0%N ->
  let mt := mode_after m pre in
  let v := seq_model_call caller ep mt in
  seq_annot (seq_model_call caller ep) m (pre ++ SCall p :: post)%list =
    (seq_annot (seq_model_call caller ep) m pre ++ SCall v :: seq_annot (seq_model_call caller ep) mt post)%list /\
  v = authorize policy (trust_of mt caller) ep /\
  (trust_of mt caller = false -> ~ In ep open_spec -> v = false) /\
  (In ep local_only_spec -> v = false) /\
  (In ep trusted_spec -> v = trust_of mt caller) /\
  (In ep open_spec -> v = true).
Proof. exact (auth_follows_trust_changes_l m caller ep pre p post). Qed.
Print Assumptions auth_follows_trust_changes.

(* the state at that moment: in crdt mode the configured state with the earlier history followed by the operations of the prefix
   (so trust_follows_history decides it: the last operation on the caller, else the configuration); raft trusts everyone throughout *)
Theorem trust_state_after_steps star l h pre q :
  trust_of (mode_after (MCrdt star l h) pre) q = trust_crdt (mk_crdt_cfg star 0%N l) (h ++ ops_of pre)%list q /\
  trust_of (mode_after MRaft pre) q = true.
Proof. exact (trust_state_after_steps_l star l h pre q). Qed.
Print Assumptions trust_state_after_steps.

(* every trust mode, caller, endpoint name, sequence: the sequence annotated with the model's own answers raises no code *)
Theorem authseq_model_passes_monitor id m caller ep steps :
  check_case (id, CAuthSeq m caller ep (seq_annot (seq_model_call caller ep) m steps)) = [].
Proof. exact (authseq_model_passes_monitor_l id m caller ep steps). Qed.
Print Assumptions authseq_model_passes_monitor.

(* no code 11 on an observed sequence: at every call, a remote caller that was not trusted at the time of the call was refused
   unless the endpoint is an open one, a local-only endpoint was refused, and a caller trusted at the time of the call was let in
   on every trusted_spec endpoint - a stale trust decision fails in either direction *)
Theorem authseq_monitor_sound id m caller ep steps :
  (forall c, In c (check_case (id, CAuthSeq m caller ep steps)) -> snd (fst c) <> 11%N) -> caller <> 0%N ->
  forall pre p post, steps = (pre ++ SCall p :: post)%list ->
  let mt := mode_after m pre in
  (trust_of mt caller = false -> ~ In ep open_spec -> p = false) /\
  (In ep local_only_spec -> p = false) /\
  (trust_of mt caller = true -> In ep trusted_spec -> p = true).
Proof. exact (authseq_monitor_sound_l id m caller ep steps). Qed.
Print Assumptions authseq_monitor_sound.

(* no code 1: every observed answer is the model's, with the trust state at the time of the call *)
Theorem authseq_agreement_sound id m caller ep steps :
  (forall c, In c (check_case (id, CAuthSeq m caller ep steps)) -> snd (fst c) <> 1%N) ->
  seq_annot (seq_model_call caller ep) m steps = steps /\
  forall pre p post, steps = (pre ++ SCall p :: post)%list ->
    p = call_allowed policy (N.eqb caller 0) (trust_of (mode_after m pre) caller) ep.
Proof. exact (authseq_agreement_sound_l id m caller ep steps). Qed.
Print Assumptions authseq_agreement_sound.

(* non-vacuity: peer 1 is configured as trusted, calls a trusted endpoint (let in), is distrusted, calls again (refused), is
   trusted again (let in); the other direction for peer 2; the memoised verdict of seeded change C07d - still let in after
   Distrust - raises codes 1 and 11, still refused after Trust raises 1 and 11, and on an open / a local-only endpoint the
   sequence changes nothing *)
Example authseq_monitor_example :
  let m := MCrdt false [1%N] [] in
  let shape := [SCall false; SOp (TDistrust 1%N); SCall false; SOp (TTrust 1%N); SCall false] in
  trust_of m 1%N = true /\ trust_of (mode_after m [SCall true; SOp (TDistrust 1%N)]) 1%N = false /\
  mem_str "Consensus.LogPin" trusted_spec = true /\ mem_str "Consensus.LogPin" open_spec = false /\
  seq_annot (seq_model_call 1%N "Consensus.LogPin") m shape
    = [SCall true; SOp (TDistrust 1%N); SCall false; SOp (TTrust 1%N); SCall true] /\
  seq_annot (seq_model_call 2%N "Consensus.LogPin") (MCrdt false [] [])
      [SCall true; SOp (TTrust 2%N); SCall false; SOp (TDistrust 2%N); SCall true]
    = [SCall false; SOp (TTrust 2%N); SCall true; SOp (TDistrust 2%N); SCall false] /\
  seq_annot (seq_model_call 1%N "Cluster.ID") m shape
    = [SCall true; SOp (TDistrust 1%N); SCall true; SOp (TTrust 1%N); SCall true] /\
  seq_annot (seq_model_call 1%N "Cluster.Pins") m shape = shape /\
  seq_annot (seq_model_call 1%N "Consensus.LogPin") MRaft shape
    = [SCall true; SOp (TDistrust 1%N); SCall true; SOp (TTrust 1%N); SCall true] /\
  check_case (7%N, CAuthSeq m 1%N "Consensus.LogPin" [SCall true; SOp (TDistrust 1%N); SCall true]) = [(7, 1, 0); (7, 11, 0)]%N /\
  check_case (7%N, CAuthSeq (MCrdt false [] []) 2%N "Consensus.LogPin" [SCall false; SOp (TTrust 2%N); SCall false])
    = [(7, 1, 0); (7, 11, 0)]%N /\
  check_case (7%N, CAuthSeq m 1%N "Consensus.LogPin" [SCall true; SOp (TDistrust 1%N); SCall false]) = [].
Proof. vm_compute. repeat split. Qed.

(* -- every case kind at once -- *)
(* on ANY case (any kind, input, observation): if code 1 is absent - the implementation did what the model does - no code at all
   is produced. The specification-level monitors (code 2) never alarm on behaviour the model allows (modelled c: every kind
   but the effect observations of the open endpoints, which are judged by the hand-written effect table alone, code 10); "agrees with the model on
   this input" implies "satisfies every monitored clause on this input". No guard. *)
Theorem agreement_implies_no_alarm c : modelled c = true ->
  (forall x, In x (check_case c) -> snd (fst x) <> 1%N) -> check_case c = [].
Proof. exact (agreement_no_alarm_l c). Qed.
Print Assumptions agreement_implies_no_alarm.

(* ---- what the open endpoints DO when an untrusted peer calls them (Model/C07_Spec.v open_effects, monitor code 10) ---- *)

(* The authorization grid sees only who is let in. The endpoints open to everybody (identity, version, join handshake) must in
   addition not give the caller what the closed endpoints would: the hand-written table of what each open endpoint may cause
   on the called peer has one row per open endpoint, and no allowed effect drives the IPFS daemon (beyond reading its
   identity), drives the pin tracker, reads or writes the pinset, writes to consensus other than the join (AddPeer), or runs
   the informers / publishes metrics *)
Theorem open_endpoints_effects_spec :
  map fst open_effects = open_spec /\
  forallb (fun row => forallb (fun x => negb (effect_forbidden x)) (snd row)) open_effects = true.
Proof. exact open_effects_spec_l. Qed.
Print Assumptions open_endpoints_effects_spec.

(* soundness of the monitor: no code 10 on the recorded effects of a call an untrusted remote caller was let in with => every
   component call it caused is allowed for that endpoint, is in none of the denied classes, and the endpoint is an open one *)
Theorem effects_monitor_sound id m caller ep effs :
  (forall x, In x (check_case (id, CEffects m caller ep effs)) -> snd (fst x) <> 10%N) ->
  caller <> 0%N -> trust_of m caller = false ->
  forall x, In x effs -> In x (allowed_effects ep) /\ effect_forbidden x = false /\ In ep open_spec.
Proof. exact (effects_monitor_sound_l id m caller ep effs). Qed.
Print Assumptions effects_monitor_sound.

(* and it demands nothing more: effects inside the allowed set raise no code *)
Theorem effects_monitor_complete id m caller ep effs : (forall x, In x effs -> In x (allowed_effects ep)) ->
  check_case (id, CEffects m caller ep effs) = [].
Proof. exact (effects_monitor_complete_l id m caller ep effs). Qed.
Print Assumptions effects_monitor_complete.

(* non-vacuity: the join handshake as it is today passes; the same handshake followed by the informers job (the seeded change:
   PeerAdd re-publishing the peer's metrics) is rejected for an untrusted caller and not judged for a trusted one *)
Example effects_monitor_example :
  let m := MCrdt false [1%N] [] in
  trust_of m 2%N = false /\ trust_of m 1%N = true /\
  check_case (0%N, CEffects m 2%N "Cluster.PeerAdd" ["Consensus.AddPeer"; "Callback.Cluster.ID"]) = [] /\
  check_case (0%N, CEffects m 2%N "Cluster.PeerAdd"
                ["Consensus.AddPeer"; "Callback.Cluster.ID"; "Informer.GetMetric"; "IPFS.RepoStat"; "Monitor.PublishMetric"]) = [(0, 10, 0)]%N /\
  check_case (0%N, CEffects m 1%N "Cluster.PeerAdd" ["Consensus.AddPeer"; "Informer.GetMetric"]) = [] /\
  check_case (0%N, CEffects m 2%N "Cluster.Version" ["IPFS.ID"]) = [(0, 10, 0)]%N /\
  effect_forbidden "IPFS.RepoStat" = true /\ effect_forbidden "Consensus.State" = true /\ effect_forbidden "IPFS.ID" = false.
Proof. repeat split; vm_compute; reflexivity. Qed.
