(* C17 — Raft membership changes are agreed by all members and never lose the pinset.
   Statements only; every proof is `exact <lemma of Proofs/C17_Members.v>`.
   Quantification: every initial peer set, every log (history of pin/unpin and configuration entries), every peer,
   every list of per-attempt outcomes hashicorp/raft may produce (committed / appended-but-error / refused), every
   schedule of receive, apply, snapshot-install and restart events on every member.
   Assumed of hashicorp/raft (partial): one committed log that every member receives in index order, and that a
   snapshot carries the configuration of its index. The pinset of a member follows C01 (clean ops). *)
From V Require Import Base.Common Model.C01_RaftLog Proofs.C01_RaftLog Model.C17_Members Proofs.C17_Members.
From V Require Model.C03_Alloc Model.C04_ClusterOps Proofs.C04_ClusterOps Model.C10_Repin Proofs.C10_Repin Model.C14_Backup
  Model.C17_Cluster Model.C17_ClusterCheck Proofs.C17_Cluster.
Open Scope N_scope.

(* AddPeer: the log only grows, no other peer's membership changes, and success means the peer is a member *)
Theorem add_peer_effect init lg p os :
  (exists suf, fst (cons_add init lg p os) = lg ++ suf) /\
  (forall q, q <> p -> memN q (peers_of init (fst (cons_add init lg p os))) = memN q (peers_of init lg)) /\
  (snd (cons_add init lg p os) = false -> memN p (peers_of init (fst (cons_add init lg p os))) = true).
Proof. exact (cons_add_spec init lg p os). Qed.
Print Assumptions add_peer_effect.

(* RmPeer: dually, success means the peer is no longer a member *)
Theorem rm_peer_effect init lg p os :
  (exists suf, fst (cons_rm init lg p os) = lg ++ suf) /\
  (forall q, q <> p -> memN q (peers_of init (fst (cons_rm init lg p os))) = memN q (peers_of init lg)) /\
  (snd (cons_rm init lg p os) = false -> memN p (peers_of init (fst (cons_rm init lg p os))) = false).
Proof. exact (cons_rm_spec init lg p os). Qed.
Print Assumptions rm_peer_effect.

(* adding a present peer is a harmless no-op: success, no log entry *)
Theorem add_present_noop init lg p o os :
  memN p (peers_of init lg) = true -> cons_add init lg p (o :: os) = (lg, false).
Proof. exact (add_present_noop_l init lg p o os). Qed.
Print Assumptions add_present_noop.

(* removing an absent peer is a harmless no-op *)
Theorem rm_absent_noop init lg p o os :
  memN p (peers_of init lg) = false -> cons_rm init lg p (o :: os) = (lg, false).
Proof. exact (rm_absent_noop_l init lg p o os). Qed.
Print Assumptions rm_absent_noop.

(* the last peer cannot be removed: an error, and no log entry, however often it is retried *)
Theorem last_peer_not_removable init lg p os :
  peers_of init lg = [p] -> os <> [] -> cons_rm init lg p os = (lg, true).
Proof. exact (last_peer_not_removable_l init lg p os). Qed.
Print Assumptions last_peer_not_removable.

(* the peer set never holds a peer twice *)
Theorem peers_nodup init lg : NoDup init -> NoDup (peers_of init lg).
Proof. exact (fun H => NoDup_peers_of lg init H). Qed.
Print Assumptions peers_nodup.

(* any two members that have received the last configuration entry report the same peer set *)
Theorem members_agree init lg i a b :
  (forall e, In e (skipn i lg) -> is_member_entry e = false) -> (i <= a)%nat -> (i <= b)%nat ->
  peers_of init (firstn a lg) = peers_of init (firstn b lg).
Proof. exact (members_agree_l init lg i a b). Qed.
Print Assumptions members_agree.

(* a member that has received the whole log reports the configuration of the whole log (with / without the changed peer) *)
Theorem member_reports_change init cl m :
  (length (mlog cl) <= m_recv m)%nat -> report init cl m = peers_of init (mlog cl).
Proof. exact (report_full init cl m). Qed.
Print Assumptions member_reports_change.

(* a joiner that reports itself ready, and whose FSM has drained its queue, holds the replay of a prefix that extends
   beyond its own add entry: every op committed before the join was acknowledged is in its pinset *)
Theorem joiner_ready_has_pinset_partial init k es n m p :
  nth_error (members (crun (cinit k) es)) n = Some m ->
  memN p init = false -> ready init (crun (cinit k) es) p m = true -> m_applied m = m_queued m ->
  m_st m = state_at (mlog (crun (cinit k) es)) (m_applied m) /\
  exists ia, (ia < m_applied m)%nat /\ nth_error (mlog (crun (cinit k) es)) ia = Some (EAdd p).
Proof. exact (joiner_ready_l init k es n m p). Qed.
Print Assumptions joiner_ready_has_pinset_partial.

(* for every cluster state (every history and schedule): a peer that reports itself ready has its own add entry within the
   prefix of the log it has received - readiness is judged on its own latest configuration, not on the leader's *)
Theorem joiner_not_ready_before_own_add_entry init cl p m :
  memN p init = false -> ready init cl p m = true ->
  exists ia, (ia < m_recv m)%nat /\ nth_error (mlog cl) ia = Some (EAdd p).
Proof. exact (ready_needs_own_add_entry_l init cl p m). Qed.
Print Assumptions joiner_not_ready_before_own_add_entry.

(* so a joiner still lagging behind its (only) add entry is not ready, whatever it has queued or applied *)
Theorem lagging_joiner_not_ready init cl p m ia :
  memN p init = false -> nth_error (mlog cl) ia = Some (EAdd p) ->
  (forall ib, nth_error (mlog cl) ib = Some (EAdd p) -> ib = ia) -> (m_recv m <= ia)%nat -> ready init cl p m = false.
Proof. exact (lagging_joiner_not_ready_l init cl p m ia). Qed.
Print Assumptions lagging_joiner_not_ready.

(* S25: without that guard the statement is false: WaitForSync compares raft's AppliedIndex with LastIndex, and
   hashicorp/raft advances AppliedIndex when an entry is queued for the FSM: a joiner can be ready with an empty pinset *)
Theorem joiner_ready_has_pinset_refuted :
  exists init k es n p, memN p init = false /\
    let cl := crun (cinit k) es in
    ready init cl p (mget n cl) = true /\ m_st (mget n cl) = [] /\ state_at (mlog cl) (m_recv (mget n cl)) <> [].
Proof. exact joiner_ready_refuted_l. Qed.
Print Assumptions joiner_ready_has_pinset_refuted.

(* ---- non-vacuity ---- *)
Example add_rm_demo :
  let '(lg1, e1) := cons_add [0; 1] [] 2 [LostAfter; Done] in
  let '(lg2, e2) := cons_rm [0; 1] lg1 0 [Done] in
  let '(lg3, e3) := cons_rm [0] [] 0 [Done; Done] in
  lg1 = [EAdd 2] /\ e1 = false /\ peers_of [0; 1] lg2 = [1; 2] /\ e2 = false /\ lg3 = [] /\ e3 = true.
Proof. exact demo_add_rm. Qed.
Example joiner_demo :
  let cl := crun (cinit 2) demo_join in
  ready [0] cl 1 (mget 1 cl) = true /\ m_applied (mget 1 cl) = m_queued (mget 1 cl) /\ map fst (m_st (mget 1 cl)) = [0] /\
  report [0] cl (mget 0 cl) = report [0] cl (mget 1 cl).
Proof. exact demo_join_ready. Qed.

(* ======================= the cluster-level clauses (cluster.go PeerRemove / watchPeers / Shutdown) =======================
   Machine: Model/C17_Cluster.v, on top of the membership wrappers above, C10's re-pin loop and C14's cleanup.
   Quantification: every state / every event list (who calls, per-attempt Raft outcomes, which LogPin calls are refused,
   Go map and datastore orders, snapshot-on-shutdown outcome, delivery and watcher schedule), every peer. *)
Module Cluster.
Import Model.C03_Alloc Model.C04_ClusterOps Proofs.C04_ClusterOps Model.C10_Repin Proofs.C10_Repin Model.C14_Backup
  Model.C17_Cluster Proofs.C17_Cluster.

(* once a removal of p has been acknowledged, the entry has reached p and p's watcher has ticked: p is no member, is not
   running, is marked removed, its data folder is gone, CleanupRaft ran exactly once more and the backups are C14's rotation
   of the folder as the shutdown left it (a folder without any snapshot is simply deleted) *)
Theorem removed_peer_stops_and_cleans s caller qc p q o os snap f :
  aget caller (cs_peers s) = Some qc -> cp_running qc = true ->
  aget p (cs_peers s) = Some q -> cp_running q = true -> cp_ready q = true -> live (cp_dir q) = Some f ->
  let r := clstep s (EvPeerRemove caller p o os) in
  snd r = false ->
  let s3 := fst (clstep (fst (clstep (fst r) (EvDeliver p))) (EvWatchTick p snap)) in
  memN p (cfg_peers s3) = false /\
  exists q', aget p (cs_peers s3) = Some q' /\ cp_running q' = false /\ cp_removed q' = true /\ live (cp_dir q') = None /\
    cp_cleans q' = S (cp_cleans q) /\
    olds (cp_dir q') = match snd (shut_folder snap f) with
                       | Some _ => rotate (cp_keep q) (shut_folder snap f) (olds (cp_dir q))
                       | None => olds (cp_dir q) end.
Proof. exact (removed_peer_stops_and_cleans_l s caller qc p q o os snap f). Qed.
Print Assumptions removed_peer_stops_and_cleans.

(* the tick alone, in every state: a running peer whose own configuration lacks it stops; it cleans iff it had become ready *)
Theorem watch_tick_removed s p q snap : aget p (cs_peers s) = Some q -> cp_running q = true -> memN p (sees s q) = false ->
  let s' := fst (clstep s (EvWatchTick p snap)) in
  exists q', aget p (cs_peers s') = Some q' /\ cp_running q' = false /\ cp_removed q' = true /\
    cp_dir q' = (if cp_ready q then cleanup (cp_keep q) (snap_dir snap (cp_dir q)) else snap_dir snap (cp_dir q)) /\
    cp_cleans q' = (if cp_ready q then S (cp_cleans q) else cp_cleans q) /\
    cs_lg s' = cs_lg s /\ cs_st s' = cs_st s /\ cs_tr s' = cs_tr s /\
    (forall p', p' <> p -> aget p' (cs_peers s') = aget p' (cs_peers s)).
Proof. exact (tick_removed_l s p q snap). Qed.
Print Assumptions watch_tick_removed.

(* a peer that is not marked removed and is not configured to leave keeps its data when it shuts down *)
Theorem shutdown_keeps_data s p q os snap : aget p (cs_peers s) = Some q -> cp_running q = true ->
  cp_removed q = false -> cp_leave q = false ->
  let s' := fst (clstep s (EvShutdown p os snap)) in
  exists q', aget p (cs_peers s') = Some q' /\ cp_running q' = false /\ cp_removed q' = false /\
    cp_dir q' = snap_dir snap (cp_dir q) /\ olds (cp_dir q') = olds (cp_dir q) /\
    (live (cp_dir q) <> None -> live (cp_dir q') <> None) /\ cp_cleans q' = cp_cleans q /\
    cs_lg s' = cs_lg s /\ cs_tr s' = cs_tr s /\ cs_st s' = cs_st s.
Proof. exact (shutdown_keeps_data_l s p q os snap). Qed.
Print Assumptions shutdown_keeps_data.

(* for every event list: a peer (not configured to leave on shutdown) that is marked removed, or whose data was ever
   cleaned, was at some point of the log not a member of the peerset *)
Theorem cleaned_only_if_removed_partial s0 evs p q : clinit_ok s0 = true ->
  aget p (cs_peers (clrun s0 evs)) = Some q -> cp_leave q = false -> cp_removed q = true \/ cp_cleans q <> 0%nat ->
  exists k, memN p (peers_of (cs_init s0) (firstn k (cs_lg (clrun s0 evs)))) = false.
Proof. exact (cleaned_only_if_removed_l s0 evs p q). Qed.
Print Assumptions cleaned_only_if_removed_partial.

(* without that guard the statement is false of the code as written: with LeaveOnShutdown the data is cleaned although
   leaving failed (here: the only peer of a cluster, which Raft refuses to remove) *)
Theorem cleaned_only_if_removed_refuted :
  exists s0 evs p q, clinit_ok s0 = true /\ aget p (cs_peers (clrun s0 evs)) = Some q /\ cp_cleans q <> 0%nat /\
    forall k, memN p (peers_of (cs_init s0) (firstn k (cs_lg (clrun s0 evs)))) = true.
Proof. exact cleaned_only_if_removed_refuted_l. Qed.
Print Assumptions cleaned_only_if_removed_refuted.

(* in the log, for every event list: no re-pin issued by a PeerRemove call follows the configuration entry of that call,
   and a re-pin and a removal entry of one call belong to PeerRemove(p) issued by the re-pinning peer *)
Theorem remove_rehomes_first s0 evs : clinit_ok s0 = true ->
  (forall l1 l2 k p c by_, cs_tr (clrun s0 evs) = l1 ++ (k, TRm p) :: l2 -> ~ In (k, TPin c by_) l2) /\
  (forall k c by_ p, In (k, TPin c by_) (cs_tr (clrun s0 evs)) -> In (k, TRm p) (cs_tr (clrun s0 evs)) ->
     exists o os, nth_error evs k = Some (EvPeerRemove by_ p o os)) /\
  (forall x, In x (cs_tr (clrun s0 evs)) -> exists ev, nth_error evs (fst x) = Some ev /\ entry_from ev (snd x)) /\
  flat_map (fun x => mem_of (snd x)) (cs_tr (clrun s0 evs)) = cs_lg (clrun s0 evs).
Proof.
  exact (fun I => conj (fun l1 l2 k p c by_ => ordering_l s0 evs l1 l2 k p c by_ I)
               (conj (fun k c by_ p => same_call_l s0 evs k c by_ p I)
               (conj (trace_explained_l s0 evs I) (trace_is_log_l s0 evs I)))).
Qed.
Print Assumptions remove_rehomes_first.

(* what PeerRemove leaves behind (re-pinning enabled, every LogPin accepted), in every state with a well-formed pinset:
   the pinset is C10's vacate and each pin the removed peer held has C10's outcome - still enough healthy holders without
   it: untouched; too few: stored with C03's allocation, which excludes the removed peer, logged in this call before the
   configuration entry; allocation impossible: untouched. Pins made by pin-update are excluded (C10's recorded finding
   repin-update-redirect); whether RmPeer then succeeds plays no role (nothing is undone when it fails) *)
Theorem remove_rehomes_partial s caller q target o os c x :
  aget caller (cs_peers s) = Some q -> cp_running q = true -> r_fail o = [] ->
  list_oracle (r_lord o) -> map_oracle (r_ord o) -> NoDup (map mpeer (e_metrics (r_env o))) -> inv (cs_st s) ->
  follower (pc_cfg (cp_pc q)) = false -> pc_norepin (cp_pc q) = false ->
  aget c (cs_st s) = Some x -> ~ is_update x -> wf_repin (r_env o) x -> NoDup (p_allocs x) -> In target (p_allocs x) ->
  let s' := fst (clstep s (EvPeerRemove caller target o os)) in
  let seg := skipn (length (cs_tr s)) (cs_tr s') in
  let i := repin_input (pc_cfg (cp_pc q)) (r_env o) target x in
  let now := e_now (r_env o) in
  ((o_rmin (p_opts x) <= healthy_count now i (p_allocs x) <= o_rmax (p_opts x))%Z -> aget c (cs_st s') = Some x) /\
  ((healthy_count now i (p_allocs x) < o_rmin (p_opts x))%Z ->
     match allocate now i (r_ord o c) with
     | Ok l => aget c (cs_st s') = Some (set_allocs l x) /\ ~ In target l /\ NoDup l /\
               (o_rmin (p_opts x) <= healthy_count now i l <= o_rmax (p_opts x))%Z /\
               In (cs_clock s, TPin c caller) seg
     | _ => aget c (cs_st s') = Some x /\ ~ In (cs_clock s, TPin c caller) seg end).
Proof. exact (remove_rehomes_l s caller q target o os c x). Qed.
Print Assumptions remove_rehomes_partial.

(* PeerRemove as a whole: re-pin loop first, then RmPeer, whose error is the result; at a stopped peer nothing happens *)
Theorem peer_remove_is_vacate_then_rm s caller q target o os : aget caller (cs_peers s) = Some q -> cp_running q = true ->
  let r := clstep s (EvPeerRemove caller target o os) in
  let v := vacate_f (cp_pc q) o (cs_st s) target in
  let m := cons_rm (cs_init s) (cs_lg s) target os in
  cs_st (fst r) = fst v /\ cs_lg (fst r) = fst m /\ snd r = snd m /\ cs_peers (fst r) = cs_peers s /\
  cs_tr (fst r) = cs_tr s ++ map (fun c => (cs_clock s, TPin c caller)) (snd v) ++ mem_trace (cs_clock s) (cs_lg s) (fst m).
Proof. exact (remove_state_l s caller q target o os). Qed.
Print Assumptions peer_remove_is_vacate_then_rm.

(* no pin is dropped (or created) by PeerRemove: whoever calls it, whatever fails *)
Theorem remove_never_drops_pins s caller target o os h : list_oracle (r_lord o) -> inv (cs_st s) ->
  (aget h (cs_st (fst (clstep s (EvPeerRemove caller target o os)))) = None <-> aget h (cs_st s) = None).
Proof. exact (remove_never_drops_l s caller target o os h). Qed.
Print Assumptions remove_never_drops_pins.

(* nor by any event that is not a user call: the pinset is identical; and every reachable pinset keeps C04's invariant *)
Theorem membership_events_keep_pinset s ev evs : 
  (touches_pins ev = false -> cs_st (fst (clstep s ev)) = cs_st s) /\ (inv (cs_st s) -> inv (cs_st (clrun s evs))).
Proof. exact (conj (other_events_keep_pinset_l s ev) (clrun_inv evs s)). Qed.
Print Assumptions membership_events_keep_pinset.

(* with re-pinning disabled (or in follower mode) PeerRemove is RmPeer and nothing else: pinset identical, no LogPin *)
Theorem repinning_disabled_only_removes s caller q target o os : aget caller (cs_peers s) = Some q -> cp_running q = true ->
  pc_norepin (cp_pc q) = true \/ follower (pc_cfg (cp_pc q)) = true ->
  let r := clstep s (EvPeerRemove caller target o os) in
  let m := cons_rm (cs_init s) (cs_lg s) target os in
  cs_st (fst r) = cs_st s /\ cs_lg (fst r) = fst m /\ snd r = snd m /\ cs_peers (fst r) = cs_peers s /\
  cs_tr (fst r) = cs_tr s ++ mem_trace (cs_clock s) (cs_lg s) (fst m) /\
  (forall x, In x (mem_trace (cs_clock s) (cs_lg s) (fst m)) -> x = (cs_clock s, TRm target)).
Proof. exact (remove_disabled_l s caller q target o os). Qed.
Print Assumptions repinning_disabled_only_removes.

(* the boolean form evaluated on what the implementation logged during one PeerRemove call is sound: re-pins by the caller
   first, then at most the configuration entry of the removed peer *)
Theorem remove_order_okb_sound caller target es : Model.C17_ClusterCheck.remove_order_ok caller target false es = true ->
  exists cs rm, es = map (fun c => TPin c caller) cs ++ rm /\ (rm = [] \/ rm = [TRm target]).
Proof. exact (remove_order_ok_sound caller target es). Qed.
Print Assumptions remove_order_okb_sound.

(* ---- non-vacuity: peer 0 removes peer 2, the only holder of CID 1; peer 2 is told, ticks, stops and cleans; peer 1 is
        shut down by its operator and keeps its data ---- *)
Example cluster_demo :
  clinit_ok Demo.s0 = true /\
  let s := clrun Demo.s0 Demo.evs in
  cs_tr s = [(0%nat, TPin 1 0); (0%nat, TRm 2)] /\ cs_lg s = [ERm 2] /\ cfg_peers s = [0; 1] /\
  aget 1 (cs_st s) = Some (set_allocs [0] Demo.x) /\
  map (fun pq => (fst pq, cp_running (snd pq), cp_removed (snd pq), cp_cleans (snd pq), live (cp_dir (snd pq)), olds (cp_dir (snd pq)) 0%nat))
      (cs_peers s) =
  [(1, false, false, 0%nat, Some (2, Some 6), None); (2, false, true, 1%nat, None, Some (3, Some 5)); (0, true, false, 0%nat, Some (1, None), None)].
Proof. exact Demo.run. Qed.
Example leave_failed_demo :
  clinit_ok leave_s0 = true /\
  let s := clrun leave_s0 [EvShutdown 0 [Done; Done] None] in
  exists q, aget 0 (cs_peers s) = Some q /\ cp_cleans q = 1%nat /\ live (cp_dir q) = None /\ olds (cp_dir q) 0%nat = Some (1, Some 7) /\
            cs_lg s = [] /\ cfg_peers s = [0].
Proof. exact leave_failed_still_cleans. Qed.
End Cluster.
