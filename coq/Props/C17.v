(* C17 — Raft membership changes are agreed by all members and never lose the pinset.
   Statements only; every proof is `exact <lemma of Proofs/C17_Members.v>`.
   Quantification: every initial peer set, every log (history of pin/unpin and configuration entries), every peer,
   every list of per-attempt outcomes hashicorp/raft may produce (committed / appended-but-error / refused), every
   schedule of receive, apply, snapshot-install and restart events on every member.
   Assumed of hashicorp/raft (partial): one committed log that every member receives in index order, and that a
   snapshot carries the configuration of its index. The pinset of a member follows C01 (clean ops). *)
From V Require Import Base.Common Model.C01_RaftLog Proofs.C01_RaftLog Model.C17_Members Proofs.C17_Members.
Open Scope N_scope.

(* AddPeer: the log only grows, no other peer's membership changes, and success means the peer is a member *)
Theorem add_peer_effect init lg p os :
  (exists suf, fst (cons_add init lg p os) = lg ++ suf) /\
  (forall q, q <> p -> memN q (peers_of init (fst (cons_add init lg p os))) = memN q (peers_of init lg)) /\
  (snd (cons_add init lg p os) = false -> memN p (peers_of init (fst (cons_add init lg p os))) = true).
Proof. exact (cons_add_spec init lg p os). Qed.
Print Assumptions add_peer_effect.

(* RmPeer: dually, success means the peer is no longer a member *)
Theorem rm_peer_effect init lg p os :
  (exists suf, fst (cons_rm init lg p os) = lg ++ suf) /\
  (forall q, q <> p -> memN q (peers_of init (fst (cons_rm init lg p os))) = memN q (peers_of init lg)) /\
  (snd (cons_rm init lg p os) = false -> memN p (peers_of init (fst (cons_rm init lg p os))) = false).
Proof. exact (cons_rm_spec init lg p os). Qed.
Print Assumptions rm_peer_effect.

(* adding a present peer is a harmless no-op: success, no log entry *)
Theorem add_present_noop init lg p o os :
  memN p (peers_of init lg) = true -> cons_add init lg p (o :: os) = (lg, false).
Proof. exact (add_present_noop_l init lg p o os). Qed.
Print Assumptions add_present_noop.

(* removing an absent peer is a harmless no-op *)
Theorem rm_absent_noop init lg p o os :
  memN p (peers_of init lg) = false -> cons_rm init lg p (o :: os) = (lg, false).
Proof. exact (rm_absent_noop_l init lg p o os). Qed.
Print Assumptions rm_absent_noop.

(* the last peer cannot be removed: an error, and no log entry, however often it is retried *)
Theorem last_peer_not_removable init lg p os :
  peers_of init lg = [p] -> os <> [] -> cons_rm init lg p os = (lg, true).
Proof. exact (last_peer_not_removable_l init lg p os). Qed.
Print Assumptions last_peer_not_removable.

(* the peer set never holds a peer twice *)
Theorem peers_nodup init lg : NoDup init -> NoDup (peers_of init lg).
Proof. exact (fun H => NoDup_peers_of lg init H). Qed.
Print Assumptions peers_nodup.

(* any two members that have received the last configuration entry report the same peer set *)
Theorem members_agree init lg i a b :
  (forall e, In e (skipn i lg) -> is_member_entry e = false) -> (i <= a)%nat -> (i <= b)%nat ->
  peers_of init (firstn a lg) = peers_of init (firstn b lg).
Proof. exact (members_agree_l init lg i a b). Qed.
Print Assumptions members_agree.

(* a member that has received the whole log reports the configuration of the whole log (with / without the changed peer) *)
Theorem member_reports_change init cl m :
  (length (mlog cl) <= m_recv m)%nat -> report init cl m = peers_of init (mlog cl).
Proof. exact (report_full init cl m). Qed.
Print Assumptions member_reports_change.

(* a joiner that reports itself ready, and whose FSM has drained its queue, holds the replay of a prefix that extends
   beyond its own add entry: every op committed before the join was acknowledged is in its pinset *)
Theorem joiner_ready_has_pinset_partial init k es n m p :
  nth_error (members (crun (cinit k) es)) n = Some m ->
  memN p init = false -> ready init (crun (cinit k) es) p m = true -> m_applied m = m_queued m ->
  m_st m = state_at (mlog (crun (cinit k) es)) (m_applied m) /\
  exists ia, (ia < m_applied m)%nat /\ nth_error (mlog (crun (cinit k) es)) ia = Some (EAdd p).
Proof. exact (joiner_ready_l init k es n m p). Qed.
Print Assumptions joiner_ready_has_pinset_partial.

(* S25: without that guard the statement is false: WaitForSync compares raft's AppliedIndex with LastIndex, and
   hashicorp/raft advances AppliedIndex when an entry is queued for the FSM: a joiner can be ready with an empty pinset *)
Theorem joiner_ready_has_pinset_refuted :
  exists init k es n p, memN p init = false /\
    let cl := crun (cinit k) es in
    ready init cl p (mget n cl) = true /\ m_st (mget n cl) = [] /\ state_at (mlog cl) (m_recv (mget n cl)) <> [].
Proof. exact joiner_ready_refuted_l. Qed.
Print Assumptions joiner_ready_has_pinset_refuted.

(* ---- non-vacuity ---- *)
Example add_rm_demo :
  let '(lg1, e1) := cons_add [0; 1] [] 2 [LostAfter; Done] in
  let '(lg2, e2) := cons_rm [0; 1] lg1 0 [Done] in
  let '(lg3, e3) := cons_rm [0] [] 0 [Done; Done] in
  lg1 = [EAdd 2] /\ e1 = false /\ peers_of [0; 1] lg2 = [1; 2] /\ e2 = false /\ lg3 = [] /\ e3 = true.
Proof. exact demo_add_rm. Qed.
Example joiner_demo :
  let cl := crun (cinit 2) demo_join in
  ready [0] cl 1 (mget 1 cl) = true /\ m_applied (mget 1 cl) = m_queued (mget 1 cl) /\ map fst (m_st (mget 1 cl)) = [0] /\
  report [0] cl (mget 0 cl) = report [0] cl (mget 1 cl).
Proof. exact demo_join_ready. Qed.
