(* C16 — The IPFS connector reports success only when the daemon reached the asked state.
   Statements only; every proof is `exact <lemma of Proofs/C16_{Connector,Monitor,Atomic}.v>`.
   Quantification: every pin `p` (MaxDepth, Mode, origins, update source), every prior daemon table `d`,
   every behaviour script `s` (one behaviour per HTTP call, any length; an exhausted script behaves well).
   Trusted: the go-ipfs contract `act`/`serve` of Model/C16_Connector.v. `conn_pin` is the code with fix-S16. *)
From V Require Import Base.Common Model.C16_Connector Model.C16_Check Proofs.C16_Connector Proofs.C16_Monitor Proofs.C16_Atomic.
Open Scope Z_scope.

(* a reported pin success means the daemon holds the CID in the asked mode
   (premise: the update branch of a pin whose Mode is recursive is not asked for a direct pin — api.PinWithOpts
    never builds such a pin) *)
Theorem pin_success_sound p d s d' x : update_consistent p = true ->
  conn_pin p d s = (ROk, d', x) -> aget (p_cid p) d' = Some (mode_of (p_depth p)).
Proof. exact (pin_success_sound_l p d s d' x). Qed.
Print Assumptions pin_success_sound.

(* the code at 9309c15 (no trailer check): the full statement is false — S16 *)
Theorem pin_trailer_refuted_as_written : exists p d s d' x,
  update_consistent p = true /\ conn_pin_as_written p d s = (ROk, d', x) /\ aget (p_cid p) d' = None.
Proof. exact pin_trailer_refuted_l. Qed.
Print Assumptions pin_trailer_refuted_as_written.

(* a reported unpin success means the daemon no longer holds the CID
   (premise: the daemon keeps its contract and does not answer "not pinned" for a CID it holds) *)
Theorem unpin_success_sound c d s d' x : conn_unpin false c d s = (ROk, d', x) -> honest_rm c d s = true ->
  aget c d' = None.
Proof. exact (unpin_success_sound_l c d s d' x). Qed.
Print Assumptions unpin_success_sound.

(* daemon and transport failures on the decisive (last) exchange are never reported as success:
   an error, except that a pin/update the daemon never answers blocks until the caller gives up *)
Theorem failures_are_errors p d s r d' x : conn_pin p d s = (r, d', x) -> last_failed x = true ->
  r = RErr \/ (r = RHang /\ last_is_update_stall x = true).
Proof. exact (pin_failure_l p d s r d' x). Qed.
Print Assumptions failures_are_errors.

Theorem unpin_failures_are_errors dis c d s r d' x : conn_unpin dis c d s = (r, d', x) -> last_failed x = true -> r = RErr.
Proof. exact (unpin_failure_l dis c d s r d' x). Qed.
Print Assumptions unpin_failures_are_errors.

Theorem unpin_disabled_is_error c d s : conn_unpin true c d s = (RErr, d, []).
Proof. exact (unpin_disabled_l c d s). Qed.
Print Assumptions unpin_disabled_is_error.

(* pinned as asked: the conversation is exactly one pin/ls, the table is untouched, success *)
Theorem already_pinned_no_request p d s : aget (p_cid p) d = Some (mode_of (p_depth p)) -> head_ok s = true ->
  conn_pin p d s = (ROk, d, [(CLs (p_cid p) (to_pin_mode (p_depth p)), PBody)]).
Proof. exact (already_pinned_l p d s). Qed.
Print Assumptions already_pinned_no_request.

Theorem unpin_not_pinned_ok c d s : aget c d = None -> head_ok s = true ->
  conn_unpin false c d s = (ROk, d, [(CRm c, PErr MNotPinned)]).
Proof. exact (unpin_not_pinned_l c d s). Qed.
Print Assumptions unpin_not_pinned_ok.

(* a stalled decisive request ends in an error ... *)
Theorem stall_gives_error_partial p d s r d' x pre cl : conn_pin p d s = (r, d', x) -> x = pre ++ [(cl, PStall)] ->
  is_update cl = false -> r = RErr.
Proof. exact (pin_stall_l p d s r d' x pre cl). Qed.
Print Assumptions stall_gives_error_partial.

(* ... but not when it is the pin/update (finding pin-update-stall-never-gives-up): the unguarded statement is false *)
Theorem stall_gives_error_refuted : exists p d s r d' x pre cl,
  conn_pin p d s = (r, d', x) /\ x = pre ++ [(cl, PStall)] /\ r = RHang.
Proof. exact pin_update_stall_hangs_l. Qed.
Print Assumptions stall_gives_error_refuted.

Theorem unpin_stall_gives_error dis c d s r d' cl : conn_unpin dis c d s = (r, d', [(cl, PStall)]) -> r = RErr.
Proof. exact (unpin_stall_l dis c d s r d' cl). Qed.
Print Assumptions unpin_stall_gives_error.

(* pin/update is requested only with a recursively pinned source, for this pin's source and CID, with unpin=false *)
Theorem update_only_if_source_recursive p d s r d' x f t u : conn_pin p d s = (r, d', x) ->
  In (CUpdate f t u) (requests x) -> p_update p = Some f /\ t = p_cid p /\ u = false /\ aget f d = Some Rec.
Proof. exact (update_only_l p d s r d' x f t u). Qed.
Print Assumptions update_only_if_source_recursive.

(* ... and whatever the daemon then does, the source stays recursively pinned *)
Theorem update_keeps_source p d s r d' x f t u : conn_pin p d s = (r, d', x) ->
  In (CUpdate f t u) (requests x) -> aget f d' = Some Rec.
Proof. exact (update_keeps_l p d s r d' x f t u). Qed.
Print Assumptions update_keeps_source.

(* no pin or unpin touches any other CID of the daemon, whatever happens *)
Theorem pin_touches_only_target p d s r d' x k : conn_pin p d s = (r, d', x) -> k <> p_cid p -> aget k d' = aget k d.
Proof. exact (pin_frame_l p d s r d' x k). Qed.
Print Assumptions pin_touches_only_target.

Theorem unpin_touches_only_target dis c d s r d' x k : conn_unpin dis c d s = (r, d', x) -> k <> c -> aget k d' = aget k d.
Proof. exact (unpin_frame_l dis c d s r d' x k). Qed.
Print Assumptions unpin_touches_only_target.

(* PinLsCid against a well-behaved daemon tells the truth about (c, mode asked) and changes nothing *)
Theorem pin_ls_cid_truthful c depth d s : head_ok s = true ->
  fst (fst (fst (pin_ls_cid c depth d s))) =
    (if optmode_eqb (aget c d) (Some (to_pin_mode depth)) then (status_of_mode (to_pin_mode depth), false) else (StUnpinned, false))
  /\ snd (fst (fst (pin_ls_cid c depth d s))) = d.
Proof. exact (pin_ls_truthful_l c depth d s). Qed.
Print Assumptions pin_ls_cid_truthful.

(* the boolean check applied to the implementation's observation (Model/C16_Check.v spec_fails) implies the
   property of that observation: success only with the CID held as asked, a failed decisive exchange is not a
   success, a stalled one is an error, at most min(10, #origins) swarm connects *)
Theorem check_pin_sound p d s ob : spec_fails (OpPin p) d s ob = [] -> PinSpec p d s ob.
Proof. exact (spec_pin_sound p d s ob). Qed.
Print Assumptions check_pin_sound.

Theorem check_unpin_sound c dis d s ob : spec_fails (OpUnpin c dis) d s ob = [] -> UnpinSpec c d s ob.
Proof. exact (spec_unpin_sound c dis d s ob). Qed.
Print Assumptions check_unpin_sound.

(* the check recomputes the daemon's replies from the requests it received; on the model's own run this
   reproduces the model's exchange log *)
Theorem model_log_replays p d s r d' x : conn_pin p d s = (r, d', x) -> replay d (requests x) s = x.
Proof. exact (replay_pin p d s r d' x). Qed.
Print Assumptions model_log_replays.

(* non-vacuity: the three successful ways through Pin, on concrete inputs *)
Example pin_by_add : conn_pin (mk_pin 0%N 0 Dir 2%N None) [(1%N, Rec)] [BOk 0%N false; BOk 3%N true]
  = (ROk, [(0%N, Dir); (1%N, Rec)], [(CLs 0%N Dir, PErr MOther); (CAdd 0%N false None true, PBody)]).
Proof. reflexivity. Qed.
Example pin_by_update : conn_pin (mk_pin 0%N (-1) Rec 0%N (Some 1%N)) [(1%N, Rec)] []
  = (ROk, [(0%N, Rec); (1%N, Rec)], [(CLs 0%N Rec, PErr MOther); (CLs 1%N Rec, PBody); (CUpdate 1%N 0%N false, PBody)]).
Proof. reflexivity. Qed.
Example pin_trailer_is_error_now : conn_pin (mk_pin 0%N (-1) Rec 0%N None) [] [BOk 0%N false; BProgErr 1%N]
  = (RErr, [], [(CLs 0%N Rec, PErr MOther); (CAdd 0%N true None true, PTrailer)]).
Proof. reflexivity. Qed.
Example unpin_tolerant : conn_unpin false 0%N [] [] = (ROk, [], [(CRm 0%N, PErr MNotPinned)]).
Proof. reflexivity. Qed.

(* ---- the remaining monitor codes, and the model against the monitor (Proofs/C16_Monitor.v) ---- *)

(* codes 11 and 12 of a pin: already pinned as asked + well-behaved daemon => success with exactly the one pin/ls, no swarm
   connect, table untouched; pin/update only for this pin's source and CID with unpin=false and the source recursively pinned
   before and after; no other CID touched *)
Theorem check_pin_sound2 p d s ob : (forall x, In x (spec_fails (OpPin p) d s ob) -> x <> 11%N /\ x <> 12%N) -> PinSpec2 p d s ob.
Proof. exact (spec_pin_sound2 p d s ob). Qed.
Print Assumptions check_pin_sound2.

(* unpin: disabled => error, nothing sent, table untouched; a stalled pin/rm => error; not pinned + well-behaved daemon =>
   success with exactly the one pin/rm, table untouched; no other CID touched *)
Theorem check_unpin_sound2 c dis d s ob : spec_fails (OpUnpin c dis) d s ob = [] -> UnpinSpec2 c dis d s ob.
Proof. exact (spec_unpin_sound2 c dis d s ob). Qed.
Print Assumptions check_unpin_sound2.

(* PinLsCid: a well-behaved daemon => no error and the truth about (c, mode asked); the table never changes *)
Theorem check_ls_sound c depth d s ob : spec_fails (OpLs c depth) d s ob = [] -> LsSpec c depth d s ob.
Proof. exact (spec_ls_sound c depth d s ob). Qed.
Print Assumptions check_ls_sound.

(* completeness: for every operation, pin, prior daemon table and behaviour script, and every number of swarm connects within
   the bound (none when the first pin/ls already answers "pinned as asked": nconn_ok - swarm/connect is not modelled), the
   model's own run raises nothing but code 14 with tag 1, the carried finding pin-update-stall-never-gives-up ... *)
Theorem model_only_known_finding id o d s nconn : nconn_ok o d s nconn ->
  forall f, In f (check_case (id, (o, d, s, model_obs o d s nconn))) -> snd (fst f) = 14%N /\ snd f = 1%N /\ exists p, o = OpPin p.
Proof. exact (model_only_known_finding_l id o d s nconn). Qed.
Print Assumptions model_only_known_finding.

(* ... and when the decisive request is not a pin/update left unanswered, no code at all (code 1 included) *)
Theorem model_passes_monitor id o d s nconn : nconn_ok o d s nconn -> no_update_stall o d s ->
  check_case (id, (o, d, s, model_obs o d s nconn)) = [].
Proof. exact (model_passes_monitor_l id o d s nconn). Qed.
Print Assumptions model_passes_monitor.

(* non-vacuity: a pin by update with two swarm connects passes; the same run reported with the source unpinned is rejected
   (code 12); the finding shape raises exactly code 14 with tag 1 *)
Example c16_monitor_example :
  let p := mk_pin 0%N (-1) Rec 5%N (Some 1%N) in let d := [(1%N, Rec)] in
  nconn_ok (OpPin p) d [] 2%N /\ no_update_stall (OpPin p) d [] /\
  model_obs (OpPin p) d [] 2%N = Obs ROk StBug [(0%N, Rec); (1%N, Rec)] [CLs 0%N Rec; CLs 1%N Rec; CUpdate 1%N 0%N false] 2%N /\
  check_case (7%N, (OpPin p, d, [], Obs ROk StBug [(0%N, Rec)] [CLs 0%N Rec; CLs 1%N Rec; CUpdate 1%N 0%N false] 2%N)) = [(7, 1, 0); (7, 12, 0)]%N /\
  check_case (7%N, (OpPin p, d, [BOk 0%N false; BOk 0%N false; BStall], model_obs (OpPin p) d [BOk 0%N false; BOk 0%N false; BStall] 0%N)) = [(7, 14, 1)]%N.
Proof. cbv zeta. split; [split; [vm_compute; discriminate|intros H; discriminate H]|]. repeat split; vm_compute; reflexivity. Qed.

(* ---- failure atomicity (the converse side of "success only when the daemon reached the asked state") ----
   A Pin or Unpin that returns anything but success (error, or the update hang) has left the daemon's pin table exactly as it
   was, for every pin, table and script in which no response is lost after the daemon acted. The exception is necessary:
   pin_failure_atomic_needs_no_drop exhibits a lost response after which the daemon holds the pin and the connector,
   rightly, reports an error. *)
Theorem pin_failure_atomic p d s r d' x : conn_pin p d s = (r, d', x) -> r <> ROk -> no_acted_drop s = true -> d' = d.
Proof. exact (pin_failure_atomic_l p d s r d' x). Qed.
Print Assumptions pin_failure_atomic.

Theorem unpin_failure_atomic dis c d s r d' x : conn_unpin dis c d s = (r, d', x) -> r <> ROk -> no_acted_drop s = true -> d' = d.
Proof. exact (unpin_failure_atomic_l dis c d s r d' x). Qed.
Print Assumptions unpin_failure_atomic.

Theorem pin_failure_atomic_needs_no_drop : exists p d s d' x, conn_pin p d s = (RErr, d', x) /\ d' <> d.
Proof. exact pin_failure_atomic_needs_no_drop_l. Qed.
Print Assumptions pin_failure_atomic_needs_no_drop.

(* non-vacuity: a direct pin asked for a CID the daemon holds recursively — pin/ls says not pinned as asked, pin/add
   recursive=false is refused ("already pinned recursively"), the connector reports the error and the table is untouched;
   and a trailer error after progress objects (the case fix-S16 repaired) likewise *)
Example pin_failure_atomic_example :
  no_acted_drop [BOk 0%N false; BOk 0%N false] = true /\
  conn_pin (mk_pin 0%N 0 Dir 0%N None) [(0%N, Rec)] [BOk 0%N false; BOk 0%N false]
    = (RErr, [(0%N, Rec)], [(CLs 0%N Dir, PErr MOther); (CAdd 0%N false None true, PErr MOther)]) /\
  fst (fst (conn_pin (mk_pin 1%N (-1) Rec 0%N None) [(0%N, Rec)] [BOk 0%N false; BProgErr 2%N])) = RErr /\
  snd (fst (conn_pin (mk_pin 1%N (-1) Rec 0%N None) [(0%N, Rec)] [BOk 0%N false; BProgErr 2%N])) = [(0%N, Rec)].
Proof. repeat split; vm_compute; reflexivity. Qed.
