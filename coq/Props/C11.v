(* C11 — REST API is fail-closed, authenticated and faithful. Statements only. *)
From V Require Import Base.Common Base.C11_Http Gen.RestRoutes Gen.RestClient Model.C11_Rest Model.C11_Check Proofs.C11_Rest.
Open Scope string_scope.
Open Scope list_scope.

Theorem rest_table_spec : compile_rest rest_routes = route_spec.
Proof. exact routes_compile. Qed.
Print Assumptions rest_table_spec.
