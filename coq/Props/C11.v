(* C11 — REST API is fail-closed, authenticated and faithful to the request. Statements only; every proof is
   `exact <lemma of Proofs/C11_*.v>`.
   Quantification: every request (method, decoded path, query, pre-flight header), every environment: credentials
   configured or not, every BasicAuth header outcome, every outcome of the abstract parsers (mux cleanPath, cid.Decode,
   peer.Decode, go-path ParsePath, PinOptions.FromQuery, AddParamsFromQuery, the filters, the JSON body, the multipart
   reader, the importer) and every RPC failure script. Route and client tables are the ones regenerated from
   api/rest/restapi.go and api/rest/client/methods.go at this run (Gen/RestRoutes.v, Gen/RestClient.v).
   Vocabulary (Proofs/C11_Rest.v): `routed rq e h vars` = the request passed the auth wrapper, is no CORS pre-flight, has a
   canonical path and the router matched it to handler class h with path variables vars; `malformed h vars e` = a part the
   handler must decode (CID, IPFS path, peer ID, pin options / add parameters, filter, body) is rejected by its parser;
   `spec_expect` (Model/C11_Check.v, hand-written, independent of the handler code) = the operation the route names with
   the rendered CID / path / peer / options of the environment; `performed calls exp` = calls are exp in order, each
   successful except possibly the last one issued. *)
From V Require Import Base.Common Base.C11_Http Base.C11_RouteOrder Gen.RestRoutes Gen.RestClient Model.C11_Rest Model.C11_Check Model.C11_Tables
  Proofs.RouteOrder Proofs.C11_Rest Proofs.C11_Client Proofs.C11_ClientC08.
From V Require Model.C08_Codec Model.C08_Query Model.C08_Status.
From Coq Require Import Permutation.
Open Scope string_scope.
Open Scope list_scope.

(* ---- generated tables ---- *)

(* routes(): the generated table is the hand-written one (method, template, handler class) UP TO THE ORDER OF ROUTES THAT
   CANNOT ANSWER A COMMON REQUEST, and therefore dispatches every request exactly like it.
   Changed (w13): this used to be the list equality `compile_rest rest_routes = route_spec`. gorilla/mux takes the first
   registered route that matches, so registration order matters only between routes that some request can match both;
   the list equality also broke on a behaviour-preserving reorder (e.g. "ID" GET /id after "Version" GET /version).
   `routes_equiv` (Model/C11_Tables.v) holds iff the second table is a permutation of the first in which every two routes
   that are not apart (same method, and templates not provably disjoint under StrictSlash matching: tpl_apart) keep their
   relative order; the order of PinPath /pins/{keyType:ipfs|ipns|ipld}/{path:.*} and Recover /pins/{hash}/recover (fix-S26)
   is still fixed by it. The second conjunct is what every later theorem uses. *)
Theorem rest_table_spec :
  routes_equiv (compile_rest rest_routes) route_spec = true
  /\ forall m segs, resolve rest_strict_slash (compile_rest rest_routes) m segs false = resolve rest_strict_slash route_spec m segs false.
Proof. exact (conj routes_compile rest_resolve_is_spec). Qed.
Print Assumptions rest_table_spec.

(* the general fact behind it, for tables of any size: equivalent tables resolve every request identically *)
Theorem rest_routes_equiv_dispatch rs1 rs2 : routes_equiv rs1 rs2 = true ->
  forall strict m segs seen, resolve strict rs1 m segs seen = resolve strict rs2 m segs seen.
Proof. exact (routes_equiv_resolve rs1 rs2). Qed.
Print Assumptions rest_routes_equiv_dispatch.

(* templates that are apart are never both matched: neither by match_segs nor by the StrictSlash matcher *)
Theorem rest_tpl_disjoint_sound t1 t2 : tpl_disjoint t1 t2 = true ->
  forall segs, match_segs t1 segs <> None -> match_segs t2 segs = None.
Proof. exact (tpl_disjoint_sound t1 t2). Qed.
Print Assumptions rest_tpl_disjoint_sound.

Theorem rest_tpl_apart_sound t1 t2 : tpl_apart t1 t2 = true ->
  forall strict segs, path_match strict t1 segs <> PNo -> path_match strict t2 segs = PNo.
Proof. exact (tpl_apart_path_match t1 t2). Qed.
Print Assumptions rest_tpl_apart_sound.

(* NewAPIWithHost: the basic-auth wrapper is outermost, then CORS, then the router (StrictSlash, notFoundHandler) *)
Theorem rest_chain_spec : rest_handler_chain = ["basicAuthHandler"; "cors.New.Handler"; "router"]
  /\ rest_server_handler = ["handlers.LoggingHandler"; "handler"]
  /\ rest_strict_slash = true /\ rest_not_found = "notFoundHandler"
  /\ rest_registration = ["Methods"; "Path"; "Name"; "Handler"].
Proof. exact chain_is. Qed.
Print Assumptions rest_chain_spec.

(* every sendResponse with an explicit error status is followed by a return, in every handler and parse helper *)
Theorem rest_error_sites_return :
  forallb (fun f : string * list (string * string) * list string * list bool => forallb (fun b => b) (snd f)) rest_funcs = true.
Proof. exact error_sites_all_return. Qed.
Print Assumptions rest_error_sites_return.

(* every route issues exactly the RPCs its name denotes: the RPC call sites found in the handler's source are the
   hand-written ones for the route NAME, and every call the model's handler can make carries one of those names
   (finite: over the 21 generated routes; vars, query and environment arbitrary) *)
Theorem rest_route_ops name m pat hn : In (name, m, pat, hn) rest_routes ->
  exists sites, sget name named_ops = Some sites /\ func_rpcs hn = Some sites /\
    forall vars q e c, In c (rs_calls (handle (rhandler_of_name hn) vars q e)) -> In (fst (fst c)) (flat_map model_names sites).
Proof. exact (route_ops_model name m pat hn). Qed.
Print Assumptions rest_route_ops.

(* ---- fail-closed and faithful ---- *)

(* the spec function refuses exactly when a decoded part is malformed *)
Theorem rest_refuse_iff_malformed h vars q e : spec_expect h vars q e = Refuse <-> malformed h vars e.
Proof. exact (refuse_iff_malformed h vars q e). Qed.
Print Assumptions rest_refuse_iff_malformed.

(* a malformed part: 400, one JSON document, no cluster operation *)
Theorem rest_fail_closed rq e h vars : routed rq e h vars -> malformed h vars e -> rest_run rq e = mk_rres [] 400 (Some 1%N) false.
Proof. exact (fail_closed_l rq e h vars). Qed.
Print Assumptions rest_fail_closed.

(* every part well-formed: exactly the operation the route names, with exactly the CID / path / peer / options the
   parsers produced; complete on a non-error answer; an error answer only after a failing cluster call (or, for /add,
   a failing importer before anything was called) *)
Theorem rest_wellformed_translated rq e h vars : routed rq e h vars -> ~ malformed h vars e ->
  exists exp, spec_expect h vars (rr_query rq) e = Ops exp /\ ops_ok h e exp (rest_run rq e).
Proof. exact (wellformed_translated_l rq e h vars). Qed.
Print Assumptions rest_wellformed_translated.

(* conversely: whenever anything at all was called, the request was routed, every decoded part was valid, and the calls
   are those of the matched route *)
Theorem rest_calls_exact rq e : rs_calls (rest_run rq e) <> [] ->
  exists h vars exp, routed rq e h vars /\ ~ malformed h vars e /\ spec_expect h vars (rr_query rq) e = Ops exp
    /\ ops_ok h e exp (rest_run rq e).
Proof. exact (calls_exact_l rq e). Qed.
Print Assumptions rest_calls_exact.

(* never both a refusal and an operation: a 4xx answer none of whose calls failed in the cluster performed nothing *)
Theorem rest_refused_no_call rq e : is4xx (rs_status (rest_run rq e)) = true -> any_failed (rs_calls (rest_run rq e)) = false ->
  rs_calls (rest_run rq e) = [].
Proof. exact (refused_no_call_l rq e). Qed.
Print Assumptions rest_refused_no_call.

(* the body is a single JSON document: one, or none (HEAD, 204, 405); unstated only for a 301 page (nothing called) and
   for the NDJSON stream of POST /add with stream-channels=true — the documented exception, named *)
Theorem rest_single_document rq e : docs_spec rq e (rest_run rq e).
Proof. exact (single_document_l rq e). Qed.
Print Assumptions rest_single_document.

(* ---- authentication ---- *)

(* credentials configured and no listed user/password pair in the request: 401 and nothing called, for EVERY method and
   path — matched or not, redirect or not — and also for CORS pre-flights: the wrapper is outside the CORS handler in
   this code (rest_chain_spec), so there is no exception *)
Theorem rest_auth_total rq e : ~ listed_pair e ->
  rs_calls (rest_run rq e) = [] /\ rs_status (rest_run rq e) = 401%N /\ rs_serr (rest_run rq e) = false
  /\ (rs_ndocs (rest_run rq e) = Some 1%N \/ (rr_meth rq = "HEAD" /\ rs_ndocs (rest_run rq e) = Some 0%N)).
Proof. exact (auth_total_l rq e). Qed.
Print Assumptions rest_auth_total.

(* authorized means exactly: no credentials configured, or the header decodes to a listed pair *)
Theorem rest_authorized_iff e : authorized e = true <-> listed_pair e.
Proof. exact (authorized_spec e). Qed.
Print Assumptions rest_authorized_iff.

(* and with a listed pair the wrapper changes nothing *)
Theorem rest_auth_transparent rq e : listed_pair e -> rest_run rq e = rest_run rq (open_env e).
Proof. exact (auth_transparent_l rq e). Qed.
Print Assumptions rest_auth_transparent.

(* ---- the boolean monitor applied to the implementation's observations ---- *)

(* soundness: an observation that passes spec_okb_http satisfies the property for that request and environment *)
Theorem rest_spec_okb_sound rq e o : spec_okb_http rq e o = true -> HttpSpec rq e o.
Proof. exact (spec_okb_http_sound rq e o). Qed.
Print Assumptions rest_spec_okb_sound.

(* the model's own output always passes it (d: the document count where the model leaves it unstated), so an
   implementation observation equal to the model's output satisfies the property *)
Theorem rest_model_satisfies_spec rq e d : spec_okb_http rq e (robs_of d (rest_run rq e)) = true.
Proof. exact (model_satisfies_http rq e d). Qed.
Print Assumptions rest_model_satisfies_spec.

(* ---- the bundled client ---- *)

(* the generated client table is the hand-written one (HTTP method, path format, local flag), nothing more *)
Theorem client_table_spec :
  map (fun n => (n, client_entry n)) known_calls = map (fun r => (fst r, Some (snd r))) client_spec_table
  /\ forallb (fun r : string * string * string => str_in (fst (fst r)) known_calls) client_requests = true.
Proof. exact (conj client_table_is client_table_complete). Qed.
Print Assumptions client_table_spec.

(* every client method, any arguments: the request it builds, routed through the server model, performs exactly the
   operation of that method with the arguments given, and the client returns what the server answered.
   Guard (client_guard, explicit): CID / peer ID / metric name are single non-empty path segments other than "." / "..", the IPFS
   path is "/<ipfs|ipns|ipld>/<rest>" (rest non-empty, without empty or dot segments; any characters otherwise: the client escapes
   the path and the metric name since fix-S27 and the server's unescape is the trusted inverse); Pin's CID is not the string "recover" and Recover's CID not one of
   "ipfs" / "ipns" / "ipld" (no CID string is: POST /pins/recover is RecoverAll, POST /pins/ipfs/recover a path).
   rt_ok: the server's parsers give back what the client's printers were given (instantiated by C08 below). *)
Theorem client_faithful c e o f :
  In (cc_name c) known_calls -> cauthorized e = true -> client_guard c -> rt_ok c e o f ->
  arrives e (client_sent c e o f) (client_run c e).
Proof. exact (client_faithful_l c e o f). Qed.
Print Assumptions client_faithful.

(* S26 (fixed): PinPath("/ipns/recover") is inside the guard and arrives: POST /pins/ipns/recover reaches PinPath since routes()
   lists it before Recover (before the fix: hash = "ipns", 400, nothing arrived; the input stays in the corpus) *)
Theorem client_pinpath_recover_arrives :
  client_guard recover_call /\ rt_ok recover_call recover_env "o" "" /\
  client_run recover_call recover_env = mk_cres [("Cluster.PinPath", ["/ipns/recover"; "o"], false)] 0 (Some "{}") false.
Proof. exact (conj (proj1 pinpath_recover_in_guard) (conj (proj2 pinpath_recover_in_guard) pinpath_recover_run)). Qed.
Print Assumptions client_pinpath_recover_arrives.

(* composed with C08 query_roundtrip: Pin / PinPath carry the options given (minus metadata entries with the empty key),
   for every oracle of the trusted parsers and every clock; guard wf_q (parsable texts, no ',' in peer strings) *)
Theorem client_options_faithful render orc now o c e :
  V.Model.C08_Query.wf_q orc o = true -> In (cc_name c) ["Pin"; "PinPath"] -> cauthorized e = true -> client_guard c ->
  ce_rt_opts e = rt_opts_c08 render orc now o ->
  (cc_name c = "Pin" -> ce_rt_cid e = Some (cc_cid c)) ->
  (cc_name c = "PinPath" -> forall p, cc_path c = Some p -> ce_rt_path e = Some (trim_slash p)) ->
  arrives e (client_sent c e (render (V.Model.C08_Query.lossy_q o)) "") (client_run c e).
Proof. exact (client_options_faithful_l render orc now o c e). Qed.
Print Assumptions client_options_faithful.

(* composed with C08 tracker_status_names_roundtrip: the filter of StatusAll arrives unchanged, for every iteration
   order of the Go map and every mask of defined status bits *)
Theorem client_filter_faithful (render : N -> string) ord m c e :
  Permutation ord V.Model.C08_Status.st_table -> V.Model.C08_Status.st_valid_mask m = true ->
  cc_name c = "StatusAll" -> cc_filter c = Some (V.Model.C08_Status.status_string ord m) -> cauthorized e = true ->
  ce_rt_filter e = Some (render (V.Model.C08_Status.status_from_string (V.Model.C08_Status.status_string ord m))) ->
  arrives e [(if cc_local c then "Cluster.StatusAllLocal" else "Cluster.StatusAll", [render m])] (client_run c e).
Proof. exact (client_filter_faithful_l render ord m c e). Qed.
Print Assumptions client_filter_faithful.

(* a client call without a listed pair performs nothing, whatever the call and its arguments *)
Theorem client_unauthorized_no_op c e : cauthorized e = false ->
  cr_calls (client_run c e) = [] /\ (cr_err (client_run c e) = 401%Z \/ cr_refused (client_run c e) = true).
Proof. exact (client_unauth_l c e). Qed.
Print Assumptions client_unauthorized_no_op.

Theorem client_spec_okb_sound c e o : spec_okb_client c e o = true -> ClientSpec c e o.
Proof. exact (spec_okb_client_sound c e o). Qed.
Print Assumptions client_spec_okb_sound.

Theorem client_model_satisfies_spec c e o f :
  (cauthorized e = true -> In (cc_name c) known_calls /\ client_guard c /\ rt_ok c e o f /\ client_expected c = Some (client_sent c e o f)) ->
  spec_okb_client c e (cobs_of (client_run c e)) = true.
Proof. exact (client_model_satisfies_l c e o f). Qed.
Print Assumptions client_model_satisfies_spec.

(* ---- non-vacuity ---- *)
Definition ex_env (creds : option (list (string * string))) (basic : option (string * string)) (popts : option string) : renv :=
  mk_renv creds basic false [("QmCid", Some "QmCid"); ("bad", None)] [] [] popts None (Some "0") true BodyBad 0 true "" [].

(* the input of S11 (valid CID, replication-min=x): refused, nothing called, one document *)
Example rest_example_badopt :
  let rq := mk_rreq "POST" "/pins/QmCid" [("replication-min", ["x"])] false in
  let e := ex_env None None None in
  routed rq e RPin [("hash", "QmCid")] /\ malformed RPin [("hash", "QmCid")] e /\ rest_run rq e = mk_rres [] 400 (Some 1%N) false.
Proof. vm_compute. repeat split; try reflexivity. right; reflexivity. Qed.

Example rest_example_pin :
  let rq := mk_rreq "POST" "/pins/QmCid" [("name", ["n"])] false in
  let e := ex_env None None (Some "name=n") in
  ~ malformed RPin [("hash", "QmCid")] e /\
  rest_run rq e = mk_rres [("Cluster.Pin", ["QmCid"; "name=n"; "-1"], false)] 200 (Some 1%N) false.
Proof. split; [|vm_compute; reflexivity]. cbn. intros [H|H]; discriminate. Qed.

(* credentials configured: a CORS pre-flight without a header, and a wrong password on an unknown path *)
Example rest_example_auth :
  let creds := Some [("alice", "wonderland")] in
  ~ listed_pair (ex_env creds None None) /\ ~ listed_pair (ex_env creds (Some ("alice", "Wonderland")) None) /\
  listed_pair (ex_env creds (Some ("alice", "wonderland")) None) /\
  rest_run (mk_rreq "OPTIONS" "/pins/QmCid" [] true) (ex_env creds None None) = mk_rres [] 401 (Some 1%N) false /\
  rest_run (mk_rreq "PUT" "/nowhere" [] false) (ex_env creds (Some ("alice", "Wonderland")) None) = mk_rres [] 401 (Some 1%N) false.
Proof.
  cbv zeta. repeat split; try (vm_compute; reflexivity).
  - intros (u & p & H & _). discriminate.
  - intros (u & p & H & Hin). inversion H; subst. cbn in Hin. destruct Hin as [Hin|[]]. discriminate.
  - exists "alice", "wonderland". split; [reflexivity | left; reflexivity].
Qed.

Example client_example_pin :
  let c := mk_ccall "Pin" false "QmCid" "" None "" None (Some ["QmCid"; "o"; "-1"]) in
  let e := mk_cenv None None (Some "QmCid") None None (Some "o") None None "" [] "{}" in
  client_run c e = mk_cres [("Cluster.Pin", ["QmCid"; "o"; "-1"], false)] 0 (Some "{}") false
  /\ client_sent c e "o" "" = [("Cluster.Pin", ["QmCid"; "o"; "-1"])].
Proof. vm_compute. split; reflexivity. Qed.

(* S27 (fixed): a metric name that needs URL escaping is inside the guard and arrives as given *)
Example client_example_escaped :
  let c := mk_ccall "Metrics" false "" "" None "a%41?b#c" None (Some ["a%41?b#c"]) in
  let e := mk_cenv None None None None None None None None "" [] "[]" in
  plain_seg "a%41?b#c" /\ client_run c e = mk_cres [("PeerMonitor.LatestMetrics", ["a%41?b#c"], false)] 0 (Some "[]") false.
Proof. cbv zeta. split; [repeat split; try discriminate | vm_compute; reflexivity]. Qed.

Example client_example_guards :
  let c := mk_ccall "PinPath" false "QmCid" "QmPeer" (Some "/ipfs/QmCid/a/b/") "ping" (Some "") None in
  client_guard c /\ plain_seg "ping" /\ ~ plain_seg "a/b".
Proof. exact client_guard_example. Qed.
