(* C01 — Raft: every replica's pinset is the replay of the committed pin/unpin sequence.
   Statements only; every proof is `exact <lemma of Proofs/C01_RaftLog.v>`.
   Quantification: every number of replicas k, every schedule es of commit / apply / snapshot-request / persist /
   restore (install or start-up) / restart events, hence every log, every pin value, every point at which a snapshot is
   taken or installed onto a non-empty replica, every restart point.
   Guards, each the narrowest that is true of the code:
   * clean es          no committed op carries origins (finding S19) and no raw non-LogOp entry is injected;
   * run_ok ev_atomic  nothing is applied or restored on a replica between its FSM.Snapshot and the Persist of that snapshot
                       (excludes exactly the shape of finding S23);
   * run_ok ev_pinned  the special case of it that exactness needs: a snapshot restored on a replica between its FSM.Snapshot
                       and Persist is not labelled below the pending one.
   No assumption on the direction of an install: hashicorp/raft does install a snapshot on a replica that is ahead of it
   (observed on the rig); `restore` moves `applied` to the label of the snapshot, forward or backward, and `applied` decreases
   in no other way than by a restore or a restart. *)
From V Require Import Base.Common Model.C01_RaftLog Proofs.C01_RaftLog.
From V Require Import Model.C01_Check Proofs.C01_Monitor.
Open Scope N_scope.

Definition clean (es : list mevent) : Prop := forallb clean_ev es = true.
Definition final (k : nat) (es : list mevent) : cluster := run (init k) es.

(* pin inserts or replaces the entry of its cid, unpin deletes it: the replay holds, for each cid, its last write *)
Theorem replay_last_write c ops :
  sget c (replay ops) = match lastw c ops with Some e => e | None => None end.
Proof. exact (replay_last_write_l c ops). Qed.
Print Assumptions replay_last_write.

(* at all times every replica is exactly the replay of the prefix it has been given *)
Theorem raft_prefix_invariant_partial k es n nd :
  clean es -> run_ok ev_atomic (init k) es = true -> nth_error (nodes (final k es)) n = Some nd ->
  st nd = replay (firstn (applied nd) (log (final k es))) /\ (applied nd <= length (log (final k es)))%nat.
Proof. exact (prefix_invariant_l k es n nd). Qed.
Print Assumptions raft_prefix_invariant_partial.

(* without atomic snapshots: every cid either holds its value as of some position M >= applied, or is written again before M *)
Theorem raft_catching_up_partial k es n nd :
  clean es -> run_ok ev_pinned (init k) es = true -> nth_error (nodes (final k es)) n = Some nd ->
  catching_up (log (final k es)) (applied nd) (st nd).
Proof. exact (catching_up_l k es n nd). Qed.
Print Assumptions raft_catching_up_partial.

(* a replica that has caught up - by replaying the log, restarting from its stores or installing a snapshot, older or newer,
   onto whatever it held - holds exactly the result of the whole sequence (S1 repaired; entries applied between FSM.Snapshot
   and Persist do no harm here; a snapshot labelled BELOW the pending one restored in that window does: raft_caught_up_exact_refuted) *)
Theorem raft_caught_up_exact_partial k es n nd :
  clean es -> run_ok ev_pinned (init k) es = true -> nth_error (nodes (final k es)) n = Some nd ->
  applied nd = length (log (final k es)) -> st nd = replay (log (final k es)).
Proof. exact (caught_up_exact_l k es n nd). Qed.
Print Assumptions raft_caught_up_exact_partial.

(* atomic snapshots are pinned: the two theorems above hold under the guard of raft_prefix_invariant_partial as well *)
Theorem raft_atomic_is_pinned es : forall cl, run_ok ev_atomic cl es = true -> run_ok ev_pinned cl es = true.
Proof. exact (run_ok_impl ev_atomic ev_pinned atomic_pinned es). Qed.
Print Assumptions raft_atomic_is_pinned.

(* the position of a replica moves by one with an applied entry, to the label of the snapshot with a restore (in either
   direction) and to 0 with a restart; nothing else moves it *)
Theorem raft_applied_moves cl e n :
  applied (getn n (step cl e)) = applied (getn n cl) \/ applied (getn n (step cl e)) = S (applied (getn n cl)) \/
  (exists src k s, e = MRestore n src k /\ nth_error (snaps (getn src cl)) k = Some s /\ applied (getn n (step cl e)) = fst s) \/
  (e = MRestart n /\ applied (getn n (step cl e)) = 0%nat).
Proof. exact (applied_moves_l cl e n). Qed.
Print Assumptions raft_applied_moves.

(* the state is always served and no replica crashes: whatever is restored where and when *)
Theorem raft_served_partial k es n nd :
  clean es -> nth_error (nodes (final k es)) n = Some nd ->
  crashed nd = false /\ view nd <> None.
Proof. exact (served_l k es n nd). Qed.
Print Assumptions raft_served_partial.

(* an accepted op is appended at the end of the log ... *)
Theorem raft_commit_appends cl op :
  accepts op = true -> nth_error (log (step cl (MCommit op))) (length (log cl)) = Some op.
Proof. exact (commit_appends cl op). Qed.
Print Assumptions raft_commit_appends.

(* ... and stays at its index whatever happens later, restarts and installs included (no guard) *)
Theorem raft_ack_durable cl es i op :
  nth_error (log cl) i = Some op -> nth_error (log (run cl es)) i = Some op.
Proof. exact (ack_durable_l cl es i op). Qed.
Print Assumptions raft_ack_durable.

(* LogPin refuses a pin that cannot be serialised for the state: it never reaches the log (S24 repaired) *)
Theorem raft_unserialisable_refused cl p : pin_badutf p = true -> step cl (MCommit (LPin p)) = cl.
Proof. exact (unserialisable_refused_l cl p). Qed.
Print Assumptions raft_unserialisable_refused.

(* every applied pin is handed to the tracker, and what is stored has the same cid, type, depth, allocations (and mode, for data pins) *)
Theorem raft_track_handoff p nd :
  wire_ok p = true -> pin_badutf p = false -> dirty nd = false -> crashed nd = false ->
  calls (apply_entry (LPin p) nd) = track_of p :: calls nd /\
  sget (p_cid p) (st (apply_entry (LPin p) nd)) = Some (store_norm p).
Proof. exact (track_handoff_l p nd). Qed.
Print Assumptions raft_track_handoff.

Theorem raft_track_same_as_stored p : wf_pin p = true ->
  p_cid (store_norm p) = p_cid p /\ p_type (store_norm p) = p_type p /\ p_maxdepth (store_norm p) = p_maxdepth p /\
  p_allocs (store_norm p) = p_allocs p /\ (p_type p = 2 -> p_mode (store_norm p) = p_mode p).
Proof. exact (wf_pin_stored p). Qed.
Print Assumptions raft_track_same_as_stored.

Theorem raft_untrack_handoff p nd :
  wire_ok p = true -> crashed nd = false -> sorted (st nd) ->
  calls (apply_entry (LUnpin p) nd) = untrack_of p :: calls nd /\
  sget (p_cid p) (st (apply_entry (LUnpin p) nd)) = None.
Proof. exact (untrack_handoff_l p nd). Qed.
Print Assumptions raft_untrack_handoff.

(* OfflineState is the replay of the prefix the newest snapshot of the store (the highest label) is labelled with *)
Theorem raft_offline_is_snapshot_partial k es n nd :
  clean es -> run_ok ev_atomic (init k) es = true -> nth_error (nodes (final k es)) n = Some nd ->
  offline nd = match newest (snaps nd) with None => [] | Some s => replay (firstn (fst s) (log (final k es))) end.
Proof. exact (offline_l k es n nd). Qed.
Print Assumptions raft_offline_is_snapshot_partial.

(* ---- refutations of the unguarded statements (the witnesses are in the corpus) ---- *)

(* S23: with a late Persist a replica is, for a while, not the replay of ANY prefix *)
Theorem raft_prefix_anytime_refuted :
  exists k es n, clean es /\ run_ok ev_pinned (init k) es = true /\
    forall m, st (getn n (final k es)) <> replay (firstn m (log (final k es))).
Proof. exact prefix_anytime_refuted_l. Qed.
Print Assumptions raft_prefix_anytime_refuted.

(* S23 + backward install: FSM.Snapshot at position 2, a snapshot labelled 1 installed on the replica, only then Persist: the
   snapshot labelled 2 lacks entry 1; a replica restarted from it has been given the whole log, serves a state, and misses a pin *)
Theorem raft_caught_up_exact_refuted :
  exists k es n, clean es /\ applied (getn n (final k es)) = length (log (final k es)) /\
    st (getn n (final k es)) <> replay (log (final k es)).
Proof. exact caught_up_exact_refuted_l. Qed.
Print Assumptions raft_caught_up_exact_refuted.

(* S19: a committed pin with origins is swallowed: the replica has applied the whole log, serves a state, and misses the pin *)
Theorem raft_origins_swallowed_refuted :
  exists k es n, run_ok ev_atomic (init k) es = true /\
    applied (getn n (final k es)) = length (log (final k es)) /\ view (getn n (final k es)) = Some [] /\
    st (getn n (final k es)) <> replay (log (final k es)).
Proof. exact origins_swallowed_refuted_l. Qed.
Print Assumptions raft_origins_swallowed_refuted.

(* S19: ... and the next pin crashes the process *)
Theorem raft_origins_crash_refuted : exists k es n, crashed (getn n (final k es)) = true.
Proof. exact origins_crash_refuted_l. Qed.
Print Assumptions raft_origins_crash_refuted.

(* S1 (repaired): decoding a snapshot onto the live state would keep an entry the snapshot does not have; the wrapped Restore does not *)
Theorem raft_install_merge_refuted :
  exists cur snap c, sget c snap = None /\ sget c (restore_merge cur snap) <> None /\ sget c (restore_onto cur snap) = None.
Proof. exact install_merge_refuted_l. Qed.
Print Assumptions raft_install_merge_refuted.

(* ---- non-vacuity ---- *)
Example guards_inhabited :
  clean demo_events /\ run_ok ev_pinned (init 2) demo_events = true /\ run_ok ev_atomic (init 2) demo_events = true /\
  map fst (st (getn 1 (final 2 demo_events))) = [1] /\ applied (getn 1 (final 2 demo_events)) = 3%nat.
Proof. exact demo_ok. Qed.
(* a snapshot labelled 1 installed on a replica that has applied 2 entries (atomic snapshots): the replica is back at position 1
   with the state of the first entry, and at position 2 with both after the next apply *)
Example backward_install_ex :
  clean backward_events /\ run_ok ev_atomic (init 2) backward_events = true /\
  applied (getn 0 (final 2 (firstn 7 backward_events))) = 2%nat /\
  applied (getn 0 (final 2 (firstn 8 backward_events))) = 1%nat /\
  map fst (st (getn 0 (final 2 (firstn 8 backward_events)))) = [0] /\
  map fst (st (getn 0 (final 2 backward_events))) = [0; 1].
Proof. exact backward_ok. Qed.
Example wf_pin_inhabited_ex : wf_pin (wpin 0 1) = true.
Proof. exact (proj1 wf_pin_inhabited). Qed.

(* ---- the run-time monitor spec_okb (Model/C01_Check.v, code 2) and the theorems above ---- *)

(* soundness: a trace accepted by the monitor (on a command table inside the premise of the property) satisfies, event by event,
   the Prop-level reading trace_spec (Proofs/C01_Monitor.v): every apply is the next entry of the one committed sequence and lies
   inside it; no replica crashes; an installed snapshot is labelled inside the sequence; an acknowledged command is in the sequence
   at a position its committer has applied; every served pinset is the replay of a prefix not shorter than what the replica was
   given; the tracker was told exactly the stored pins of the applied entries (as a multiset); OfflineState is the replay of the
   prefix its newest snapshot is labelled with; after a kill the state is the replay of a prefix containing every acknowledged op *)
Theorem raft_monitor_sound k cmds es : forallb in_premise cmds = true -> spec_okb k cmds es = true ->
  trace_spec cmds [] [] (repeat snode0 (nn k)) es.
Proof. exact (monitor_sound_l k cmds es). Qed.
Print Assumptions raft_monitor_sound.

(* completeness w.r.t. the model, for every number of replicas, command table and trace: if the implementation agrees with the
   model on the trace (model_eqb: code 1 absent), the table is inside the premise, the case has the shape of no carried finding
   (tag_of = 0: no pin with origins, S19; no late snapshot restored or read offline, S23 - the recognisers themselves are the guard)
   and the trace is well formed (trace_wf: commands are rows of the table; the R3 observation is the last event), then every
   conjunct of the monitor that the model speaks about holds (`core`: all events but C17's OReady - acknowledgements included) *)
Theorem raft_model_passes_monitor k cmds es :
  forallb in_premise cmds = true -> tag_of cmds es = 0 -> trace_wf k cmds es = true ->
  model_eqb k cmds es = true -> spec_run_sel core cmds [] [] (repeat snode0 (nn k)) es = true.
Proof. exact (model_passes_monitor_l k cmds es). Qed.
Print Assumptions raft_model_passes_monitor.

(* ... and the monitor is exactly these conjuncts plus the one of C17 (the readiness bound); the shutdown clause (OStopped) is among
   the conjuncts the model implies: the model has the lock *)
Theorem raft_model_passes_spec_okb k cmds es :
  tag_of cmds es = 0 -> trace_wf k cmds es = true -> model_eqb k cmds es = true ->
  spec_run_sel (fun e => negb (core e)) cmds [] [] (repeat snode0 (nn k)) es = true ->
  spec_okb k cmds es = true.
Proof. exact (model_passes_spec_okb_l k cmds es). Qed.
Print Assumptions raft_model_passes_spec_okb.

(* the same read as the runner reads it: on a trace the model accepts, a code-2 failure never comes with tag 0 *)
Theorem raft_no_untagged_failure k cmds es :
  trace_wf k cmds es = true -> model_eqb k cmds es = true ->
  spec_run_sel (fun e => negb (core e)) cmds [] [] (repeat snode0 (nn k)) es = true ->
  spec_okb k cmds es = false -> tag_of cmds es <> 0.
Proof. exact (no_untagged_failure_l k cmds es). Qed.
Print Assumptions raft_no_untagged_failure.

(* the S23 recogniser demands no more than the guard of the theorems above: on a trace the model accepts and on which nothing
   is applied / restored on a replica between its FSM.Snapshot and the Persist of it (trace_guard = ev_atomic along the
   model's run), it stays silent ... *)
Theorem raft_atomic_guard_not_late k cmds es :
  trace_guard k cmds es = true -> model_eqb k cmds es = true -> late_restore [] [] [] es = false.
Proof. exact (atomic_not_late_l k cmds es). Qed.
Print Assumptions raft_atomic_guard_not_late.

(* ... so the completeness statement holds under the atomic guard, without reference to the recogniser *)
Theorem raft_model_passes_monitor_atomic k cmds es :
  forallb in_premise cmds = true -> is_S19 cmds = false -> trace_guard k cmds es = true ->
  model_eqb k cmds es = true -> spec_run_sel core cmds [] [] (repeat snode0 (nn k)) es = true.
Proof. exact (model_passes_monitor_atomic_l k cmds es). Qed.
Print Assumptions raft_model_passes_monitor_atomic.

(* acknowledgement (OAck c n: LogPin/LogUnpin of command c returned nil, n = the member whose CommitOp returned nil).
   For every trace the model accepts - no guard - and every acknowledgement in it: at the moment of the acknowledgement the
   operation is in the log at a position the committer has applied ... *)
Theorem raft_ack_visible_on_committer k cmds pre c n post :
  model_eqb k cmds (pre ++ OAck c n :: post) = true ->
  let cl := fst (model_after cmds [] [] (init (nn k)) pre) in
  exists j, (j < applied (getn (nn n) cl))%nat /\ nth_error (log cl) j = Some (cmd_of cmds c).
Proof. exact (ack_in_log_l k cmds pre c n post). Qed.
Print Assumptions raft_ack_visible_on_committer.

(* ... hence (table inside the premise, no carried-finding shape) it is what the committer's pinset holds for its cid - the
   stored pin, or nothing for an unpin - unless an operation the committer has applied after it writes the same cid *)
Theorem raft_ack_in_committer_pinset k cmds pre c n post :
  forallb in_premise cmds = true -> tag_of cmds (pre ++ OAck c n :: post) = 0 -> trace_wf k cmds (pre ++ OAck c n :: post) = true ->
  model_eqb k cmds (pre ++ OAck c n :: post) = true ->
  let cl := fst (model_after cmds [] [] (init (nn k)) pre) in
  let nd := getn (nn n) cl in
  exists j, (j < applied nd)%nat /\ nth_error (log cl) j = Some (cmd_of cmds c) /\
    forall x, writes x (cmd_of cmds c) = true -> existsb (writes x) (slice (S j) (applied nd) (log cl)) = false ->
              sget x (st nd) = effect (cmd_of cmds c).
Proof. exact (ack_in_pinset_l k cmds pre c n post). Qed.
Print Assumptions raft_ack_in_committer_pinset.
(* This is a statement about the moment of the acknowledgement. Later the operation stays in the LOG at its index
   (raft_ack_durable); the committer's PINSET may lose it for a while - a snapshot labelled below the entry installed on the
   committer takes it back to that prefix until the entry is applied again (Example raft_ack_then_backward_install) - and holds
   it again once the committer's position is past the entry (raft_prefix_invariant_partial + replay_last_write). *)

(* non-vacuity: two replicas, pin / unpin, a snapshot installed onto the other replica, a restart, observations; every guard
   holds, the model agrees and the monitor accepts; the monitor rejects the same trace with a gap in the applied positions *)
Definition monitor_demo_cmds : list logop := [LPin (wpin 0 1); LPin (wpin 1 1); LUnpin (wpin 0 1)].
Definition monitor_demo_trace : list oevent :=
  [OCommit 0; OApply 0 0; OAck 0 0; OCommit 1; OApply 0 1; OSnapReq 0 true; OPersist 0; ORestore 1 0 0 2;
   OObs 1 (Some [wpin 0 1; wpin 1 1]); OCommit 2; OApply 1 2; OObs 1 (Some [wpin 1 1]); OObs 0 (Some [wpin 0 1; wpin 1 1]);
   OTrk 0 [TCall true 1 2 (-1)%Z 0 []; TCall true 0 2 (-1)%Z 0 []]; OTrk 1 [TCall false 0 0 0%Z 0 []];
   OOffline 0 [wpin 0 1; wpin 1 1]; ORestart 0; OObs 0 (Some []); OApply 0 0; OApply 0 1; OApply 0 2; OObs 0 (Some [wpin 1 1])].
Example raft_monitor_example :
  forallb in_premise monitor_demo_cmds = true /\ tag_of monitor_demo_cmds monitor_demo_trace = 0 /\
  trace_wf 2 monitor_demo_cmds monitor_demo_trace = true /\
  trace_guard 2 monitor_demo_cmds monitor_demo_trace = true /\ model_eqb 2 monitor_demo_cmds monitor_demo_trace = true /\
  spec_okb 2 monitor_demo_cmds monitor_demo_trace = true /\
  spec_okb 2 monitor_demo_cmds [OCommit 0; OCommit 1; OApply 0 1] = false.
Proof. repeat split; vm_compute; reflexivity. Qed.

(* acknowledgements: the model has the event. An acknowledgement at a committer that has not applied the entry is refused by
   the model (code 1) as by the monitor (code 2); after the committer's apply both accept it; an operation submitted at a
   follower (replica 0) is acknowledged once the LEADER (replica 1, the committer the harness records) has applied it, whether
   or not the follower has; acknowledged at the follower before the leader applied it, it is refused *)
Example raft_ack_examples :
  let cmds := monitor_demo_cmds in
  (model_eqb 1 cmds [OCommit 0; OAck 0 0] = false /\ spec_okb 1 cmds [OCommit 0; OAck 0 0] = false) /\
  (model_eqb 1 cmds [OCommit 0; OApply 0 0; OAck 0 0] = true /\ spec_okb 1 cmds [OCommit 0; OApply 0 0; OAck 0 0] = true) /\
  (model_eqb 2 cmds [OCommit 0; OApply 1 0; OAck 0 1] = true /\ spec_okb 2 cmds [OCommit 0; OApply 1 0; OAck 0 1] = true) /\
  (model_eqb 2 cmds [OCommit 0; OApply 0 0; OAck 0 1] = false /\ spec_okb 2 cmds [OCommit 0; OApply 0 0; OAck 0 1] = false) /\
  (model_eqb 1 cmds [OCommit 0; OApply 0 0; OAck 1 0] = false).
Proof. repeat split; vm_compute; reflexivity. Qed.

(* an acknowledged pin, then a snapshot labelled below it installed on the committer (replica 0 is at position 2, the snapshot
   of replica 1 is labelled 1): the model and the monitor accept the trace; replica 0 serves the prefix of length 1, without
   the acknowledged pin of cid 1, until it applies entry 1 again *)
Example raft_ack_then_backward_install :
  let es := [OCommit 0; OApply 1 0; OSnapReq 1 true; OPersist 1; OApply 0 0; OCommit 1; OApply 0 1; OAck 1 0;
             OObs 0 (Some [wpin 0 1; wpin 1 1]); ORestore 0 1 0 1; OObs 0 (Some [wpin 0 1]); OApply 0 1;
             OObs 0 (Some [wpin 0 1; wpin 1 1]);
             OTrk 0 [TCall true 0 2 (-1)%Z 0 []; TCall true 1 2 (-1)%Z 0 []; TCall true 1 2 (-1)%Z 0 []]] in
  model_eqb 2 monitor_demo_cmds es = true /\ trace_guard 2 monitor_demo_cmds es = true /\
  tag_of monitor_demo_cmds es = 0 /\ spec_okb 2 monitor_demo_cmds es = true.
Proof. repeat split; vm_compute; reflexivity. Qed.

(* the S23 recogniser covers the two shapes it used to miss (each agrees with the model, fails the monitor, and is now tag 3):
   (a) OfflineState of a replica whose newest snapshot was persisted after a later entry had been applied; *)
Example raft_monitor_offline_late_snapshot_tagged :
  let es := [OCommit 0; OApply 0 0; OSnapReq 0 true; OCommit 1; OApply 0 1; OPersist 0; OOffline 0 [wpin 0 1; wpin 1 1]] in
  model_eqb 1 monitor_demo_cmds es = true /\ trace_guard 1 monitor_demo_cmds es = false /\
  spec_okb 1 monitor_demo_cmds es = false /\ tag_of monitor_demo_cmds es = 3.
Proof. repeat split; vm_compute; reflexivity. Qed.
(* (b) a snapshot INSTALLED on a replica between its FSM.Snapshot and the Persist of it makes a late snapshot (the second of the
       replica's store: the installed one is the first); restoring it and replaying agrees with the model and fails the monitor.
       (The file store would offer the installed snapshot, labelled 4, as the newest: the model lets a replica restore any.) *)
Example raft_monitor_install_between_snapshot_and_persist_tagged :
  let cmds := [LPin (wpin 0 1); LPin (wpin 1 1); LUnpin (wpin 1 1); LPin (wpin 2 1)] in
  let es := [OCommit 0; OCommit 1; OCommit 2; OCommit 3; OApply 0 0; OApply 0 1; OApply 0 2; OApply 0 3; OSnapReq 0 true; OPersist 0;
             OApply 1 0; OSnapReq 1 true; ORestore 1 0 0 4; OPersist 1; ORestart 1; ORestore 1 1 1 1; OApply 1 1;
             OObs 1 (Some [wpin 0 1; wpin 1 1; wpin 2 1])] in
  model_eqb 2 cmds es = true /\ trace_guard 2 cmds es = false /\ spec_okb 2 cmds es = false /\ tag_of cmds es = 3.
Proof. repeat split; vm_compute; reflexivity. Qed.
(* the store of a replica holds what was installed on it: OfflineState of a follower that never took a snapshot itself is the
   replay of the prefix the installed snapshot is labelled with; and of a replica that persisted label 1 and was then sent label 2,
   the newest of its store, label 2 *)
Example raft_offline_of_installed_snapshot :
  let es1 := [OCommit 0; OApply 0 0; OSnapReq 0 true; OPersist 0; ORestore 1 0 0 1; OOffline 1 [wpin 0 1]] in
  let es2 := [OCommit 0; OApply 0 0; OApply 1 0; OSnapReq 1 true; OPersist 1; OCommit 1; OApply 0 1; OSnapReq 0 true; OPersist 0;
              ORestore 1 0 0 2; OOffline 1 [wpin 0 1; wpin 1 1]; OOffline 0 [wpin 0 1; wpin 1 1]] in
  (model_eqb 2 monitor_demo_cmds es1 = true /\ spec_okb 2 monitor_demo_cmds es1 = true /\
   spec_okb 2 monitor_demo_cmds [OCommit 0; OApply 0 0; OSnapReq 0 true; OPersist 0; ORestore 1 0 0 1; OOffline 1 []] = false) /\
  (model_eqb 2 monitor_demo_cmds es2 = true /\ spec_okb 2 monitor_demo_cmds es2 = true).
Proof. repeat split; vm_compute; reflexivity. Qed.
(* the recogniser looks at the shape only: a late snapshot that nobody restores or reads is not flagged, and the trace passes *)
Example raft_late_snapshot_unused_passes :
  let es := [OCommit 0; OApply 0 0; OSnapReq 0 true; OCommit 1; OApply 0 1; OPersist 0; OObs 0 (Some [wpin 0 1; wpin 1 1])] in
  model_eqb 1 monitor_demo_cmds es = true /\ trace_guard 1 monitor_demo_cmds es = false /\
  spec_okb 1 monitor_demo_cmds es = true /\ tag_of monitor_demo_cmds es = 0.
Proof. repeat split; vm_compute; reflexivity. Qed.

(* ---- clean shutdown ---- *)
(* Consensus.Shutdown holds shutdownLock (write) from before its final snapshot until Raft has stopped; commit() holds the read side
   around CommitOp. In the model: `shutdown n` = the final snapshot requested and written with nothing committed in between.
   For every schedule with atomic snapshots followed by a shutdown of n: an operation that was acknowledged at n - in the log at a
   position n has applied (raft_ack_visible_on_committer) - is what OfflineState of n's folder holds for its cid, and what n holds
   after it has started again from that folder (before it replays anything), unless a later entry below the label L of the newest
   snapshot of the folder writes the cid (L = n's position, or above it when the store already held a snapshot with a higher label) *)
Theorem raft_shutdown_loses_nothing_acknowledged k es n nd j op x :
  clean es -> run_ok ev_atomic (init k) es = true -> nth_error (nodes (final k es)) n = Some nd ->
  nth_error (log (final k es)) j = Some op -> (j < applied nd)%nat -> writes x op = true ->
  let cl' := run (final k es) (shutdown n) in
  exists L kk, (applied nd <= L)%nat /\
    (existsb (writes x) (slice (S j) L (log (final k es))) = false ->
     sget x (offline (getn n cl')) = effect op /\ sget x (st (getn n (run cl' (from_disk n kk)))) = effect op).
Proof. exact (shutdown_loses_nothing_l k es n nd j op x). Qed.
Print Assumptions raft_shutdown_loses_nothing_acknowledged.

(* without the lock discipline: a pin committed, applied and acknowledged at the replica between its final snapshot and its stop
   is not in what OfflineState reads (seed C01d: Shutdown releases shutdownLock before the final snapshot) *)
Theorem raft_shutdown_race_refuted :
  exists k es n j op x, clean es /\ run_ok ev_atomic (init k) es = true /\
    nth_error (log (final k es)) j = Some op /\ (j < applied (getn n (final k es)))%nat /\ writes x op = true /\
    sget x (offline (getn n (final k es))) <> effect op.
Proof. exact shutdown_race_refuted_l. Qed.
Print Assumptions raft_shutdown_race_refuted.

(* the run-time form, read back at Prop level. For every trace the monitor accepts: an operation acknowledged at n before Shutdown
   returned on n (OStopped n) is in the committed sequence `ops` below the label lb of the snapshot n leaves on disk; what OfflineState
   returns right afterwards is the pinset replay (firstn lb ops), which holds the operation's effect for the cid it writes unless an
   entry between it and lb writes the cid; and if the process that starts again restores a snapshot labelled lbl >= lb, what it serves
   before any replay is replay (firstn m ops) for some m past the operation, with the same proviso *)
Theorem raft_stop_monitor_sound k cmds pre c n mid l post x :
  forallb in_premise cmds = true ->
  spec_okb k cmds (pre ++ OAck c n :: mid ++ OStopped n :: OOffline n l :: post) = true ->
  writes x (cmd_of cmds c) = true ->
  exists ops lb j, (j < lb)%nat /\ nth_error ops j = Some (cmd_of cmds c) /\
    l = map snd (replay (firstn lb ops)) /\
    (existsb (writes x) (slice (S j) lb ops) = false -> sget x (replay (firstn lb ops)) = effect (cmd_of cmds c)) /\
    (forall src kk lbl o post', post = ORestart n :: ORestore n src kk lbl :: OObs n o :: post' -> (lb <= nn lbl)%nat ->
       exists m, (j < m)%nat /\ o = Some (map snd (replay (firstn m ops))) /\
         (existsb (writes x) (slice (S j) m ops) = false -> sget x (replay (firstn m ops)) = effect (cmd_of cmds c))).
Proof. exact (stop_sound_l k cmds pre c n mid l post x). Qed.
Print Assumptions raft_stop_monitor_sound.

(* a member shuts down after its final snapshot covered everything acknowledged at it: accepted by both passes. The same with a pin
   acknowledged at it between the final snapshot and the stop (what rig R2 records under seed C01d): every observation agrees with the
   model - the snapshot is not late, OfflineState is the prefix it is labelled with - up to the stop, which the model (it has the lock)
   and the monitor both refuse, with tag 0 *)
Example raft_shutdown_examples :
  let cmds := monitor_demo_cmds in
  let ok := [OCommit 0; OApply 0 0; OAck 0 0; OCommit 1; OApply 0 1; OAck 1 0; OSnapReq 0 true; OPersist 0; OStopped 0;
             OOffline 0 [wpin 0 1; wpin 1 1]; ORestart 0; ORestore 0 0 0 2; OObs 0 (Some [wpin 0 1; wpin 1 1])] in
  let race := [OCommit 0; OApply 0 0; OAck 0 0; OSnapReq 0 true; OPersist 0; OCommit 1; OApply 0 1; OAck 1 0; OStopped 0;
               OOffline 0 [wpin 0 1]; ORestart 0; ORestore 0 0 0 1; OApply 0 1; OObs 0 (Some [wpin 0 1; wpin 1 1])] in
  (model_eqb 1 cmds ok = true /\ spec_okb 1 cmds ok = true) /\
  (model_eqb 1 cmds (firstn 8 race) = true /\ model_eqb 1 cmds race = false /\ trace_guard 1 cmds race = true /\
   spec_okb 1 cmds race = false /\ tag_of cmds race = 0).
Proof. repeat split; vm_compute; reflexivity. Qed.
