(* C08 — Pins and API records survive every encoding boundary; decoders never crash.
   Statements only; every proof is `exact <lemma of Proofs/C08_*.v>`.
   Quantification: every pin value / every decoded protobuf message (fields arbitrary or absent). *)
From V Require Import Base.Common Base.C08_Str Model.C08_Codec Proofs.C08_Codec.
Open Scope string_scope.
Open Scope Z_scope.

(* ---- stored protobuf form (ProtoMarshal / ProtoUnmarshal, dsstate serializePin / deserializePin) ---- *)

(* a well-formed pin comes back as itself minus user allocations and sub-second expiry (mode re-derived from the depth) *)
Theorem pb_roundtrip p : wf_pin p = true -> pb_norm p = Ok (lossy_pb p).
Proof. exact (pb_roundtrip_l p). Qed.
Print Assumptions pb_roundtrip.

(* ... and the re-derived mode is the pin's own mode whenever mode and depth agree (PinWithOpts makes them agree) *)
Theorem pb_roundtrip_keeps_mode p : mode_consistent p = true -> mode (popts (lossy_pb p)) = mode (popts p).
Proof. exact (lossy_mode_l p). Qed.
Print Assumptions pb_roundtrip_keeps_mode.

(* whatever was stored (well-formed or not) reads back as a fixed point of store-and-read *)
Theorem pb_norm_idempotent p q : (ptype p < 2 ^ 64)%N -> pb_norm p = Ok q -> pb_norm q = Ok q.
Proof. exact (pb_norm_idempotent_l p q). Qed.
Print Assumptions pb_norm_idempotent.

(* every message proto.Unmarshal can produce decodes to an error or to a value that re-encodes and reads back
   as itself, except that an out-of-range type enum (value 0 after the shift) is re-read as BadType *)
Theorem pb_decode_total m : pb_wf m = true ->
  pb_to_pin m = Err \/
  exists q, pb_to_pin m = Ok q /\ exists m', pin_to_pb q = Ok m' /\ pb_to_pin m' = Ok (retype q).
Proof. exact (pb_decode_total_l m). Qed.
Print Assumptions pb_decode_total.

Theorem pb_decode_stable m q : pb_wf m = true -> 0 <= m_type m < 64 -> pb_to_pin m = Ok q ->
  exists m', pin_to_pb q = Ok m' /\ pb_to_pin m' = Ok q.
Proof. exact (pb_decode_stable_l m q). Qed.
Print Assumptions pb_decode_stable.

(* the datastore path: value stored under its CID, read back with the key put back in *)
Theorem ds_roundtrip_wf p : wf_pin p = true -> ds_roundtrip p = Ok (lossy_pb p).
Proof. exact (ds_roundtrip_l p). Qed.
Print Assumptions ds_roundtrip_wf.

(* dropping the sub-second part keeps the meaning of the expiry (Pin.ExpiredAt at whole seconds), except at the two
   instants the code itself reads as "never": the Unix epoch second and the zero time's second *)
Theorem expiry_meaning_preserved s ns now : s <> 0 -> s <> zero_sec ->
  expired_at (lossy_time (Some (s, ns))) now = expired_at (Some (s, 0%N)) now.
Proof. exact (expired_at_lossy s ns now). Qed.
Print Assumptions expiry_meaning_preserved.

(* non-vacuity: a well-formed pin of each kind *)
Example wf_examples :
  let o := mk_opts 2 3 "n" 0 0 [TOk "QmPeer"] (Some (1790000000, 5%N)) [("k", "v"); ("", "e")] (Some "QmOld") ["/ip4/1.2.3.4/tcp/1/p2p/QmPeer"] in
  wf_pin (mk_pin o (Some "QmData") 2 [TOk "QmA"; TOk "QmB"] (-1) None) = true /\
  wf_pin (mk_pin o (Some "QmMeta") 4 [] 0 (Some (Some "QmDag"))) = true /\
  wf_pin (mk_pin o (Some "QmDag") 8 [] 0 (Some (Some "QmMeta"))) = true /\
  wf_pin (mk_pin o (Some "QmShard") 16 [TOk "QmA"] 1 (Some (Some "QmPrev"))) = true /\
  pb_norm (mk_pin o (Some "QmData") 2 [TOk "QmA"; TOk "QmB"] (-1) None)
    = Ok (mk_pin (mk_opts 2 3 "n" 0 0 [] (Some (1790000000, 0%N)) [("k", "v"); ("", "e")] (Some "QmOld") ["/ip4/1.2.3.4/tcp/1/p2p/QmPeer"])
            (Some "QmData") 2 [TOk "QmA"; TOk "QmB"] (-1) None).
Proof. vm_compute. repeat split. Qed.
