(* C08 — Pins and API records survive every encoding boundary; decoders never crash.
   Statements only; every proof is `exact <lemma of Proofs/C08_*.v>`.
   Quantification: every pin value / every decoded protobuf message (fields arbitrary or absent). *)
From V Require Import Base.Common Base.C08_Str Model.C08_Codec Model.C08_Query Model.C08_Status Model.C08_Equals
  Base.C08_Schema Gen.C08Tags Model.C08_Fmap Model.C08_Wire Model.C08_Reuse Model.C08_AddParams
  Proofs.C08_Codec Proofs.C08_Query Proofs.C08_Status Proofs.C08_Equals Proofs.C08_Fmap Proofs.C08_Wire Proofs.C08_Reuse Proofs.C08_AddParams.
From Coq Require Import Permutation.
Open Scope string_scope.
Open Scope Z_scope.

(* ---- stored protobuf form (ProtoMarshal / ProtoUnmarshal, dsstate serializePin / deserializePin) ---- *)

(* a well-formed pin comes back as itself minus user allocations and sub-second expiry (mode re-derived from the depth) *)
Theorem pb_roundtrip p : wf_pin p = true -> pb_norm p = Ok (lossy_pb p).
Proof. exact (pb_roundtrip_l p). Qed.
Print Assumptions pb_roundtrip.

(* ... and the re-derived mode is the pin's own mode whenever mode and depth agree (PinWithOpts makes them agree) *)
Theorem pb_roundtrip_keeps_mode p : mode_consistent p = true -> mode (popts (lossy_pb p)) = mode (popts p).
Proof. exact (lossy_mode_l p). Qed.
Print Assumptions pb_roundtrip_keeps_mode.

(* whatever was stored (well-formed or not) reads back as a fixed point of store-and-read *)
Theorem pb_norm_idempotent p q : (ptype p < 2 ^ 64)%N -> pb_norm p = Ok q -> pb_norm q = Ok q.
Proof. exact (pb_norm_idempotent_l p q). Qed.
Print Assumptions pb_norm_idempotent.

(* every message proto.Unmarshal can produce decodes to an error or to a value that re-encodes and reads back
   as itself, except that an out-of-range type enum (value 0 after the shift) is re-read as BadType *)
Theorem pb_decode_total m : pb_wf m = true ->
  pb_to_pin m = Err \/
  exists q, pb_to_pin m = Ok q /\ exists m', pin_to_pb q = Ok m' /\ pb_to_pin m' = Ok (retype q).
Proof. exact (pb_decode_total_l m). Qed.
Print Assumptions pb_decode_total.

Theorem pb_decode_stable m q : pb_wf m = true -> 0 <= m_type m < 64 -> pb_to_pin m = Ok q ->
  exists m', pin_to_pb q = Ok m' /\ pb_to_pin m' = Ok q.
Proof. exact (pb_decode_stable_l m q). Qed.
Print Assumptions pb_decode_stable.

(* the datastore path: value stored under its CID, read back with the key put back in *)
Theorem ds_roundtrip_wf p : wf_pin p = true -> ds_roundtrip p = Ok (lossy_pb p).
Proof. exact (ds_roundtrip_l p). Qed.
Print Assumptions ds_roundtrip_wf.

(* dropping the sub-second part keeps the meaning of the expiry (Pin.ExpiredAt at whole seconds), except at the two
   instants the code itself reads as "never": the Unix epoch second and the zero time's second *)
Theorem expiry_meaning_preserved s ns now : s <> 0 -> s <> zero_sec ->
  expired_at (lossy_time (Some (s, ns))) now = expired_at (Some (s, 0%N)) now.
Proof. exact (expired_at_lossy s ns now). Qed.
Print Assumptions expiry_meaning_preserved.

(* non-vacuity: a well-formed pin of each kind *)
Example wf_examples :
  let o := mk_opts 2 3 "n" 0 0 [TOk "QmPeer"] (Some (1790000000, 5%N)) [("k", "v"); ("", "e")] (Some "QmOld") ["/ip4/1.2.3.4/tcp/1/p2p/QmPeer"] in
  wf_pin (mk_pin o (Some "QmData") 2 [TOk "QmA"; TOk "QmB"] (-1) None) = true /\
  wf_pin (mk_pin o (Some "QmMeta") 4 [] 0 (Some (Some "QmDag"))) = true /\
  wf_pin (mk_pin o (Some "QmDag") 8 [] 0 (Some (Some "QmMeta"))) = true /\
  wf_pin (mk_pin o (Some "QmShard") 16 [TOk "QmA"] 1 (Some (Some "QmPrev"))) = true /\
  pb_norm (mk_pin o (Some "QmData") 2 [TOk "QmA"; TOk "QmB"] (-1) None)
    = Ok (mk_pin (mk_opts 2 3 "n" 0 0 [] (Some (1790000000, 0%N)) [("k", "v"); ("", "e")] (Some "QmOld") ["/ip4/1.2.3.4/tcp/1/p2p/QmPeer"])
            (Some "QmData") 2 [TOk "QmA"; TOk "QmB"] (-1) None).
Proof. vm_compute. repeat split. Qed.

(* ---- query-string form of pin options (ToQuery / FromQuery) ---- *)

(* options whose texts the trusted parsers accept and that contain no "," come back unchanged, except that metadata
   entries with the empty key are dropped; for every oracle (parser outcomes) and every clock reading *)
Theorem query_roundtrip orc now o : wf_q orc o = true ->
  match to_query orc o with Ok q => from_query orc now zero_opts q | Err => Err end = Ok (lossy_q o).
Proof. exact (query_roundtrip_l orc now o). Qed.
Print Assumptions query_roundtrip.

(* "%d" then strconv.Atoi, "%d" then strconv.ParseUint *)
Theorem decimal_roundtrip z n : in_int64 z = true -> (n < 2 ^ 64)%N ->
  atoi (print_int z) = Some z /\ parse_uint64 (print_uint n) = Some n.
Proof. exact (fun Hz Hn => conj (atoi_print z Hz) (parse_uint64_print n Hn)). Qed.
Print Assumptions decimal_roundtrip.

Example wf_q_example :
  let orc := mk_orc ["QmPeerA"; "QmPeerB"] ["QmOld"] [("/ip4/1.2.3.4/tcp/1/p2p/QmPeerA", true)]
                    [("2026-09-22T10:40:00.5Z", (1790073600, 500000000%N))] [] in
  let o := mk_opts (-1) 3 "a name, with comma" 1 1024 [TOk "QmPeerA"; TOk "QmPeerB"] (Some (1790073600, 500000000%N))
                   [("", "dropped"); ("k", "v"); ("k2", "")] (Some "QmOld") ["/ip4/1.2.3.4/tcp/1/p2p/QmPeerA"] in
  wf_q orc o = true /\
  to_query orc o = Ok [("replication-min", "-1"); ("replication-max", "3"); ("name", "a name, with comma"); ("mode", "direct");
                       ("shard-size", "1024"); ("user-allocations", "QmPeerA,QmPeerB"); ("expire-at", "2026-09-22T10:40:00.5Z");
                       ("meta-k", "v"); ("meta-k2", ""); ("pin-update", "QmOld"); ("origins", "/ip4/1.2.3.4/tcp/1/p2p/QmPeerA")].
Proof. vm_compute. split; reflexivity. Qed.

(* ---- names of statuses, pin types and pin modes (over the constant table regenerated from api/types.go) ---- *)

(* every filter made of the defined status bits (all 4096 masks below 2^13 with bit 0 clear) survives
   String() / TrackerStatusFromString, for every iteration order of the Go map *)
Theorem tracker_status_names_roundtrip ord m : Permutation ord st_table -> (m < 2 ^ 13)%N -> N.land m 1 = 0%N ->
  status_from_string (status_string ord m) = m.
Proof.
  exact (fun Hp Hl Hb => status_roundtrip_valid ord m Hp
           (proj2 (andb_true_iff _ _) (conj (proj2 (N.eqb_eq _ _) Hb) (proj2 (N.ltb_lt _ _) Hl)))).
Qed.
Print Assumptions tracker_status_names_roundtrip.

(* and for every status value whatsoever only the bits that have no name are lost *)
Theorem tracker_status_names_all ord m : Permutation ord st_table ->
  status_from_string (status_string ord m) = N.land m st_defined_bits.
Proof. exact (status_roundtrip_all ord m). Qed.
Print Assumptions tracker_status_names_all.

Theorem pin_type_names_roundtrip t : In t [1; 2; 4; 8; 16; 30]%N -> pintype_from_string (pintype_string t) = t.
Proof. exact (pintype_roundtrip t). Qed.
Print Assumptions pin_type_names_roundtrip.

Theorem pin_mode_names_roundtrip m : m = 0 \/ m = 1 -> mode_from_string (mode_string m) = m.
Proof. exact (mode_roundtrip m). Qed.
Print Assumptions pin_mode_names_roundtrip.

(* the filter the REST client sends for "pin_error or pinned" (the input that used to come back broader) *)
(* (stated without writing down the order in which the generated table lists the names: Go prints a composite filter in the
   iteration order of a map, the theorems above quantify over that order, and the order of the entries of the map literal in
   the source is not behaviour) *)
Example status_filter_example :
  status_from_string (status_string st_table 20) = 20%N /\ status_from_string "pin_error,pinned" = 20%N /\
  status_from_string "pinned,pin_error" = 20%N /\
  status_from_string "cluster_error,pin_error,unpin_error,error,pinned" = 30%N /\ status_from_string (status_string st_table 30) = 30%N.
Proof. vm_compute. repeat split. Qed.

(* ---- the repository's own equality: PinOptions.Equals / Pin.Equals (after the S4 repair) ---- *)

(* two well-formed option values that Equals reports equal agree on every field it is meant to compare: name, mode,
   both factors, shard size, user allocations as a multiset, expiry, metadata as maps over the non-empty keys (a removed
   key, an added key, a changed value are all detected), origins as a multiset; only PinUpdate is ignored *)
Theorem opts_equal_detects_every_field a b : wf_eq_opts a = true -> wf_eq_opts b = true ->
  opts_equal a b = true -> opts_same a b.
Proof. exact (opts_equal_detects_l a b). Qed.
Print Assumptions opts_equal_detects_every_field.

Theorem pin_equals_detects_every_field p q : wf_eq_pin p = true -> wf_eq_pin q = true ->
  pin_equals false p q = true -> pin_same p q.
Proof. exact (pin_equals_detects_l p q). Qed.
Print Assumptions pin_equals_detects_every_field.

Theorem equals_is_equivalence_on_wf :
  (forall p, wf_eq_pin p = true -> pin_equals false p p = true) /\
  (forall p q, wf_eq_pin p = true -> wf_eq_pin q = true -> pin_equals false p q = true -> pin_equals false q p = true) /\
  (forall p q r, wf_eq_pin p = true -> wf_eq_pin q = true -> wf_eq_pin r = true ->
     pin_equals false p q = true -> pin_equals false q r = true -> pin_equals false p r = true).
Proof. exact pin_equals_equiv_l. Qed.
Print Assumptions equals_is_equivalence_on_wf.

(* the S4 input: the same options with one metadata key removed are no longer reported equal *)
Example removed_metadata_key_detected :
  let a := mk_opts 1 2 "n" 0 0 [] None [("k", "v"); ("k2", "v2")] None [] in
  let b := mk_opts 1 2 "n" 0 0 [] None [("k", "v")] None [] in
  wf_eq_opts a = true /\ wf_eq_opts b = true /\ opts_equal a b = false /\ opts_equal b a = false /\ opts_equal a a = true.
Proof. vm_compute. repeat split. Qed.

(* ---- msgpack (RPC, Raft log, state snapshots) and JSON (REST, state export) forms of every API record ---- *)

(* for every struct-tag table whose keys are distinct per struct (no "-" field, no unknown field type) and every codec:
   a well-formed value of any type over that table is written and read back into a fresh value unchanged *)
Theorem codec_roundtrip c sch t v : schema_ok c sch = true -> wf_val c sch false t false v = true ->
  exists w, enc c sch t v = Ok w /\ dec c sch t w = Ok v.
Proof. exact (fun Hs => codec_roundtrip_l c sch Hs t v). Qed.
Print Assumptions codec_roundtrip.

(* the table regenerated from api/types.go and api/add.go at this run satisfies the premise, for both codecs *)
Theorem api_schema_wellformed : schema_ok Msgpack api_schema = true /\ schema_ok Json api_schema = true.
Proof. vm_compute. split; reflexivity. Qed.
Print Assumptions api_schema_wellformed.

(* hence every record type T of the API (Pin, PinOptions, PinPath, PinInfo, GlobalPinInfo, ID, IPFSID, Metric, Alert,
   AddedOutput, RepoGC, GlobalRepoGC, ConnectGraph, ...): msgpack_roundtrip_T and json_roundtrip_T, in one statement each *)
Theorem msgpack_roundtrip tn v : wf_val Msgpack api_schema false (TStruct tn) false v = true ->
  exists w, enc Msgpack api_schema (TStruct tn) v = Ok w /\ dec Msgpack api_schema (TStruct tn) w = Ok v.
Proof. exact (codec_roundtrip_l Msgpack api_schema (proj1 api_schema_wellformed) (TStruct tn) v). Qed.
Print Assumptions msgpack_roundtrip.

Theorem json_roundtrip tn v : wf_val Json api_schema false (TStruct tn) false v = true ->
  exists w, enc Json api_schema (TStruct tn) v = Ok w /\ dec Json api_schema (TStruct tn) w = Ok v.
Proof. exact (codec_roundtrip_l Json api_schema (proj2 api_schema_wellformed) (TStruct tn) v). Qed.
Print Assumptions json_roundtrip.

(* S19 (finding origins-undecodable): the statement over ALL values that are well-formed for the property is false of the
   faithful model: pin options with one origin are written by both codecs and rejected by both decoders *)
(* the witness lists its fields by name (canonical order of Model/C08_Reuse.v, re-listed in the order of the generated table),
   so that the order in which api.PinOptions declares its fields does not matter *)
Definition opts_with_origin : val :=
  rec_by_name api_schema "PinOptions" (firstn 10 pin_go_names)
          [VInt 1; VInt 2; VStr "n"; VInt 0; VUint 0; VList []; VTime None; VMap []; VCid None;
           VList [VAddr (Some "/ip4/1.2.3.4/tcp/4001/p2p/QmPeer")]].

Theorem pin_origins_undecodable_refuted :
  exists tn v, forall c,
    wf_val c api_schema true (TStruct tn) false v = true /\
    exists w, enc c api_schema (TStruct tn) v = Ok w /\ dec c api_schema (TStruct tn) w = Err.
Proof.
  exists "PinOptions", opts_with_origin. intros [|]; (split; [vm_compute; reflexivity | eexists; split; vm_compute; reflexivity]).
Qed.
Print Assumptions pin_origins_undecodable_refuted.

(* ... and true under the narrowest guard: no element of a bare interface type, i.e. origins = [] *)
Theorem pin_origins_undecodable_partial c tn v : wf_val c api_schema true (TStruct tn) false v = true ->
  has_iface api_schema (TStruct tn) v = false ->
  exists w, enc c api_schema (TStruct tn) v = Ok w /\ dec c api_schema (TStruct tn) w = Ok v.
Proof.
  exact (fun W I => codec_roundtrip_guarded_l c api_schema
           (match c with Msgpack => proj1 api_schema_wellformed | Json => proj2 api_schema_wellformed end) (TStruct tn) v W I).
Qed.
Print Assumptions pin_origins_undecodable_partial.

(* non-vacuity: a full pin, a status record with a multi-bit filter and a peer identity are well-formed for both codecs *)
Example codec_examples :
  let pinv := rec_by_name api_schema "Pin" pin_go_names
                  [VInt 2; VInt 3; VStr "n"; VInt 1; VUint 7; VList [VPeer (TOk "QmA")]; VTime (Some (1790000000, 5%N));
                   VMap [("k", VStr "v")]; VCid (Some "QmOld"); VList [];
                   VCid (Some "QmData"); VUint 2; VList [VPeer (TOk "QmA"); VPeer (TOk "QmB")]; VInt (-1); VPtr (Some (VCid (Some "QmRef")))] in
  let info := rec_by_name api_schema "PinInfo" ["Cid"; "Name"; "Peer"; "PeerName"; "Status"; "TS"; "Error"]
                  [VCid (Some "QmData"); VStr "n"; VPeer (TOk "QmA"); VStr "peer"; VInt 20; VTime (Some (1790000000, 0%N)); VStr ""] in
  let idv := rec_by_name api_schema "ID"
                  ["ID"; "Addresses"; "ClusterPeers"; "ClusterPeersAddresses"; "Version"; "Commit"; "RPCProtocolVersion"; "Error"; "IPFS"; "Peername"]
                  [VPeer (TOk "QmA"); VList [VAddr (Some "/ip4/1.2.3.4/tcp/1")]; VList []; VList []; VStr "v"; VStr ""; VStr "/p/1"; VStr "";
                   VPtr (Some (rec_by_name api_schema "IPFSID" ["ID"; "Addresses"; "Error"] [VPeer TEmpty; VList []; VStr "no daemon"])); VStr "name"] in
  forallb (fun c => wf_val c api_schema false (TStruct "Pin") false pinv
                    && wf_val c api_schema false (TStruct "PinInfo") false info
                    && wf_val c api_schema false (TStruct "ID") false idv) [Msgpack; Json] = true.
Proof. vm_compute. reflexivity. Qed.

(* ---- growth item: the stored pin at byte level (proto3 wire format of api/pb/types.proto) ---- *)

(* base-128 varints: every uint64, followed by anything *)
Theorem varint_roundtrip n rest : (n < 2 ^ 64)%N -> varint_dec (varint_enc n ++ rest) = Some (n, rest).
Proof. exact (varint_rt n rest). Qed.
Print Assumptions varint_roundtrip.

(* zigzag of sint32 fields *)
Theorem zigzag_roundtrip z : unzigzag (zigzag z) = z.
Proof. exact (zigzag_rt z). Qed.
Print Assumptions zigzag_roundtrip.

(* any sequence of varint and length-delimited fields is read back as written *)
Theorem wire_fields_roundtrip fs : Forall wfield_ok fs -> wparse_all (ser_fields fs) = Some fs.
Proof. exact (parse_all_ser fs). Qed.
Print Assumptions wire_fields_roundtrip.

(* the stored pin message: cid, type, repeated allocations, sint32 depth, reference, embedded options with
   sint32 factors, name, shard size, metadata map entries, pin-update, expiry, repeated origins *)
Theorem wire_pin_roundtrip p : wpin_ok p -> parse_pin (ser_pin p) = Some p.
Proof. exact (Proofs.C08_Wire.wire_pin_roundtrip p). Qed.
Print Assumptions wire_pin_roundtrip.

(* ---- the Raft log: go-libp2p-raft's FSM decodes every entry INTO one long-lived LogOp (consensus/raft/log_op.go) ---- *)

(* decoding on top of a zero value is decoding into a fresh value (every codec, every tag table, every type, every wire) *)
Theorem dec_onto_zero_is_dec c sch t w : dec_onto c sch (zero_val t) t w = dec c sch t w.
Proof. exact (dec_onto_zero_is_dec_l c sch w t). Qed.
Print Assumptions dec_onto_zero_is_dec.

(* the LogOp rows regenerated from log_op.go at this run are the ones the model is written for (TagCtx, Cid, Type; the span
   context `omitempty`), the Pin rows are in the order pin_to_val uses, and the table with LogOp on top is well-formed *)
Theorem raft_logop_table_wellformed : logop_layout_ok = true /\ pin_layout_ok = true /\ schema_ok Msgpack raft_schema = true.
Proof. exact (conj (proj1 layouts_ok) (conj (proj2 layouts_ok) raft_schema_ok)). Qed.
Print Assumptions raft_logop_table_wellformed.

(* one well-formed entry (pin or unpin of a well-formed pin without origins - guard of the finding origins-undecodable),
   decoded onto the shared op in whatever condition the earlier entries left it (any tag context, any type; no pin, because
   ApplyTo dropped it): the tracker is handed exactly the submitted pin, the state reads back its stored form, and the op
   is left without a pin again *)
Theorem logop_entry_independent_of_history tg t0 e : wf_entry e = true -> entry_has_iface e = false ->
  logop_step true (logop_val tg None t0) e = (expected e, logop_val tg None (fst e)).
Proof. exact (logop_step_wf tg t0 e). Qed.
Print Assumptions logop_entry_independent_of_history.

(* hence for every sequence of such entries the i-th outcome is a function of the i-th entry alone *)
Theorem logop_reuse_roundtrip tg t0 es : forallb (fun e => wf_entry e && negb (entry_has_iface e)) es = true ->
  logop_apply_seq true (logop_val tg None t0) es = map expected es.
Proof. exact (logop_reuse_roundtrip_l es tg t0). Qed.
Print Assumptions logop_reuse_roundtrip.

(* the statement is about the reset: the same loop without `op.Cid = nil` stores the second of two entries under the
   first one's name (and replication factors, expiry, metadata, reference ...) *)
Theorem logop_reuse_without_reset_refuted :
  exists p1 p2 tr st,
    forallb (fun e => wf_entry e && negb (entry_has_iface e)) [(1, p1); (1, p2)] = true /\ name (popts p2) = "" /\ name (popts p1) <> "" /\
    logop_apply_seq true logop_zero [(1, p1); (1, p2)] = [expected (1, p1); expected (1, p2)] /\
    logop_apply_seq false logop_zero [(1, p1); (1, p2)] = [expected (1, p1); SPinned tr st] /\
    name (popts st) = name (popts p1) /\ name (popts tr) = name (popts p1) /\ expected (1, p2) <> SPinned tr st.
Proof. exact logop_reuse_without_reset_refuted_l. Qed.
Print Assumptions logop_reuse_without_reset_refuted.

(* ---- streams of records decoded in a loop: state/dsstate State.Unmarshal (msgpack), cmdutils importState (JSON) ---- *)

(* with the destination declared inside the loop (a fresh value per record, as both loops are written), every stream of
   well-formed records of every record type of the table comes back as the list that was written, in both codecs, whatever
   the destination held before (guard of the finding origins-undecodable as above) *)
Theorem stream_decode_fresh_roundtrip c tn vs dest :
  forallb (fun v => wf_val c api_schema true (TStruct tn) false v && negb (has_iface api_schema (TStruct tn) v)) vs = true ->
  exists ws, stream_encode c api_schema (TStruct tn) vs = Ok ws /\ stream_decode c api_schema (TStruct tn) false dest ws = Ok vs.
Proof.
  exact (fun H => match stream_fresh_l c api_schema
                          (match c with Msgpack => proj1 api_schema_wellformed | Json => proj2 api_schema_wellformed end) (TStruct tn) vs H with
                  | ex_intro _ ws (conj E D) => ex_intro _ ws (conj E (D dest)) end).
Qed.
Print Assumptions stream_decode_fresh_roundtrip.

(* with ONE destination for the whole stream the loop is not the identity, in either codec: two well-formed pins; msgpack
   leaves every member the second pin has empty (absent from the wire) at the first pin's value and merges the metadata,
   JSON (which writes every member) keeps the first pin's metadata entries in the second *)
Theorem stream_decode_reused_refuted : forall c,
  let vs := [pin_to_val stream_a; pin_to_val stream_b] in
  let t := TStruct "Pin" in
  forallb (fun v => wf_val c api_schema true t false v && negb (has_iface api_schema t v)) vs = true /\
  exists ws, stream_encode c api_schema t vs = Ok ws /\
    stream_decode c api_schema t false (zero_val t) ws = Ok vs /\
    stream_decode c api_schema t true (zero_val t) ws
      = Ok [pin_to_val stream_a; pin_to_val (match c with Msgpack => stream_b_msgpack | Json => stream_b_json end)] /\
    stream_decode c api_schema t true (zero_val t) ws <> Ok vs.
Proof. exact stream_reused_refuted_l. Qed.
Print Assumptions stream_decode_reused_refuted.

(* ---- query form of the add parameters (api/add.go: AddParams.ToQueryString / AddParamsFromQuery) ---- *)

(* add parameters whose pin options are well-formed for the query form (wf_q: texts the trusted parsers accept, no ","),
   whose layout and format are names the decoder accepts (or empty) and whose cid-version fits the 64-bit int come back
   unchanged - every boolean either way, every number including 0, every text including the empty one -, except: of the pin
   options, metadata entries with the empty key and PinUpdate (AddParamsFromQuery forces it to undefined); an EMPTY chunker
   or hash function reads back as the default one. For every oracle and every clock reading. In particular nothing is
   filled in from DefaultAddParams() when the sender's value is zero: a shard size of 0 stays 0. *)
Theorem addparams_query_roundtrip orc now p : wf_ap orc p = true ->
  match add_params_to_query orc p with Ok q => add_params_from_query orc now q | Err => Err end = Ok (lossy_ap p).
Proof. exact (addparams_query_roundtrip_l orc now p). Qed.
Print Assumptions addparams_query_roundtrip.

(* ShardSize 0, replication 0, empty name, every boolean false (stream-channels too, whose default is true): read back as sent *)
Example addparams_zero_example :
  let orc := mk_orc [] [] [] [] [] in
  let p := mk_addp zero_opts false false false false false false "" "" "size-262144" false false 0 "sha2-256" false in
  wf_ap orc p = true /\ lossy_ap p = p /\
  add_params_to_query orc p = Ok [("replication-min", "0"); ("replication-max", "0"); ("name", ""); ("mode", "recursive"); ("shard-size", "0");
                                   ("user-allocations", ""); ("shard", "false"); ("local", "false"); ("recursive", "false"); ("layout", "");
                                   ("chunker", "size-262144"); ("raw-leaves", "false"); ("hidden", "false"); ("wrap-with-directory", "false");
                                   ("progress", "false"); ("cid-version", "0"); ("hash", "sha2-256"); ("stream-channels", "false");
                                   ("nocopy", "false"); ("format", "")] /\
  match add_params_to_query orc p with Ok q => add_params_from_query orc (0, 0%N) q | Err => Err end = Ok p /\
  (* the decoder's defaults apply to absent keys only; and parsing the pin options on top of the defaults instead of a fresh
     value would need every option to be written, shard-size 0 included *)
  add_params_from_query orc (0, 0%N) [] = Ok (mk_addp (mk_opts 0 0 "" 0 0 [] None [] None []) false false false false false true "" "" "size-262144" false false 0 "sha2-256" false) /\
  option_map (fun a => shard_size (a_opts a)) (match add_params_from_query_on default_opts orc (0, 0%N) [("shard", "true")] with Ok a => Some a | Err => None end)
    = Some default_shard_size.
Proof. vm_compute. repeat split. Qed.
