(* C10 — Peer failure or removal re-homes under-replicated pins once and drops none; expired pins are unpinned once.
   Statements only; every proof is `exact <lemma of Proofs/C10_Repin.v>`.
   Quantification: every environment (time, metrics), every hash pair hp / hc (injective on the peers in play — the
   stated assumption on blake2b), every peerset and failing / removed peer f, every pinset satisfying the invariant
   of reachable pinsets (C04 `histories`), every schedule in which the survivors handle the alert one after the
   other, every configuration (follower, disable_repinning) and every Go map / datastore order oracle per peer.
   The full re-homing statement is false for pins created by pin-update (finding S10): it is proved for all other
   pins (`_partial`) and refuted by a concrete scenario (`_refuted`). *)
From V Require Import Base.Common Model.C03_Alloc Model.C03_Check Model.C04_ClusterOps Model.C04_Check Proofs.C04_ClusterOps Proofs.C04_Check
  Model.C10_Repin Model.C10_Check Proofs.C10_Repin Proofs.C03_Monitor Proofs.C10_Monitor Proofs.C10_MonitorC.
From Coq Require Import Permutation.
Open Scope Z_scope.

(* --- the hash-distance partition: exactly one of the candidate peers considers itself closest to a CID --- *)
Theorem exactly_one_closest hp hc members excl trusted c :
  (forall p, In p members -> trusted p = true) ->
  survivors members excl <> [] ->
  (forall a b, In a (survivors members excl) -> In b (survivors members excl) -> hp a = hp b -> a = b) ->
  exists s, In s (survivors members excl) /\
            is_closest hp hc s (trusted_others s members excl trusted) c = true /\
            forall s', In s' (survivors members excl) ->
                       is_closest hp hc s' (trusted_others s' members excl trusted) c = true -> s' = s.
Proof. exact (exactly_one_closest_l hp hc members excl trusted c). Qed.
Print Assumptions exactly_one_closest.

(* --- whoever issues LogPin for a CID while handling the alert considers itself closest to it: any pinset, any pin --- *)
Theorem alert_loggers_are_closest e hp hc members trusted f sched st c s lg :
  In (s, lg) (snd (alert_all e hp hc members trusted true f sched st)) -> cnt c lg <> 0%nat ->
  closest_for hp hc members trusted f s c = true.
Proof. exact (loggers_closest_s e hp hc members trusted f sched st c s lg). Qed.
Print Assumptions alert_loggers_are_closest.

(* --- re-homing (rehome_spec, Proofs/C10_Repin.v): after every survivor handled the alert, a pin that f held is
       untouched while it still meets its minimum without f; otherwise it is stored with C03's allocation, which excludes f,
       has no duplicates and meets min / max, every other field of the pin as it was, LogPin issued once, by the
       closest survivor and by nobody else; if too few peers are available it stays as it is. --- *)
Theorem alert_rehomes_underreplicated_partial e hp hc members trusted f sched st c x :
  alert_premises e hp hc members trusted f sched st c x -> ~ is_update x -> rehome_spec e hp hc members trusted f sched st c x.
Proof. exact (alert_rehomes_partial_s e hp hc members trusted f sched st c x). Qed.
Print Assumptions alert_rehomes_underreplicated_partial.

(* as written the statement is false without the guard: S10 (the re-pin re-enters the pin-update redirect) *)
Theorem repin_update_redirect_refuted :
  exists e hp hc members trusted f sched st c x,
    alert_premises e hp hc members trusted f sched st c x /\ ~ rehome_spec e hp hc members trusted f sched st c x.
Proof. exact redirect_refuted_s. Qed.
Print Assumptions repin_update_redirect_refuted.

(* --- pins the failed peer does not hold are never touched nor logged (pin-update pins included) --- *)
Theorem alert_not_held_untouched e hp hc members trusted f sched st c x :
  (forall a, In a sched -> list_oracle (a_lord a)) -> inv st -> aget c st = Some x -> ~ In f (p_allocs x) ->
  let res := alert_all e hp hc members trusted true f sched st in
  aget c (fst res) = Some x /\ total_cnt c (snd res) = 0%nat.
Proof. exact (alert_not_held_untouched_s e hp hc members trusted f sched st c x). Qed.
Print Assumptions alert_not_held_untouched.

(* --- re-pinning disabled, follower peers, alerts other than ping: the pinset is left as it is, nothing is logged --- *)
Theorem disabled_or_follower_untouched e hp hc members trusted is_ping f sched st :
  (is_ping = false \/ forall a, In a sched -> actor_active a = false) ->
  let res := alert_all e hp hc members trusted is_ping f sched st in
  fst res = st /\ forall s lg, In (s, lg) (snd res) -> lg = [].
Proof. exact (alert_idle_untouched_s e hp hc members trusted is_ping f sched st). Qed.
Print Assumptions disabled_or_follower_untouched.

Theorem vacate_disabled_or_follower_untouched pc e ord lord st f :
  pc_norepin pc = true \/ follower (pc_cfg pc) = true -> vacate pc e ord lord st f = (st, []).
Proof. exact (vacate_idle_l pc e ord lord st f). Qed.
Print Assumptions vacate_disabled_or_follower_untouched.

(* --- no pin is ever removed (or added) by this process --- *)
Theorem never_removes e hp hc members trusted f sched st h :
  (forall a, In a sched -> list_oracle (a_lord a)) -> inv st ->
  (aget h (fst (alert_all e hp hc members trusted true f sched st)) = None <-> aget h st = None).
Proof. exact (alert_never_removes_s e hp hc members trusted f sched st h). Qed.
Print Assumptions never_removes.

Theorem vacate_never_removes pc e ord lord st f h : list_oracle lord -> inv st ->
  (aget h (fst (vacate pc e ord lord st f)) = None <-> aget h st = None).
Proof. exact (vacate_never_removes_s pc e ord lord st f h). Qed.
Print Assumptions vacate_never_removes.

(* --- peer removal (PeerRemove -> vacatePeer): same outcome for every pin of the removed peer, by the peer that runs it --- *)
Theorem vacate_rehomes_partial pc e ord lord st f c x :
  list_oracle lord -> map_oracle ord -> NoDup (map mpeer (e_metrics e)) -> inv st ->
  follower (pc_cfg pc) = false -> pc_norepin pc = false ->
  aget c st = Some x -> ~ is_update x -> wf_repin e x -> NoDup (p_allocs x) -> In f (p_allocs x) ->
  let res := vacate pc e ord lord st f in
  let i := repin_input (pc_cfg pc) e f x in
  (o_rmin (p_opts x) <= healthy_count (e_now e) i (p_allocs x) <= o_rmax (p_opts x) -> aget c (fst res) = Some x) /\
  (healthy_count (e_now e) i (p_allocs x) < o_rmin (p_opts x) ->
     match allocate (e_now e) i (ord c) with
     | Ok l => aget c (fst res) = Some (set_allocs l x) /\ ~ In f l /\ NoDup l /\
               o_rmin (p_opts x) <= healthy_count (e_now e) i l <= o_rmax (p_opts x) /\ cnt c (snd res) = 1%nat
     | _ => aget c (fst res) = Some x /\ cnt c (snd res) = 0%nat end).
Proof. exact (vacate_rehomes_s pc e ord lord st f c x). Qed.
Print Assumptions vacate_rehomes_partial.

(* --- expiry: every member runs StateSync; an expired pin is unpinned (LogUnpin) exactly once, by the closest member
       and nobody else; an unexpired pin by none, for every now --- *)
Theorem expiry_exactly_one e hp hc members trusted sched st c x :
  (forall p, In p members -> trusted p = true) ->
  (forall a b, In a members -> In b members -> hp a = hp b -> a = b) -> members <> [] ->
  (forall a, In a sched -> list_oracle (a_lord a) /\ follower (pc_cfg (a_pc a)) = false) ->
  NoDup (map a_self sched) -> (forall s, In s (map a_self sched) <-> In s members) ->
  all_data st -> inv st -> aget c st = Some x ->
  let res := sync_all e hp hc members trusted sched st in
  (expired_at (e_now e) x = true ->
     aget c (fst res) = None /\ total_cnt c (snd res) = 1%nat /\
     exists s, sclosest_for hp hc members trusted s c = true /\ forall s' lg, In (s', lg) (snd res) -> cnt c lg <> 0%nat -> s' = s) /\
  (expired_at (e_now e) x = false -> aget c (fst res) = Some x /\ total_cnt c (snd res) = 0%nat).
Proof. exact (expiry_exactly_one_s e hp hc members trusted sched st c x). Qed.
Print Assumptions expiry_exactly_one.

(* --- non-vacuity and the concrete S10 scenario (also in the corpus, replayed on the implementation at every run) --- *)
Example c10_rehomed_example :
  alert_premises S10.e S10.idf S10.idf S10.members S10.trusted S10.f S10.sched S10.st0 1%N S10.x0 /\ ~ is_update S10.x0 /\
  let res := alert_all S10.e S10.idf S10.idf S10.members S10.trusted true S10.f S10.sched S10.st0 in
  aget 1%N (fst res) = Some (set_allocs [1%N] S10.x0) /\ snd res = [(1%N, [1%N]); (2%N, [])].
Proof. exact S10.rehomed_example. Qed.

Example c10_s10_example :
  let res := alert_all S10.e S10.idf S10.idf S10.members S10.trusted true S10.f S10.sched S10.st in
  aget 1%N (fst res) = Some S10.x /\ total_cnt 1%N (snd res) = 0%nat /\
  allocate (e_now S10.e) (repin_input (pc_cfg S10.pc) S10.e S10.f S10.x) (fun xs => xs) = Ok [1%N].
Proof. exact S10.what_happens. Qed.

(* ---- the run-time monitor (Model/C10_Check.v, code 2) means what it should: soundness ---- *)

(* failure / removal: no CID reported by repin_bad -> every entry (c, x) of the pinset before satisfies repin_clause
   (Proofs/C10_Monitor.v): not held by f -> same pin after, nobody logged it; held by f -> logged by at most one peer (peers
   trusting each other) and at most once per peer, and for a well-formed unexpired pin: enough healthy holders without f, or
   the minimum out of reach -> same pin after; otherwise (every candidate peer ran) stored with an allocation that excludes f
   and satisfies C03's alloc_spec for the pin's factors with f excluded, all options / type / depth / reference as they were,
   LogPin by exactly one peer *)
Theorem repin_monitor_sound now rv ms all_trusted all_eligible f st0 stF steps :
  NoDup (map mpeer ms) -> repin_bad now rv ms all_trusted all_eligible f st0 stF steps = [] ->
  forall c x, In (c, x) st0 -> repin_clause now rv ms all_trusted all_eligible f st0 stF steps c x.
Proof. exact (repin_monitor_sound_l now rv ms all_trusted all_eligible f st0 stF steps). Qed.
Print Assumptions repin_monitor_sound.

(* expiry sweep: no CID reported by sync_bad -> an expired ordinary pin (peers trusting each other, not collateral of an expired
   meta pin) was LogUnpin-ed at most once, and exactly once and is gone when every member ran; an unexpired one is the same
   pin after and was never logged *)
Theorem sync_monitor_sound now ls all_trusted all_eligible st0 stF steps :
  sync_bad now ls all_trusted all_eligible st0 stF steps = [] ->
  forall c x, In (c, x) st0 -> sync_clause now ls all_trusted all_eligible st0 stF steps c x.
Proof. exact (sync_monitor_sound_l now ls all_trusted all_eligible st0 stF steps). Qed.
Print Assumptions sync_monitor_sound.

(* followers, repinning disabled, alerts other than ping: the pinset after is the pinset before, nothing logged *)
Theorem idle_monitor_sound kind st steps : idle_ok kind st steps = true -> idle_spec kind st steps.
Proof. exact (fun H => idle_ok_sound kind steps st H). Qed.
Print Assumptions idle_monitor_sound.

(* exactly one closest: for every (excluded peer, CID) about which every trusted candidate's isClosest answer was recorded (as many
   trusted answers as trusted candidates, at least one candidate), exactly one of those answers is "closest" *)
Theorem one_closest_monitor_sound members trusted cs :
  one_closest_ok members trusted cs = true -> one_closest_spec members trusted cs.
Proof. exact (one_closest_ok_sound members trusted cs). Qed.
Print Assumptions one_closest_monitor_sound.

(* a whole harness case: check_case reports no code 2 -> scenario_spec (one entry per CID after; idle runs idle; exactly one trusted candidate
   closest; no key removed or added by re-pinning, none added by a sweep; repin_clause resp. sync_clause for every entry, with
   "peers trusting each other" = all members trusted or the untrusted ones idle, "every candidate ran" = every trusted candidate) *)
Theorem check_case_sound id dmin dmax rv hpt hct members untrusted ms ls st0l kind f steps cs :
  NoDup (map mpeer ms) ->
  (forall t, ~ In (id, 2%N, t)
     (check_case (id, (dmin, dmax, rv, hpt, hct, members, untrusted, ms, ls, st0l, (kind, f, steps), cs)))) ->
  scenario_spec rv members untrusted ms ls (of_list st0l) kind f steps cs.
Proof. exact (check_case_sound_l id dmin dmax rv hpt hct members untrusted ms ls st0l kind f steps cs). Qed.
Print Assumptions check_case_sound.

(* non-vacuity: peer 0 fails; CID 1 (only on 0) is re-homed to peer 1 by peer 1, CID 2 (on 1, 2) is left alone: accepted.
   Not re-homed, or logged by both survivors: rejected *)
Example c10_monitor_example :
  let x0 := mk_pin (mk_opts 1 1 0%N 0%N 0%N [] None [] None []) 1%N DataT [0%N] (-1) None in
  let x1 := mk_pin (mk_opts 1 1 0%N 0%N 0%N [] None [] None []) 1%N DataT [1%N] (-1) None in
  let x2 := mk_pin (mk_opts 2 3 0%N 0%N 0%N [] None [] None []) 2%N DataT [1%N; 2%N] (-1) None in
  let ms := [mk_metric 1 (Some 10%N) 3600 true; mk_metric 2 (Some 20%N) 3600 true] in
  let cse (after1 : list pin) (logs2 : list N) : case :=
    (7%N, (1, 1, false, [(0,0);(1,1);(2,2)]%N, [(1,1);(2,2)]%N, [0;1;2]%N, @nil N, ms, @nil (N * list N),
           [x0; x2], (0%N, 0%N, [(1%N, false, false, true, [1%N], after1); (2%N, false, false, true, logs2, after1)]),
           [(1, Some 0, 1, true); (2, Some 0, 1, false)]%N)) in
  NoDup (map mpeer ms) /\ check_case (cse [x1; x2] []) = [] /\
  check_case (cse [x0; x2] []) = [(7, 1, 0); (7, 2, 0)]%N /\ check_case (cse [x1; x2] [1%N]) = [(7, 1, 0); (7, 2, 0)]%N.
Proof. cbv zeta. split; [simpl; repeat constructor; simpl; intuition discriminate|]. repeat split; vm_compute; reflexivity. Qed.

(* ---- completeness of the monitor for the model, removal kind (PeerRemove -> vacatePeer) ----
   vac_case: the record the harness would write for one peer running vacate on the model (kind 2, one step: follower / repinning
   flags, the CIDs logged in order, the whole pinset after). Hypotheses: the invariant of reachable pinsets (C04), no pin-update pin
   (finding S10), duplicate-free metadata keys (the comparison of the monitor is not reflexive otherwise), stored pins of the removed
   peer well typed (pin() checks it before storing), oracles are permutations, one metric per peer. Then check_case raises no code 2:
   every clause of the monitor is implied by the model - with C03's alloc_model_passes_monitor for every re-homed pin. *)
Theorem vacate_model_passes_monitor id dmin dmax rv hpt hct members untrusted ms ls st0l f self fol norep ord lord :
  inv (of_list st0l) -> meta_ok (of_list st0l) -> no_update (of_list st0l) -> typed_ok f (of_list st0l) ->
  list_oracle lord -> map_oracle ord -> NoDup (map mpeer ms) ->
  forall t, ~ In (id, 2%N, t) (check_case (vac_case id dmin dmax rv hpt hct members untrusted ms ls st0l f self fol norep ord lord)).
Proof. exact (vacate_model_passes_monitor_l id dmin dmax rv hpt hct members untrusted ms ls st0l f self fol norep ord lord). Qed.
Print Assumptions vacate_model_passes_monitor.

(* non-vacuity: peer 0 is removed; CID 1 (only on 0) is re-homed, CID 2 (on 1, 2) is left alone; the hypotheses hold and the
   whole check_case of the generated record is empty (code 1 included) *)
Example c10_vacate_example :
  let x0 := mk_pin (mk_opts 1 1 0%N 0%N 0%N [] None [(3, 4)]%N None []) 1%N DataT [0%N] (-1) None in
  let x2 := mk_pin (mk_opts 2 3 0%N 0%N 0%N [] None [] None []) 2%N DataT [1%N; 2%N] (-1) None in
  let ms := [mk_metric 1 (Some 10%N) 3600 true; mk_metric 2 (Some 20%N) 3600 true] in
  let st0l := [x0; x2] in
  inv (of_list st0l) /\ meta_ok (of_list st0l) /\ no_update (of_list st0l) /\ typed_ok 0%N (of_list st0l) /\ NoDup (map mpeer ms) /\
  check_case (vac_case 7 1 1 false [] [] [0; 1; 2]%N [] ms [] st0l 0%N 1%N false false (fun _ xs => xs) (fun l => l)) = [].
Proof. cbv zeta. split; [|split; [|split; [|split; [|split; [|vm_compute; reflexivity]]]]].
  - split; [simpl; repeat constructor; simpl; intuition discriminate|]. intros k p H. simpl in H.
    destruct (N.eqb_spec k 1) as [->|]; [injection H as <-; repeat split; reflexivity|]. destruct (N.eqb_spec k 2) as [->|]; [injection H as <-; repeat split; reflexivity|discriminate].
  - intros k p H. simpl in H. destruct (N.eqb_spec k 1) as [->|]; [injection H as <-; simpl; repeat constructor; simpl; tauto|].
    destruct (N.eqb_spec k 2) as [->|]; [injection H as <-; constructor|discriminate].
  - intros k p H [u [Hu Hn]]. simpl in H. destruct (N.eqb_spec k 1) as [->|]; [injection H as <-; discriminate|]. destruct (N.eqb_spec k 2) as [->|]; [injection H as <-; discriminate|discriminate].
  - intros k p H _ _. simpl in H. destruct (N.eqb_spec k 1) as [->|]; [injection H as <-; reflexivity|]. destruct (N.eqb_spec k 2) as [->|]; [injection H as <-; reflexivity|discriminate].
  - simpl. repeat constructor; simpl; intuition discriminate. Qed.
