(* C10 — placeholder while the check is brought up end to end. *)
From V Require Import Base.Common Model.C10_Repin.
Theorem c10_placeholder : True. Proof. exact I. Qed.
Print Assumptions c10_placeholder.
