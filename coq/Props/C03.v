(* C03 — Allocations honour the replication factors and use only healthy peers.
   Statements only; every proof is `exact <lemma of Proofs/C03_{Alloc,Monitor,Frame}.v>`.
   Quantification: every time `now`, every input (factors, current, metrics one per peer,
   exclusion and priority lists, strategy) and every iteration order `ord` of the Go map. *)
From V Require Import Base.Common Model.C03_Alloc Model.C03_Check Proofs.C03_Alloc Proofs.C03_Monitor Proofs.C03_Frame.
From Coq Require Import Permutation Sorting.Sorted.
Open Scope Z_scope.

Definition order_oracle (ord : list N -> list N) := forall xs, Permutation (ord xs) xs.
Definition one_metric_per_peer (i : input) := NoDup (map mpeer (metrics i)).

(* replication factor -1: the empty list, meaning everywhere *)
Theorem alloc_everywhere now i ord : rmin i < 0 -> rmax i < 0 -> allocate now i ord = Ok [].
Proof. exact (alloc_everywhere_l now i ord). Qed.
Print Assumptions alloc_everywhere.

Theorem alloc_nodup now i ord l : order_oracle ord -> one_metric_per_peer i ->
  NoDup (current i) -> allocate now i ord = Ok l -> NoDup l.
Proof. exact (fun Ho Hm => alloc_nodup_l now i ord Ho Hm l). Qed.
Print Assumptions alloc_nodup.

(* every added peer has a valid, unexpired, numeric metric and is not excluded *)
Theorem alloc_new_are_healthy now i ord l p : order_oracle ord -> one_metric_per_peer i ->
  allocate now i ord = Ok l -> In p l -> ~ In p (current i) ->
  healthy now i p /\ exists m, In m (metrics i) /\ mpeer m = p /\ mval m <> None.
Proof. exact (fun Ho _ => alloc_new_are_healthy_l now i ord Ho l p). Qed.
Print Assumptions alloc_new_are_healthy.

(* healthy current holders are all kept unless there are more than max, in which case exactly max of them remain and nothing is added *)
Theorem alloc_keeps_healthy_current now i ord l : order_oracle ord -> one_metric_per_peer i ->
  valid_factors (rmin i) (rmax i) -> allocate now i ord = Ok l ->
  let ncur := Z.of_nat (length (valid_current now i ord)) in
  (ncur <= rmax i -> forall p, healthy now i p -> In p (current i) -> In p l) /\
  (rmax i < ncur -> Z.of_nat (length l) = rmax i /\ forall p, In p l -> healthy now i p /\ In p (current i)).
Proof. exact (fun Ho _ => alloc_keeps_healthy_current_l now i ord Ho l). Qed.
Print Assumptions alloc_keeps_healthy_current.

Theorem alloc_min_max now i ord l : order_oracle ord -> one_metric_per_peer i ->
  valid_factors (rmin i) (rmax i) -> allocate now i ord = Ok l ->
  rmin i <= healthy_count now i l <= rmax i.
Proof. exact (fun Ho Hm => alloc_min_max_l now i ord Ho Hm l). Qed.
Print Assumptions alloc_min_max.

(* the added peers are a prefix of [priority peers in strategy order] ++ [other candidates in strategy order] *)
Theorem alloc_preference now i ord l : order_oracle ord -> one_metric_per_peer i ->
  valid_factors (rmin i) (rmax i) -> allocate now i ord = Ok l ->
  let ncur := Z.of_nat (length (valid_current now i ord)) in
  ncur < rmin i ->
  exists k, l = valid_current now i ord ++ firstn k (new_candidates now i) /\ rmin i - ncur <= Z.of_nat k <= rmax i - ncur.
Proof. exact (fun _ _ => alloc_preference_l now i ord l). Qed.
Print Assumptions alloc_preference.

Theorem alloc_groups_sorted now rv ms : Sorted (lebm_p rv) (sort_keyed now rv ms).
Proof. exact (sort_keyed_sorted now rv ms). Qed.
Print Assumptions alloc_groups_sorted.

Theorem alloc_groups_complete now i ord p : order_oracle ord -> one_metric_per_peer i ->
  In p (new_candidates now i) <->
  exists m, In m (metrics i) /\ mpeer m = p /\ discard now m = false /\ mval m <> None /\ ~ In p (blacklist i) /\ ~ In p (current i).
Proof. exact (fun H1 H2 => final_in now i p). Qed.
Print Assumptions alloc_groups_complete.

Theorem alloc_nothing_new_when_enough now i ord l : order_oracle ord -> one_metric_per_peer i ->
  valid_factors (rmin i) (rmax i) -> allocate now i ord = Ok l ->
  rmin i <= Z.of_nat (length (valid_current now i ord)) -> forall p, In p l -> In p (current i).
Proof. exact (fun Ho _ => alloc_nothing_new_when_enough_l now i ord Ho l). Qed.
Print Assumptions alloc_nothing_new_when_enough.

(* fewer than min reachable <-> error (and no list is produced: the result type is a sum) *)
Theorem alloc_fail_is_error now i ord : order_oracle ord -> one_metric_per_peer i -> valid_factors (rmin i) (rmax i) ->
  (allocate now i ord = ErrNotEnough <->
     Z.of_nat (length (valid_current now i ord)) + Z.of_nat (length (new_candidates now i)) < rmin i) /\
  allocate now i ord <> ErrBadFactors.
Proof. exact (fun _ _ => alloc_fail_is_error_l now i ord). Qed.
Print Assumptions alloc_fail_is_error.

(* non-vacuity: a concrete input meets every premise and allocates a new peer *)
Example alloc_example :
  let i := mk_input 2 3 [1%N] [mk_metric 1 (Some 70%N) 3600 true; mk_metric 2 (Some 10%N) 3600 true;
                              mk_metric 3 None 3600 true; mk_metric 5 (Some 30%N) 3600 true] [] [5%N] false in
  one_metric_per_peer i /\ valid_factors (rmin i) (rmax i) /\ allocate 0 i (fun x => x) = Ok [1; 5; 2]%N.
Proof. split; [|split]; [unfold one_metric_per_peer; simpl; repeat constructor; simpl; intuition discriminate | unfold valid_factors; simpl; lia | reflexivity]. Qed.

(* ---- the run-time monitor spec_okb (Model/C03_Check.v) and the theorems above ---- *)

(* completeness: for every input the harness may produce (one metric per peer, duplicate-free current list) and every map
   order, what the model answers passes the monitor. Hence an implementation answer equal to the model's never raises
   code 2, and the monitor demands nothing the model does not deliver. *)
Theorem alloc_model_passes_monitor now i ord : order_oracle ord -> one_metric_per_peer i -> NoDup (current i) ->
  spec_okb now i (obs_of (allocate now i ord)) = true.
Proof. exact (alloc_model_passes_monitor_l now i ord). Qed.
Print Assumptions alloc_model_passes_monitor.

(* soundness: an observed list accepted by the monitor satisfies every clause of the property (alloc_spec, Proofs/C03_Monitor.v:
   no duplicates; added peers healthy, numeric, not excluded; healthy holders kept, or exactly max of them and nothing else;
   min <= healthy <= max; nothing added unless below min; added = priority part ++ other part, each sorted in the strategy's
   direction with no strictly better choosable peer left out, others only after every choosable priority peer) *)
Theorem alloc_monitor_sound now i l : one_metric_per_peer i -> NoDup (current i) -> valid_factors (rmin i) (rmax i) ->
  spec_okb now i (ObsOk l) = true -> alloc_spec now i l.
Proof. exact (fun Hm => alloc_monitor_sound_l now i Hm l). Qed.
Print Assumptions alloc_monitor_sound.

(* an observed error is accepted only when fewer than min peers are reachable ... *)
Theorem alloc_monitor_err_sound now i : valid_factors (rmin i) (rmax i) ->
  spec_okb now i ObsErr = true -> reachable now i < rmin i.
Proof. exact (alloc_monitor_err_sound_l now i). Qed.
Print Assumptions alloc_monitor_err_sound.

(* ... where `reachable` bounds every duplicate-free list of usable peers: no admissible allocation of min peers exists *)
Theorem alloc_reachable_bounds_usable now i l : one_metric_per_peer i -> NoDup l ->
  (forall p, In p l -> healthy now i p /\ (In p (current i) \/ exists m, In m (metrics i) /\ mpeer m = p /\ mval m <> None)) ->
  Z.of_nat (length l) <= reachable now i.
Proof. exact (fun Hm => reachable_bounds_usable now i Hm l). Qed.
Print Assumptions alloc_reachable_bounds_usable.

Theorem alloc_monitor_everywhere now i o : rmin i < 0 -> rmax i < 0 -> spec_okb now i o = true -> o = ObsOk [].
Proof. exact (alloc_monitor_everywhere_l now i o). Qed.
Print Assumptions alloc_monitor_everywhere.

(* composition of the two: the model's answers satisfy the Prop-level property *)
Theorem alloc_model_satisfies_spec now i ord l : order_oracle ord -> one_metric_per_peer i -> NoDup (current i) ->
  valid_factors (rmin i) (rmax i) -> allocate now i ord = Ok l -> alloc_spec now i l.
Proof. exact (alloc_model_satisfies_spec_l now i ord l). Qed.
Print Assumptions alloc_model_satisfies_spec.

(* non-vacuity: the monitor accepts a list with a priority and an ordinary added peer, rejects the same peers in the
   wrong order, and accepts an error exactly when min is out of reach *)
Example alloc_monitor_example :
  let i := mk_input 2 3 [1%N] [mk_metric 1 (Some 70%N) 3600 true; mk_metric 2 (Some 10%N) 3600 true;
                              mk_metric 3 None 3600 true; mk_metric 5 (Some 30%N) 3600 true; mk_metric 6 (Some 20%N) 3600 true] [] [5%N] false in
  one_metric_per_peer i /\ NoDup (current i) /\ valid_factors (rmin i) (rmax i) /\
  spec_okb 0 i (ObsOk [1; 5; 2]%N) = true /\ spec_okb 0 i (ObsOk [1; 2; 5]%N) = false /\ spec_okb 0 i (ObsOk [1; 5; 6]%N) = false /\
  spec_okb 0 i ObsErr = false /\ spec_okb 0 (mk_input 5 5 [1%N] (metrics i) [] [5%N] false) ObsErr = true.
Proof. cbv zeta. split; [|split; [|split]].
  - unfold one_metric_per_peer; simpl; repeat constructor; simpl; intuition discriminate.
  - simpl; repeat constructor; simpl; tauto.
  - unfold valid_factors; simpl; lia.
  - repeat split; vm_compute; reflexivity. Qed.

(* ---- frame: what cannot influence the decision ("healthy peers only" read as non-interference) ----
   The metric of a peer that is unhealthy at `now` (invalid or expired), or that is excluded, is dead input:
   dropping all such metrics, or adding any number of them, leaves the result list / error unchanged,
   for every order oracle (no hypothesis on ord, factors, or one-metric-per-peer is needed). *)
Theorem alloc_ignores_discarded now i ord :
  allocate now (with_metrics i (latest_valid now (metrics i))) ord = allocate now i ord.
Proof. exact (alloc_ignores_discarded_l now i ord). Qed.
Print Assumptions alloc_ignores_discarded.

Theorem alloc_ignores_excluded now i ord :
  allocate now (with_metrics i (filter (not_excluded i) (metrics i))) ord = allocate now i ord.
Proof. exact (alloc_ignores_excluded_l now i ord). Qed.
Print Assumptions alloc_ignores_excluded.

Theorem alloc_frame now i ord extra :
  (forall m, In m extra -> discard now m = true \/ memN (mpeer m) (blacklist i) = true) ->
  allocate now (with_metrics i (extra ++ metrics i)) ord = allocate now i ord.
Proof. exact (alloc_frame_l now i ord extra). Qed.
Print Assumptions alloc_frame.

(* non-vacuity: the extra metrics are of the kinds the theorem speaks of (one expired, one invalid, one of an excluded peer
   with the best value), the decision is a real allocation, and a healthy non-excluded extra metric WOULD change it *)
Example alloc_frame_example :
  let i := mk_input 2 2 [1%N] [mk_metric 1 (Some 70%N) 3600 true; mk_metric 2 (Some 10%N) 3600 true;
                              mk_metric 5 (Some 30%N) 3600 true] [9%N] [] false in
  let extra := [mk_metric 7 (Some 1%N) 5 true; mk_metric 8 (Some 1%N) 3600 false; mk_metric 9 (Some 0%N) 3600 true] in
  (forall m, In m extra -> discard 10 m = true \/ memN (mpeer m) (blacklist i) = true) /\
  allocate 10 i (fun l => l) = Ok [1; 2]%N /\
  allocate 10 (with_metrics i (extra ++ metrics i)) (fun l => l) = Ok [1; 2]%N /\
  allocate 10 (with_metrics i (mk_metric 6 (Some 1%N) 3600 true :: metrics i)) (fun l => l) = Ok [1; 6]%N.
Proof. cbv zeta. split; [|repeat split; vm_compute; reflexivity].
  intros m [<-|[<-|[<-|[]]]]; vm_compute; auto. Qed.

(* ---- the Go map's iteration order ----
   `ord` stands for the order in which Go iterates the map of current holders. It cannot change whether allocate succeeds,
   which error it returns, or how many peers it returns; and unless healthy holders must be dropped (more of them than max)
   it cannot change the set of peers returned either. (With more healthy holders than max, WHICH of them stay does depend
   on it: alloc_order_example.) *)
Theorem alloc_order_outcome now i o1 o2 : order_oracle o1 -> order_oracle o2 ->
  same_outcome (allocate now i o1) (allocate now i o2).
Proof. exact (alloc_order_outcome_l now i o1 o2). Qed.
Print Assumptions alloc_order_outcome.

Theorem alloc_order_same_peers now i o1 o2 l1 l2 : order_oracle o1 -> order_oracle o2 ->
  ncur_of now i <= rmax i -> allocate now i o1 = Ok l1 -> allocate now i o2 = Ok l2 -> Permutation l1 l2.
Proof. exact (alloc_order_perm_l now i o1 o2 l1 l2). Qed.
Print Assumptions alloc_order_same_peers.

Example alloc_order_example :
  let ms := [mk_metric 1 (Some 70%N) 3600 true; mk_metric 2 (Some 10%N) 3600 true; mk_metric 3 (Some 30%N) 3600 true;
             mk_metric 4 (Some 5%N) 3600 true] in
  let over := mk_input 1 2 [1; 2; 3]%N ms [] [] false in     (* three healthy holders, max 2: one must go *)
  let under := mk_input 3 3 [1; 2]%N ms [] [] false in       (* two healthy holders, one to add *)
  order_oracle (fun l => l) /\ order_oracle (@List.rev N) /\
  allocate 0 over (fun l => l) = Ok [1; 2]%N /\ allocate 0 over (@List.rev N) = Ok [3; 2]%N /\
  ncur_of 0 under <= rmax under /\
  allocate 0 under (fun l => l) = Ok [1; 2; 4]%N /\ allocate 0 under (@List.rev N) = Ok [2; 1; 4]%N.
Proof. cbv zeta. split; [intros xs; reflexivity|]. split; [intros xs; symmetry; apply Permutation_rev|].
  repeat split; vm_compute; try reflexivity. discriminate. Qed.
