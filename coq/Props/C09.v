(* C09 — Only fresh metrics from members are used; an expired peer alerts once.
   Statements only; every proof is `exact <lemma of Proofs/C09_Metrics.v>`.
   Histories `h` are arbitrary lists of events: Add of any metric (any name, peer, validity, expiry),
   RemovePeer, and Check passes = any sequence of failure decisions (CheckPeers / CheckAll in any map
   order, over any peer list) at any instant, each with any accrual verdict (the floating-point phi is an
   oracle bit). `reach h` is the store after h from the empty store. The checker modelled is the repaired
   one (/repo branch fix-S9); the loop as written at 9309c15 is kept as `check_peers_as_written` and
   refuted below. *)
From V Require Import Base.Common Model.C09_Metrics Proofs.C09_Metrics.
From Coq Require Import Sorting.Sorted.
Open Scope Z_scope.

(* ---- what the monitor reports ---- *)
Theorem latest_one_per_peer h now name ps : NoDup (map mpeer (latest_metrics now name ps (reach h))).
Proof. exact (latest_one_per_peer_l h now name ps). Qed.
Print Assumptions latest_one_per_peer.

(* a reported metric is the last one added for its (name, peer): no later Add for that key in the history *)
Theorem latest_is_most_recent h now name ps m : In m (latest_metrics now name ps (reach h)) ->
  mname m = name /\ latest (mkey m) (reach h) = Some m /\
  exists h1 h2, h = h1 ++ EAdd m :: h2 /\ forallb (fun e => negb (adds_key (mkey m) e)) h2 = true.
Proof. exact (latest_is_most_recent_l h now name ps m). Qed.
Print Assumptions latest_is_most_recent.

Theorem latest_is_fresh h now name ps m : In m (latest_metrics now name ps (reach h)) ->
  mvalid m = true /\ now <= mexp m.
Proof. exact (latest_is_fresh_l h now name ps m). Qed.
Print Assumptions latest_is_fresh.

(* peerset known: members only; PeersFunc failing: nothing *)
Theorem latest_in_peerset h now name ps m : In m (latest_metrics now name ps (reach h)) ->
  match ps with PNone => True | PErr => False | PSome l => In (mpeer m) l end.
Proof. exact (latest_in_peerset_l h now name ps m). Qed.
Print Assumptions latest_in_peerset.

Theorem latest_sorted h now name ps : StronglySorted peer_le (latest_metrics now name ps (reach h)).
Proof. exact (latest_sorted_l h now name ps). Qed.
Print Assumptions latest_sorted.

(* and nothing is withheld: the latest metric of a member, if valid and unexpired, is reported *)
Theorem latest_complete h now name ps m :
  latest (mkey m) (reach h) = Some m -> mname m = name -> mvalid m = true -> now <= mexp m ->
  match ps with PNone => True | PErr => False | PSome l => In (mpeer m) l end ->
  In m (latest_metrics now name ps (reach h)).
Proof. exact (latest_complete_l h now name ps m). Qed.
Print Assumptions latest_complete.

(* more arrivals than the window holds: the ring keeps at most 25 *)
Theorem window_overflow h k : (length (window k (reach h)) <= 25)%nat.
Proof. exact (window_overflow_l h k). Qed.
Print Assumptions window_overflow.

(* ---- failure checks ---- *)
(* every alert of a pass is for a (name, peer) whose latest metric at that moment exists and has expired, and carries that metric *)
Theorem no_alert_when_fresh now vs st c a : In a (snd (visits now vs (st, c))) ->
  exists m, latest (fst a) st = Some m /\ mexp m < now /\ snd a = Some (mid m).
Proof. exact (no_alert_when_fresh_l now vs st c a). Qed.
Print Assumptions no_alert_when_fresh.

Theorem fresh_is_never_failed now v st c m :
  latest (fst v) st = Some m -> expired now m = false -> visit now v (st, c) = (st, c, []).
Proof. exact (visit_fresh_silent now v st c m). Qed.
Print Assumptions fresh_is_never_failed.

(* from ANY state, over ANY history without a renewal of (name, peer): at most one alert for it, and once
   it has been given the stale metrics are gone *)
Theorem alert_once k h st c : forallb (fun e => negb (adds_key k e)) h = true ->
  (alerts_for k (snd (run h (st, c))) <= 1)%nat /\
  ((1 <= alerts_for k (snd (run h (st, c))))%nat -> latest k (fst (fst (run h (st, c)))) = None).
Proof. exact (alert_once_l k h st c). Qed.
Print Assumptions alert_once.

(* the expiry IS reported: a failure decision on a key whose latest metric is expired (fewer than 6 samples,
   or a positive accrual verdict) alerts with that metric and forgets it — whatever happened before *)
Theorem expired_is_reported now k phi st c m :
  latest k st = Some m -> expired now m = true -> ((length (window k st) < accrual_num)%nat \/ phi = true) ->
  snd (visit now (k, phi) (st, c)) = [(k, Some (mid m))] /\ latest k (fst (fst (visit now (k, phi) (st, c)))) = None.
Proof. exact (visit_reports now k phi st c m). Qed.
Print Assumptions expired_is_reported.

(* S9, kept on record: CheckPeers as written at 9309c15 alerts ceil(n/2) times in one pass *)
Theorem checkpeers_as_written_realert_refuted :
  map alerts_as_written [1; 2; 3; 5; 25]%nat = [1; 1; 2; 3; 13]%nat /\
  map alerts_repaired [1; 2; 3; 5; 25]%nat = [1; 1; 1; 1; 1]%nat.
Proof. exact (conj as_written_table repaired_table). Qed.
Print Assumptions checkpeers_as_written_realert_refuted.

(* ---- publish cadence (the schedule the code asks for; timer latency is not modelled) ---- *)
(* ping: attempts at t0 + k*iv stamped to expire 2*iv later: at every instant t >= t0 the newest ping published expires later *)
Theorem ping_never_lapses t0 iv t : 0 < iv -> t0 <= t ->
  let k := ping_newest t0 iv t in 0 <= k /\ ping_time t0 iv k <= t /\ t < ping_expire t0 iv k.
Proof. exact (ping_never_lapses_l t0 iv t). Qed.
Print Assumptions ping_never_lapses.

(* informers: for every TTL, every pattern of publish errors and of publication delays below the TTL, each attempt
   is made strictly before the expiry stamped by the previous one *)
Theorem informer_never_lapses ttl a script : 0 < ttl -> Forall (fun de => 0 <= fst de < ttl) script ->
  chain_ok ttl (informer_times ttl a script).
Proof. exact (informer_chain ttl a script). Qed.
Print Assumptions informer_never_lapses.

Theorem informer_one_error_tolerated ttl a : 0 < ttl ->
  informer_next ttl (informer_next ttl a 0 false) 0 true < a + ttl.
Proof. exact (informer_one_error ttl a). Qed.
Print Assumptions informer_one_error_tolerated.

(* non-vacuity *)
Example c09_example :
  let h := [EAdd (mk_m 0 0 1 true 5); EAdd (mk_m 1 0 2 true 5); EAdd (mk_m 2 0 1 true 9); EAdd (mk_m 3 0 3 false 9)]%N in
  map mid (latest_metrics 6 0%N (PSome [1; 2; 3]%N) (reach h)) = [2%N] /\
  snd (run (h ++ [ECheck 6 [((0, 2)%N, false); ((0, 1)%N, false)]; ECheck 7 [((0, 2)%N, false)]]) (empty_store, []))
    = [((0, 2)%N, Some 1%N)].
Proof. vm_compute. split; reflexivity. Qed.
