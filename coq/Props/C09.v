(* C09 — Only fresh metrics from members are used; an expired peer alerts once.
   Statements only; every proof is `exact <lemma of Proofs/C09_{Metrics,Monitor,Removed}.v>`.
   Histories `h` are arbitrary lists of events: Add of any metric (any name, peer, validity, expiry),
   RemovePeer, and Check passes = any sequence of failure decisions (CheckPeers / CheckAll in any map
   order, over any peer list) at any instant, each with any accrual verdict (the floating-point phi is an
   oracle bit). `reach h` is the store after h from the empty store. The checker modelled is the repaired
   one (/repo branch fix-S9); the loop as written at 9309c15 is kept as `check_peers_as_written` and
   refuted below. *)
From V Require Import Base.Common Model.C09_Metrics Model.C09_Check Proofs.C09_Metrics Proofs.C09_Monitor Proofs.C09_Removed.
From Coq Require Import Sorting.Sorted.
Open Scope Z_scope.

(* ---- what the monitor reports ---- *)
Theorem latest_one_per_peer h now name ps : NoDup (map mpeer (latest_metrics now name ps (reach h))).
Proof. exact (latest_one_per_peer_l h now name ps). Qed.
Print Assumptions latest_one_per_peer.

(* a reported metric is the last one added for its (name, peer): no later Add for that key in the history *)
Theorem latest_is_most_recent h now name ps m : In m (latest_metrics now name ps (reach h)) ->
  mname m = name /\ latest (mkey m) (reach h) = Some m /\
  exists h1 h2, h = h1 ++ EAdd m :: h2 /\ forallb (fun e => negb (adds_key (mkey m) e)) h2 = true.
Proof. exact (latest_is_most_recent_l h now name ps m). Qed.
Print Assumptions latest_is_most_recent.

Theorem latest_is_fresh h now name ps m : In m (latest_metrics now name ps (reach h)) ->
  mvalid m = true /\ now <= mexp m.
Proof. exact (latest_is_fresh_l h now name ps m). Qed.
Print Assumptions latest_is_fresh.

(* peerset known: members only; PeersFunc failing: nothing *)
Theorem latest_in_peerset h now name ps m : In m (latest_metrics now name ps (reach h)) ->
  match ps with PNone => True | PErr => False | PSome l => In (mpeer m) l end.
Proof. exact (latest_in_peerset_l h now name ps m). Qed.
Print Assumptions latest_in_peerset.

Theorem latest_sorted h now name ps : StronglySorted peer_le (latest_metrics now name ps (reach h)).
Proof. exact (latest_sorted_l h now name ps). Qed.
Print Assumptions latest_sorted.

(* and nothing is withheld: the latest metric of a member, if valid and unexpired, is reported *)
Theorem latest_complete h now name ps m :
  latest (mkey m) (reach h) = Some m -> mname m = name -> mvalid m = true -> now <= mexp m ->
  match ps with PNone => True | PErr => False | PSome l => In (mpeer m) l end ->
  In m (latest_metrics now name ps (reach h)).
Proof. exact (latest_complete_l h now name ps m). Qed.
Print Assumptions latest_complete.

(* more arrivals than the window holds: the ring keeps at most 25 *)
Theorem window_overflow h k : (length (window k (reach h)) <= 25)%nat.
Proof. exact (window_overflow_l h k). Qed.
Print Assumptions window_overflow.

(* ---- failure checks ---- *)
(* every alert of a pass is for a (name, peer) whose latest metric at that moment exists and has expired, and carries that metric *)
Theorem no_alert_when_fresh now vs st c a : In a (snd (visits now vs (st, c))) ->
  exists m, latest (fst a) st = Some m /\ mexp m < now /\ snd a = Some (mid m).
Proof. exact (no_alert_when_fresh_l now vs st c a). Qed.
Print Assumptions no_alert_when_fresh.

Theorem fresh_is_never_failed now v st c m :
  latest (fst v) st = Some m -> expired now m = false -> visit now v (st, c) = (st, c, []).
Proof. exact (visit_fresh_silent now v st c m). Qed.
Print Assumptions fresh_is_never_failed.

(* from ANY state, over ANY history without a renewal of (name, peer): at most one alert for it, and once
   it has been given the stale metrics are gone *)
Theorem alert_once k h st c : forallb (fun e => negb (adds_key k e)) h = true ->
  (alerts_for k (snd (run h (st, c))) <= 1)%nat /\
  ((1 <= alerts_for k (snd (run h (st, c))))%nat -> latest k (fst (fst (run h (st, c)))) = None).
Proof. exact (alert_once_l k h st c). Qed.
Print Assumptions alert_once.

(* the expiry IS reported: a failure decision on a key whose latest metric is expired (fewer than 6 samples,
   or a positive accrual verdict) alerts with that metric and forgets it — whatever happened before *)
Theorem expired_is_reported now k phi st c m :
  latest k st = Some m -> expired now m = true -> ((length (window k st) < accrual_num)%nat \/ phi = true) ->
  snd (visit now (k, phi) (st, c)) = [(k, Some (mid m))] /\ latest k (fst (fst (visit now (k, phi) (st, c)))) = None.
Proof. exact (visit_reports now k phi st c m). Qed.
Print Assumptions expired_is_reported.

(* S9, kept on record: CheckPeers as written at 9309c15 alerts ceil(n/2) times in one pass *)
Theorem checkpeers_as_written_realert_refuted :
  map alerts_as_written [1; 2; 3; 5; 25]%nat = [1; 1; 2; 3; 13]%nat /\
  map alerts_repaired [1; 2; 3; 5; 25]%nat = [1; 1; 1; 1; 1]%nat.
Proof. exact (conj as_written_table repaired_table). Qed.
Print Assumptions checkpeers_as_written_realert_refuted.

(* ---- publish cadence (the schedule the code asks for; timer latency is not modelled) ---- *)
(* ping: attempts at t0 + k*iv stamped to expire 2*iv later: at every instant t >= t0 the newest ping published expires later *)
Theorem ping_never_lapses t0 iv t : 0 < iv -> t0 <= t ->
  let k := ping_newest t0 iv t in 0 <= k /\ ping_time t0 iv k <= t /\ t < ping_expire t0 iv k.
Proof. exact (ping_never_lapses_l t0 iv t). Qed.
Print Assumptions ping_never_lapses.

(* informers: for every TTL, every pattern of publish errors and of publication delays below the TTL, each attempt
   is made strictly before the expiry stamped by the previous one *)
Theorem informer_never_lapses ttl a script : 0 < ttl -> Forall (fun de => 0 <= fst de < ttl) script ->
  chain_ok ttl (informer_times ttl a script).
Proof. exact (informer_chain ttl a script). Qed.
Print Assumptions informer_never_lapses.

Theorem informer_one_error_tolerated ttl a : 0 < ttl ->
  informer_next ttl (informer_next ttl a 0 false) 0 true < a + ttl.
Proof. exact (informer_one_error ttl a). Qed.
Print Assumptions informer_one_error_tolerated.

(* non-vacuity *)
Example c09_example :
  let h := [EAdd (mk_m 0 0 1 true 5); EAdd (mk_m 1 0 2 true 5); EAdd (mk_m 2 0 1 true 9); EAdd (mk_m 3 0 3 false 9)]%N in
  map mid (latest_metrics 6 0%N (PSome [1; 2; 3]%N) (reach h)) = [2%N] /\
  snd (run (h ++ [ECheck 6 [((0, 2)%N, false); ((0, 1)%N, false)]; ECheck 7 [((0, 2)%N, false)]]) (empty_store, []))
    = [((0, 2)%N, Some 1%N)].
Proof. vm_compute. split; reflexivity. Qed.

(* ---- the run-time monitors of Model/C09_Check.v (spec_walk: codes 2, 10, 11, 13) and the theorems above ----
   A harness case is a history `ops` of operations carrying what the implementation answered (OLatest: the ids returned;
   OCheckPeers / OCheckAll: the alerts drained). `spec_walk ops [] 0 PNone []` lists the codes of the failed monitors;
   the case passes when it is empty. `uniq_ids`: the harness numbers the metrics it adds 0, 1, 2, ... *)

(* completeness: write the model's own answers into any history (annotate): no monitor fires, for every history *)
Theorem hist_model_passes_monitor ops : uniq_ids ops -> spec_walk (annotate ops ms0) [] 0 PNone [] = [].
Proof. exact (model_passes_monitor_l ops). Qed.
Print Assumptions hist_model_passes_monitor.

(* ... and that annotated history is one the model-vs-implementation comparison (code 1) accepts *)
Theorem hist_annotate_agrees ops : mrun (annotate ops ms0) ms0 = true.
Proof. exact (annotate_agrees_l ops ms0). Qed.
Print Assumptions hist_annotate_agrees.

(* the same from the comparison alone: whenever the implementation's answers agree with the model (code 1 not produced) no
   other code is produced. The comparison canonicalises alerts through alert_code, which separates them only for peer
   indices < 1000 and metric ids < 999 (small_history; see alert_code_collision_example) *)
Theorem hist_agreeing_passes_monitor ops : uniq_ids ops -> small_history ops -> mrun ops ms0 = true ->
  spec_walk ops [] 0 PNone [] = [].
Proof. exact (agreeing_passes_monitor_l ops). Qed.
Print Assumptions hist_agreeing_passes_monitor.

(* soundness, code 2: every LatestMetrics answer of a history on which code 2 is not produced names metrics that are one per
   peer, each the most recently added of its (name, peer), of the asked name, valid, unexpired at that instant, of a member *)
Theorem latest_monitor_sound ops : uniq_ids ops -> ~ In 2%N (spec_walk ops [] 0 PNone []) ->
  forall pre name obs post, ops = pre ++ OLatest name obs :: post ->
  latest_spec (time_at pre) (peerset_at pre) (rev pre) name obs.
Proof. exact (latest_monitor_sound_l ops). Qed.
Print Assumptions latest_monitor_sound.

(* code 10: every alert drained after a check is for a (name, peer) whose most recently added metric had expired *)
Theorem alerts_fresh_monitor_sound ops : ~ In 10%N (spec_walk ops [] 0 PNone []) ->
  forall pre o obs post, ops = pre ++ o :: post -> obs_of_check o = Some obs ->
  forall a, In a obs -> exists m, most_recent_add (rev pre) m /\ mkey m = fst a /\ mexp m < time_at pre.
Proof. exact (alerts_fresh_monitor_sound_l ops). Qed.
Print Assumptions alerts_fresh_monitor_sound.

(* code 11: over any stretch of the history without an add for (name, peer), the checks report at most one alert for it *)
Theorem alerts_once_monitor_sound ops : ~ In 11%N (spec_walk ops [] 0 PNone []) ->
  forall k pre seg post, ops = pre ++ seg ++ post -> forallb (fun o => negb (adds_to k o)) seg = true ->
  (alerts_in k seg <= 1)%nat.
Proof. exact (alerts_once_monitor_sound_l ops). Qed.
Print Assumptions alerts_once_monitor_sound.

(* code 13: a CheckPeers over a (name, peer) whose most recent metric is expired, not removed and not yet alerted for, reports it
   (fewer than 6 samples ever, or a positive accrual verdict) *)
Theorem reported_monitor_sound ops : ~ In 13%N (spec_walk ops [] 0 PNone []) ->
  forall pre peers obs post, ops = pre ++ OCheckPeers peers obs :: post ->
  forall n p m, In n (names_added (rev pre)) -> In p peers -> last_add (n, p) (rev pre) = Some m -> mexp m < time_at pre ->
    removed_since_add (n, p) (rev pre) = false -> alerts_since_add (n, p) (rev pre) = 0%nat ->
    ((count_adds (n, p) (rev pre) < 6)%nat \/ phi_of (phi_at pre) (n, p) = true) ->
    (1 <= alerts_for (n, p) obs)%nat.
Proof. exact (reported_monitor_sound_l ops). Qed.
Print Assumptions reported_monitor_sound.

(* non-vacuity: a history with renewals, expiry, a peerset, two checks and three reads meets every premise and passes;
   the same history with a stale id reported, or a second alert, does not *)
Example c09_monitor_example :
  let h obs1 al2 := [OAdd (mk_m 0 0 1 true 5); OAdd (mk_m 1 0 2 true 5); OAdd (mk_m 2 0 1 true 9); OLatest 0 [2; 1];
                OPeerset (PSome [1]); OTick 6; OLatest 0 obs1; OCheckPeers [1; 2] [((0, 2), Some 1)];
                OCheckPeers [1; 2] al2; OLatest 0 [2]]%N in
  uniq_ids (h [2%N] []) /\ small_history (h [2%N] []) /\ mrun (h [2%N] []) ms0 = true /\
  spec_walk (h [2%N] []) [] 0 PNone [] = [] /\ annotate (h [] [((0, 0)%N, None)]) ms0 = h [2%N] [] /\
  spec_walk (h [0%N] []) [] 0 PNone [] = [2%N] /\ spec_walk (h [2%N] [((0, 2)%N, None)]) [] 0 PNone [] = [11%N].
Proof. cbv zeta. split; [|split; [|repeat split; vm_compute; reflexivity]].
  - unfold uniq_ids. simpl. repeat constructor; simpl; intuition discriminate.
  - split.
    + simpl. intros m H. unfold small_metric. repeat (destruct H as [<-|H]; [simpl; lia|]). destruct H.
    + intros o obs a Ho E Ha. simpl in Ho.
      repeat (destruct Ho as [<-|Ho]; [try discriminate; simpl in E; injection E as <-; simpl in Ha;
                                        repeat (destruct Ha as [<-|Ha]; [unfold small_alert; simpl; lia|]); destruct Ha|]).
      destruct Ho. Qed.

(* the limitation named in hist_agreeing_passes_monitor: two different alerts with one canonical code *)
Example alert_code_collision_example : alerts_eqb [((0, 1)%N, None)] [((0, 0)%N, Some 999%N)] = true.
Proof. exact alert_code_collision. Qed.

(* ---- a removed peer is forgotten (Store.RemovePeer, called when a peer leaves the cluster) ----
   After RemovePeer p, and for as long as no metric of p is added again, the store holds no latest metric of p under any
   name and LatestMetrics reports none for any name, instant and peerset — whatever Adds of other peers, other removals
   and Check passes happen before or after. The removal changes nobody else's latest metric. *)
Theorem removed_peer_forgotten h1 h2 p k : snd k = p -> forallb (fun e => negb (adds_peer p e)) h2 = true ->
  latest k (reach (h1 ++ ERemovePeer p :: h2)) = None.
Proof. exact (removed_peer_forgotten_l h1 h2 p k). Qed.
Print Assumptions removed_peer_forgotten.

Theorem removed_peer_not_reported h1 h2 p now name ps m : forallb (fun e => negb (adds_peer p e)) h2 = true ->
  In m (latest_metrics now name ps (reach (h1 ++ ERemovePeer p :: h2))) -> mpeer m <> p.
Proof. exact (removed_peer_not_reported_l h1 h2 p now name ps m). Qed.
Print Assumptions removed_peer_not_reported.

Theorem remove_peer_touches_only_that_peer h p k : snd k <> p ->
  latest k (reach (h ++ [ERemovePeer p])) = latest k (reach h).
Proof. exact (remove_peer_frame_l h p k). Qed.
Print Assumptions remove_peer_touches_only_that_peer.

(* non-vacuity: peers 1 and 2 publish fresh metrics under two names, 1 is removed, 2 publishes again: only 2 is reported;
   before the removal both were; and once 1 publishes again it is back *)
Example removed_peer_example :
  let a1 := mk_m 1 0 1 true 100 in let b1 := mk_m 2 7 1 true 100 in let a2 := mk_m 3 0 2 true 100 in
  let a2' := mk_m 4 0 2 true 200 in let a1' := mk_m 5 0 1 true 300 in
  let h1 := [EAdd a1; EAdd b1; EAdd a2] in let h2 := [EAdd a2'; ECheck 50 [((0%N, 2%N), true)]] in
  forallb (fun e => negb (adds_peer 1 e)) h2 = true /\
  latest_metrics 50 0 PNone (reach h1) = [a1; a2] /\
  latest_metrics 50 0 PNone (reach (h1 ++ ERemovePeer 1 :: h2)) = [a2'] /\
  latest_metrics 50 7 PNone (reach (h1 ++ ERemovePeer 1 :: h2)) = [] /\
  latest_metrics 50 0 PNone (reach (h1 ++ ERemovePeer 1 :: h2 ++ [EAdd a1'])) = [a1'; a2'].
Proof. repeat split; vm_compute; reflexivity. Qed.
