(* C02 — statements only. *)
From V Require Import Base.Common Model.C02_Batch Proofs.C02_Batch.
Open Scope N_scope.

Theorem batch_worker_never_blocks (A : Type) qcap maxsize (es : list (bev A)) :
  blocked (brun (mk_bcfg qcap maxsize true) es) = false.
Proof. exact (never_blocks (mk_bcfg qcap maxsize true) es eq_refl). Qed.
Print Assumptions batch_worker_never_blocks.
