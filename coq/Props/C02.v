(* C02 — CRDT consensus: replicas converge; batching neither loses nor reorders operations; hooks reach the tracker.
   Statements only; every proof is `exact <lemma of Proofs/C02_*.v>`.

   Layer A (consensus.go LogPin/LogUnpin/batchWorker): the machine `bstep` over ALL event lists: submissions,
   worker iterations, timer expiries, and the outcome of every Add/Rm and Commit (Go < 1.23 timer semantics).
   Layer B (go-ds-crdt v0.1.21 set.go / crdt.go as written): `merge` over ALL lists of deltas and ALL delivery
   orders (permutations); the write path of one replica over ALL histories and commit outcomes.
   Layer C (PutHook/DeleteHook -> PinTracker.Track/Untrack): `tracker_call`. *)
From V Require Import Base.Common Model.C02_Batch Model.C02_BatchTime Model.C02_BatchQueue Model.C02_Set Model.C02_Net Model.C02_Check
  Proofs.C02_Batch Proofs.C02_BatchTime Proofs.C02_BatchQueue Proofs.C02_Set Proofs.C02_Net Proofs.C02_Local Proofs.C02_Check.
From Coq Require Import Permutation.
Open Scope N_scope.

(* ------------------------------------------------------------------ layer A: the batch worker *)

(* In every reachable state: the accepted operations are exactly the dequeued ones followed by the queue, in
   order; and the dequeued ones whose Add/Rm succeeded are exactly the committed batches followed by the pending batch. *)
Theorem batch_no_loss_no_reorder (A : Type) (c : bcfg) (es : list (bev A)) :
  let s := brun c es in
  accepted s = map fst (tlog s) ++ queue s /\ added (tlog s) = concat (committed s) ++ pend s.
Proof. exact (run_inv_order c es). Qed.
Print Assumptions batch_no_loss_no_reorder.

(* ErrMaxQueueSizeReached: the operation is recorded as refused and nothing else changes *)
Theorem batch_refused_has_no_effect (A : Type) (c : bcfg) (s : bst A) (i : A) :
  qcap c <= N.of_nat (length (queue s)) ->
  bstep c s (Enq i) = mk_bst (queue s) (cur s) (tm s) (pend s) (committed s) (tlog s) (pc s) (blocked s) (accepted s) (refused s ++ [i]).
Proof. exact (refused_no_effect c s i). Qed.
Print Assumptions batch_refused_has_no_effect.

Theorem batch_accepts_when_room (A : Type) (c : bcfg) (s : bst A) (i : A) :
  N.of_nat (length (queue s)) < qcap c ->
  queue (bstep c s (Enq i)) = queue s ++ [i] /\ accepted (bstep c s (Enq i)) = accepted s ++ [i] /\ refused (bstep c s (Enq i)) = refused s.
Proof. exact (accepted_when_room c s i). Qed.
Print Assumptions batch_accepts_when_room.

Theorem batch_queue_bounded (A : Type) (c : bcfg) (es : list (bev A)) :
  N.of_nat (length (queue (brun c es))) <= qcap c.
Proof. exact (run_inv_cap c es). Qed.
Print Assumptions batch_queue_bounded.

(* the Add/Rm that makes the batch reach MaxBatchSize is followed by the commit and by nothing else; when the commit
   succeeds the whole batch, in order, becomes the next committed batch *)
Theorem batch_commit_on_size (A : Type) (c : bcfg) (s : bst A) (i : A) (q : list A) :
  blocked s = false -> pc s = PIdle -> queue s = i :: q -> maxsize c <= cur s + 1 ->
  let s1 := bstep c s (Take true) in
  (pc s1 = PCommit /\ pend s1 = pend s ++ [i] /\ committed s1 = committed s /\ blocked s1 = false /\ queue s1 = q) /\
  (forall e, pc (bstep c s1 e) = PIdle -> exists ok, e = SizeCommit ok).
Proof. exact (fun B P Q M => conj (take_reaches_size c s i q B P Q M)
               (fun e => only_commit_follows c _ e (proj1 (proj2 (proj2 (proj2 (take_reaches_size c s i q B P Q M)))))
                                              (proj1 (take_reaches_size c s i q B P Q M)))). Qed.
Print Assumptions batch_commit_on_size.

Theorem batch_size_commit_effect (A : Type) (c : bcfg) (s : bst A) :
  blocked s = false -> pc s = PCommit -> armed (tm s) ->
  let s2 := bstep c s (SizeCommit true) in
  pend s2 = [] /\ committed s2 = committed s ++ [pend s] /\ cur s2 = 0 /\ blocked s2 = false /\ pc s2 = PIdle.
Proof. exact (size_commit_ok c s). Qed.
Print Assumptions batch_size_commit_effect.

(* a non-empty batch always has its age commit pending (the timer runs, or has fired and is not read yet) ... *)
Theorem batch_age_commit_pending (A : Type) qcap maxsize (es : list (bev A)) :
  let s := brun (mk_bcfg qcap maxsize true true true) es in pend s <> [] -> armed (tm s).
Proof. exact (age_commit_pending (mk_bcfg qcap maxsize true true true) es eq_refl). Qed.
Print Assumptions batch_age_commit_pending.

(* ... and the timer branch commits the whole batch, or keeps it and re-arms the timer *)
Theorem batch_commit_on_age (A : Type) (c : bcfg) (s : bst A) (ok : bool) :
  blocked s = false -> pc s = PIdle -> t_chan (tm s) = true -> 0 < cur s ->
  let s1 := bstep c s (OnTimer ok) in
  if ok then pend s1 = [] /\ committed s1 = committed s ++ [pend s] /\ cur s1 = 0
  else pend s1 = pend s /\ committed s1 = committed s /\ (fixed_S2 c = true -> t_active (tm s1) = true).
Proof. exact (commit_on_age c s ok). Qed.
Print Assumptions batch_commit_on_age.

(* S28, repaired (fix: crdt batch worker does not commit an empty batch): when the timer fires for a batch that holds
   nothing (it was armed by an operation whose Add/Rm failed) the worker reads the channel and does nothing else ... *)
Theorem batch_empty_batch_not_committed (A : Type) (c : bcfg) (s : bst A) (ok : bool) :
  fixed_S28 c = true -> blocked s = false -> pc s = PIdle -> t_chan (tm s) = true -> cur s = 0 ->
  bstep c s (OnTimer ok) = mk_bst (queue s) (cur s) (t_recv (tm s)) (pend s) (committed s) (tlog s) PIdle false (accepted s) (refused s).
Proof. exact (empty_batch_not_committed c s ok). Qed.
Print Assumptions batch_empty_batch_not_committed.

(* ... hence no committed batch is ever empty: every schedule, every outcome of every Add/Rm and Commit *)
Theorem batch_never_commits_empty_batch (A : Type) qcap maxsize (es : list (bev A)) :
  Forall (fun b : list A => b <> []) (committed (brun (mk_bcfg qcap maxsize true true true) es)).
Proof. exact (never_commits_empty (mk_bcfg qcap maxsize true true true) es eq_refl eq_refl). Qed.
Print Assumptions batch_never_commits_empty_batch.

(* the code before the fix: the only operation of a batch fails in Add/Rm, the timer fires, an empty batch is committed *)
Theorem batch_empty_commit_before_fix_refuted :
  exists qcap maxsize (es : list (bev N)), In [] (committed (brun (mk_bcfg qcap maxsize true false false) es)).
Proof. exact empty_commit_before_fix. Qed.
Print Assumptions batch_empty_commit_before_fix_refuted.

(* S29, repaired (fix: crdt LogPin with batching refuses a pin that cannot be serialized): the refusal is recorded and
   nothing else changes *)
Theorem batch_rejected_has_no_effect (A : Type) (c : bcfg) (s : bst A) (i : A) :
  bstep c s (Reject i) = mk_bst (queue s) (cur s) (tm s) (pend s) (committed s) (tlog s) (pc s) (blocked s) (accepted s) (refused s ++ [i]).
Proof. exact (rejected_no_effect c s i). Qed.
Print Assumptions batch_rejected_has_no_effect.

(* S35, repaired (fix: crdt Shutdown commits the operations already accepted for batching): Shutdown closes the queue
   (LogPin/LogUnpin are refused from then on: `Reject`), the worker goes on taking what is queued and, when it finds the
   closed queue empty, commits the open batch (`StopCommit`) and returns; Shutdown waits for that. For every schedule that
   brought the worker to that point, once the commit succeeds every accepted operation has been handed to Add/Rm and every
   operation whose Add/Rm succeeded is in a committed batch: a restart on the same datastore sees all of them. *)
Theorem batch_shutdown_loses_nothing_accepted (A : Type) qcap maxsize s28 (es : list (bev A)) :
  let c := mk_bcfg qcap maxsize true s28 true in
  let s := brun c es in queue s = [] -> pc s = PIdle ->
  let s1 := bstep c s (StopCommit true) in
  pend s1 = [] /\ queue s1 = [] /\ accepted s1 = map fst (tlog s1) /\ added (tlog s1) = concat (committed s1).
Proof. exact (shutdown_loses_nothing (mk_bcfg qcap maxsize true s28 true) es eq_refl eq_refl). Qed.
Print Assumptions batch_shutdown_loses_nothing_accepted.

(* the code before the fix: the worker returned on ctx.Done(): an operation in the open batch and one in the queue, both
   accepted, are in no committed batch *)
Theorem batch_shutdown_drops_accepted_before_fix_refuted :
  exists qcap maxsize (es : list (bev N)),
    let s := brun (mk_bcfg qcap maxsize true true false) es in accepted s = [1; 2] /\ committed s = [].
Proof. exact shutdown_drops_accepted_before_fix. Qed.
Print Assumptions batch_shutdown_drops_accepted_before_fix_refuted.

(* S2, repaired (fix: re-arm the crdt batch timer when the age-limit commit fails): full strength, every schedule,
   every outcome of every Add/Rm and Commit, every queue capacity and batch size *)
Theorem batch_worker_never_blocks (A : Type) qcap maxsize (es : list (bev A)) :
  blocked (brun (mk_bcfg qcap maxsize true true true) es) = false.
Proof. exact (never_blocks (mk_bcfg qcap maxsize true true true) es eq_refl). Qed.
Print Assumptions batch_worker_never_blocks.

(* the code before the fix: the schedule observed on the real code blocks the worker with an accepted operation queued *)
Theorem batch_timer_deadlock_before_fix_refuted :
  exists qcap maxsize (es : list (bev N)),
    let s := brun (mk_bcfg qcap maxsize false false false) es in blocked s = true /\ queue s <> [] /\ accepted s = [1; 2; 3; 4].
Proof. exact deadlock_before_fix_stmt. Qed.
Print Assumptions batch_timer_deadlock_before_fix_refuted.

Theorem batch_worker_never_blocks_before_fix_partial (A : Type) (c : bcfg) (es : list (bev A)) :
  no_age_failure es = true -> blocked (brun c es) = false.
Proof. exact (never_blocks_unfixed_partial c es). Qed.
Print Assumptions batch_worker_never_blocks_before_fix_partial.

(* ------------------------------------------------------------------ layer A with a clock (Model/C02_BatchTime.v) *)

(* the timed machine (Reset sets an expiry, the timer fires no earlier than it, the clock moves with Tick) is a refinement
   of `bstep`: every theorem above holds of every timed run *)
Theorem batch_timed_refines_untimed (A : Type) (c : tcfg) (tes : list (cev A)) :
  reset_every_item c = false -> exists es, core (trun c tes) = brun (tc c) es.
Proof. exact (trun_untimed c tes). Qed.
Print Assumptions batch_timed_refines_untimed.

(* Reset is called for the first operation of a batch (and after a failed age-limit commit, fix 051502e) and never in
   between: in every reachable state with a non-empty pending batch either the timer has fired and the worker has not read
   the channel yet, or it is running and expires exactly max_age after the anchor of the batch = the instant its first
   operation was taken from the queue, or the last failed age-limit commit after that. Every schedule, every outcome. *)
Theorem batch_age_timer_discipline (A : Type) qcap maxsize age (tes : list (cev A)) :
  let c := mk_tcfg (mk_bcfg qcap maxsize true true true) age false in
  let s := trun c tes in
  length (ptimes (ti s)) = length (pend (core s)) /\
  (pend (core s) <> [] ->
     (t_active (tm (core s)) = true /\ twhen (ti s) = age_anchor s + age) \/ t_chan (tm (core s)) = true).
Proof. exact (age_timer_discipline (mk_tcfg (mk_bcfg qcap maxsize true true true) age false) tes eq_refl eq_refl). Qed.
Print Assumptions batch_age_timer_discipline.

(* the age limit: in every schedule in which the runtime fires a due timer within lf and the worker reads a fired timer
   within lw, a pending batch is never older than max_age + lf + lw counted from its anchor ... *)
Theorem batch_age_bound_anchor (A : Type) qcap maxsize age lf lw (tes : list (cev A)) :
  let c := mk_tcfg (mk_bcfg qcap maxsize true true true) age false in
  timely_from lf lw c tinit tes = true ->
  let s := trun c tes in
  pend (core s) <> [] -> now (ti s) <= age_anchor s + age + lf + lw.
Proof. exact (age_bound (mk_tcfg (mk_bcfg qcap maxsize true true true) age false) lf lw tes eq_refl eq_refl). Qed.
Print Assumptions batch_age_bound_anchor.

(* ... so an operation that is still waiting in the batch was taken from the queue at most max_age + lf + lw ago, as long
   as no age-limit commit of its batch failed; after such a failure the bound counts from the failure (the re-arm).
   Operations leave the pending batch only through a successful commit (batch_no_loss_no_reorder). *)
Theorem batch_age_bound (A : Type) qcap maxsize age lf lw (tes : list (cev A)) :
  let c := mk_tcfg (mk_bcfg qcap maxsize true true true) age false in
  timely_from lf lw c tinit tes = true ->
  let s := trun c tes in
  forall t, In t (ptimes (ti s)) ->
    match rearm (ti s) with
    | None => now (ti s) <= t + age + lf + lw
    | Some r => now (ti s) <= r + age + lf + lw
    end.
Proof. exact (age_bound_items (mk_tcfg (mk_bcfg qcap maxsize true true true) age false) lf lw tes eq_refl eq_refl). Qed.
Print Assumptions batch_age_bound.

(* the bound is about WHERE Reset is called: the machine that re-arms the timer on every dequeued operation (not the code)
   has a timely schedule in which the first operation of a trickle is still waiting after max_age + lf + lw *)
Theorem batch_age_bound_fails_when_rearmed_on_every_item :
  exists (tes : list (cev N)) t,
    timely_from 1 1 (every_item_cfg 10) tinit tes = true /\
    let s := trun (every_item_cfg 10) tes in
    In t (ptimes (ti s)) /\ rearm (ti s) = None /\ ~ now (ti s) <= t + 10 + 1 + 1.
Proof. exact every_item_breaks_bound. Qed.
Print Assumptions batch_age_bound_fails_when_rearmed_on_every_item.

(* the age limit counted from ACCEPTANCE (LogPin/LogUnpin returned nil): the observer of Model/C02_BatchQueue.v remembers when
   every operation was accepted. In every schedule that is timely for the runtime (lf, lw) and for the worker (an operation
   waiting at the select is taken within lt, a size commit lasts at most lc): an operation still in the queue was accepted
   at most qcap * (lt + lc) ago, and one in the pending batch at most qcap * (lt + lc) + max_age + lf + lw ago (after a
   failed age-limit commit of its batch: max_age + lf + lw from that failure). `accept_to_commit_limit` is the limit the
   monitor of H1 applies to the measured (accepted, in effect) instants. *)
Theorem batch_accept_to_commit_bound (A : Type) qcap maxsize s28 age lf lw lt lc (tes : list (cev A)) :
  let c := mk_tcfg (mk_bcfg qcap maxsize true s28 s28) age false in
  timely_all lf lw lt lc c (tinit, qinit) tes = true ->
  let sq := qrun c tes in
  (forall a, In a (qtimes (snd sq)) -> now (ti (fst sq)) <= a + queue_wait_limit c lt lc) /\
  (forall a, In a (patimes (snd sq)) ->
     match rearm (ti (fst sq)) with
     | None => now (ti (fst sq)) <= a + accept_to_commit_limit c lf lw lt lc
     | Some r => now (ti (fst sq)) <= r + age + lf + lw
     end).
Proof. exact (accept_bound lf lw lt lc (mk_tcfg (mk_bcfg qcap maxsize true s28 s28) age false) eq_refl eq_refl tes). Qed.
Print Assumptions batch_accept_to_commit_bound.

(* ------------------------------------------------------------------ layer B: the replicated set *)

(* any two delivery orders of the same deltas: same members *)
Theorem crdt_membership_converges (ds ds' : list delta) (k : key) :
  Forall wf_delta ds -> Permutation ds ds' -> present (run ds rempty) k = present (run ds' rempty) k.
Proof. exact (membership_converges ds ds' k). Qed.
Print Assumptions crdt_membership_converges.

Theorem crdt_liveness_converges_from_any_state (ds ds' : list delta) (r : rep) (k : key) :
  Permutation ds ds' -> live (run ds r) k = live (run ds' r) k.
Proof. exact (live_converges ds ds' r k). Qed.
Print Assumptions crdt_liveness_converges_from_any_state.

(* values: false of the code as written (finding crdt-value-divergence-tombstoned-higher-priority, S3) *)
Theorem crdt_value_converges_refuted :
  exists ds ds' k, Forall wf_delta ds /\ Permutation ds ds' /\ value (run ds rempty) k <> value (run ds' rempty) k.
Proof. exact (ex_intro _ [s3_e1; s3_tb; s3_e2] (ex_intro _ [s3_e2; s3_tb; s3_e1] (ex_intro _ 7
         (conj s3_wf (conj s3_perm s3_neq))))). Qed.
Print Assumptions crdt_value_converges_refuted.

(* second shape (finding crdt-value-divergence-duplicate-key-in-delta): no tombstone at all *)
Theorem crdt_value_converges_dupkey_refuted :
  exists ds ds' k, Forall wf_delta ds /\ (forall d, In d ds -> d_rms d = []) /\ Permutation ds ds' /\
                   value (run ds rempty) k <> value (run ds' rempty) k.
Proof. exact (ex_intro _ [dup_a; dup_b] (ex_intro _ [dup_b; dup_a] (ex_intro _ 7
         (conj dup_wf (conj dup_norms (conj (perm_swap dup_b dup_a []) dup_neq)))))). Qed.
Print Assumptions crdt_value_converges_dupkey_refuted.

(* under the guard that excludes exactly the two shapes: no delta adds k twice with different values, and no tombstoned
   element of k has a (priority, value) above every surviving element of k *)
Theorem crdt_value_converges_partial (ds ds' : list delta) (k : key) :
  value_guard ds k -> Permutation ds ds' -> value (run ds rempty) k = value (run ds' rempty) k.
Proof. exact (value_converges_partial ds ds' k). Qed.
Print Assumptions crdt_value_converges_partial.

(* ------------------------------------------------------------------ who merges what (Model/C02_Net.v) *)

(* A peer merges an update iff it trusts its signer, whatever peer it was received from. Hence any two peers that trust
   the same signers among those that published, and to which every published update has arrived (each through any path,
   in any order), hold the same members ... *)
Theorem crdt_trusting_peers_converge (pol : peer -> tpolicy) (pub : list sdelta) (x y : peer) (ax ay : list arrival) (k : key) :
  Forall wf_delta (map sd_delta pub) ->
  (forall d, In d pub -> trusts pol x (sd_signer d) = trusts pol y (sd_signer d)) ->
  Permutation (map snd ax) pub -> Permutation (map snd ay) pub ->
  present (pinset_of pol x ax) k = present (pinset_of pol y ay) k.
Proof. exact (trusting_peers_converge pol pub x y ax ay k). Qed.
Print Assumptions crdt_trusting_peers_converge.

(* ... and the same pin, outside the two shapes of the dependency's value divergence (crdt_value_converges_partial) *)
Theorem crdt_trusting_peers_values_converge_partial (pol : peer -> tpolicy) (pub : list sdelta) (x y : peer) (ax ay : list arrival) (k : key) :
  value_guard (inbox pol x pub) k ->
  (forall d, In d pub -> trusts pol x (sd_signer d) = trusts pol y (sd_signer d)) ->
  Permutation (map snd ax) pub -> Permutation (map snd ay) pub ->
  value (pinset_of pol x ax) k = value (pinset_of pol y ay) k.
Proof. exact (trusting_peers_values_converge pol pub x y ax ay k). Qed.
Print Assumptions crdt_trusting_peers_values_converge_partial.

(* two peers that trust each other agree on every signer when the updates are theirs *)
Theorem crdt_mutual_trust_same_signers (pol : peer -> tpolicy) (pub : list sdelta) (x y : peer) :
  trusts pol x y = true -> trusts pol y x = true ->
  (forall d, In d pub -> sd_signer d = x \/ sd_signer d = y) ->
  forall d, In d pub -> trusts pol x (sd_signer d) = trusts pol y (sd_signer d).
Proof. exact (mutual_trust_agree pol pub x y). Qed.
Print Assumptions crdt_mutual_trust_same_signers.

(* which updates arrive at all: gossipsub forwards a message only after the forwarder's own validator accepted it, so an
   update travels along links whose intermediate peers all trust its signer; whatever reaches a peer is trusted by it *)
Theorem crdt_deliverable_needs_trust (n : nat) (pol : peer -> tpolicy) (links : list link) (s x : peer) :
  deliverable n pol links s x = true -> trusts pol x s = true.
Proof. exact (deliverable_needs_trust n pol links s x). Qed.
Print Assumptions crdt_deliverable_needs_trust.

(* two peers that the same published updates can reach ("have exchanged all updates") hold the same members, whatever the
   order and the forwarder of each arrival: the clause H3 checks between every comparable pair *)
Theorem crdt_reachable_peers_converge (n : nat) (pol : peer -> tpolicy) (links : list link) (pub : list sdelta)
        (x y : peer) (ax ay : list arrival) (k : key) :
  Forall wf_delta (map sd_delta pub) ->
  (forall d, In d pub -> deliverable n pol links (sd_signer d) x = deliverable n pol links (sd_signer d) y) ->
  Permutation (map snd ax) (filter (fun d => deliverable n pol links (sd_signer d) x) pub) ->
  Permutation (map snd ay) (filter (fun d => deliverable n pol links (sd_signer d) y) pub) ->
  present (pinset_of pol x ax) k = present (pinset_of pol y ay) k.
Proof. exact (reachable_peers_converge n pol links pub x y ax ay k). Qed.
Print Assumptions crdt_reachable_peers_converge.

(* ------------------------------------------------------------------ hooks (layer C) *)

(* every merge that changes the value of k (appears, changes, disappears) emits the matching hook: false as written *)
Theorem crdt_hooks_cover_changes_refuted :
  exists r d k, value (merge r d) k <> value r k /\
    match value (merge r d) k with Some v => ~ In (HPut k v) (merge_hooks r d) | None => ~ In (HDel k) (merge_hooks r d) end.
Proof. exact (ex_intro _ (run [s3_e1; s3_tb] rempty) (ex_intro _ s3_e2 (ex_intro _ 7 hook_missing_stmt))). Qed.
Print Assumptions crdt_hooks_cover_changes_refuted.

(* for every state and delta, when no add of an absent key loses against the register left by a tombstoned element *)
Theorem crdt_hooks_cover_changes_partial (r : rep) (d : delta) (k : key) :
  no_stale_loss r d k -> value (merge r d) k <> value r k ->
  match value (merge r d) k with
  | Some v => In (Track k v) (map tracker_call (merge_hooks r d))
  | None => In (Untrack k) (map tracker_call (merge_hooks r d))
  end.
Proof. exact (hooks_reach_tracker r d k). Qed.
Print Assumptions crdt_hooks_cover_changes_partial.

(* ------------------------------------------------------------------ one replica, its own writes *)

(* batching: whatever the grouping into batches and whichever commits fail at the tombstone or element write,
   after a successful commit the pinset is the last-writer-wins map of all operations handed to the batch so far *)
Theorem crdt_local_is_map_batched_partial (es : list lev) (k : key) :
  batch_mode es = true -> no_heads_failure es = true ->
  value (l_st (lrun (es ++ [LCommit POk]))) k = aget k (spec_map es).
Proof. exact (fun B N => batch_mode_after_commit es B N k). Qed.
Print Assumptions crdt_local_is_map_batched_partial.

(* without batching: the pinset is the last-writer-wins map of the writes that returned nil *)
Theorem crdt_local_is_map_direct_partial (es : list lev) (k : key) :
  direct_mode es = true -> no_heads_failure es = true -> outcomes_possible linit es = true ->
  value (l_st (lrun es)) k = aget k (spec_map es).
Proof. exact (fun D N O => direct_mode_agrees es D N O k). Qed.
Print Assumptions crdt_local_is_map_direct_partial.

(* with a failure at the heads write (finding crdt-republish-same-priority-after-heads-failure) the later pin is lost *)
Theorem crdt_local_is_map_refuted :
  exists es k, direct_mode es = true /\ outcomes_possible linit es = true /\
               value (l_st (lrun es)) k <> aget k (spec_map es).
Proof. exact (ex_intro _ republish_witness (ex_intro _ 0 republish_stmt)). Qed.
Print Assumptions crdt_local_is_map_refuted.

(* ------------------------------------------------------------------ tie between the check and the theorems *)

(* the correspondence check replays every observed trace with steps of the timed machine only (the clock follows the
   harness timestamps): the state it compares with the implementation is a reachable state of `tstep`, and of `bstep` once
   the clock is forgotten, so every theorem of layer A applies to it *)
Theorem h1_replay_is_a_run (c : tcfg) (nofire : bool) (slack : N) (t : list (N * tev)) :
  (exists tes : list (cev item), r_b (replay c nofire slack t) = trun c tes) /\
  (reset_every_item c = false -> exists es : list (bev item), core (r_b (replay c nofire slack t)) = brun (tc c) es).
Proof. exact (conj (replay_reachable c nofire slack t) (replay_reachable_untimed c nofire slack t)). Qed.
Print Assumptions h1_replay_is_a_run.

(* non-vacuity *)
Example value_guard_inhabited :
  value_guard [mk_delta 1 1 [(7, 5)] []; mk_delta 2 1 [(7, 6)] []; mk_delta 3 2 [] [(7, 1)]] 7.
Proof. exact guard_example. Qed.
Example batch_example :
  let s := brun (mk_bcfg 2 2 true true true) [Enq 1; Enq 2; Enq 3; Take true; Take true; SizeCommit true; Enq 4] in
  accepted s = [1; 2; 4] /\ refused s = [3] /\ committed s = [[1; 2]] /\ queue s = [4].
Proof. exact batch_example_l. Qed.
Example batch_trickle_example :
  timely_from 1 1 (code_cfg 10) tinit trickle3 = true /\
  let s := trun (code_cfg 10) trickle3 in
  committed (core s) = [[1; 2; 3]] /\ pend (core s) = [4] /\ now (ti s) = 12 /\ twhen (ti s) = 22.
Proof. exact trickle_code. Qed.
Example relay_line_example :
  let arrA := [(2, mk_sd 3 (mk_delta 1 1 [(7, 5)] [])); (1, mk_sd 1 (mk_delta 2 1 [(8, 6)] []))] in
  let arrC := [(2, mk_sd 1 (mk_delta 2 1 [(8, 6)] [])); (3, mk_sd 3 (mk_delta 1 1 [(7, 5)] []))] in
  trusts line_pol 1 2 = false /\ trusts line_pol 1 3 = true /\ trusts line_pol 3 1 = true /\
  value (pinset_of line_pol 1 arrA) 7 = Some 5 /\ value (pinset_of line_pol 3 arrC) 7 = Some 5 /\
  value (pinset_of line_pol 1 arrA) 8 = Some 6 /\ value (pinset_of line_pol 3 arrC) 8 = Some 6.
Proof. exact line_example. Qed.
Example batch_empty_batch_example :
  let s := brun (mk_bcfg 10 3 true true true) s28_schedule in committed s = [] /\ t_chan (tm s) = false /\ tlog s = [(1, false)].
Proof. exact no_empty_commit_after_fix. Qed.
Example relay_must_trust_signer_example :
  trusts line_pol_b 1 3 = true /\ deliverable 3 line_pol_b [(1, 2); (2, 3)] 3 1 = false /\
  deliverable 3 line_pol_b [(1, 2); (2, 3)] 1 3 = true /\ deliverable 3 line_pol [(1, 2); (2, 3)] 3 1 = true.
Proof. exact relay_must_trust_signer. Qed.
Example batch_burst_example :
  timely_all 1 1 2 3 burst_cfg (tinit, qinit) burst = true /\
  let sq := qrun burst_cfg burst in
  committed (core (fst sq)) = [[1; 2]; [3]] /\ now (ti (fst sq)) = 20 /\
  queue_wait_limit burst_cfg 2 3 = 15 /\ accept_to_commit_limit burst_cfg 1 1 2 3 = 27.
Proof. exact burst_example. Qed.
Example batch_shutdown_example :
  let s := brun (mk_bcfg 10 3 true true true) [Enq 1; Take true; Enq 2; Take true; StopCommit true] in
  accepted s = [1; 2] /\ committed s = [[1; 2]] /\ pend s = [] /\ queue s = [].
Proof. exact shutdown_commits_after_fix. Qed.
