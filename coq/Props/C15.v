(* C15 — Configuration saves and loads losslessly, validates totally, hides secrets.
   Statements only; every proof is `exact <lemma>`. Quantification: every table that satisfies the table
   obligations (schema_coherentb), every validator, every outcome of the external checks (oracle), every document.
   The 14 generated tables (Gen/ConfigSchemas.v, re-read from the config.go files at every run) are shown to
   satisfy the obligations by computation, so the generic statements hold of every section. *)
From Coq Require Import String List ZArith Bool.
From V Require Import Model.C15_Config Model.C15_Valid Model.C15_Manager Model.C15_Custom Gen.ConfigSchemas Gen.ConfigValidators Gen.ConfigCustoms Proofs.C15_Config Proofs.C15_Tables Proofs.C15_Manager.
From V Require Import Model.C15_Check Proofs.C15_Monitor.
Import ListNotations.
Open Scope string_scope.

(* -- generic, over all tables ------------------------------------------------------------------ *)

(* a configuration the loader accepts passes validation and is reproduced exactly by saving and loading it again *)
Theorem load_save_load S V orc j c :
  schema_coherentb S = true -> load S V orc j = Some c ->
  V orc (cget S c) = true /\ load S V orc (save S c) = Some c.
Proof. exact (load_save_load_l S V orc j c). Qed.
Print Assumptions load_save_load.

(* no well-formed setting is dropped or replaced by its default: a boolean or non-zero value bound by a well-formed
   document to a member the section saves is the value of that member in the loaded configuration *)
Theorem load_faithful S V orc j c f :
  schema_coherentb S = true -> load S V orc j = Some c -> wf_doc S j = true ->
  In f (sfields S) -> is_setting f j = true ->
  cget S c (fname f) = canon_in (jval (fname f) j).
Proof. exact (load_faithful_l S V orc j c f). Qed.
Print Assumptions load_faithful.

(* load is total (a function into option) and accepts exactly: well-typed document, every rule applies, validator accepts *)
Theorem load_spec S V orc j c :
  load S V orc j = Some c <->
  typed_ok S j = true /\ apply_fields (sfields S) (defaults S) j [] = Some c /\ V orc (cget S c) = true.
Proof. exact (load_spec_l S V orc j c). Qed.
Print Assumptions load_spec.

Theorem load_valid S V orc j c : load S V orc j = Some c -> V orc (cget S c) = true.
Proof. exact (load_valid_l S V orc j c). Qed.
Print Assumptions load_valid.

(* a value that validation rejects is refused: the result is the error value, for every document *)
Theorem load_rejects_invalid S V orc j c :
  typed_ok S j = true -> apply_fields (sfields S) (defaults S) j [] = Some c -> V orc (cget S c) = false ->
  load S V orc j = None.
Proof. exact (load_rejects_invalid_l S V orc j c). Qed.
Print Assumptions load_rejects_invalid.

(* the displayable form shows the marker, never the value, for every hidden-tagged member *)
Theorem display_hides S c n v :
  schema_coherentb S = true -> In (n, v) (display S c) ->
  existsb (fun f => String.eqb (fname f) n && fhidden f) (sfields S) = true -> v = hidden_marker.
Proof. exact (display_hides_l S c n v). Qed.
Print Assumptions display_hides.

(* -- the generated tables ---------------------------------------------------------------------- *)

Theorem all_sections_present : map sname all_schemas = section_names.
Proof. exact all_sections_present_l. Qed.
Print Assumptions all_sections_present.

(* schema_coherent_S for the 14 sections: unique JSON names; every (load rule, save rule, default) triple is one that
   keeps loaded values through save+load and takes every setting (a member saved is loaded, a boolean behind a
   skip-zero rule defaults to false, ...); pointer-struct parents exist; hidden tags are top-level; members named
   secret / private_key / basic_auth_credentials are hidden; load and save use the same Config member; apply ends in Validate *)
Theorem schemas_coherent : forallb schema_coherentb all_schemas = true.
Proof. exact all_coherent_l. Qed.
Print Assumptions schemas_coherent.

Theorem secrets_tagged : forallb (fun S => forallb secret_tagged (sfields S)) all_schemas = true.
Proof. exact secrets_tagged_l. Qed.
Print Assumptions secrets_tagged.

(* the Validate() method of every section, translated from the current source (Gen/ConfigValidators.v: gen_validators,
   one clause per place where the method rejects), is the validator of the model (Model/C15_Valid.v: validators),
   as a function of every oracle and every configuration *)
Theorem validators_source_is_model S : In S all_schemas ->
  exists G M, assoc_get (sname S) gen_validators = Some G /\ assoc_get (sname S) validators = Some M
              /\ forall (orc : oracle) (c : cfg_view), G orc c = M orc c.
Proof. exact (validators_source_is_model_l S). Qed.
Print Assumptions validators_source_is_model.

Theorem validator_of_is_source S (orc : oracle) (c : cfg_view) : In S all_schemas ->
  gen_validator_of (sname S) orc c = validator_of (sname S) orc c.
Proof. exact (gen_validator_of_model S orc c). Qed.
Print Assumptions validator_of_is_source.

(* every load / save rule outside the generic rule set (LCustom / SCustom) is either translated from the source to the
   model's rule (Gen/ConfigCustoms.v against model_custom_rules) or pinned to the hash of its source text *)
Theorem customs_pinned : forallb custom_pin_ok all_schemas = true.
Proof. exact customs_pinned_l. Qed.
Print Assumptions customs_pinned.

(* crdt trusted_peers: the loop of applyJSONConfig and the branch of toJSONConfig, as translated from the source and
   executed on the Config members TrustAll / TrustedPeers, are the model's custom_load *)
Theorem customs_source_is_model : exists F, custom_sem gen_custom_rules "crdt.trusted_peers" = Some F
  /\ forall k cur v, F v = custom_load "crdt.trusted_peers" k cur v.
Proof. exact customs_source_is_model_l. Qed.
Print Assumptions customs_source_is_model.

(* for every component the default configuration is valid (whatever the external checks answer) *)
Theorem defaults_valid S orc : In S all_schemas -> validator_of (sname S) orc (cget S (defaults S)) = true.
Proof. exact (default_valid_in S orc). Qed.
Print Assumptions defaults_valid.

(* -- the property, for every section ------------------------------------------------------------ *)

Theorem sections_roundtrip S orc j c : In S all_schemas ->
  load S (validator_of (sname S)) orc j = Some c ->
  validator_of (sname S) orc (cget S c) = true /\ load S (validator_of (sname S)) orc (save S c) = Some c.
Proof. exact (sections_roundtrip_l S orc j c). Qed.
Print Assumptions sections_roundtrip.

Theorem sections_faithful S orc j c f : In S all_schemas ->
  load S (validator_of (sname S)) orc j = Some c -> wf_doc S j = true -> In f (sfields S) -> is_setting f j = true ->
  cget S c (fname f) = canon_in (jval (fname f) j).
Proof. exact (sections_faithful_l S orc j c f). Qed.
Print Assumptions sections_faithful.

Theorem sections_display S c n v : In S all_schemas -> In (n, v) (display S c) ->
  existsb (fun f => String.eqb (fname f) n && fhidden f) (sfields S) = true -> v = hidden_marker.
Proof. exact (sections_display_l S c n v). Qed.
Print Assumptions sections_display.

(* -- the whole configuration file: the Manager (config/config.go) ------------------------------------ *)
(* Quantification: every set of registered components (regs; keys unique and of a section type the Manager knows),
   every state m of the Manager — in particular every stored file m_json m, with or without sections whose component
   is not registered, whatever those sections hold — every file f, every previous state m0 / m1. *)

(* The displayable form consists of the registered components' displayable forms and nothing else, and every member
   named secret / private_key / basic_auth_credentials anywhere in it shows the marker: a secret standing in the loaded
   file — under a registered component or not, under a component name nobody knows — is not displayed. *)
Theorem manager_display_hides regs m :
  regs_coherent regs ->
  forall k r, In (k, r) (mgr_display (map comp_of regs) m) ->
    In k (map sc_key regs) /\
    exists d, r = SDoc d /\ forall n v, In (n, v) d -> secret_name n = true -> v = hidden_marker.
Proof. exact (manager_display_hides_l regs m). Qed.
Print Assumptions manager_display_hides.

(* for every implementation of the component interface: a section of the file whose component is not registered is absent *)
Theorem manager_display_unregistered_absent (reg : list comp) (cfgs : list cfg) (f : file) k :
  ~ In k (map ckey reg) -> fget k (mgr_display reg (mkMgr cfgs (Some f))) = None.
Proof. exact (manager_display_unregistered_absent_l reg cfgs f k). Qed.
Print Assumptions manager_display_unregistered_absent.

(* the boolean form evaluated on the implementation's own output by the correspondence check holds of the model *)
Theorem manager_display_hidesb regs m : regs_coherent regs -> display_hidesb (mgr_display (map comp_of regs) m) = true.
Proof. exact (manager_display_hidesb_l regs m). Qed.
Print Assumptions manager_display_hidesb.

(* ToJSON: entries of the loaded file without a registered component are kept verbatim; a registered component's entry
   is what the component saves *)
Theorem manager_save_keeps_unregistered reg m f' :
  mgr_save reg m = Some f' ->
  (forall k, ~ In k (map ckey reg) -> fget k f' = fget k (loaded_json m)) /\
  (NoDup (map ckey reg) -> forall c x, In (c, x) (combine reg (m_cfgs m)) ->
     fget (ckey c) f' = Some (SDoc (i_save (cimpl c) x))).
Proof. exact (manager_save_keeps_unregistered_l reg m f'). Qed.
Print Assumptions manager_save_keeps_unregistered.

(* LoadJSON is a total function into (error | state): its result is exactly described; malformed bytes, a section its
   registered component refuses, a resulting configuration that fails validation, a missing cluster component are the
   error value *)
Theorem manager_load_total reg m0 f m :
  mgr_load reg m0 (Some f) = Some m <->
  has_cluster reg = true /\ load_all reg (m_cfgs m0) f = Some (m_cfgs m) /\ all_valid reg (m_cfgs m) = true
  /\ m_json m = Some (retain f).
Proof. exact (load_spec_mgr reg m0 f m). Qed.
Print Assumptions manager_load_total.

Theorem manager_load_rejects reg m0 f c r :
  In c reg -> fpresent (ckey c) f = Some r -> i_load (cimpl c) r = None -> mgr_load reg m0 (Some f) = None.
Proof. exact (load_rejects_mgr reg m0 f c r). Qed.
Print Assumptions manager_load_rejects.

Theorem manager_load_rejects_invalid reg m0 f xs :
  load_all reg (m_cfgs m0) f = Some xs -> has_cluster reg && all_valid reg xs = false -> mgr_load reg m0 (Some f) = None.
Proof. exact (load_rejects_invalid_mgr reg m0 f xs). Qed.
Print Assumptions manager_load_rejects_invalid.

Theorem manager_load_valid reg m0 bytes m : mgr_load reg m0 bytes = Some m -> mgr_valid reg m = true.
Proof. exact (load_valid_mgr reg m0 bytes m). Qed.
Print Assumptions manager_load_valid.

(* the per-section round trip lifted to the whole file, for every registered subset: an accepted file validates, is
   saved, the saved file keeps the entries of unregistered components (of known section types) verbatim and holds what
   each registered component saves, and loading it again — from any previous state — gives the same configurations.
   pre_stable: the cluster component is not reset when the file has no cluster section; the configuration it keeps has
   to be one that survives its own save and load (e.g. one Default() or an earlier load produced). *)
Theorem manager_load_save_load regs m0 f m :
  regs_wf regs -> regs_coherent regs -> regs_defaults_stable regs ->
  pre_stable (map comp_of regs) (m_cfgs m0) ->
  mgr_load (map comp_of regs) m0 (Some f) = Some m ->
  mgr_valid (map comp_of regs) m = true /\
  exists f', mgr_save (map comp_of regs) m = Some f' /\
    (forall k, ~ In k (map sc_key regs) -> fget k f' = if known_key k then fget k f else None) /\
    (forall sc x, In (sc, x) (combine regs (m_cfgs m)) -> fget (sc_key sc) f' = Some (SDoc (save (sc_schema sc) x))) /\
    forall m1, length (m_cfgs m1) = length regs ->
      mgr_load (map comp_of regs) m1 (Some f') = Some (mkMgr (m_cfgs m) (Some f')).
Proof. exact (manager_load_save_load_l regs m0 f m). Qed.
Print Assumptions manager_load_save_load.

(* on the 14 generated tables, each section with its own validator, for every subset and every assignment of section keys *)
Theorem manager_sections_display regs m : Forall from_tables regs ->
  display_hidesb (mgr_display (map comp_of regs) m) = true /\
  forall k, ~ In k (map sc_key regs) -> fget k (mgr_display (map comp_of regs) m) = None.
Proof. exact (manager_sections_display_l regs m). Qed.
Print Assumptions manager_sections_display.

Theorem manager_sections_roundtrip regs m0 f m :
  regs_wf regs -> Forall from_tables regs -> pre_stable (map comp_of regs) (m_cfgs m0) ->
  mgr_load (map comp_of regs) m0 (Some f) = Some m ->
  mgr_valid (map comp_of regs) m = true /\
  exists f', mgr_save (map comp_of regs) m = Some f' /\
    (forall k, ~ In k (map sc_key regs) -> fget k f' = if known_key k then fget k f else None) /\
    (forall sc x, In (sc, x) (combine regs (m_cfgs m)) -> fget (sc_key sc) f' = Some (SDoc (save (sc_schema sc) x))) /\
    forall m1, length (m_cfgs m1) = length regs ->
      mgr_load (map comp_of regs) m1 (Some f') = Some (mkMgr (m_cfgs m) (Some f')).
Proof. exact (manager_sections_roundtrip_l regs m0 f m). Qed.
Print Assumptions manager_sections_roundtrip.

(* saving and loading each section's default configuration gives it back; Manager.Default() is valid *)
Theorem defaults_stable_sections orc : forallb (fun S => default_stableb S orc) all_schemas = true.
Proof. exact (defaults_stable_tables orc). Qed.
Print Assumptions defaults_stable_sections.

Theorem manager_default_valid regs m : Forall from_tables regs ->
  has_cluster (map comp_of regs) = true -> mgr_valid (map comp_of regs) (mgr_default (map comp_of regs) m) = true.
Proof. exact (manager_default_valid_l regs m). Qed.
Print Assumptions manager_default_valid.

(* -- non-vacuity and the two repaired defects ---------------------------------------------------- *)

(* S15: a raft datastore_namespace given in the file is loaded (and survives save + load) *)
Example raft_namespace_loaded :
  exists c, load schema_raft valid_raft (fun _ => true) [("datastore_namespace", VS "/x"); ("commit_retries", VZ 1)] = Some c
            /\ cget schema_raft c "datastore_namespace" = VS "/x"
            /\ load schema_raft valid_raft (fun _ => true) (save schema_raft c) = Some c.
Proof. eexists. vm_compute. repeat split; reflexivity. Qed.

(* S18: badger sync_writes / truncate set to false in the file are false in the loaded configuration *)
Example badger_false_bools_loaded :
  exists c, load schema_badger valid_badger (fun _ => true)
              [("badger_options.sync_writes", VB false); ("badger_options.truncate", VB false)] = Some c
            /\ cget schema_badger c "badger_options.sync_writes" = VB false
            /\ cget schema_badger c "badger_options.truncate" = VB false.
Proof. eexists. vm_compute. repeat split; reflexivity. Qed.

(* invalid values are refused, valid ones accepted *)
Example stateless_rejects_zero_after_default :
  load schema_stateless valid_stateless (fun _ => true) [("concurrent_pins", VZ (-1))] = None
  /\ exists c, load schema_stateless valid_stateless (fun _ => true) [("concurrent_pins", VZ 3)] = Some c.
Proof. split; [vm_compute; reflexivity | eexists; vm_compute; reflexivity]. Qed.

(* -- the Manager: witnesses ------------------------------------------------------------------------ *)
(* a Manager with the cluster and raft components; the file also has a restapi section with credentials (component not
   registered), a section for a component name nobody knows, and a member under an unknown top-level name *)
Definition ex_regs : list scomp :=
  [mkSComp cluster_key schema_cluster (validator_of "cluster") (fun _ => true);
   mkSComp ("consensus", "raft") schema_raft (validator_of "raft") (fun _ => true)].
Definition ex_restapi : sraw := SDoc [("basic_auth_credentials", VL ["admin=pw"]); ("private_key", VS "CAAS")].
Definition ex_unknown : sraw := SDoc [("secret", VS "0123")].
Definition ex_file : file :=
  [(cluster_key, SDoc (("secret", VS "abcd") :: save schema_cluster (defaults schema_cluster)));
   (("api", "restapi"), ex_restapi); (("api", "grpcapi"), ex_unknown); (("extra", "x"), SDoc [])].
Definition ex_m0 : mgr := mkMgr [[]; []] None.

(* the file loads (raft takes its defaults); the displayable form has exactly the two registered sections; the saved
   file keeps the restapi and grpcapi entries verbatim, drops the unknown top-level member, and loads again *)
Example manager_unregistered_witness :
  exists m f', mgr_load (map comp_of ex_regs) ex_m0 (Some ex_file) = Some m
    /\ map fst (mgr_display (map comp_of ex_regs) m) = [cluster_key; ("consensus", "raft")]
    /\ display_hidesb (mgr_display (map comp_of ex_regs) m) = true
    /\ mgr_save (map comp_of ex_regs) m = Some f'
    /\ fget ("api", "restapi") f' = Some ex_restapi /\ fget ("api", "grpcapi") f' = Some ex_unknown
    /\ fget ("extra", "x") f' = None
    /\ mgr_load (map comp_of ex_regs) ex_m0 (Some f') = Some (mkMgr (m_cfgs m) (Some f')).
Proof. eexists. eexists. vm_compute. repeat split; reflexivity. Qed.

(* the statement manager_display_hides separates: a ToDisplayJSON that started from the loaded jsonConfig (as ToJSON
   does) would show the credentials of the unregistered restapi section *)
Example display_from_loaded_would_leak :
  exists m, mgr_load (map comp_of ex_regs) ex_m0 (Some ex_file) = Some m
    /\ In (("api", "restapi"), ex_restapi) (mgr_display_from_loaded (map comp_of ex_regs) m)
    /\ display_hidesb (mgr_display_from_loaded (map comp_of ex_regs) m) = false.
Proof. eexists. vm_compute. repeat split. right. left. reflexivity. Qed.

(* errors are values: a registered section that is refused, a file without a cluster component registered, malformed bytes *)
Example manager_rejects_witness :
  mgr_load (map comp_of ex_regs) ex_m0 (Some ((("consensus", "raft"), SDoc [("commit_retries", VZ (-1))]) :: ex_file)) = None
  /\ mgr_load (map comp_of ex_regs) ex_m0 (Some ((("consensus", "raft"), SJunk) :: ex_file)) = None
  /\ mgr_load (map comp_of (tl ex_regs)) (mkMgr [[]] None) (Some ex_file) = None
  /\ mgr_load (map comp_of ex_regs) ex_m0 None = None.
Proof. vm_compute. repeat split; reflexivity. Qed.

(* ---------------- the per-section run-time monitors of Model/C15_Check.v (check_case) and the theorems above ---------------- *)
(* check_case evaluates, on what the harness recorded of the IMPLEMENTATION: code 1 (the model's output is the observed one,
   after canonicalisation) and the property on the observation itself: 10 accepted but Validate() fails, 11 save/load/save
   differs, 12 a secret in the displayable form, 13 a setting of a well-formed document is not in the loaded configuration,
   14 Default() refused or invalid. Completeness: a case annotated with the model's own outputs raises no code, for every
   section, mode, document, environment, oracle answers - so an implementation that agrees with the model on an input
   satisfies every monitored clause on it, and no monitor can alarm on behaviour the model allows. Soundness: a case on which
   a code is absent satisfies the Prop-level clause the code stands for. Transfer: a case without code 1 is one where what
   was observed is what the model computes, of which the theorems above hold.
   Definitions (model_obs, default_guard, has_code, settings_kept, same_val, reachable): Proofs/C15_Monitor.v. *)

(* ApplyEnvVars (apply_env: the saved form of the current configuration overridden by the environment, applied to the
   CURRENT values) on a loaded configuration: the result validates and is reproduced exactly by save + load. (The round-trip
   theorems above start from the defaults; this is what monitor 11 needs in the env mode.) *)
Theorem env_save_load S V orc j c0 env c :
  schema_coherentb S = true -> load S V orc j = Some c0 -> apply_env S V orc c0 env = Some c ->
  V orc (cget S c) = true /\ load S V orc (save S c) = Some c.
Proof. exact (env_save_load_l S V orc j c0 env c). Qed.
Print Assumptions env_save_load.

(* completeness, generic: every coherent table whose default configuration validates and survives save + load, every
   validator, mode, document (the oracle answers are part of it), every list dn of directly read members *)
Theorem model_passes_monitor S V m j dn :
  schema_coherentb S = true -> V (oracle_of j) (cget S (defaults S)) = true -> default_roundtrip S V (oracle_of j) ->
  default_guard m j ->
  model_eqb S V m j (model_obs S V m j dn) = true /\ spec_fails S m j (model_obs S V m j dn) = [].
Proof. exact (model_passes_monitor_l S V m j dn). Qed.
Print Assumptions model_passes_monitor.

(* completeness on the 14 generated sections: no code at all, code 1 included. default_guard: a Default() case does not
   carry the mark "=notobject" (the harness writes it for raw byte strings only, which are LoadJSON cases) *)
Theorem sections_model_passes_monitor id S m j dn : In S all_schemas -> default_guard m j ->
  check_case (id, (sname S, m, j, model_obs S (validator_of (sname S)) m j dn)) = [].
Proof. exact (sections_model_passes_monitor_l id S m j dn). Qed.
Print Assumptions sections_model_passes_monitor.

(* soundness of the monitors 10-14 on an accepted observation: the accepted configuration validates; saving, loading and
   saving again gives the same; no secret was found in the displayable form; every setting of a well-formed document is
   the observed value of its member (null and [] being the same list) *)
Theorem sections_monitor_sound id sn S m j saved direct valid rt leak :
  find_schema sn all_schemas = Some S ->
  let r := check_case (id, (sn, m, j, ObsOk saved direct valid rt leak)) in
  (~ has_code 10 r -> ~ has_code 14 r -> valid = true) /\
  (~ has_code 11 r -> rt = true) /\
  (~ has_code 12 r -> leak = false) /\
  (~ has_code 13 r -> m = MLoad -> wf_doc S j = true -> settings_kept S j saved direct).
Proof. exact (sections_monitor_sound_l id sn S m j saved direct valid rt leak). Qed.
Print Assumptions sections_monitor_sound.

(* a refused Default() always raises code 14 *)
Theorem sections_monitor_sound_default id sn S j :
  find_schema sn all_schemas = Some S -> has_code 14 (check_case (id, (sn, MDefault, j, ObsErr))).
Proof. exact (sections_monitor_sound_default_l id sn S j). Qed.
Print Assumptions sections_monitor_sound_default.

(* transfer: without code 1, a refusal is a refusal of the model, and an accepted observation is that of a configuration c
   the model accepts: c validates, survives save + load, displays no secret, saves member by member what was observed
   (for Default() the hidden members - generated identities - are not compared), holds the directly read members, and,
   for LoadJSON of a well-formed document, every setting of the document *)
Theorem sections_agreement_transfers id sn S m j o :
  find_schema sn all_schemas = Some S -> ~ has_code 1 (check_case (id, (sn, m, j, o))) ->
  match o with
  | ObsErr => model_run S (validator_of sn) m j = None
  | ObsOk saved direct _ _ _ =>
      exists c, model_run S (validator_of sn) m j = Some c
        /\ validator_of sn (oracle_of j) (cget S c) = true
        /\ load S (validator_of sn) (oracle_of j) (save S c) = Some c
        /\ leak_b S c = false
        /\ (forall f, In f (sfields S) -> (m = MDefault -> fhidden f = false) ->
              same_val (fkind f) (jval (fname f) (save S c)) (jval (fname f) saved))
        /\ (m <> MDefault -> forall n v, In (n, v) direct -> v = cget S c n)
        /\ (m = MLoad -> wf_doc S j = true -> forall f, In f (sfields S) -> is_setting f j = true ->
              cget S c (fname f) = canon_in (jval (fname f) j))
  end.
Proof. exact (sections_agreement_transfers_l id sn S m j o). Qed.
Print Assumptions sections_agreement_transfers.

(* the hypotheses are inhabited on the three modes; the guard is needed (the model refuses a Default() case that carries the
   mark, and code 14 fires on the model's own answer); the monitors reject wrong observations: the S15 shape (namespace of
   the document not loaded: codes 1 and 13 tag 1), an invalid accepted configuration (10), a differing reload (11), a
   displayed secret (12) *)
Definition ex_raft_doc : json := [("datastore_namespace", VS "/x"); ("commit_retries", VZ 1)].
Definition ex_raft_wrong (o : obs) : obs :=
  match o with
  | ObsOk saved _ v r l =>
      ObsOk (filter (fun e => negb (String.eqb (fst e) "datastore_namespace")) saved) [("datastore_namespace", VS "/r")] v r l
  | ObsErr => ObsErr end.
Definition ex_flags (o : obs) (v r l : bool) : obs := match o with ObsOk s d _ _ _ => ObsOk s d v r l | ObsErr => ObsErr end.
Example sections_monitor_example :
  let o := model_obs schema_raft (validator_of "raft") MLoad ex_raft_doc ["datastore_namespace"] in
  In schema_raft all_schemas /\ sname schema_raft = "raft" /\ default_guard MLoad ex_raft_doc /\ wf_doc schema_raft ex_raft_doc = true /\
  (exists saved, o = ObsOk saved [("datastore_namespace", VS "/x")] true true false /\ jval "datastore_namespace" saved = VS "/x") /\
  check_case (0%N, ("raft", MLoad, ex_raft_doc, ex_raft_wrong o)) = [(0, 1, 0); (0, 13, 1)]%N /\
  check_case (0%N, ("raft", MLoad, ex_raft_doc, ex_flags o false false true)) = [(0, 10, 0); (0, 11, 0); (0, 12, 0)]%N /\
  (* ApplyEnvVars and Default() *)
  model_obs schema_stateless (validator_of "stateless") (MEnv [("concurrent_pins", VZ 7)]) [("max_pin_queue_size", VZ 5)] []
    = ObsOk [("max_pin_queue_size", VZ 5); ("concurrent_pins", VZ 7)] [] true true false /\
  model_obs schema_stateless (validator_of "stateless") MDefault [] [] = ObsOk [("concurrent_pins", VZ 10)] [] true true false /\
  default_guard MDefault [] /\
  check_case (0%N, ("stateless", MDefault, [], ex_flags (model_obs schema_stateless (validator_of "stateless") MDefault [] []) false true false))
    = [(0, 14, 0)]%N /\
  (* the guard: *)
  check_case (0%N, ("stateless", MDefault, [("=notobject", VWrong)],
                    model_obs schema_stateless (validator_of "stateless") MDefault [("=notobject", VWrong)] [])) = [(0, 14, 0)]%N.
Proof. cbv zeta. split; [vm_compute; tauto|]. split; [reflexivity|]. split; [exact I|]. split; [vm_compute; reflexivity|].
  split; [eexists; split; vm_compute; reflexivity|]. repeat split; vm_compute; reflexivity. Qed.
