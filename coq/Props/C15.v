(* C15 — Configuration saves and loads losslessly, validates totally, hides secrets.
   Statements only; every proof is `exact <lemma>`. Quantification: every table that satisfies the table
   obligations (schema_coherentb), every validator, every outcome of the external checks (oracle), every document.
   The 14 generated tables (Gen/ConfigSchemas.v, re-read from the config.go files at every run) are shown to
   satisfy the obligations by computation, so the generic statements hold of every section. *)
From Coq Require Import String List ZArith Bool.
From V Require Import Model.C15_Config Model.C15_Valid Gen.ConfigSchemas Proofs.C15_Config Proofs.C15_Tables.
Import ListNotations.
Open Scope string_scope.

(* -- generic, over all tables ------------------------------------------------------------------ *)

(* a configuration the loader accepts passes validation and is reproduced exactly by saving and loading it again *)
Theorem load_save_load S V orc j c :
  schema_coherentb S = true -> load S V orc j = Some c ->
  V orc (cget S c) = true /\ load S V orc (save S c) = Some c.
Proof. exact (load_save_load_l S V orc j c). Qed.
Print Assumptions load_save_load.

(* no well-formed setting is dropped or replaced by its default: a boolean or non-zero value bound by a well-formed
   document to a member the section saves is the value of that member in the loaded configuration *)
Theorem load_faithful S V orc j c f :
  schema_coherentb S = true -> load S V orc j = Some c -> wf_doc S j = true ->
  In f (sfields S) -> is_setting f j = true ->
  cget S c (fname f) = canon_in (jval (fname f) j).
Proof. exact (load_faithful_l S V orc j c f). Qed.
Print Assumptions load_faithful.

(* load is total (a function into option) and accepts exactly: well-typed document, every rule applies, validator accepts *)
Theorem load_spec S V orc j c :
  load S V orc j = Some c <->
  typed_ok S j = true /\ apply_fields (sfields S) (defaults S) j [] = Some c /\ V orc (cget S c) = true.
Proof. exact (load_spec_l S V orc j c). Qed.
Print Assumptions load_spec.

Theorem load_valid S V orc j c : load S V orc j = Some c -> V orc (cget S c) = true.
Proof. exact (load_valid_l S V orc j c). Qed.
Print Assumptions load_valid.

(* a value that validation rejects is refused: the result is the error value, for every document *)
Theorem load_rejects_invalid S V orc j c :
  typed_ok S j = true -> apply_fields (sfields S) (defaults S) j [] = Some c -> V orc (cget S c) = false ->
  load S V orc j = None.
Proof. exact (load_rejects_invalid_l S V orc j c). Qed.
Print Assumptions load_rejects_invalid.

(* the displayable form shows the marker, never the value, for every hidden-tagged member *)
Theorem display_hides S c n v :
  schema_coherentb S = true -> In (n, v) (display S c) ->
  existsb (fun f => String.eqb (fname f) n && fhidden f) (sfields S) = true -> v = hidden_marker.
Proof. exact (display_hides_l S c n v). Qed.
Print Assumptions display_hides.

(* -- the generated tables ---------------------------------------------------------------------- *)

Theorem all_sections_present : map sname all_schemas = section_names.
Proof. exact all_sections_present_l. Qed.
Print Assumptions all_sections_present.

(* schema_coherent_S for the 14 sections: unique JSON names; every (load rule, save rule, default) triple is one that
   keeps loaded values through save+load and takes every setting (a member saved is loaded, a boolean behind a
   skip-zero rule defaults to false, ...); pointer-struct parents exist; hidden tags are top-level; members named
   secret / private_key / basic_auth_credentials are hidden; load and save use the same Config member; apply ends in Validate *)
Theorem schemas_coherent : forallb schema_coherentb all_schemas = true.
Proof. exact all_coherent_l. Qed.
Print Assumptions schemas_coherent.

Theorem secrets_tagged : forallb (fun S => forallb secret_tagged (sfields S)) all_schemas = true.
Proof. exact secrets_tagged_l. Qed.
Print Assumptions secrets_tagged.

(* the hand transcriptions of Validate (Model/C15_Valid.v) and of the custom rules were made from the current source text *)
Theorem validators_pinned : forallb pin_ok all_schemas = true.
Proof. exact validators_pinned_l. Qed.
Print Assumptions validators_pinned.

Theorem customs_pinned : forallb custom_pin_ok all_schemas = true.
Proof. exact customs_pinned_l. Qed.
Print Assumptions customs_pinned.

(* for every component the default configuration is valid (whatever the external checks answer) *)
Theorem defaults_valid S orc : In S all_schemas -> validator_of (sname S) orc (cget S (defaults S)) = true.
Proof. exact (default_valid_in S orc). Qed.
Print Assumptions defaults_valid.

(* -- the property, for every section ------------------------------------------------------------ *)

Theorem sections_roundtrip S orc j c : In S all_schemas ->
  load S (validator_of (sname S)) orc j = Some c ->
  validator_of (sname S) orc (cget S c) = true /\ load S (validator_of (sname S)) orc (save S c) = Some c.
Proof. exact (sections_roundtrip_l S orc j c). Qed.
Print Assumptions sections_roundtrip.

Theorem sections_faithful S orc j c f : In S all_schemas ->
  load S (validator_of (sname S)) orc j = Some c -> wf_doc S j = true -> In f (sfields S) -> is_setting f j = true ->
  cget S c (fname f) = canon_in (jval (fname f) j).
Proof. exact (sections_faithful_l S orc j c f). Qed.
Print Assumptions sections_faithful.

Theorem sections_display S c n v : In S all_schemas -> In (n, v) (display S c) ->
  existsb (fun f => String.eqb (fname f) n && fhidden f) (sfields S) = true -> v = hidden_marker.
Proof. exact (sections_display_l S c n v). Qed.
Print Assumptions sections_display.

(* -- non-vacuity and the two repaired defects ---------------------------------------------------- *)

(* S15: a raft datastore_namespace given in the file is loaded (and survives save + load) *)
Example raft_namespace_loaded :
  exists c, load schema_raft valid_raft (fun _ => true) [("datastore_namespace", VS "/x"); ("commit_retries", VZ 1)] = Some c
            /\ cget schema_raft c "datastore_namespace" = VS "/x"
            /\ load schema_raft valid_raft (fun _ => true) (save schema_raft c) = Some c.
Proof. eexists. vm_compute. repeat split; reflexivity. Qed.

(* S18: badger sync_writes / truncate set to false in the file are false in the loaded configuration *)
Example badger_false_bools_loaded :
  exists c, load schema_badger valid_badger (fun _ => true)
              [("badger_options.sync_writes", VB false); ("badger_options.truncate", VB false)] = Some c
            /\ cget schema_badger c "badger_options.sync_writes" = VB false
            /\ cget schema_badger c "badger_options.truncate" = VB false.
Proof. eexists. vm_compute. repeat split; reflexivity. Qed.

(* invalid values are refused, valid ones accepted *)
Example stateless_rejects_zero_after_default :
  load schema_stateless valid_stateless (fun _ => true) [("concurrent_pins", VZ (-1))] = None
  /\ exists c, load schema_stateless valid_stateless (fun _ => true) [("concurrent_pins", VZ 3)] = Some c.
Proof. split; [vm_compute; reflexivity | eexists; vm_compute; reflexivity]. Qed.
