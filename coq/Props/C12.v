(* C12 — IPFS proxy hijacks exactly the pinning endpoints and relays the rest.
   Statements only; every proof is `exact <lemma of Proofs/C12_Proxy.v>`.
   Quantification: every request (method, path, query, body), every outcome of the abstract parsers
   (cleanPath, url, go-path, cid, AddParamsFromQuery, importer), every RPC failure script, every daemon answer.
   The routing table is the one regenerated from api/ipfsproxy/ipfsproxy.go at this run (Gen/ProxyRoutes.v). *)
From V Require Import Base.Common Base.C11_Http Gen.ProxyRoutes Model.C12_Proxy Model.C12_Check Proofs.C12_Proxy.
Open Scope string_scope.
Open Scope list_scope.

(* the generated table is the seven listed paths (three of them also with a /{arg} form) under POST/GET/PUT, plus the catch-all *)
Theorem proxy_table_spec :
  compile_routes hijack_prefix hijack_routes = expand spec_paths /\ hijack_methods = spec_methods /\ catch_all = [("/", "reverseProxy")].
Proof. exact (conj table_compiles (conj methods_are catch_all_is)). Qed.
Print Assumptions proxy_table_spec.

(* every error responder of every hijack handler is followed by a return (generated from the handler bodies) *)
Theorem proxy_error_sites_return : forallb (fun hs => forallb (fun b => b) (snd hs)) handler_error_sites = true.
Proof. exact error_sites_all_return. Qed.
Print Assumptions proxy_error_sites_return.

(* classification: Hijack only for the three methods and the listed paths ... *)
Theorem proxy_classify_sound m p h a : classify m p = Hijack h a -> In m spec_methods /\ listed (segments p) h a.
Proof. exact (classify_hijack_listed m p h a). Qed.
Print Assumptions proxy_classify_sound.

(* ... and always for them: the exact path, *)
Theorem proxy_classify_exact m base h sl p :
  In m spec_methods -> In (base, h, sl) spec_paths -> segments p = "" :: base -> classify m p = Hijack h None.
Proof. exact (classify_exact_complete m base h sl p). Qed.
Print Assumptions proxy_classify_exact.

(* the slash form with a non-empty argument, *)
Theorem proxy_classify_slash m base h p x :
  In m spec_methods -> In (base, h, true) spec_paths -> x <> "" -> segments p = "" :: base ++ [x] -> classify m p = Hijack h (Some x).
Proof. exact (classify_slash_complete m base h p x). Qed.
Print Assumptions proxy_classify_slash.

(* and every other method is relayed whatever the path *)
Theorem proxy_classify_other_methods m p : ~ In m spec_methods -> classify m p = Relay.
Proof. exact (classify_relay_method m p). Qed.
Print Assumptions proxy_classify_other_methods.

(* the classification of the model coincides, for every method and path, with the one the observations are judged by *)
Theorem proxy_classify_spec m p : classify m p = spec_class m p.
Proof. exact (classify_is_spec m p). Qed.
Print Assumptions proxy_classify_spec.

(* a relayed request reaches the daemon as it was (method, URI, body), no cluster call is made, the daemon's answer is returned *)
Theorem proxy_relay_identity rq e : e_redirect e = false -> classify (rq_meth rq) (rq_path rq) = Relay ->
  run rq e = mk_res [] [(rq_meth rq, rq_uri rq, rq_body rq)] (e_dstatus e) false
                    (Some (if String.eqb (rq_meth rq) "HEAD" then "" else e_dbody e)) 0.
Proof. exact (run_relay rq e). Qed.
Print Assumptions proxy_relay_identity.

(* a non-canonical path is answered 301: no cluster call, nothing forwarded *)
Theorem proxy_noncanonical_redirect rq e : e_redirect e = true -> run rq e = mk_res [] [] 301 false None 0.
Proof. exact (run_redirect rq e). Qed.
Print Assumptions proxy_noncanonical_redirect.

(* a hijacked request answered with an error, none of whose cluster calls failed, issued no mutating cluster call *)
Theorem proxy_error_no_op h e mp q :
  h <> HUnknown -> herror h (handle h e mp q) -> none_failed (hcalls (handle h e mp q)) -> no_mutation (hcalls (handle h e mp q)).
Proof. exact (handle_error_no_op h e mp q). Qed.
Print Assumptions proxy_error_no_op.

(* a hijacked request never reaches the daemon: only the one-time header extraction does *)
Theorem proxy_never_forwards_mutation rq e h sl : e_redirect e = false -> classify (rq_meth rq) (rq_path rq) = Hijack h sl ->
  r_dreqs (run rq e) = if e_fresh e then [("POST", e_extract e, "")] else [].
Proof. exact (run_hijack_dreqs rq e h sl). Qed.
Print Assumptions proxy_never_forwards_mutation.

(* a hijacked request answered successfully performed exactly the operation of its route with the parsed path and options *)
Theorem proxy_ops_faithful h e mp q :
  h <> HUnknown -> herrorb h (handle h e mp q) = false -> (none_failedb (hcalls (handle h e mp q)) = true \/ h = HRepoStat) ->
  faithful h e q (obs_of_h (handle h e mp q)) = true.
Proof. exact (handle_faithful h e mp q). Qed.
Print Assumptions proxy_ops_faithful.

(* the boolean form of the whole property (the one applied to the implementation's observations) holds of the model on every input *)
Theorem proxy_model_satisfies_spec rq e :
  mutating_dreq ("POST", e_extract e, "") = false -> spec_okb rq e (obs_of (run rq e)) = true.
Proof. exact (model_satisfies_spec_okb rq e). Qed.
Print Assumptions proxy_model_satisfies_spec.

(* non-vacuity *)
Example proxy_example_hijack : classify "POST" "/api/v0/pin/add/QmFoo" = Hijack HPin (Some "QmFoo").
Proof. vm_compute. reflexivity. Qed.
Example proxy_example_relay : classify "POST" "/api/v0/pin/add/" = Relay /\ classify "OPTIONS" "/api/v0/add" = Relay /\ classify "GET" "/api/v0/pin/update/x" = Relay.
Proof. vm_compute. repeat split; reflexivity. Qed.
Example proxy_example_onlyhash :
  let e := mk_env false [] [] (Some (mk_addp "" 0 0 true)) true "root" [] false "/api/v0/version" "r" 3 1 1 false 200 "" in
  handle HAdd e 1 [("only-hash", ["true"])] = ([], 500%N, false, 0%N).
Proof. vm_compute. reflexivity. Qed.
