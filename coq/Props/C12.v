(* C12 — IPFS proxy hijacks exactly the pinning endpoints and relays the rest. Statements only. *)
From V Require Import Base.Common Base.C11_Http Gen.ProxyRoutes Model.C12_Proxy Model.C12_Check Proofs.C12_Proxy.
Open Scope string_scope.
Open Scope list_scope.

Theorem proxy_table_spec :
  compile_routes hijack_prefix hijack_routes = expected_routes /\ hijack_methods = ["POST"; "GET"; "PUT"] /\ catch_all = [("/", "reverseProxy")].
Proof. exact (conj table_compiles (conj methods_are catch_all_is)). Qed.
Print Assumptions proxy_table_spec.
