(* C12 — IPFS proxy hijacks exactly the pinning endpoints and relays the rest.
   Statements only; every proof is `exact <lemma of Proofs/C12_Proxy.v or Proofs/C12_Monitor.v>`.
   Quantification: every request (method, path, query, body), every outcome of the abstract parsers
   (cleanPath, url, go-path, cid, AddParamsFromQuery, importer), every RPC failure script, every daemon answer.
   The routing table is the one regenerated from api/ipfsproxy/ipfsproxy.go at this run (Gen/ProxyRoutes.v). *)
From V Require Import Base.Common Base.C11_Http Base.C11_RouteOrder Gen.ProxyRoutes Model.C12_Proxy Model.C12_Check Model.C12_Tables Proofs.C12_Proxy Proofs.C12_Monitor.
Open Scope string_scope.
Open Scope list_scope.

(* the generated table is the seven listed paths (three of them also with a /{arg} form) under POST/GET/PUT, plus the catch-all.
   Changed (w13): the first conjunct used to be the list equality `compile_routes hijack_prefix hijack_routes = expand spec_paths`.
   gorilla/mux takes the first registered route that matches, so registration order matters only between routes that some
   path can match both; the list equality also broke on a behaviour-preserving reorder (e.g. "/pin/add" registered before
   "/pin/add/{arg}": different lengths, no common path). `croutes_equiv` (Model/C12_Tables.v) holds iff the second table is a
   permutation of the first in which every two routes that are not apart (templates not provably disjoint, tpl_disjoint)
   keep their relative order; the second conjunct (both tables classify every path alike) is what the later theorems use. *)
Theorem proxy_table_spec :
  croutes_equiv (compile_routes hijack_prefix hijack_routes) (expand spec_paths) = true
  /\ (forall segs, first_match (compile_routes hijack_prefix hijack_routes) segs = first_match (expand spec_paths) segs)
  /\ hijack_methods = spec_methods /\ catch_all = [("/", "reverseProxy")].
Proof. exact (conj table_compiles (conj table_first_match (conj methods_are catch_all_is))). Qed.
Print Assumptions proxy_table_spec.

(* the general fact behind it, for tables of any size: equivalent tables classify every path alike *)
Theorem proxy_routes_equiv_dispatch rs1 rs2 : croutes_equiv rs1 rs2 = true -> forall segs, first_match rs1 segs = first_match rs2 segs.
Proof. exact (croutes_equiv_first_match rs1 rs2). Qed.
Print Assumptions proxy_routes_equiv_dispatch.

(* every error responder of every hijack handler is followed by a return (generated from the handler bodies) *)
Theorem proxy_error_sites_return : forallb (fun hs => forallb (fun b => b) (snd hs)) handler_error_sites = true.
Proof. exact error_sites_all_return. Qed.
Print Assumptions proxy_error_sites_return.

(* classification: Hijack only for the three methods and the listed paths ... *)
Theorem proxy_classify_sound m p h a : classify m p = Hijack h a -> In m spec_methods /\ listed (segments p) h a.
Proof. exact (classify_hijack_listed m p h a). Qed.
Print Assumptions proxy_classify_sound.

(* ... and always for them: the exact path, *)
Theorem proxy_classify_exact m base h sl p :
  In m spec_methods -> In (base, h, sl) spec_paths -> segments p = "" :: base -> classify m p = Hijack h None.
Proof. exact (classify_exact_complete m base h sl p). Qed.
Print Assumptions proxy_classify_exact.

(* the slash form with a non-empty argument, *)
Theorem proxy_classify_slash m base h p x :
  In m spec_methods -> In (base, h, true) spec_paths -> x <> "" -> segments p = "" :: base ++ [x] -> classify m p = Hijack h (Some x).
Proof. exact (classify_slash_complete m base h p x). Qed.
Print Assumptions proxy_classify_slash.

(* and every other method is relayed whatever the path *)
Theorem proxy_classify_other_methods m p : ~ In m spec_methods -> classify m p = Relay.
Proof. exact (classify_relay_method m p). Qed.
Print Assumptions proxy_classify_other_methods.

(* the classification of the model coincides, for every method and path, with the one the observations are judged by *)
Theorem proxy_classify_spec m p : classify m p = spec_class m p.
Proof. exact (classify_is_spec m p). Qed.
Print Assumptions proxy_classify_spec.

(* a relayed request reaches the daemon as it was (method, URI, body), no cluster call is made, the daemon's answer is returned *)
Theorem proxy_relay_identity rq e : e_redirect e = false -> classify (rq_meth rq) (rq_path rq) = Relay ->
  run rq e = mk_res [] [(rq_meth rq, rq_uri rq, rq_body rq)] (e_dstatus e) false
                    (Some (if String.eqb (rq_meth rq) "HEAD" then "" else e_dbody e)) 0.
Proof. exact (run_relay rq e). Qed.
Print Assumptions proxy_relay_identity.

(* a non-canonical path is answered 301: no cluster call, nothing forwarded *)
Theorem proxy_noncanonical_redirect rq e : e_redirect e = true -> run rq e = mk_res [] [] 301 false None 0.
Proof. exact (run_redirect rq e). Qed.
Print Assumptions proxy_noncanonical_redirect.

(* a hijacked request answered with an error, none of whose cluster calls failed, issued no mutating cluster call *)
Theorem proxy_error_no_op h e mp q :
  h <> HUnknown -> herror h (handle h e mp q) -> none_failed (hcalls (handle h e mp q)) -> no_mutation (hcalls (handle h e mp q)).
Proof. exact (handle_error_no_op h e mp q). Qed.
Print Assumptions proxy_error_no_op.

(* a hijacked request never reaches the daemon: only the one-time header extraction does *)
Theorem proxy_never_forwards_mutation rq e h sl : e_redirect e = false -> classify (rq_meth rq) (rq_path rq) = Hijack h sl ->
  r_dreqs (run rq e) = if e_fresh e then [("POST", e_extract e, "")] else [].
Proof. exact (run_hijack_dreqs rq e h sl). Qed.
Print Assumptions proxy_never_forwards_mutation.

(* a hijacked request answered successfully performed exactly the operation of its route with the parsed path and options *)
Theorem proxy_ops_faithful h e mp q :
  h <> HUnknown -> herrorb h (handle h e mp q) = false -> (none_failedb (hcalls (handle h e mp q)) = true \/ h = HRepoStat) ->
  faithful h e q (obs_of_h (handle h e mp q)) = true.
Proof. exact (handle_faithful h e mp q). Qed.
Print Assumptions proxy_ops_faithful.

(* the boolean form of the whole property (the one applied to the implementation's observations) holds of the model on every input *)
Theorem proxy_model_satisfies_spec rq e :
  mutating_dreq ("POST", e_extract e, "") = false -> spec_okb rq e (obs_of (run rq e)) = true.
Proof. exact (model_satisfies_spec_okb rq e). Qed.
Print Assumptions proxy_model_satisfies_spec.

(* non-vacuity *)
Example proxy_example_hijack : classify "POST" "/api/v0/pin/add/QmFoo" = Hijack HPin (Some "QmFoo").
Proof. vm_compute. reflexivity. Qed.
Example proxy_example_relay : classify "POST" "/api/v0/pin/add/" = Relay /\ classify "OPTIONS" "/api/v0/add" = Relay /\ classify "GET" "/api/v0/pin/update/x" = Relay.
Proof. vm_compute. repeat split; reflexivity. Qed.
Example proxy_example_onlyhash :
  let e := mk_env false [] [] (Some (mk_addp "" 0 0 true)) true "root" [] false "/api/v0/version" "r" 3 1 1 false 200 "" in
  handle HAdd e 1 [("only-hash", ["true"])] = ([], 500%N, false, 0%N).
Proof. vm_compute. reflexivity. Qed.

(* ---------------- the run-time monitors of Model/C12_Check.v and the theorems above ---------------- *)
(* check_case (id, (rq, e, cmp, o)) judges what the IMPLEMENTATION did (o) on request rq in environment e: code 1 (when cmp)
   o differs from the model's result; codes 10..15 the boolean sub-properties applied to o itself. Below, for every request
   and environment (no bound): (soundness) a case on which a code is absent satisfies the Prop-level clause the code stands
   for; (completeness w.r.t. the model) the case annotated with the model's own result raises no code at all; (transfer) an
   observation that agrees with the model raises no code at all. Definitions of the Prop-level readings (relay_spec,
   redirect_spec, mutating_request, preflight_or_extraction, answered_with_error, requested, performed_exactly,
   agrees_with_model, code_absent): Proofs/C12_Monitor.v. The classification in the hypotheses is spec_class, which
   proxy_classify_spec proves equal to the model's classify and proxy_classify_sound/exact/slash/other_methods characterise. *)

(* code 11 absent on a non-hijacked request: relay identity - no cluster call, the daemon received exactly the request
   (method, URI as sent, body), the answer is the daemon's status and body (empty for HEAD), no stream-error trailer *)
Theorem proxy_monitor_relay_sound id rq e cmp o :
  e_redirect e = false -> spec_class (rq_meth rq) (rq_path rq) = Relay ->
  code_absent 11 (check_case (id, (rq, e, cmp, o))) -> relay_spec rq e o.
Proof. exact (monitor11_sound_l id rq e cmp o). Qed.
Print Assumptions proxy_monitor_relay_sound.

(* code 15 absent on a non-canonical path: no cluster call, and either a 301 with nothing forwarded or a plain relay *)
Theorem proxy_monitor_noncanonical_sound id rq e cmp o :
  e_redirect e = true -> code_absent 15 (check_case (id, (rq, e, cmp, o))) -> redirect_spec rq e o.
Proof. exact (monitor15_sound_l id rq e cmp o). Qed.
Print Assumptions proxy_monitor_noncanonical_sound.

(* code 13 absent on a hijacked request: no request the daemon received is one of the mutating calls the proxy replaces
   (any method but OPTIONS on a path starting with pin/add, pin/rm, pin/update, add, repo/gc under /api/v0) *)
Theorem proxy_monitor_no_mutation_forwarded_sound id rq e cmp o h sl :
  e_redirect e = false -> spec_class (rq_meth rq) (rq_path rq) = Hijack h sl ->
  code_absent 13 (check_case (id, (rq, e, cmp, o))) -> forall d, In d (o_dreqs o) -> ~ mutating_request d.
Proof. exact (monitor13_sound_l id rq e cmp o h sl). Qed.
Print Assumptions proxy_monitor_no_mutation_forwarded_sound.

(* code 10 absent on a hijacked request: the request itself never reached the daemon - whatever the daemon received is a
   CORS pre-flight (OPTIONS) or the proxy's own header extraction (POST ExtractHeadersPath) *)
Theorem proxy_monitor_not_forwarded_sound id rq e cmp o h sl :
  e_redirect e = false -> spec_class (rq_meth rq) (rq_path rq) = Hijack h sl ->
  code_absent 10 (check_case (id, (rq, e, cmp, o))) -> forall d, In d (o_dreqs o) -> preflight_or_extraction e d.
Proof. exact (monitor10_sound_l id rq e cmp o h sl). Qed.
Print Assumptions proxy_monitor_not_forwarded_sound.

(* code 12 absent on a hijacked request: answered with an error (status >= 400, or for add the stream-error trailer) while no
   cluster call failed means that no mutating cluster call was made - the observed counterpart of proxy_error_no_op *)
Theorem proxy_monitor_error_no_op_sound id rq e cmp o h sl :
  e_redirect e = false -> spec_class (rq_meth rq) (rq_path rq) = Hijack h sl ->
  code_absent 12 (check_case (id, (rq, e, cmp, o))) ->
  answered_with_error h o -> none_failed (o_calls o) -> no_mutation (o_calls o).
Proof. exact (monitor12_sound_l id rq e cmp o h sl). Qed.
Print Assumptions proxy_monitor_error_no_op_sound.

(* code 14 absent on a hijacked request: a successful answer (none of whose calls failed; always for repo/stat, which skips
   failing peers) performed exactly the requested operation - the calls are the ones `requested` lists for the route with the
   parsed path and options, in order, nothing else (repo/stat: Peers, one RepoStat per peer, the sum over the peers that
   answered) - the observed counterpart of proxy_ops_faithful; in particular an unparsable argument is never answered with success *)
Theorem proxy_monitor_ops_faithful_sound id rq e cmp o h sl :
  e_redirect e = false -> spec_class (rq_meth rq) (rq_path rq) = Hijack h sl ->
  code_absent 14 (check_case (id, (rq, e, cmp, o))) ->
  ~ answered_with_error h o -> (none_failed (o_calls o) \/ h = HRepoStat) -> performed_exactly h e (eff_query rq sl) o.
Proof. exact (monitor14_sound_l id rq e cmp o h sl). Qed.
Print Assumptions proxy_monitor_ops_faithful_sound.

(* code 1 absent on a compared case: the observation agrees with the model's result on everything code 1 compares *)
Theorem proxy_monitor_model_eq_sound id rq e o :
  code_absent 1 (check_case (id, (rq, e, true, o))) -> agrees_with_model rq e o.
Proof. exact (monitor1_sound_l id rq e o). Qed.
Print Assumptions proxy_monitor_model_eq_sound.

(* completeness w.r.t. the model: for EVERY request and environment the case annotated with the model's own result raises no
   code at all (1 and 10..15). Guard: the configured header-extraction request is not itself one of the mutating daemon calls
   (the harness builds the proxy with cfg.Default(): ExtractHeadersPath = "/api/v0/version") *)
Theorem proxy_model_passes_monitor id rq e cmp :
  mutating_dreq ("POST", e_extract e, "") = false -> check_case (id, (rq, e, cmp, obs_of (run rq e))) = [].
Proof. exact (model_passes_monitor_l id rq e cmp). Qed.
Print Assumptions proxy_model_passes_monitor.

(* transfer: an observation that agrees with the model raises none of the codes 10..15 (on a non-canonical path code 15 also
   wants not even a pre-flight at the daemon, which code 1 does not compare when the answer is produced by the proxy) *)
Theorem proxy_agreement_transfers rq e o :
  mutating_dreq ("POST", e_extract e, "") = false -> (e_redirect e = true -> o_dreqs o = []) ->
  agrees_with_model rq e o -> spec_codes rq e o = [].
Proof. exact (agreement_transfers_l rq e o). Qed.
Print Assumptions proxy_agreement_transfers.

(* hence on a compared case the absence of code 1 alone implies the absence of every code, and with the soundness theorems
   above every clause of the property for that observation *)
Theorem proxy_no_code1_no_code id rq e o :
  mutating_dreq ("POST", e_extract e, "") = false -> (e_redirect e = true -> o_dreqs o = []) ->
  code_absent 1 (check_case (id, (rq, e, true, o))) -> check_case (id, (rq, e, true, o)) = [].
Proof. exact (no_code1_no_code_l id rq e o). Qed.
Print Assumptions proxy_no_code1_no_code.

(* the boolean monitors are exactly their Prop-level readings (both directions) *)
Theorem proxy_monitor_readings rq e h q o d :
  (relay_identity rq e o = true <-> relay_spec rq e o) /\ (mutating_dreq d = true <-> mutating_request d) /\
  (answered_error h o = true <-> answered_with_error h o) /\ (faithful h e q o = true <-> performed_exactly h e q o) /\
  (model_eqb rq e o = true <-> agrees_with_model rq e o).
Proof.
  exact (conj (relay_identity_spec rq e o) (conj (mutating_dreq_spec d) (conj (answered_error_spec h o)
        (conj (faithful_spec h e q o) (model_eqb_spec rq e o))))).
Qed.
Print Assumptions proxy_monitor_readings.

(* non-vacuity: a fresh proxy, POST /api/v0/pin/add/QmFoo?type=direct *)
Example proxy_monitor_example :
  let e := mk_env false [("QmFoo", Some "/ipfs/QmFoo")] [] None true "root" [] true "/api/v0/version" "r" 3 1 1 false 200 "daemon" in
  let rq := mk_req "POST" "/api/v0/pin/add/QmFoo" "/api/v0/pin/add/QmFoo?type=direct" [("type", ["direct"])] "" 0 in
  let good := mk_obs [(CPinPath "/ipfs/QmFoo" Direct "", false)] [("POST", "/api/v0/version", "")] 200 false "" 0 in
  (* the guard holds, the request is hijacked, the model performs the direct pin after the one-time header extraction *)
  mutating_dreq ("POST", e_extract e, "") = false /\
  spec_class (rq_meth rq) (rq_path rq) = Hijack HPin (Some "QmFoo") /\ obs_of (run rq e) = good /\
  check_case (0%N, (rq, e, true, good)) = [] /\
  (* so every soundness hypothesis is satisfiable, and the conclusion of code 14's theorem reads: *)
  performed_exactly HPin e (eff_query rq (Some "QmFoo")) good /\
  requested e (eff_query rq (Some "QmFoo")) HPin [CPinPath "/ipfs/QmFoo" Direct ""] /\
  (* wrong observations are rejected: the request forwarded to the daemon instead of pinned; pinned recursively instead of
     directly; pinned and then answered with an error *)
  check_case (0%N, (rq, e, true, mk_obs [] [("POST", "/api/v0/pin/add/QmFoo?type=direct", "")] 200 false "" 0))
    = [(0, 1, 0); (0, 13, 0); (0, 14, 0); (0, 10, 0)]%N /\
  check_case (0%N, (rq, e, true, mk_obs [(CPinPath "/ipfs/QmFoo" Recursive "", false)] [("POST", "/api/v0/version", "")] 200 false "" 0))
    = [(0, 1, 0); (0, 14, 0)]%N /\
  check_case (0%N, (rq, e, true, mk_obs [(CPinPath "/ipfs/QmFoo" Direct "", false)] [("POST", "/api/v0/version", "")] 500 false "" 0))
    = [(0, 1, 0); (0, 12, 0)]%N.
Proof.
  cbv zeta. repeat split; try (vm_compute; reflexivity).
  - exists [CPinPath "/ipfs/QmFoo" Direct ""]. split; [|reflexivity].
    refine (RqPin _ _ "/ipfs/QmFoo" _). vm_compute. reflexivity.
  - refine (RqPin _ _ "/ipfs/QmFoo" _). vm_compute. reflexivity.
Qed.

(* the same path under DELETE is relayed: the model forwards it untouched; a relay that drops the query is rejected; on a
   non-canonical path a cluster call is rejected *)
Example proxy_monitor_example_relay :
  let e := mk_env false [("QmFoo", Some "/ipfs/QmFoo")] [] None true "root" [] true "/api/v0/version" "r" 3 1 1 false 200 "daemon" in
  let e' := mk_env true [("QmFoo", Some "/ipfs/QmFoo")] [] None true "root" [] true "/api/v0/version" "r" 3 1 1 false 200 "daemon" in
  let rq := mk_req "DELETE" "/api/v0/pin/add/QmFoo" "/api/v0/pin/add/QmFoo?type=direct" [("type", ["direct"])] "b" 0 in
  spec_class (rq_meth rq) (rq_path rq) = Relay /\
  obs_of (run rq e) = mk_obs [] [("DELETE", "/api/v0/pin/add/QmFoo?type=direct", "b")] 200 false "daemon" 0 /\
  relay_spec rq e (obs_of (run rq e)) /\
  check_case (0%N, (rq, e, true, mk_obs [] [("DELETE", "/api/v0/pin/add/QmFoo", "b")] 200 false "daemon" 0)) = [(0, 1, 0); (0, 11, 0)]%N /\
  check_case (0%N, (rq, e', true, obs_of (run rq e'))) = [] /\
  check_case (0%N, (rq, e', true, mk_obs [(CPinPath "/ipfs/QmFoo" Direct "", false)] [] 200 false "" 0)) = [(0, 1, 0); (0, 15, 0)]%N.
Proof. cbv zeta. repeat split; vm_compute; reflexivity. Qed.

(* the two side conditions are needed. (a) With the header extraction configured onto a hijacked mutating endpoint the model's
   own result raises code 13: the guard of proxy_model_passes_monitor cannot be dropped. (b) On a non-canonical path an
   observation with a stray pre-flight agrees with the model (no code 1) and still raises code 15. *)
Example proxy_monitor_guards_needed :
  let e2 := mk_env false [("QmFoo", Some "/ipfs/QmFoo")] [] None true "root" [] true "/api/v0/pin/add" "r" 3 1 1 false 200 "daemon" in
  let e' := mk_env true [("QmFoo", Some "/ipfs/QmFoo")] [] None true "root" [] true "/api/v0/version" "r" 3 1 1 false 200 "daemon" in
  let rq := mk_req "POST" "/api/v0/pin/add/QmFoo" "/api/v0/pin/add/QmFoo?type=direct" [("type", ["direct"])] "" 0 in
  mutating_dreq ("POST", e_extract e2, "") = true /\
  check_case (0%N, (rq, e2, true, obs_of (run rq e2))) = [(0, 13, 0)]%N /\
  check_case (0%N, (rq, e', true, mk_obs [] [("OPTIONS", "/api/v0/pin/add/QmFoo", "")] 301 false "" 0)) = [(0, 15, 0)]%N.
Proof. cbv zeta. repeat split; vm_compute; reflexivity. Qed.
