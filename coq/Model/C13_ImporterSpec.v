(* C13 — vocabulary that connects the importer model (Model/C13_Importer.v) with the adder model (Model/C13_Adder.v):
   the blocks of a DAG as the importer stream of the adder, the daemons' block store after the add, a reader over that store.
   Definitions only. *)
From V Require Import Base.Common Model.C13_Adder Model.C13_Check Model.C13_Spec Model.C13_Importer.
Open Scope N_scope.

(* the hash: any function from block content to CIDs without a collision among the blocks at hand *)
Definition injective_on (l : list tree) (cid_of : tree -> N) : Prop :=
  forall a b, In a l -> In b l -> cid_of a = cid_of b -> a = b.

(* a block of the DAG as the adder sees it: CID, encoded size (any function of the content), CIDs of its links.
   The importer modelled here stops at the first error of DAGService.Add: no swallowed error *)
Definition block_of (cid_of enc_size : tree -> N) (t : tree) : block :=
  mkblock (cid_of t) (enc_size t) (map cid_of (kids t)) false.
Definition stream_of (cid_of enc_size : tree -> N) (em : list tree) : list block := map (block_of cid_of enc_size) em.

(* emission order: every block's children are handed to the DAG service before the block *)
Definition children_first (em : list tree) : Prop :=
  forall pre n post, em = pre ++ n :: post -> forall c, In c (kids n) -> In c pre.

(* what a daemon holds under a CID: a chunk, or links with the recorded sizes *)
Inductive content := CLeaf (d : bytes) | CLinks (ls : list (N * N)).
Definition content_of (cid_of : tree -> N) (t : tree) : content :=
  match t with Leaf d => CLeaf d | Node ch => CLinks (map (fun l => (cid_of (fst l), snd l)) ch) end.

(* the union of the daemons' stores after the add: exactly the CIDs that were put (`delivered`), each with the content of the
   block of the stream that has this CID *)
Definition store_of (cid_of : tree -> N) (em : list tree) (delivered : list N) (x : N) : option content :=
  if memN x delivered then option_map (content_of cid_of) (find (fun t => N.eqb (cid_of t) x) em) else None.

(* a sequential reader that only has the store: follow the links from a CID, concatenate the chunks (fuel = depth) *)
Fixpoint read_store (st : N -> option content) (fuel : nat) (c : N) : option bytes :=
  match fuel with
  | O => None
  | S f =>
      match st c with
      | None => None
      | Some (CLeaf d) => Some d
      | Some (CLinks ls) =>
          fold_right (fun l acc => match read_store st f (fst l), acc with Some a, Some b => Some (a ++ b) | _, _ => None end)
                     (Some []) ls
      end
  end.
