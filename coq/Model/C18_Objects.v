(* C18 — object models for the torn-result clause. Definitions only.

   A schedule is a list of atomic events. What happens inside one critical section of a mutex is one event
   (the mutual-exclusion invariant of the machine in C18_Conc justifies this); every access made outside
   any critical section is an event of its own, at word granularity. Both objects come in two variants:
   as the pinned source had them (S17a, S17b) and with all reads inside the critical section. Which variant
   describes the current source is read off the generated table (reader_variant). *)
From Coq Require Export List NArith Arith Bool.
Export ListNotations.
From V Require Import Model.C18_Table.

Inductive variant := Outside | Atomic.
(* the reads of fn share one critical section of the guard, according to the table *)
Definition reader_variant (ex : list exemption) (accs : list access) (fn : string) : variant :=
  if existsb (fun a => String.eqb (a_fn a) fn) accs && atomic_fn_okb ex accs fn then Atomic else Outside.

Fixpoint lookup {V} (r : nat) (m : list (nat * V)) : option V :=
  match m with [] => None | (k, v) :: t => if Nat.eqb r k then Some v else lookup r t end.

(* ------------------------------------------------------------------------------------------------ *)
(* Cluster.alerts: alertsHandler appends under alertsMux (resetting the slice first when it is longer
   than maxAlerts); Alerts() returns the list most recent first. Alert ids are N, 0 = an empty entry. *)
Inductive aev :=
| AAppend (a : N)      (* alertsHandler: lock; if len > max then reset; append; unlock *)
| ALen (r : nat)       (* reader r, as pinned: alerts := make([]Alert, len(c.alerts)) before the lock *)
| ACopy (r : nat)      (* reader r, as pinned: lock; for i, a := range c.alerts { alerts[total-1-i] = a }; unlock *)
| AAll (r : nat).      (* reader r, repaired: lock; make; copy; unlock *)

Inductive ares := APanic | AOk (l : list N).   (* index out of range / the returned slice *)

Record astate := mkA { a_list : list N; a_lens : list (nat * nat); a_out : list (nat * ares); a_hist : list N }.
Definition ainit : astate := mkA [] [] [] [].

(* the copy loop run on a result slice of n zero entries while the list is l *)
Definition copy_into (n : nat) (l : list N) : ares :=
  if Nat.ltb n (length l) then APanic else AOk (repeat 0%N (n - length l) ++ rev l).

Definition astep (maxa : nat) (s : astate) (e : aev) : astate :=
  match e with
  | AAppend a => mkA (if Nat.ltb maxa (length (a_list s)) then [a] else a_list s ++ [a]) (a_lens s) (a_out s) (a_hist s ++ [a])
  | ALen r => mkA (a_list s) ((r, length (a_list s)) :: a_lens s) (a_out s) (a_hist s)
  | ACopy r => match lookup r (a_lens s) with
               | Some n => mkA (a_list s) (a_lens s) ((r, copy_into n (a_list s)) :: a_out s) (a_hist s)
               | None => s end
  | AAll r => mkA (a_list s) (a_lens s) ((r, AOk (rev (a_list s))) :: a_out s) (a_hist s)
  end.
Definition arun (maxa : nat) (sched : list aev) : astate := fold_left (astep maxa) sched ainit.

(* the events a reader of the given variant performs *)
Definition aev_of (v : variant) (e : aev) : bool :=
  match v, e with
  | _, AAppend _ => true
  | Atomic, AAll _ => true
  | Outside, ALen _ | Outside, ACopy _ => true
  | _, _ => false end.

(* ------------------------------------------------------------------------------------------------ *)
(* metrics.Window: a ring of cap slots; a slot holds an interface value = two words, modelled as a pair
   (both words of metric m are m; (0,0) = nil). Add writes the slot under wMu and advances the cursor. *)
Inductive wev :=
| WAdd (m : N)         (* lock; window.Value = m; window = window.Next(); unlock *)
| WPrev (r : nat)      (* reader r, as pinned: rlock; prevRing := window.Prev(); runlock *)
| WRead1 (r : nat)     (* reader r, as pinned, outside the lock: first word of prevRing.Value *)
| WRead2 (r : nat)     (* second word; the call returns the pair *)
| WLatest (r : nat).   (* reader r, repaired: rlock; prevRing := window.Prev(); v := prevRing.Value; runlock *)

Record wstate := mkW { w_ring : nat -> N * N; w_cur : nat; w_prev : list (nat * nat); w_w1 : list (nat * N);
                       w_out : list (nat * (N * N)); w_last : N }.
Definition winit : wstate := mkW (fun _ => (0%N, 0%N)) 0 [] [] [] 0%N.
Definition prev_slot (cap cur : nat) : nat := (cur + cap - 1) mod cap.

Definition wstep (cap : nat) (s : wstate) (e : wev) : wstate :=
  match e with
  | WAdd m => mkW (fun i => if Nat.eqb i (w_cur s mod cap) then (m, m) else w_ring s i) (S (w_cur s))
                  (w_prev s) (w_w1 s) (w_out s) m
  | WPrev r => mkW (w_ring s) (w_cur s) ((r, prev_slot cap (w_cur s)) :: w_prev s) (w_w1 s) (w_out s) (w_last s)
  | WRead1 r => match lookup r (w_prev s) with
                | Some p => mkW (w_ring s) (w_cur s) (w_prev s) ((r, fst (w_ring s p)) :: w_w1 s) (w_out s) (w_last s)
                | None => s end
  | WRead2 r => match lookup r (w_prev s), lookup r (w_w1 s) with
                | Some p, Some a => mkW (w_ring s) (w_cur s) (w_prev s) (w_w1 s) ((r, (a, snd (w_ring s p))) :: w_out s) (w_last s)
                | _, _ => s end
  | WLatest r => mkW (w_ring s) (w_cur s) (w_prev s) (w_w1 s) ((r, w_ring s (prev_slot cap (w_cur s))) :: w_out s) (w_last s)
  end.
Definition wrun (cap : nat) (sched : list wev) : wstate := fold_left (wstep cap) sched winit.

Definition wev_of (v : variant) (e : wev) : bool :=
  match v, e with
  | _, WAdd _ => true
  | Atomic, WLatest _ => true
  | Outside, WPrev _ | Outside, WRead1 _ | Outside, WRead2 _ => true
  | _, _ => false end.
