(* C09 — monitor/metrics: Store (store.go), Window (window.go, the ring of 25 as a newest-first list),
   PeersetFilter (util.go), Checker (checker.go: failed / alert / CheckPeers / CheckAll),
   pubsubmon.Monitor.LatestMetrics, and the publish cadence of cluster.go (pushPingMetrics,
   pushInformerMetrics). Definitions only.
   CheckPeers is modelled twice: `check_peers_as_written` (the loop over all window entries of /repo @ 9309c15,
   suspect S9) and `check_peers` (one failure decision per (name, peer), forgotten at the alert: the repaired code,
   branch fix-S9). *)
From V Require Import Base.Common.
Open Scope Z_scope.

Record metric := mk_m { mid : N; mname : N; mpeer : N; mvalid : bool; mexp : Z }.

Definition key := (N * N)%type.  (* metric name, peer *)
Definition key_eqb (a b : key) : bool := N.eqb (fst a) (fst b) && N.eqb (snd a) (snd b).
Definition mkey (m : metric) : key := (mname m, mpeer m).

(* association list keyed by (name, peer) *)
Fixpoint kget {V} (k : key) (l : list (key * V)) : option V :=
  match l with [] => None | (k', v) :: r => if key_eqb k k' then Some v else kget k r end.
Fixpoint kdel {V} (k : key) (l : list (key * V)) : list (key * V) :=
  match l with [] => [] | (k', v) :: r => if key_eqb k k' then kdel k r else (k', v) :: kdel k r end.
Definition kput {V} (k : key) (v : V) (l : list (key * V)) : list (key * V) := (k, v) :: kdel k l.

(* ---- Store ---- *)
Definition window_cap : nat := 25.
Record store := mk_store { wins : list (key * list metric); names : list N }.
Definition empty_store : store := mk_store [] [].

Definition window (k : key) (st : store) : list metric :=
  match kget k (wins st) with Some w => w | None => [] end.
(* Window.Latest / Store.PeerLatest *)
Definition latest (k : key) (st : store) : option metric :=
  match window k st with m :: _ => Some m | [] => None end.

(* Store.Add: newest first, the ring keeps the last 25; byName[name] is created and never deleted *)
Definition s_add (m : metric) (st : store) : store :=
  mk_store (kput (mkey m) (firstn window_cap (m :: window (mkey m) st)) (wins st))
           (if memN (mname m) (names st) then names st else names st ++ [mname m]).
Definition s_remove_peer (p : N) (st : store) : store :=
  mk_store (filter (fun e => negb (N.eqb (snd (fst e)) p)) (wins st)) (names st).
Definition s_remove_peer_metrics (k : key) (st : store) : store := mk_store (kdel k (wins st)) (names st).

(* api.Metric.Expired: time.Now().After(expire); Discard *)
Definition expired (now : Z) (m : metric) : bool := mexp m <? now.
Definition discard (now : Z) (m : metric) : bool := negb (mvalid m) || expired now m.

Fixpoint insert_by_peer (m : metric) (l : list metric) : list metric :=
  match l with
  | [] => [m]
  | x :: r => if (mpeer m <=? mpeer x)%N then m :: l else x :: insert_by_peer m r
  end.
Definition sort_by_peer (l : list metric) : list metric := fold_right insert_by_peer [] l.

(* Store.LatestValid *)
Definition latest_valid (now : Z) (name : N) (st : store) : list metric :=
  sort_by_peer
    (flat_map (fun e => if N.eqb (fst (fst e)) name
                        then match snd e with m :: _ => if discard now m then [] else [m] | [] => [] end
                        else []) (wins st)).

(* util.go PeersetFilter *)
Definition peerset_filter (ms : list metric) (peers : list N) : list metric :=
  filter (fun m => memN (mpeer m) peers) ms.

(* pubsubmon.Monitor.LatestMetrics: PeersFunc nil / failing / giving a peerset *)
Inductive pset := PNone | PErr | PSome (l : list N).
Definition latest_metrics (now : Z) (name : N) (ps : pset) (st : store) : list metric :=
  match ps with
  | PNone => latest_valid now name st
  | PErr => []
  | PSome l => peerset_filter (latest_valid now name st) l
  end.

(* ---- Checker ---- *)
Definition accrual_num : nat := 6.
Definition counters := list (key * nat).   (* failedPeers[peer][name], absent = 0 *)
Definition cnt (k : key) (c : counters) : nat := match kget k c with Some n => n | None => 0%nat end.

(* failed(): no latest -> failed; latest not expired -> not failed; expired with < 6 samples -> failed;
   else the accrual verdict phi (floating point, an oracle) *)
Definition failed (now : Z) (phi : bool) (k : key) (st : store) : bool :=
  match window k st with
  | [] => true
  | m :: w => if expired now m then (if (length (m :: w) <? accrual_num)%nat then true else phi) else false
  end.

(* an alert carries the latest metric, or an empty one when there is none *)
Definition alert_t := (key * option N)%type.

(* alert() AS WRITTEN at 9309c15 (MaxAlertThreshold = 1): the call after the one that reached the threshold forgets *)
Definition alert_as_written (k : key) (st : store) (c : counters) : store * counters * list alert_t :=
  if (1 <=? cnt k c)%nat then (s_remove_peer_metrics k st, kdel k c, [])
  else (st, kput k (S (cnt k c)) c, [(k, match latest k st with Some m => Some (mid m) | None => None end)]).

(* alert() repaired: count, send, and forget the metrics as soon as the threshold (1) is reached *)
Definition max_alert_threshold : nat := 1.
Definition alert (k : key) (st : store) (c : counters) : store * counters * list alert_t :=
  let n := S (cnt k c) in
  let a := [(k, match latest k st with Some m => Some (mid m) | None => None end)] in
  if (max_alert_threshold <=? n)%nat then (s_remove_peer_metrics k st, kdel k c, a)
  else (st, kput k n c, a).

(* one failure decision for (name, peer) — skipped when the store holds nothing for it *)
Definition visit (now : Z) (v : key * bool) (s : store * counters) : store * counters * list alert_t :=
  let '(st, c) := s in
  match latest (fst v) st with
  | None => (st, c, [])
  | Some _ => if failed now (snd v) (fst v) st then alert (fst v) st c else (st, c, [])
  end.

Fixpoint visits (now : Z) (vs : list (key * bool)) (s : store * counters) : store * counters * list alert_t :=
  match vs with
  | [] => (fst s, snd s, [])
  | v :: r => let '(st1, c1, a1) := visit now v s in
              let '(st2, c2, a2) := visits now r (st1, c1) in (st2, c2, a1 ++ a2)
  end.

(* CheckPeers (repaired): for name in MetricNames() (map order = the list given), for peer in peers *)
Definition peers_visits (phi : key -> bool) (order : list N) (peers : list N) : list (key * bool) :=
  flat_map (fun n => map (fun p => ((n, p), phi (n, p))) peers) order.
Definition check_peers (now : Z) (phi : key -> bool) (order peers : list N) (s : store * counters) :=
  visits now (peers_visits phi order peers) s.

(* CheckAll: AllMetrics() = the latest of every window if Valid; one decision each *)
Definition all_visits (phi : key -> bool) (st : store) : list (key * bool) :=
  flat_map (fun e => match snd e with m :: _ => if mvalid m then [(fst e, phi (fst e))] else [] | [] => [] end) (wins st).
Definition check_all (now : Z) (phi : key -> bool) (s : store * counters) :=
  visits now (all_visits phi (fst s)) s.

(* CheckPeers AS WRITTEN at 9309c15: for every entry of the window snapshot, FailedMetric then alert *)
Fixpoint loop_as_written (now : Z) (phi : bool) (k : key) (n : nat) (s : store * counters) : store * counters * list alert_t :=
  match n with
  | O => (fst s, snd s, [])
  | S n' =>
      if failed now phi k (fst s) then
        let '(st1, c1, a1) := alert_as_written k (fst s) (snd s) in
        let '(st2, c2, a2) := loop_as_written now phi k n' (st1, c1) in (st2, c2, a1 ++ a2)
      else loop_as_written now phi k n' s
  end.
Fixpoint check_keys_as_written (now : Z) (vs : list (key * bool)) (s : store * counters) : store * counters * list alert_t :=
  match vs with
  | [] => (fst s, snd s, [])
  | v :: r => let '(st1, c1, a1) := loop_as_written now (snd v) (fst v) (length (window (fst v) (fst s))) s in
              let '(st2, c2, a2) := check_keys_as_written now r (st1, c1) in (st2, c2, a1 ++ a2)
  end.
Definition check_peers_as_written (now : Z) (phi : key -> bool) (order peers : list N) (s : store * counters) :=
  check_keys_as_written now (peers_visits phi order peers) s.

(* ---- histories ---- *)
Inductive event :=
| EAdd (m : metric)
| ERemovePeer (p : N)
| ECheck (now : Z) (vs : list (key * bool)).   (* any pass of failure decisions: CheckPeers / CheckAll in any map order *)

Definition step (e : event) (s : store * counters) : store * counters * list alert_t :=
  match e with
  | EAdd m => (s_add m (fst s), snd s, [])
  | ERemovePeer p => (s_remove_peer p (fst s), snd s, [])
  | ECheck now vs => visits now vs s
  end.
Fixpoint run (h : list event) (s : store * counters) : store * counters * list alert_t :=
  match h with
  | [] => (fst s, snd s, [])
  | e :: r => let '(st1, c1, a1) := step e s in
              let '(st2, c2, a2) := run r (st1, c1) in (st2, c2, a1 ++ a2)
  end.
Definition alerts_for (k : key) (l : list alert_t) : nat := length (filter (fun a => key_eqb (fst a) k) l).
Definition adds_key (k : key) (e : event) : bool := match e with EAdd m => key_eqb (mkey m) k | _ => false end.

(* ---- publish cadence (cluster.go), times in ns ---- *)
(* pushPingMetrics: attempt k at t0 + k*I, each stamped to expire 2*I later *)
Definition ping_time (t0 iv : Z) (k : Z) : Z := t0 + k * iv.
Definition ping_expire (t0 iv : Z) (k : Z) : Z := ping_time t0 iv k + 2 * iv.
(* the newest ping published at or before t *)
Definition ping_newest (t0 iv t : Z) : Z := (t - t0) / iv.

(* pushInformerMetrics: the metric made at attempt time a expires at a + ttl; the timer is re-armed d later
   (0 <= d < ttl: the time the publication took) with half of what is left, a quarter after an error *)
Definition informer_next (ttl : Z) (a d : Z) (err : bool) : Z :=
  let left := a + ttl - (a + d) in a + d + (if err then left / 4 else left / 2).
Fixpoint informer_times (ttl : Z) (a : Z) (script : list (Z * bool)) : list Z :=
  match script with
  | [] => [a]
  | (d, err) :: r => a :: informer_times ttl (informer_next ttl a d err) r
  end.
