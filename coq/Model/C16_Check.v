(* C16 — boolean form of the property applied to what the real Connector did against the scripted
   daemon (spec_fails), and model-vs-implementation comparison. Evaluated with vm_compute on harness cases. *)
From V Require Import Base.Common Model.C16_Connector.
Open Scope Z_scope.

Inductive op :=
| OpPin (p : pinreq)
| OpUnpin (c : N) (disabled : bool)
| OpLs (c : N) (depth : Z).

(* what the harness observed: result class (for OpLs: RErr iff an error was returned), the status
   returned by PinLsCid (StBug otherwise), the daemon's final table, the non-swarm requests it
   received in order, and the number of swarm/connect requests *)
Inductive obs := Obs (r : result) (st : ipfs_status) (d : daemon) (reqs : list call) (nconnect : N).

Definition case := (N * (op * daemon * script * obs))%type.

Definition optmode_eqb (a b : option pmode) : bool :=
  match a, b with Some x, Some y => pmode_eqb x y | None, None => true | _, _ => false end.
Definition daemon_eqb (a b : daemon) : bool :=
  forallb (fun c => optmode_eqb (aget c a) (aget c b)) (akeys a ++ akeys b).

(* ---------- model = implementation ---------- *)
Definition run_model (o : op) (d : daemon) (s : script) : result * ipfs_status * daemon * list exchange :=
  match o with
  | OpPin p => let '(r, d', x) := conn_pin p d s in (r, StBug, d', x)
  | OpUnpin c dis => let '(r, d', x) := conn_unpin dis c d s in (r, StBug, d', x)
  | OpLs c depth => let '(st, d', _, x) := pin_ls_cid c depth d s in ((if snd st then RErr else ROk), fst st, d', x)
  end.

Definition model_eqb (o : op) (d : daemon) (s : script) (ob : obs) : bool :=
  let '(r, st, d', x) := run_model o d s in
  let '(Obs r' st' d'' reqs _) := ob in
  result_eqb r r' && status_eqb st st' && daemon_eqb d' d'' && list_eqb call_eqb (requests x) reqs.

(* ---------- the property on the implementation's own observation ---------- *)
(* replies the scripted daemon gave to the requests it actually received (daemon contract only,
   nothing of the connector model) *)
Fixpoint replay (d : daemon) (reqs : list call) (s : script) : list exchange :=
  match reqs with
  | [] => []
  | cl :: rest => let (b, s') := pop s in let (d', r) := serve d cl b in (cl, r) :: replay d' rest s'
  end.

Definition last_failed (x : list exchange) : bool :=
  match rev x with e :: _ => is_failure e | [] => false end.
Definition last_is_update_stall (x : list exchange) : bool :=
  match rev x with (CUpdate _ _ _, PStall) :: _ => true | _ => false end.
Definition last_is_add_trailer (x : list exchange) : bool :=
  match rev x with (CAdd _ _ _ _, PTrailer) :: _ => true | _ => false end.

Definition head_ok (s : script) : bool := match s with [] => true | BOk _ _ :: _ => true | _ => false end.

(* a pin whose update branch can only produce the mode its MaxDepth asks for *)
Definition update_consistent (p : pinreq) : bool :=
  match p_update p, p_mode p with Some _, Rec => negb (p_depth p =? 0) | _, _ => true end.

(* the daemon keeps its contract: it never claims "not pinned" for a CID it holds *)
Definition honest_rm (c : N) (d : daemon) (s : script) : bool :=
  match s, aget c d with BErr MNotPinned :: _, Some _ => false | _, _ => true end.

Definition min10 (n : N) : N := if (10 <? n)%N then 10%N else n.

Definition uses_update (reqs : list call) : bool := existsb is_update reqs.

(* codes: 10 success sound, 11 already pinned -> only the pin/ls, 12 update discipline,
          13 failure reported as error, 14 stall gives error, 15 unpin of unpinned is success,
          16 swarm/connect bound *)
Definition spec_fails (o : op) (d : daemon) (s : script) (ob : obs) : list N :=
  let '(Obs r st d' reqs nconn) := ob in
  let x := replay d reqs s in
  match o with
  | OpPin p =>
      let c := p_cid p in
      let want := mode_of (p_depth p) in
      (if result_eqb r ROk && update_consistent p && negb (optmode_eqb (aget c d') (Some want)) then [10%N] else [])
      ++ (if optmode_eqb (aget c d) (Some want) && head_ok s
          then (if result_eqb r ROk && list_eqb call_eqb reqs [CLs c (to_pin_mode (p_depth p))] && (nconn =? 0)%N
                   && daemon_eqb d d' then [] else [11%N])
          else [])
      ++ (if forallb (fun cl => match cl with
                                | CUpdate f t u => negb u && N.eqb t c && optmode_eqb (aget f d) (Some Rec)
                                                   && optmode_eqb (aget f d') (Some Rec)
                                                   && optN_eqb (p_update p) (Some f)
                                | _ => true end) reqs
             && forallb (fun k => N.eqb k c || optmode_eqb (aget k d) (aget k d')) (akeys d ++ akeys d')
          then [] else [12%N])
      ++ (if last_failed x && result_eqb r ROk then [13%N] else [])
      ++ (if last_failed x && match rev x with (_, PStall) :: _ => true | _ => false end && negb (result_eqb r RErr)
          then [14%N] else [])
      ++ (if (nconn <=? min10 (p_origins p))%N then [] else [16%N])
  | OpUnpin c dis =>
      (if result_eqb r ROk && honest_rm c d s && negb (optmode_eqb (aget c d') None) then [10%N] else [])
      ++ (if dis then (if result_eqb r RErr && match reqs with [] => true | _ => false end && daemon_eqb d d' then [] else [13%N]) else [])
      ++ (if last_failed x && result_eqb r ROk then [13%N] else [])
      ++ (if last_failed x && match rev x with (_, PStall) :: _ => true | _ => false end && negb (result_eqb r RErr)
          then [14%N] else [])
      ++ (if negb dis && optmode_eqb (aget c d) None && head_ok s
          then (if result_eqb r ROk && list_eqb call_eqb reqs [CRm c] && daemon_eqb d d' then [] else [15%N])
          else [])
      ++ (if forallb (fun k => N.eqb k c || optmode_eqb (aget k d) (aget k d')) (akeys d ++ akeys d') then [] else [12%N])
  | OpLs c depth =>
      (* a well-behaved daemon: the status is the truth about (c, mode asked); never changes the table *)
      (if head_ok s
       then (if result_eqb r ROk
                && status_eqb st (if optmode_eqb (aget c d) (Some (to_pin_mode depth)) then status_of_mode (to_pin_mode depth) else StUnpinned)
             then [] else [10%N])
       else [])
      ++ (if daemon_eqb d d' then [] else [12%N])
  end.

(* finding / defect recognisers: the SHAPE of the failing case *)
(* 1: the decisive request was a pin/update the daemon never answered *)
(* 2: the decisive request was a pin/add whose error came in the X-Stream-Error trailer (S16) *)
Definition tag_of (o : op) (d : daemon) (s : script) (ob : obs) : N :=
  let '(Obs _ _ _ reqs _) := ob in
  let x := replay d reqs s in
  match o with
  | OpPin _ => if last_is_update_stall x then 1%N else if last_is_add_trailer x then 2%N else 0%N
  | _ => 0%N
  end.

Definition check_case (c : case) : list (N * N * N) :=
  let '(id, (o, d, s, ob)) := c in
  (if model_eqb o d s ob then [] else [(id, 1%N, 0%N)]) ++
  map (fun code => (id, code, tag_of o d s ob)) (spec_fails o d s ob).

Definition failing (cs : list case) : list (N * N * N) := flat_map check_case cs.
