(* C18 — the interleaving machine of Model/C18_Conc.v extended with `Wait g`: a thread blocks until every
   thread of the group g has finished (sync.WaitGroup.Wait for the goroutines the WaitGroup covers; a plain
   receive from a channel for whoever closes it). Definitions only.

   Groups are static: `grp i` lists the groups thread i belongs to (the WaitGroups whose Add/Done bracket
   its body). A goroutine that is started later is a thread that simply has not been scheduled yet; that
   every goroutine a Wait is meant to collect has been accounted for (wg.Add) before the Wait is the
   contract of sync.WaitGroup and is assumed. A thread may belong to a group it waits for: that Wait never
   becomes enabled (this is Shutdown called from inside a covered goroutine). *)
From V Require Export Model.C18_Conc.

Definition gname := string.                    (* the table's name of a group: "wg:package.Type.field", "ch:package.Type.field" *)
Definition group := (N * gname)%type.          (* instance, name *)

Inductive gev := GE (e : ev) | GWait (g : group).

(* the lock / access events of a thread, its waits dropped *)
Definition evs (p : list gev) : list ev := flat_map (fun w => match w with GE e => [e] | GWait _ => [] end) p.

Record gth := { gdone : list gev; gtodo : list gev }.
Definition gst := nat -> gth.

Definition genabled (grp : nat -> list group) (s : gst) (i : nat) (w : gev) : Prop :=
  match w with
  | GE (Acq l) => forall j, j <> i -> ~ holds_any (evs (gdone (s j))) l
  | GE (RAcq l) => forall j, j <> i -> ~ holds_excl (evs (gdone (s j))) l
  | GE _ => True
  | GWait g => forall j, In g (grp j) -> gtodo (s j) = []
  end.

Definition gset (s : gst) (i : nat) (t : gth) : gst := fun j => if Nat.eqb j i then t else s j.

Inductive gstep (grp : nat -> list group) : gst -> gst -> Prop :=
| GStep s i w rest : gtodo (s i) = w :: rest -> genabled grp s i w ->
    gstep grp s (gset s i {| gdone := gdone (s i) ++ [w]; gtodo := rest |}).

Inductive greach (grp : nat -> list group) (s0 : gst) : gst -> Prop :=
| GR0 : greach grp s0 s0
| GRS s s' : greach grp s0 s -> gstep grp s s' -> greach grp s0 s'.

Definition ginit_ok (s0 : gst) : Prop := forall i, gdone (s0 i) = [].
Definition gprog_inv (progs : nat -> list gev) (s : gst) : Prop := forall i, progs i = gdone (s i) ++ gtodo (s i).

(* thread i cannot move: Lock / RLock as in Model/C18_Conc.v (a reader also waits for a pending writer);
   Wait g while some thread of g (possibly i itself) is unfinished *)
Definition gstuck (grp : nat -> list group) (s : gst) (i : nat) : Prop :=
  match gtodo (s i) with
  | GE (Acq l) :: _ => exists j, j <> i /\ holds_any (evs (gdone (s j))) l
  | GE (RAcq l) :: _ => exists j, j <> i /\ (holds_excl (evs (gdone (s j))) l \/ exists r, gtodo (s j) = GE (Acq l) :: r)
  | GWait g :: _ => exists j, In g (grp j) /\ gtodo (s j) <> []
  | _ => False end.

(* some thread (of the first n) is unfinished and every unfinished one is blocked on a lock or on a group *)
Definition gdeadlocked (grp : nat -> list group) (n : nat) (s : gst) : Prop :=
  (exists i, i < n /\ gtodo (s i) <> []) /\ forall i, i < n -> gtodo (s i) <> [] -> gstuck grp s i.

(* the nodes of the wait-for graph: lock names and group names *)
Inductive node := NLock (l : lname) | NGroup (g : gname).

(* The wait-for relation of one thread program, ranked: along
     "holds L while acquiring M", "holds L while waiting for G",
     "a thread of G acquires L",  "a thread of G waits for G'"
   the rank strictly increases. (Without the fourth relation two covered threads that wait for each other's
   group deadlock while holding no lock at all.) gs = the groups the thread belongs to. *)
Definition gordered (rank : node -> nat) (gs : list group) (prog : list gev) : Prop :=
  (forall p l r, prog = p ++ GE (Acq l) :: r \/ prog = p ++ GE (RAcq l) :: r ->
     (forall h, In h (scan (evs p)) -> rank (NLock (snd (fst h))) < rank (NLock (snd l))) /\
     (forall g, In g gs -> rank (NGroup (snd g)) < rank (NLock (snd l)))) /\
  (forall p g r, prog = p ++ GWait g :: r ->
     (forall h, In h (scan (evs p)) -> rank (NLock (snd (fst h))) < rank (NGroup (snd g))) /\
     (forall g', In g' gs -> rank (NGroup (snd g')) < rank (NGroup (snd g)))).

(* a finished thread holds nothing *)
Definition gbalanced (prog : list gev) : Prop := scan (evs prog) = [].

(* ---- the machine of Model/C18_Conc.v is this one without waits ---- *)
Definition lift_th (t : th) : gth := {| gdone := map GE (done_ t); gtodo := map GE (todo t) |}.
Definition lift_st (s : st) : gst := fun i => lift_th (s i).
Definition no_groups : nat -> list group := fun _ => [].
Definition lock_rank (rank : lname -> nat) (x : node) : nat := match x with NLock l => rank l | NGroup _ => 0 end.

(* ---- Cluster.Shutdown against watchPeers, as two thread programs (o = the Cluster object) ----
   Shutdown: shutdownLock.Lock(); ...; c.wg.Wait(); ...; Unlock (deferred)
   watchPeers as pinned (a goroutine c.wg covers): shutdownLock.Lock(); removed = true; Unlock (deferred)
   watchPeers as repaired: nothing of that in the covered goroutine; a goroutine nobody waits for does it *)
Definition sd_lock (o : N) : lock := (o, ("ipfscluster.Cluster"%string, "shutdownLock"%string)).
Definition sd_group (o : N) : group := (o, "wg:ipfscluster.Cluster.wg"%string).
Definition sd_shutdown (o : N) : list gev := [GE (Acq (sd_lock o)); GWait (sd_group o); GE (Rel (sd_lock o))].
Definition sd_set_removed (o : N) : list gev := [GE (Acq (sd_lock o)); GE (Rel (sd_lock o))].
(* thread 0 = a caller of Shutdown, thread 1 = the watchPeers goroutine (covered), thread 2 = the goroutine
   the repaired watchPeers starts (not covered) *)
Definition sd_grp (o : N) : nat -> list group := fun i => match i with 1 => [sd_group o] | _ => [] end.
Definition sd_progs_pinned (o : N) : nat -> list gev :=
  fun i => match i with 0 => sd_shutdown o | 1 => sd_set_removed o | _ => [] end.
Definition sd_progs_repaired (o : N) : nat -> list gev :=
  fun i => match i with 0 => sd_shutdown o | 2 => sd_set_removed o | _ => [] end.
Definition start_of (progs : nat -> list gev) : gst := fun i => {| gdone := []; gtodo := progs i |}.
Definition sd_rank (x : node) : nat := match x with NLock _ => 0 | NGroup _ => 1 end.
