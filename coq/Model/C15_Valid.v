(* C15 — the Validate() method of every configuration section, transcribed by hand (definitions only).
   Each transcription is pinned to a hash of the Go source text of Validate and of the same-file helpers it
   calls (Gen/ConfigSchemas.v carries the hash of the current source; `validators_pinned` compares), and is
   checked value by value by the correspondence harness (values below / at / above every bound).
   hashicorp/raft's ValidateConfig (library code, version pinned by go.mod) is transcribed for the members the
   section can set. *)
From Coq Require Import String List ZArith Bool.
From V Require Import Model.C15_Config.
Import ListNotations.
Open Scope string_scope.
Open Scope Z_scope.

Definition zv (g : string -> val) (n : string) : Z := match g n with VZ z => z | _ => 0 end.
Definition sv (g : string -> val) (n : string) : string := match g n with VS s => s | _ => "" end.
Definition bv (g : string -> val) (n : string) : bool := match g n with VB b => b | _ => false end.
Definition lv (g : string -> val) (n : string) : list string := match g n with VL l => l | _ => [] end.
Definition nonempty_s (s : string) : bool := negb (String.eqb s "").
Definition is_nil_list (l : list string) : bool := match l with [] => true | _ => false end.

Definition ms := 1000000.
Definition sec := 1000000000.

(* consensus/raft/config.go Validate + hashicorp/raft v1.1.1 ValidateConfig *)
Definition valid_raft : validator := fun _ g =>
  (0 <? zv g "wait_for_leader_timeout") && (0 <? zv g "network_timeout") && (0 <=? zv g "commit_retries")
  && (0 <? zv g "commit_retry_delay") && (0 <? zv g "backups_rotate")
  && (5 * ms <=? zv g "heartbeat_timeout") && (5 * ms <=? zv g "election_timeout") && (1 * ms <=? zv g "commit_timeout")
  && (0 <? zv g "max_append_entries") && (zv g "max_append_entries" <=? 1024)
  && (5 * ms <=? zv g "snapshot_interval") && (5 * ms <=? zv g "leader_lease_timeout")
  && (zv g "leader_lease_timeout" <=? zv g "heartbeat_timeout") && (zv g "heartbeat_timeout" <=? zv g "election_timeout").

(* pintracker/stateless/config.go *)
Definition valid_stateless : validator := fun _ g =>
  (0 <? zv g "max_pin_queue_size") && (0 <? zv g "concurrent_pins").

(* ipfsconn/ipfshttp/config.go: every check overwrites err, the last one set is returned: any failure rejects *)
Definition valid_ipfshttp : validator := fun _ g =>
  nonempty_s (sv g "node_multiaddress") && (0 <=? zv g "connect_swarms_delay") && (0 <=? zv g "ipfs_request_timeout")
  && (0 <=? zv g "pin_timeout") && (0 <=? zv g "unpin_timeout") && (0 <=? zv g "repogc_timeout").

(* cluster_config.go: Validate, isReplicationFactorValid. isRPCPolicyValid concerns a member that is not part of the
   JSON form (always DefaultRPCPolicy after a load), so it does not depend on the document. *)
Definition rf_valid (mn mx : Z) : bool :=
  negb (mn =? 0) && negb (mx =? 0) && (mn <=? mx) && (-1 <=? mn) && (-1 <=? mx)
  && negb (((mn =? -1) && negb (mx =? -1)) || (negb (mn =? -1) && (mx =? -1))).
Definition valid_cluster : validator := fun _ g =>
  negb (is_nil_list (lv g "listen_multiaddress"))
  && (0 <? zv g "connection_manager.low_water") && (0 <? zv g "connection_manager.high_water")
  && (zv g "connection_manager.low_water" <=? zv g "connection_manager.high_water")
  && negb (zv g "connection_manager.grace_period" =? 0)
  && (0 <? zv g "dial_peer_timeout") && (0 <? zv g "state_sync_interval") && (0 <? zv g "pin_recover_interval")
  && (0 <? zv g "monitor_ping_interval") && (0 <? zv g "peer_watch_interval")
  && rf_valid (zv g "replication_factor_min") (zv g "replication_factor_max").

(* consensus/crdt/config.go *)
Definition valid_crdt : validator := fun _ g =>
  nonempty_s (sv g "cluster_name") && nonempty_s (sv g "peerset_metric") && (0 <? zv g "rebroadcast_interval")
  && (0 <? zv g "batching.max_queue_size").

(* api/rest/config.go: Validate + validateLibp2p. A TLS pair that does not load is refused by tlsOptions before Validate;
   both outcomes are the oracle "tls_ok". "id_matches_key" is peer.ID.MatchesPrivateKey. *)
Definition valid_restapi : validator := fun orc g =>
  (0 <=? zv g "read_timeout") && (0 <=? zv g "read_header_timeout") && (0 <=? zv g "write_timeout") && (0 <=? zv g "idle_timeout")
  && (4096 <=? zv g "max_header_bytes")
  && (match g "basic_auth_credentials" with VL [] => false | _ => true end)
  && ((negb (nonempty_s (sv g "ssl_cert_file")) && negb (nonempty_s (sv g "ssl_key_file"))) || orc "tls_ok")
  && (0 <=? zv g "cors_max_age")
  && (let any := nonempty_s (sv g "id") || nonempty_s (sv g "private_key") || negb (is_nil_list (lv g "libp2p_listen_multiaddress")) in
      let all := nonempty_s (sv g "id") && nonempty_s (sv g "private_key") && negb (is_nil_list (lv g "libp2p_listen_multiaddress")) in
      negb any || (all && orc "id_matches_key")).

(* api/ipfsproxy/config.go (every check overwrites err: any failure rejects) *)
Definition valid_ipfsproxy : validator := fun _ g =>
  negb (is_nil_list (lv g "listen_multiaddress")) && nonempty_s (sv g "node_multiaddress")
  && (0 <=? zv g "read_timeout") && (0 <=? zv g "read_header_timeout") && (0 <=? zv g "write_timeout") && (0 <=? zv g "idle_timeout")
  && nonempty_s (sv g "extract_headers_path") && (0 <=? zv g "extract_headers_ttl") && (4096 <=? zv g "max_header_bytes").

Definition valid_pubsubmon : validator := fun _ g => (0 <? zv g "check_interval") && (0 <? zv g "failure_threshold").
Definition valid_disk : validator := fun _ g => (0 <? zv g "metric_ttl") && nonempty_s (sv g "metric_type").
Definition valid_numpin : validator := fun _ g => (0 <? zv g "metric_ttl").
Definition valid_metrics : validator := fun _ g =>
  negb (bv g "enable_stats") || (nonempty_s (sv g "prometheus_endpoint") && (0 <=? zv g "reporting_interval")).
Definition valid_tracing : validator := fun _ g =>
  negb (bv g "enable_tracing") || (nonempty_s (sv g "jaeger_agent_endpoint") && (0 <=? zv g "sampling_prob")).
Definition valid_badger : validator := fun _ g =>
  nonempty_s (sv g "folder") && (0 <? zv g "gc_discard_ratio") && (zv g "gc_discard_ratio" <? 1000000).
Definition valid_leveldb : validator := fun _ g => nonempty_s (sv g "folder").

Definition validators : list (string * validator) := [
  ("cluster", valid_cluster); ("raft", valid_raft); ("crdt", valid_crdt); ("restapi", valid_restapi);
  ("ipfsproxy", valid_ipfsproxy); ("ipfshttp", valid_ipfshttp); ("stateless", valid_stateless);
  ("pubsubmon", valid_pubsubmon); ("disk", valid_disk); ("numpin", valid_numpin); ("metrics", valid_metrics);
  ("tracing", valid_tracing); ("badger", valid_badger); ("leveldb", valid_leveldb)
].

Fixpoint assoc_get {A} (k : string) (l : list (string * A)) : option A :=
  match l with [] => None | (k', v) :: r => if String.eqb k k' then Some v else assoc_get k r end.

Definition reject_all : validator := fun _ _ => false.
Definition validator_of (s : string) : validator :=
  match assoc_get s validators with Some v => v | None => reject_all end.

(* hash of the Go text each transcription above was made from *)
Definition expected_valid_hash : list (string * string) := [
  ("cluster", "e1c95ecd1d777666"); ("raft", "0d96513109914993"); ("crdt", "8de72c2dc35e5a9c"); ("restapi", "340718475c4efb7e");
  ("ipfsproxy", "72e92bfbf917999d"); ("ipfshttp", "cb3c282c1feace27"); ("stateless", "f634c99b465e1d3a");
  ("pubsubmon", "7233b5879d9171b4"); ("disk", "6d64bdad40449398"); ("numpin", "7f828cd637452c59");
  ("metrics", "0a7e407db8fc1e05"); ("tracing", "c5bd10917695d838"); ("badger", "09b5d763f62edad1"); ("leveldb", "25b836d7e56d515f")
].

(* custom rules transcribed in Model/C15_Config.v (custom_load) and the hash of the function they were read from *)
Definition expected_custom_hash : list (string * string) := [
  ("crdt.trusted_peers", "6630fcf047d1c4b7"); ("crdt.trusted_peers/save", "4d4b5dc0aef16f34");
  ("restapi.ssl_cert_file", "6edbe991f90ce542"); ("restapi.ssl_key_file", "6edbe991f90ce542")
].
