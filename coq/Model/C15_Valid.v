(* C15 — what a valid configuration of every section is: the MODEL, written by hand (definitions only), as a list of
   clauses that must all hold, in the vocabulary of Model/C15_VCond.v.
   The Validate() methods of the 14 config.go files (plus isReplicationFactorValid, validateLibp2p and the
   hashicorp/raft ValidateConfig of the version go.mod pins) are TRANSLATED at every run into Gen/ConfigValidators.v
   (one clause per place where the source rejects); `validators_source_is_model` (Props/C15.v) proves that the
   translation and this model are the same function of oracle and configuration, for every section.
   Members are named by their JSON name; durations are in ns, floats in 1e-6. *)
From Coq Require Import String List ZArith Bool.
From V Require Import Model.C15_Config.
From V Require Export Model.C15_VCond.
Import ListNotations.
Open Scope string_scope.
Open Scope Z_scope.

Definition ms := 1000000.
Definition sec := 1000000000.

(* readable clause forms *)
Definition pos (n : string) : vcond := CLt (TK 0) (TM n).           (* 0 < n *)
Definition nonneg (n : string) : vcond := CLe (TK 0) (TM n).        (* 0 <= n *)
Definition at_least (k : Z) (n : string) : vcond := CLe (TK k) (TM n).
Definition at_most (n : string) (k : Z) : vcond := CLe (TM n) (TK k).
Definition below (n : string) (k : Z) : vcond := CLt (TM n) (TK k).
Definition not_above (a b : string) : vcond := CLe (TM a) (TM b).   (* a <= b *)
Definition is_k (n : string) (k : Z) : vcond := CEq (TM n) (TK k).
Definition set_s (n : string) : vcond := CNot (CEmptyS n).          (* string / token member set *)
Definition set_l (n : string) : vcond := CNot (CNilL n).            (* list member has an element *)
Definition implies (a b : vcond) : vcond := COr (CNot a) b.

(* consensus/raft/config.go Validate + hashicorp/raft ValidateConfig (for the members the section can set) *)
Definition model_raft : list vcond := [
  pos "wait_for_leader_timeout"; pos "network_timeout"; nonneg "commit_retries"; pos "commit_retry_delay"; pos "backups_rotate";
  at_least (5 * ms) "heartbeat_timeout"; at_least (5 * ms) "election_timeout"; at_least (1 * ms) "commit_timeout";
  pos "max_append_entries"; at_most "max_append_entries" 1024;
  at_least (5 * ms) "snapshot_interval"; at_least (5 * ms) "leader_lease_timeout";
  not_above "leader_lease_timeout" "heartbeat_timeout"; not_above "heartbeat_timeout" "election_timeout"
].

(* pintracker/stateless/config.go *)
Definition model_stateless : list vcond := [ pos "max_pin_queue_size"; pos "concurrent_pins" ].

(* ipfsconn/ipfshttp/config.go (every check overwrites err, the last one set is returned: any failure rejects) *)
Definition model_ipfshttp : list vcond := [
  set_s "node_multiaddress"; nonneg "connect_swarms_delay"; nonneg "ipfs_request_timeout";
  nonneg "pin_timeout"; nonneg "unpin_timeout"; nonneg "repogc_timeout"
].

(* cluster_config.go: Validate, isReplicationFactorValid. isRPCPolicyValid concerns a member that is not part of the
   JSON form (always DefaultRPCPolicy after a load), so it does not depend on the document. *)
Definition model_cluster : list vcond :=
  let mn := "replication_factor_min" in let mx := "replication_factor_max" in [
  set_l "listen_multiaddress";
  pos "connection_manager.low_water"; pos "connection_manager.high_water";
  not_above "connection_manager.low_water" "connection_manager.high_water";
  CNot (is_k "connection_manager.grace_period" 0);
  pos "dial_peer_timeout"; pos "state_sync_interval"; pos "pin_recover_interval";
  pos "monitor_ping_interval"; pos "peer_watch_interval";
  CAnd (CNot (is_k mn 0)) (CNot (is_k mx 0));
  not_above mn mx; at_least (-1) mn; at_least (-1) mx;
  (* -1 (everywhere) for both or for none *)
  CNot (COr (CAnd (is_k mn (-1)) (CNot (is_k mx (-1)))) (CAnd (CNot (is_k mn (-1))) (is_k mx (-1))))
].

(* consensus/crdt/config.go *)
Definition model_crdt : list vcond := [
  set_s "cluster_name"; set_s "peerset_metric"; pos "rebroadcast_interval"; pos "batching.max_queue_size"
].

(* api/rest/config.go: Validate + validateLibp2p. A TLS pair that does not load is refused by tlsOptions before Validate;
   both outcomes are the oracle "tls_ok". "id_matches_key" is peer.ID.MatchesPrivateKey. *)
Definition model_restapi : list vcond :=
  let any_p2p := COr (COr (set_s "id") (set_s "private_key")) (set_l "libp2p_listen_multiaddress") in
  let all_p2p := CAnd (CAnd (set_s "id") (set_s "private_key")) (set_l "libp2p_listen_multiaddress") in [
  nonneg "read_timeout"; nonneg "read_header_timeout"; nonneg "write_timeout"; nonneg "idle_timeout";
  at_least 4096 "max_header_bytes";
  (* null, or at least one entry *)
  COr (CIsNone "basic_auth_credentials") (CNot (CEmptyM "basic_auth_credentials"));
  COr (CAnd (CEmptyS "ssl_cert_file") (CEmptyS "ssl_key_file")) (COrc "tls_ok");
  nonneg "cors_max_age";
  (* libp2p: all three or none; the ID is the key's *)
  implies any_p2p all_p2p;
  implies any_p2p (COrc "id_matches_key")
].

(* api/ipfsproxy/config.go (every check overwrites err: any failure rejects) *)
Definition model_ipfsproxy : list vcond := [
  set_l "listen_multiaddress"; set_s "node_multiaddress";
  nonneg "read_timeout"; nonneg "read_header_timeout"; nonneg "write_timeout"; nonneg "idle_timeout";
  set_s "extract_headers_path"; nonneg "extract_headers_ttl"; at_least 4096 "max_header_bytes"
].

Definition model_pubsubmon : list vcond := [ pos "check_interval"; pos "failure_threshold" ].
Definition model_disk : list vcond := [ pos "metric_ttl"; set_s "metric_type" ].
Definition model_numpin : list vcond := [ pos "metric_ttl" ].
Definition model_metrics : list vcond := [
  implies (CFlag "enable_stats") (set_s "prometheus_endpoint"); implies (CFlag "enable_stats") (nonneg "reporting_interval") ].
Definition model_tracing : list vcond := [
  implies (CFlag "enable_tracing") (set_s "jaeger_agent_endpoint"); implies (CFlag "enable_tracing") (nonneg "sampling_prob") ].
Definition model_badger : list vcond := [ set_s "folder"; CAnd (pos "gc_discard_ratio") (below "gc_discard_ratio" 1000000) ].
Definition model_leveldb : list vcond := [ set_s "folder" ].

Definition model_clauses : list (string * list vcond) := [
  ("cluster", model_cluster); ("raft", model_raft); ("crdt", model_crdt); ("restapi", model_restapi);
  ("ipfsproxy", model_ipfsproxy); ("ipfshttp", model_ipfshttp); ("stateless", model_stateless);
  ("pubsubmon", model_pubsubmon); ("disk", model_disk); ("numpin", model_numpin); ("metrics", model_metrics);
  ("tracing", model_tracing); ("badger", model_badger); ("leveldb", model_leveldb)
].

Definition valid_by (m : list vcond) : validator := fun orc c => accepts_all orc c m.

Definition valid_cluster : validator := valid_by model_cluster.
Definition valid_raft : validator := valid_by model_raft.
Definition valid_crdt : validator := valid_by model_crdt.
Definition valid_restapi : validator := valid_by model_restapi.
Definition valid_ipfsproxy : validator := valid_by model_ipfsproxy.
Definition valid_ipfshttp : validator := valid_by model_ipfshttp.
Definition valid_stateless : validator := valid_by model_stateless.
Definition valid_pubsubmon : validator := valid_by model_pubsubmon.
Definition valid_disk : validator := valid_by model_disk.
Definition valid_numpin : validator := valid_by model_numpin.
Definition valid_metrics : validator := valid_by model_metrics.
Definition valid_tracing : validator := valid_by model_tracing.
Definition valid_badger : validator := valid_by model_badger.
Definition valid_leveldb : validator := valid_by model_leveldb.

Definition validators : list (string * validator) := map (fun p => (fst p, valid_by (snd p))) model_clauses.

Definition reject_all : validator := fun _ _ => false.
Definition validator_of (s : string) : validator :=
  match assoc_get s validators with Some v => v | None => reject_all end.

(* custom rules that are NOT translated (Gen/ConfigCustoms.v has the translated ones): transcribed by hand in
   Model/C15_Config.v (custom_load), pinned to the hash of the function they were read from (restapi tlsOptions) *)
Definition expected_custom_hash : list (string * string) := [
  ("restapi.ssl_cert_file", "6edbe991f90ce542"); ("restapi.ssl_key_file", "6edbe991f90ce542")
].
