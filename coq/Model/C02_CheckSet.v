(* C02 — H2 cases (real go-ds-crdt replicas under a scripted delivery): replay on the set model (code 1) and the
   boolean form of the property on the observation (codes 20..23); recogniser of the known finding S3 (tag 1).
   Evaluated with vm_compute. *)
From V Require Import Base.Common Model.C02_Set Model.C02_Net.
Open Scope N_scope.

Inductive sev :=
| SLocal (batch : bool) (ops : list wop) (made : list bid)   (* a local write step and the deltas it published, in order *)
| SRecv (merged : list bid).                                 (* a delivered broadcast: the deltas merged, in the observed order *)
Record sstep := mk_sstep { s_ev : sev; s_hooks : list hook; s_after : list (key * val) }.
Record h2 := mk_h2 { h2_deltas : list delta; h2_reps : list (list sstep) }.

Definition find_delta (ds : list delta) (id : bid) : option delta := find (fun d => d_id d =? id) ds.

(* ------------------------------------------------------------------ replay *)
Fixpoint insert_kv (x : key * val) (l : list (key * val)) : list (key * val) :=
  match l with [] => [x] | y :: r => if fst x <=? fst y then x :: l else y :: insert_kv x r end.
Definition sort_kv (l : list (key * val)) : list (key * val) := fold_right insert_kv [] l.
Definition kv_eqb (a b : key * val) : bool := (fst a =? fst b) && (snd a =? snd b).
Definition hook_eqb (a b : hook) : bool :=
  match a, b with
  | HPut k v, HPut k' v' => (k =? k') && (v =? v')
  | HDel k, HDel k' => k =? k'
  | _, _ => false end.
Definition kids_seteqb (a b : list kid) : bool := forallb (fun x => kmem x b) a && forallb (fun x => kmem x a) b.

Record mrep := mk_mrep { m_st : rep; m_height : N; m_bad : bool }.

(* does the observed delta equal what the write path builds from the model state? *)
Definition delta_matches (d : delta) (height : N) (dc : dcontent) : bool :=
  (d_prio d =? height + 1)
  && list_eqb kv_eqb (d_adds d) (fst dc)
  && kids_seteqb (d_rms d) (snd dc).

Definition merge_obs (m : mrep) (d : delta) : mrep * list hook :=
  (mk_mrep (merge (m_st m) d) (N.max (m_height m) (d_prio d)) (m_bad m), merge_hooks (m_st m) d).

(* direct writes: every operation is its own delta; an unpin that finds nothing to tombstone publishes nothing *)
Fixpoint replay_direct (ds : list delta) (m : mrep) (ops : list wop) (made : list bid) : mrep * list hook * list bid :=
  match ops with
  | [] => (m, [], made)
  | o :: r =>
      let dc := delta_add_op (m_st m) ([], []) o in
      match o, snd dc with
      | WUnpin _, [] => replay_direct ds m r made
      | _, _ =>
          match made with
          | id :: made' =>
              match find_delta ds id with
              | Some d =>
                  let '(m1, hs) := merge_obs m d in
                  let m1' := mk_mrep (m_st m1) (m_height m1) (m_bad m1 || negb (delta_matches d (m_height m) dc)) in
                  let '(m2, hs2, rest) := replay_direct ds m1' r made' in (m2, hs ++ hs2, rest)
              | None => (mk_mrep (m_st m) (m_height m) true, [], made')
              end
          | [] => (mk_mrep (m_st m) (m_height m) true, [], [])
          end
      end
  end.

Definition replay_sstep (ds : list delta) (m : mrep) (s : sstep) : mrep :=
  let '(m', hs) :=
    match s_ev s with
    | SLocal true ops made =>
        let dc := fold_left (delta_add_op (m_st m)) ops ([], []) in
        match made with
        | [id] =>
            match find_delta ds id with
            | Some d => let '(m1, hs) := merge_obs m d in
                        (mk_mrep (m_st m1) (m_height m1) (m_bad m1 || negb (delta_matches d (m_height m) dc)), hs)
            | None => (mk_mrep (m_st m) (m_height m) true, [])
            end
        | _ => (mk_mrep (m_st m) (m_height m) true, [])
        end
    | SLocal false ops made =>
        let '(m1, hs, rest) := replay_direct ds m ops made in
        (mk_mrep (m_st m1) (m_height m1) (m_bad m1 || match rest with [] => false | _ => true end), hs)
    | SRecv ids =>
        fold_left (fun (a : mrep * list hook) id =>
                     match find_delta ds id with
                     | Some d => let '(m1, hs) := merge_obs (fst a) d in (m1, snd a ++ hs)
                     | None => (mk_mrep (m_st (fst a)) (m_height (fst a)) true, snd a)
                     end) ids (m, [])
    end in
  mk_mrep (m_st m') (m_height m')
          (m_bad m' || negb (list_eqb hook_eqb hs (s_hooks s))
                    || negb (list_eqb kv_eqb (sort_kv (pinset (m_st m'))) (sort_kv (s_after s)))).

Definition replay_rep (ds : list delta) (steps : list sstep) : mrep :=
  fold_left (replay_sstep ds) steps (mk_mrep rempty 0 false).

Definition model_eqb_set (h : h2) : bool := forallb (fun steps => negb (m_bad (replay_rep (h2_deltas h) steps))) (h2_reps h).

(* ------------------------------------------------------------------ the property on the observation *)
Definition final_of (steps : list sstep) : list (key * val) :=
  match rev steps with s :: _ => s_after s | [] => [] end.

Definition apply_op (m : list (key * val)) (o : wop) : list (key * val) :=
  match o with WPin k v => aput k v m | WUnpin k => adel k m end.
Definition apply_ops (m : list (key * val)) (os : list wop) : list (key * val) := fold_left apply_op os m.
Definition op_key (o : wop) : key := match o with WPin k _ => k | WUnpin k => k end.
Definition all_keys (h : h2) : list key :=
  nodup N.eq_dec (flat_map (fun d => map fst (d_adds d)) (h2_deltas h)).

(* keys on which two replicas disagree at the end *)
Definition diverging (h : h2) (membership_only : bool) : list key :=
  match h2_reps h with
  | [] => []
  | r0 :: rest =>
      let f0 := final_of r0 in
      filter (fun k => existsb (fun r =>
                 let f := final_of r in
                 if membership_only then negb (Bool.eqb (match aget k f0 with Some _ => true | None => false end)
                                                        (match aget k f with Some _ => true | None => false end))
                 else negb (optN_eqb (aget k f0) (aget k f))) rest) (all_keys h)
  end.

(* changes of the pinset across a step that have no hook in that step: (key, Some v) when the key entered the set
   with value v, (key, None) for a changed value or a disappearance *)
Definition uncovered (before after : list (key * val)) (hs : list hook) (keys : list key) : list (key * option val) :=
  flat_map (fun k =>
    match aget k before, aget k after with
    | None, Some v => if existsb (hook_eqb (HPut k v)) hs then [] else [(k, Some v)]
    | Some b, Some v => if (b =? v) || existsb (hook_eqb (HPut k v)) hs then [] else [(k, None)]
    | Some _, None => if existsb (hook_eqb (HDel k)) hs then [] else [(k, None)]
    | None, None => []
    end) keys.
Fixpoint uncovered_steps (before : list (key * val)) (steps : list sstep) (keys : list key) : list (key * option val) :=
  match steps with
  | [] => []
  | s :: r => uncovered before (s_after s) (s_hooks s) keys ++ uncovered_steps (s_after s) r keys
  end.

(* local writes take effect immediately, in submission order per CID *)
Fixpoint local_bad (before : list (key * val)) (steps : list sstep) (keys : list key) : list key :=
  match steps with
  | [] => []
  | s :: r =>
      (match s_ev s with
       | SLocal _ ops _ => let m := apply_ops before ops in filter (fun k => negb (optN_eqb (aget k m) (aget k (s_after s)))) keys
       | SRecv _ => []
       end) ++ local_bad (s_after s) r keys
  end.

(* ---- S3 (tag 1), divergence: a tombstoned element of K carries a (priority, value) strictly above every surviving
   element of K *)
Definition all_tombs (ds : list delta) : list kid := flat_map d_rms ds.
Definition pv_ltb (a b : N * val) : bool := (fst a <? fst b) || ((fst a =? fst b) && (snd a <? snd b)).
Definition pv_leb (a b : N * val) : bool := (fst a <? fst b) || ((fst a =? fst b) && (snd a <=? snd b)).
Definition adds_of (ds : list delta) (k : key) (tombstoned : bool) : list (N * val) :=
  flat_map (fun d => flat_map (fun kv => if (fst kv =? k) && Bool.eqb (kmem (k, d_id d) (all_tombs ds)) tombstoned
                                          then [(d_prio d, snd kv)] else []) (d_adds d)) ds.
Definition is_S3_key (ds : list delta) (k : key) : bool :=
  let surv := adds_of ds k false in
  match surv with
  | [] => false
  | _ => existsb (fun t => forallb (fun s => pv_ltb s t) surv) (adds_of ds k true)
  end.
(* ---- tag 3: one delta (a batch) adds K twice with different values *)
Fixpoint dup_add_keys (l : list (key * val)) : list key :=
  match l with
  | [] => []
  | (k, v) :: r => (if existsb (fun kv => (fst kv =? k) && negb (snd kv =? v)) r then [k] else []) ++ dup_add_keys r
  end.
Definition is_dup_key (ds : list delta) (k : key) : bool := existsb (fun d => memN k (dup_add_keys (d_adds d))) ds.

Definition tag_of (h : h2) (bad : list key) : N :=
  if forallb (is_S3_key (h2_deltas h)) bad then 1
  else if forallb (fun k => is_S3_key (h2_deltas h) k || is_dup_key (h2_deltas h) k) bad then 3
  else 0.

(* S3 as seen by the hooks: K entered the set with the value v of a tombstoned element t, and another element of K
   (the one that made K a member again; it may itself be tombstoned later) has a (priority, value) not above t's:
   it lost against the register t left behind, so setValue returned before calling PutHook *)
Definition adds_idpv (ds : list delta) (k : key) : list (bid * (N * val)) :=
  flat_map (fun d => flat_map (fun kv => if fst kv =? k then [(d_id d, (d_prio d, snd kv))] else []) (d_adds d)) ds.
Definition is_S3_hook (ds : list delta) (kv : key * option val) : bool :=
  match snd kv with
  | None => false
  | Some v =>
      let l := adds_idpv ds (fst kv) in
      existsb (fun t => (snd (snd t) =? v) && kmem (fst kv, fst t) (all_tombs ds)
                        && existsb (fun s => negb (fst s =? fst t) && pv_leb (snd s) (snd t)) l) l
  end.
Definition tag_hooks (h : h2) (bad : list (key * option val)) : N := if forallb (is_S3_hook (h2_deltas h)) bad then 1 else 0.

Definition spec_codes_set (h : h2) : list (N * N) :=
  let keys := all_keys h in
  let bad20 := diverging h true in
  let bad21 := diverging h false in
  let bad22 := flat_map (fun steps => uncovered_steps [] steps keys) (h2_reps h) in
  let bad23 := flat_map (fun steps => local_bad [] steps keys) (h2_reps h) in
  (match bad20 with [] => [] | _ => [(20, 0)] end) ++
  (match bad21 with [] => [] | _ => [(21, tag_of h bad21)] end) ++
  (match bad22 with [] => [] | _ => [(22, tag_hooks h bad22)] end) ++
  (match bad23 with [] => [] | _ => [(23, 0)] end).

Definition scase := (N * h2)%type.
Definition check_scase (c : scase) : list (N * N * N) :=
  let '(id, h) := c in
  (if model_eqb_set h then [] else [(id, 1, 0)]) ++ map (fun ct => (id, fst ct, snd ct)) (spec_codes_set h).
Definition failing_set (cs : list scase) : list (N * N * N) := flat_map check_scase cs.

(* ------------------------------------------------------------------ H3: real Consensus peers over libp2p *)
(* The deltas of the Merkle-DAGs below the heads of the compared peers, who signed each and which blocks it links to;
   the trust configuration of EVERY peer of the case and the links of the (healed) network; for every compared peer: its
   pinset at the end, the deltas it merged in the order of its datastore write batches, its own operations each with the
   block it published (0: nothing), and the calls its PinTracker received; the peers that issued operations; the CIDs on
   which an update of the peer nobody trusts showed through. *)
Record npeer := mk_npeer { np_id : N; np_all : bool; np_list : list N; np_final : list (key * val);
                           np_merged : list bid; np_ops : list (wop * bid); np_calls : list tcall }.
Record h3 := mk_h3 { h3_deltas : list delta; h3_by : list (bid * N); h3_parents : list (bid * list bid);
                     h3_trust : list (N * (bool * list N)); h3_links : list (N * N);
                     h3_peers : list npeer; h3_writers : list N; h3_leak : list key }.

(* IsTrustedPeer (Model/C02_Net.v `trusts`) on the observed configuration *)
Definition np_trusts (x : npeer) (p : N) : bool := np_all x || (p =? np_id x) || memN p (np_list x).

(* the observed configuration as a policy of Model/C02_Net.v (a peer that is not listed trusts only itself) *)
Definition h3_pol (h : h3) (p : peer) : tpolicy :=
  match aget p (h3_trust h) with Some (a, l) => mk_tp a l | None => mk_tp false [] end.
Definition h3_deliverable (h : h3) (s x : N) : bool := deliverable (length (h3_trust h)) (h3_pol h) (h3_links h) s x.

(* the convergence clause applies to x and y: they trust each other, and every writer's updates that can reach one of them
   can reach the other ("have exchanged all updates": the hypothesis of crdt_trusting_peers_converge) *)
Definition comparable (h : h3) (x y : npeer) : bool :=
  np_trusts x (np_id y) && np_trusts y (np_id x)
  && forallb (fun w => Bool.eqb (h3_deliverable h w (np_id x)) (h3_deliverable h w (np_id y))) (h3_writers h).

Definition differ (membership_only : bool) (k : key) (f0 f : list (key * val)) : bool :=
  if membership_only then negb (Bool.eqb (match aget k f0 with Some _ => true | None => false end)
                                         (match aget k f with Some _ => true | None => false end))
  else negb (optN_eqb (aget k f0) (aget k f)).

(* keys on which some comparable pair of peers disagrees *)
Fixpoint diverging_pairs (h : h3) (keys : list key) (ps : list npeer) (membership_only : bool) : list key :=
  match ps with
  | [] => []
  | x :: rest =>
      filter (fun k => existsb (fun y => comparable h x y && differ membership_only k (np_final x) (np_final y)) rest) keys
      ++ diverging_pairs h keys rest membership_only
  end.

(* ---- model = implementation: which deltas every peer merged (trust + forwarding + the ancestors a merged block drags
   in), what its own writes published, its pinset and its tracker calls after merging them in the observed order *)
(* the peers that published block id (two peers that write the same pin over the same heads publish one block) *)
Definition signers_of (h : h3) (id : bid) : list N := map snd (filter (fun ip => fst ip =? id) (h3_by h)).
Definition parents_of (h : h3) (id : bid) : list bid := match aget id (h3_parents h) with Some l => l | None => [] end.

(* the blocks x is predicted to merge: those whose signed broadcast is deliverable to x, and everything below them *)
Fixpoint close_parents (n : nat) (h : h3) (ids : list bid) : list bid :=
  match n with
  | O => ids
  | S k => close_parents k h (nodup N.eq_dec (ids ++ flat_map (parents_of h) ids))
  end.
Definition predicted_merged (h : h3) (x : N) : list bid :=
  close_parents (length (h3_deltas h)) h
    (map d_id (filter (fun d => existsb (fun sg => h3_deliverable h sg x) (signers_of h (d_id d))) (h3_deltas h))).

Definition tcall_key (c : tcall) : N * N * N :=
  match c with Track k v => (k, 1, v) | Untrack k => (k, 0, 0) end.
Definition t3_leb (a b : N * N * N) : bool :=
  let '(a1, a2, a3) := a in let '(b1, b2, b3) := b in
  (a1 <? b1) || ((a1 =? b1) && ((a2 <? b2) || ((a2 =? b2) && (a3 <=? b3)))).
Fixpoint insert_t3 (x : N * N * N) (l : list (N * N * N)) : list (N * N * N) :=
  match l with [] => [x] | y :: r => if t3_leb x y then x :: l else y :: insert_t3 x r end.
Definition t3_eqb (a b : N * N * N) : bool :=
  let '(a1, a2, a3) := a in let '(b1, b2, b3) := b in (a1 =? b1) && (a2 =? b2) && (a3 =? b3).
(* the calls as a multiset *)
Definition calls_canon (l : list tcall) : list (N * N * N) := fold_right insert_t3 [] (map tcall_key l).

Definition op_of_block (x : npeer) (id : bid) : option wop :=
  option_map fst (find (fun ob => snd ob =? id) (np_ops x)).

Definition net_merge_step (h : h3) (x : npeer) (a : mrep * list hook) (id : bid) : mrep * list hook :=
  let m := fst a in
  match find_delta (h3_deltas h) id with
  | None => (mk_mrep (m_st m) (m_height m) true, snd a)
  | Some d =>
      let own_bad :=
        match op_of_block x id with
        | Some o => negb (delta_matches d (m_height m) (delta_add_op (m_st m) ([], []) o))     (* what the write path builds *)
        | None => memN (np_id x) (signers_of h id)                                                (* a block of x no operation of x made *)
        end in
      let '(m1, hs) := merge_obs m d in
      (mk_mrep (m_st m1) (m_height m1) (m_bad m1 || own_bad), snd a ++ hs)
  end.

Definition model_eqb_peer (h : h3) (x : npeer) : bool :=
  let '(m, hs) := fold_left (net_merge_step h x) (np_merged x) (mk_mrep rempty 0 false, []) in
  negb (m_bad m)
  && nodupb (np_merged x)
  && seteqb (np_merged x) (predicted_merged h (np_id x))
  && forallb (fun ob => match fst ob, snd ob with
                        | WPin _ _, 0 => false                         (* a pin always publishes *)
                        | _, 0 => true
                        | _, id => memN id (np_merged x)        (* (two peers that publish the very same block share it) *)
                        end) (np_ops x)
  && list_eqb kv_eqb (sort_kv (pinset (m_st m))) (sort_kv (np_final x))
  && list_eqb t3_eqb (calls_canon (map tracker_call hs)) (calls_canon (np_calls x)).

Definition model_eqb_net (h : h3) : bool := forallb (model_eqb_peer h) (h3_peers h).

Definition spec_codes_net (h : h3) : list (N * N) :=
  let keys := nodup N.eq_dec (flat_map (fun d => map fst (d_adds d)) (h3_deltas h) ++ flat_map (fun p => map fst (np_final p)) (h3_peers h)) in
  let hh := mk_h2 (h3_deltas h) [] in
  let bad20 := diverging_pairs h keys (h3_peers h) true in
  (* a key that is a member at one peer only is reported once, as a membership divergence *)
  let bad21 := filter (fun k => negb (memN k bad20)) (diverging_pairs h keys (h3_peers h) false) in
  (match bad20 with [] => [] | _ => [(20, 0)] end) ++
  (match bad21 with [] => [] | _ => [(21, tag_of hh bad21)] end) ++
  (match h3_leak h with [] => [] | _ => [(24, 0)] end).

Definition ncase := (N * h3)%type.
Definition check_ncase (c : ncase) : list (N * N * N) :=
  let '(id, h) := c in
  (if model_eqb_net h then [] else [(id, 1, 0)]) ++ map (fun ct => (id, fst ct, snd ct)) (spec_codes_net h).
Definition failing_net (cs : list ncase) : list (N * N * N) := flat_map check_ncase cs.
