(* C11 — hand-written tables the generated ones (Gen/RestRoutes.v, Gen/RestClient.v) are checked against, and the boolean
   obligations over them. Definitions only (used by Proofs/C11_*.v and, for the offending entries, by Diag/C11.v). *)
From V Require Import Base.Common Base.C11_Http Base.C11_RouteOrder Gen.RestRoutes Gen.RestClient Model.C11_Rest Model.C11_Check.
Open Scope string_scope.
Open Scope list_scope.

(* what each route NAME denotes: the RPC call sites its handler may contain ("Service.Method", source order).
   Hand-written; /add goes through the adder helper, which issues BlockAllocate, BlockPut and the final Pin. *)
Definition named_ops : list (string * list string) := [
  ("ID", ["Cluster.ID"]); ("Version", ["Cluster.Version"]); ("Peers", ["Cluster.Peers"]); ("PeerAdd", ["Cluster.PeerAdd"]);
  ("PeerRemove", ["Cluster.PeerRemove"]); ("Add", ["adderutils.AddMultipartHTTPHandler"]);
  ("Allocations", ["Cluster.Pins"]); ("Allocation", ["Cluster.PinGet"]);
  ("StatusAll", ["Cluster.StatusAllLocal"; "Cluster.StatusAll"]); ("Recover", ["Cluster.RecoverLocal"; "Cluster.Recover"]);
  ("RecoverAll", ["Cluster.RecoverAllLocal"; "Cluster.RecoverAll"]); ("Status", ["Cluster.StatusLocal"; "Cluster.Status"]);
  ("Pin", ["Cluster.Pin"]); ("PinPath", ["Cluster.PinPath"]); ("Unpin", ["Cluster.Unpin"]); ("UnpinPath", ["Cluster.UnpinPath"]);
  ("RepoGC", ["Cluster.RepoGCLocal"; "Cluster.RepoGC"]); ("ConnectionGraph", ["Cluster.ConnectGraph"]); ("Alerts", ["Cluster.Alerts"]);
  ("Metrics", ["PeerMonitor.LatestMetrics"]); ("MetricNames", ["PeerMonitor.MetricNames"])].

Definition func_rpcs (hn : string) : option (list string) :=
  match find (fun f : string * list (string * string) * list string * list bool => String.eqb (fst (fst (fst f))) hn) rest_funcs with
  | Some (_, cs, _, _) => Some (map (fun c : string * string => (fst c ++ "." ++ snd c)%string) cs)
  | None => None
  end.

Definition strs_eqb := list_eqb String.eqb.

Definition route_ops_okb (r : string * string * string * string) : bool :=
  let '(name, _, _, hn) := r in
  match func_rpcs hn, sget name named_ops with
  | Some got, Some want => strs_eqb got want
  | _, _ => false
  end.

(* the RPC names the model can issue for a call-site name *)
Definition model_names (site : string) : list string :=
  if String.eqb site "adderutils.AddMultipartHTTPHandler" then ["Cluster.BlockAllocate"; "IPFSConnector.BlockPut"; "Cluster.Pin"] else [site].

(* every call a handler issues carries one of the RPC names its class denotes (hand-written) *)
Definition handler_rpc_names (h : rhandler) : list string :=
  match h with
  | RId => ["Cluster.ID"] | RVersion => ["Cluster.Version"] | RPeers => ["Cluster.Peers"] | RPeerAdd => ["Cluster.PeerAdd"]
  | RPeerRemove => ["Cluster.PeerRemove"] | RAdd => ["Cluster.BlockAllocate"; "IPFSConnector.BlockPut"; "Cluster.Pin"]
  | RAllocations => ["Cluster.Pins"] | RAllocation => ["Cluster.PinGet"]
  | RStatusAll => ["Cluster.StatusAllLocal"; "Cluster.StatusAll"] | RRecover => ["Cluster.RecoverLocal"; "Cluster.Recover"]
  | RRecoverAll => ["Cluster.RecoverAllLocal"; "Cluster.RecoverAll"] | RStatus => ["Cluster.StatusLocal"; "Cluster.Status"]
  | RPin => ["Cluster.Pin"] | RPinPath => ["Cluster.PinPath"] | RUnpin => ["Cluster.Unpin"] | RUnpinPath => ["Cluster.UnpinPath"]
  | RRepoGC => ["Cluster.RepoGCLocal"; "Cluster.RepoGC"] | RGraph => ["Cluster.ConnectGraph"] | RAlerts => ["Cluster.Alerts"]
  | RMetrics => ["PeerMonitor.LatestMetrics"] | RMetricNames => ["PeerMonitor.MetricNames"] | RUnknown => []
  end.

(* generated call sites (by route name) = the names the handler class may issue *)
Definition route_model_okb (r : string * string * string * string) : bool :=
  let '(name, _, _, hn) := r in
  match sget name named_ops with
  | Some sites => strs_eqb (flat_map model_names sites) (handler_rpc_names (rhandler_of_name hn))
                  && negb (is_nil (handler_rpc_names (rhandler_of_name hn)))
  | None => false
  end.

(* hand-written: client method -> (HTTP method, path format before '?', carries the local flag) *)
Definition client_spec_table : list (string * (string * string * bool)) := [
  ("ID", ("GET", "/id", false)); ("Version", ("GET", "/version", false)); ("Peers", ("GET", "/peers", false));
  ("PeerAdd", ("POST", "/peers", false)); ("PeerRm", ("DELETE", "/peers/%s", false));
  ("Pin", ("POST", "/pins/%s", false)); ("Unpin", ("DELETE", "/pins/%s", false));
  ("PinPath", ("POST", "/pins%s", false)); ("UnpinPath", ("DELETE", "/pins%s", false));
  ("Allocations", ("GET", "/allocations", false)); ("Allocation", ("GET", "/allocations/%s", false));
  ("Status", ("GET", "/pins/%s", true)); ("StatusAll", ("GET", "/pins", true));
  ("Recover", ("POST", "/pins/%s/recover", true)); ("RecoverAll", ("POST", "/pins/recover", true));
  ("Alerts", ("GET", "/health/alerts", false)); ("GetConnectGraph", ("GET", "/health/graph", false));
  ("Metrics", ("GET", "/monitor/metrics/%s", false)); ("MetricNames", ("GET", "/monitor/metrics", false));
  ("RepoGC", ("POST", "/ipfs/gc", true)); ("Add", ("POST", "/add", false)); ("AddMultiFile", ("POST", "/add", false))].

Definition known_calls : list string := map fst client_spec_table.

Definition client_entry (n : string) : option (string * string * bool) :=
  match client_lookup client_requests 3 n with
  | Some (m, f) => Some (m, fmt_path f, contains "local=%t" f)
  | None => None
  end.


(* ---- comparisons used to name the offending entries (Diag/C11.v) ---- *)
Definition rhandler_idx (h : rhandler) : N :=
  match h with
  | RId => 1 | RVersion => 2 | RPeers => 3 | RPeerAdd => 4 | RPeerRemove => 5 | RAdd => 6 | RAllocations => 7 | RAllocation => 8
  | RStatusAll => 9 | RRecover => 10 | RRecoverAll => 11 | RStatus => 12 | RPin => 13 | RPinPath => 14 | RUnpin => 15
  | RUnpinPath => 16 | RRepoGC => 17 | RGraph => 18 | RAlerts => 19 | RMetrics => 20 | RMetricNames => 21 | RUnknown => 0
  end%N.
Definition rroute_eqb (a b : rroute) : bool :=
  let '(m, t, h) := a in let '(m', t', h') := b in
  String.eqb m m' && list_eqb tseg_eqb t t' && N.eqb (rhandler_idx h) (rhandler_idx h').

(* ---- the route table obligation, insensitive to the order of routes that cannot answer a common request ----
   Two routes are apart when their methods differ (the only interaction of routes with different methods is the
   "some route matched the path" flag behind 405, which is a disjunction) or when no request path is answered by both
   templates (tpl_apart: exactly or through the StrictSlash redirect). routes_equiv rs1 rs2: rs2 is rs1 up to exchanging
   neighbours that are apart, i.e. a permutation of rs1 in which every two routes that are NOT apart keep their relative
   order (Base/C11_RouteOrder.v: trace_equiv). Proofs/C11_Rest.v: routes_equiv_resolve. *)
Definition rroute_apart (a b : rroute) : bool :=
  let '(m, t, _) := a in let '(m', t', _) := b in negb (String.eqb m m') || tpl_apart t t'.
Definition routes_equiv (rs1 rs2 : list rroute) : bool := trace_equiv rroute_eqb rroute_apart rs1 rs2.

(* naming the differences (Diag/C11.v): METHOD /template *)
Definition show_rroute (r : rroute) : string :=
  let '(m, t, _) := r in (m ++ " " ++ show_tpl t)%string.

(* the real differences between the generated table and the hand-written one: a route (method, template, handler class)
   present on one side only, or two routes that are not apart and are registered in the opposite order. [] exactly
   when routes_equiv holds. *)
Definition routes_diff (rs : list (string * string * string * string)) (sp : list rroute) : list string :=
  let c := compile_rest rs in
  if routes_equiv c sp then [] else
  let d := map (fun r => ("in routes() but not in route_spec: " ++ show_rroute r)%string) (surplus rroute_eqb c sp)
        ++ map (fun r => ("in route_spec but not in routes(): " ++ show_rroute r)%string) (surplus rroute_eqb sp c)
        ++ map (fun xy : rroute * rroute => ("registration order matters and differs from route_spec: " ++ show_rroute (fst xy)
                                              ++ " is registered before " ++ show_rroute (snd xy))%string)
               (inverted rroute_eqb rroute_apart c sp) in
  match d with [] => ["routes() is not route_spec up to the order of routes that are apart"] | _ => d end.

Definition centry_eqb (a b : string * string * bool) : bool :=
  String.eqb (fst (fst a)) (fst (fst b)) && String.eqb (snd (fst a)) (snd (fst b)) && Bool.eqb (snd a) (snd b).
Definition client_diff : list string :=
  flat_map (fun r : string * (string * string * bool) =>
              match client_entry (fst r) with Some v => if centry_eqb v (snd r) then [] else [fst r] | None => [fst r] end) client_spec_table
  ++ flat_map (fun r : string * string * string => if str_in (fst (fst r)) known_calls then [] else [fst (fst r)]) client_requests.
