(* C04 — boolean form of the property (spec_okb) applied to what the implementation did at every call of a
   history, and model-vs-implementation comparison, call by call, starting each call from the pinset the
   implementation had before it. Evaluated with vm_compute on the harness cases. *)
From V Require Import Base.Common Model.C03_Alloc Model.C03_Check Model.C04_ClusterOps.
Open Scope Z_scope.

Inductive obsres := OOk (p : pin) | OErr (e : err).

(* ---- canonical comparisons: metadata as a map, allocations as a multiset ---- *)
Definition meta_sub (a b : list (N * N)) : bool :=
  forallb (fun kv => optN_eqb (aget (fst kv) b) (Some (snd kv))) a.
Definition meta_eqb (a b : list (N * N)) : bool := meta_sub a b && meta_sub b a.
Definition nz (m : list (N * N)) : list (N * N) := filter (fun kv => negb (fst kv =? 0)%N) m.
Definition perm_eqb (a b : list N) : bool := list_eqb N.eqb (sortN a) (sortN b).

Definition opts_eqb (a b : opts) : bool :=
  (o_rmin a =? o_rmin b) && (o_rmax a =? o_rmax b) && (o_name a =? o_name b)%N && (o_mode a =? o_mode b)%N
  && (o_shard a =? o_shard b)%N && list_eqb N.eqb (o_ualloc a) (o_ualloc b) && expire_eqb (o_expire a) (o_expire b)
  && meta_eqb (o_meta a) (o_meta b) && optN_eqb (o_update a) (o_update b) && list_eqb N.eqb (o_origins a) (o_origins b).

Definition pin_eqb (a b : pin) : bool :=
  opts_eqb (p_opts a) (p_opts b) && (p_cid a =? p_cid b)%N && ptype_eqb (p_ty a) (p_ty b)
  && perm_eqb (p_allocs a) (p_allocs b) && (p_depth a =? p_depth b) && optN_eqb (p_ref a) (p_ref b).

(* the options a stored entry must carry for a request: every field the user can set, read as the
   property reads it (metadata as a map over non-empty keys, origins as a set; the update source is an
   instruction, not a stored preference; user allocations are not stored) *)
Definition opts_sem_eqb (a b : opts) : bool :=
  (o_rmin a =? o_rmin b) && (o_rmax a =? o_rmax b) && (o_name a =? o_name b)%N && (o_mode a =? o_mode b)%N
  && (o_shard a =? o_shard b)%N && expire_eqb (o_expire a) (o_expire b)
  && meta_eqb (nz (o_meta a)) (nz (o_meta b)) && seteqb (o_origins a) (o_origins b).

Definition of_list (l : list pin) : pinset := map (fun p => (p_cid p, p)) l.

(* every key outside ks has the same entry in both pinsets *)
Definition same_except (ks : list N) (st st' : pinset) : bool :=
  forallb (fun kp => memN (fst kp) ks ||
                     match aget (fst kp) st, aget (fst kp) st' with
                     | Some p, Some q => pin_eqb p q | _, _ => false end) st
  && forallb (fun kp => memN (fst kp) ks || is_some (aget (fst kp) st)) st'.
Definition st_eqb (st st' : pinset) : bool := same_except [] st st' && nodupb (akeys st) && nodupb (akeys st').

(* ---- model = implementation for one call ---- *)
(* the Go map order is read off the observed allocation: the peers it kept come first *)
Definition ord_from (l : list N) (xs : list N) : list N :=
  filter (fun x => memN x l) xs ++ filter (fun x => negb (memN x l)) xs.

Definition obs_allocs (o : obsres) : list N := match o with OOk p => p_allocs p | OErr _ => [] end.

Definition err_eqb (a b : err) : bool :=
  match a, b with
  | EFollower, EFollower | ENotFound, ENotFound | EBadFactors, EBadFactors | EExpired, EExpired
  | ETypeChange, ETypeChange | EDowngrade, EDowngrade | EPinType, EPinType | EAlloc, EAlloc
  | EUpdateType, EUpdateType | EUnpinType, EUnpinType | EResolve, EResolve | EMeta, EMeta | EOther, EOther => true
  | _, _ => false end.

Definition call_cid (e : env) (k : call) : option N :=
  match k with
  | CPin h _ | CUnpin h => Some h
  | CPinPath pa _ | CUnpinPath pa => aget pa (e_resolve e)
  | CPinUpdate _ t _ => Some t
  | CRpcPin p => Some (p_cid p) end.

(* newly chosen peers come in the allocator's order (metric values are distinct in the harness) *)
Definition added_eqb (cur a b : list N) : bool :=
  list_eqb N.eqb (filter (fun x => negb (memN x cur)) a) (filter (fun x => negb (memN x cur)) b).

Definition model_eqb (c : cfg) (e : env) (st : pinset) (k : call) (o : obsres) (st' : pinset) : bool :=
  let '(r, mst) := step c e (ord_from (obs_allocs o)) st k in
  st_eqb mst st' &&
  match r, o with
  | ROk p, OOk q =>
      pin_eqb p q &&
      (match call_cid e k with
       | Some h => added_eqb (match aget h st with Some ex => p_allocs ex | None => [] end) (p_allocs p) (p_allocs q)
       | None => true end)
  | RErr a, OErr b => err_eqb a b
  | _, _ => false end.

(* ---- the property, on the implementation's own observation ---- *)
(* identical to what is stored: nothing the stored entry records differs, and nothing is asked that it cannot record *)
Definition identical_req (o' : opts) (d : Z) (ex : pin) : bool :=
  opts_sem_eqb (pb_norm_opts d o') (p_opts ex) && expire_eqb (o_expire o') (o_expire (p_opts ex))
  && (match o_ualloc o' with [] => true | _ => false end) && (o_mode o' =? o_mode (p_opts ex))%N.

Definition literal_req (o' : opts) (ex : pin) : bool :=
  list_eqb N.eqb (o_origins o') (o_origins (p_opts ex)) && meta_eqb (o_meta o') (o_meta (p_opts ex)).

(* update: entry t is the source entry under the new CID, source recorded, name / expiry overridden as coded *)
Definition update_expected (now : Z) (ex : pin) (f t : N) (o : opts) : pin := pb_norm (updated_pin now ex f t o).

Definition spec_update (c : cfg) (e : env) (st : pinset) (f t : N) (o : opts) (r : obsres) (st' : pinset) : bool :=
  match r with
  | OErr _ => true
  | OOk q =>
      match aget f st, aget t st' with
      | Some ex, Some s =>
          pin_eqb s (update_expected (e_now e) ex f t o) && pin_eqb s (pb_norm q) && same_except [t] st st'
      | _, _ => false end
  end
  && (if is_some (aget f st) then true else match r with OErr _ => true | OOk _ => false end).

Definition spec_pin (c : cfg) (e : env) (st : pinset) (p0 : pin) (r : obsres) (st' : pinset) : bool :=
  let h := p_cid p0 in
  let o' := with_defaults c (p_opts p0) in
  let existing := aget h st in
  let redirect := match o_update (p_opts p0) with
                  | Some u => if negb (u =? h)%N then Some u else None
                  | None => None end in
  match redirect with
  | Some u => spec_update c e st u h (p_opts p0) r st'
  | None =>
      let must_refuse :=
        negb (factors_valid (o_rmin o') (o_rmax o'))
        || expire_past (e_now e) (o_expire o')
        || (match existing with
            | Some ex => negb (ptype_eqb (p_ty ex) (p_ty p0))
                         || ((o_mode (p_opts ex) =? 0)%N && negb (o_mode o' =? 0)%N)
            | None => false end) in
      match r with
      | OErr _ => true
      | OOk q =>
          negb must_refuse &&
          match aget h st' with
          | None => false
          | Some s =>
              same_except [h] st st'
              && pin_eqb s (pb_norm q)
              && ptype_eqb (p_ty s) (p_ty p0)
              && opts_sem_eqb (p_opts s) (pb_norm_opts (p_depth s) o')
              && (let cur := match existing with Some ex => p_allocs ex | None => [] end in
                  (* literally the request that is stored / not even the same once read as the property reads options *)
                  let ident_lit := match existing with Some ex => identical_req o' (p_depth p0) ex && literal_req o' ex | None => false end in
                  let ident_sem := match existing with Some ex => identical_req o' (p_depth p0) ex | None => false end in
                  let kept := match cur with [] => false | _ => perm_eqb (p_allocs s) cur end in
                  let fresh (prio : list N) :=
                    if everywhere o' then (match p_allocs s with [] => true | _ => false end)
                    else C03_Check.spec_okb (e_now e)
                           (mk_input (o_rmin o') (o_rmax o') cur (e_metrics e) [] prio (alloc_rev c)) (ObsOk (p_allocs s)) in
                  let changed := match p_allocs p0 with
                                 | _ :: _ => if everywhere o' then fresh [] else perm_eqb (p_allocs s) (p_allocs p0)
                                 | [] => fresh (o_ualloc o') end in
                  (* a request whose depth contradicts its mode does not say what "identical" means: allocation clause not applied *)
                  if ptype_eqb (p_ty p0) MetaT || negb (mode_of_depth (p_depth p0) =? o_mode o')%N then true
                  else if ident_lit then (match cur with [] => fresh [] | _ => kept end)
                  else if negb ident_sem then changed
                  else kept || changed || fresh [])
          end
      end
  end.

Definition spec_unpin (c : cfg) (e : env) (st : pinset) (h : N) (r : obsres) (st' : pinset) : bool :=
  match r with
  | OErr _ => true
  | OOk q =>
      match aget h st with
      | None => false                                  (* unpin of a CID that is not pinned must be refused *)
      | Some p =>
          pin_eqb p q &&
          match p_ty p with
          | MetaT =>
              match p_ref p with
              | Some rf => match aget rf (e_links e) with
                           | Some ls => let gone := h :: rf :: ls in
                                        forallb (fun k => negb (is_some (aget k st'))) gone && same_except gone st st'
                           | None => false end
              | None => false end
          | _ => negb (is_some (aget h st')) && same_except [h] st st'
          end
      end
  end.

Definition spec_okb (c : cfg) (e : env) (st : pinset) (k : call) (r : obsres) (st' : pinset) : bool :=
  nodupb (akeys st') &&
  (match r with OErr _ => st_eqb st st' | OOk _ => negb (follower c) end) &&   (* refused => unchanged; follower => refused *)
  match k with
  | CPin h o => spec_pin c e st (pin_with_opts h o) r st'
  | CPinPath pa o => match aget pa (e_resolve e) with
                     | Some h => spec_pin c e st (pin_with_opts h o) r st'
                     | None => match r with OErr _ => true | OOk _ => false end end
  | CRpcPin p => spec_pin c e st p r st'
  | CPinUpdate f t o => spec_update c e st f t o r st'
  | CUnpin h => spec_unpin c e st h r st'
  | CUnpinPath pa => match aget pa (e_resolve e) with
                     | Some h => spec_unpin c e st h r st'
                     | None => match r with OErr _ => true | OOk _ => false end end
  end.

(* ---- cases ---- *)
(* one observed call: index of the metric table in force, follower mode, the call, what it returned, the whole pinset after it *)
Definition ostep := (N * bool * call * obsres * list pin)%type.
(* default factors, allocator direction, resolve table, block-link table, metric tables, history *)
Definition payload := (Z * Z * bool * list (N * N) * list (N * list N) * list (list metric) * list ostep)%type.
Definition case := (N * payload)%type.

Fixpoint check_steps (dmin dmax : Z) (rv : bool) (rs : list (N * N)) (ls : list (N * list N)) (tbls : list (list metric))
         (st : pinset) (steps : list ostep) : list N :=
  match steps with
  | [] => []
  | (ti, fol, k, r, after) :: rest =>
      let c := mk_cfg dmin dmax fol rv in
      let e := mk_env 0 (nth (N.to_nat ti) tbls []) rs ls in
      let st' := of_list after in
      (if model_eqb c e st k r st' then [] else [1%N]) ++
      (if spec_okb c e st k r st' then [] else [2%N]) ++
      check_steps dmin dmax rv rs ls tbls st' rest
  end.

(* one line per failure kind per case *)
Definition check_case (x : case) : list (N * N * N) :=
  let '(id, (dmin, dmax, rv, rs, ls, tbls, steps)) := x in
  let fs := check_steps dmin dmax rv rs ls tbls [] steps in
  (if memN 1%N fs then [(id, 1%N, 0%N)] else []) ++ (if memN 2%N fs then [(id, 2%N, 0%N)] else []).

Definition failing (cs : list case) : list (N * N * N) := flat_map check_case cs.
