(* C12 — boolean form of the property applied to what the implementation did (spec_okb), and
   model-vs-implementation comparison. Evaluated with vm_compute on the harness cases.
   spec_okb does not use the generated routing table: the hijacked paths are written out by hand here. *)
From V Require Import Base.Common Base.C11_Http Model.C12_Proxy.
Open Scope string_scope.
Open Scope list_scope.

Record obs := mk_obs {
  o_calls : list (call * bool);
  o_dreqs : list dreq;          (* every request the daemon received, OPTIONS pre-flights included *)
  o_status : N;
  o_serr : bool;
  o_body : string;
  o_num : N
}.

(* ---- the property's own description of what is hijacked (hand-written) ---- *)
Definition spec_methods : list string := ["POST"; "GET"; "PUT"].
(* (segments after the leading "", handler, has a /{arg} form) *)
Definition spec_paths : list (list string * handler * bool) := [
  (["api"; "v0"; "pin"; "add"], HPin, true);
  (["api"; "v0"; "pin"; "rm"], HUnpin, true);
  (["api"; "v0"; "pin"; "ls"], HPinLs, true);
  (["api"; "v0"; "pin"; "update"], HPinUpdate, false);
  (["api"; "v0"; "add"], HAdd, false);
  (["api"; "v0"; "repo"; "stat"], HRepoStat, false);
  (["api"; "v0"; "repo"; "gc"], HRepoGC, false)
].

Definition seg_eqb := list_eqb String.eqb.

(* strip_prefix l segs = Some r  iff  segs = l ++ r *)
Fixpoint strip_prefix (l segs : list string) : option (list string) :=
  match l, segs with
  | [], _ => Some segs
  | a :: l', x :: segs' => if String.eqb a x then strip_prefix l' segs' else None
  | _ :: _, [] => None
  end.

(* exactly the listed path, or (where a slash form exists) the listed path followed by one non-empty segment *)
Fixpoint spec_find (tbl : list (list string * handler * bool)) (segs : list string) : class :=
  match tbl with
  | [] => Relay
  | (base, h, sl) :: r =>
      match strip_prefix ("" :: base) segs with
      | Some [] => Hijack h None
      | Some [x] => if sl && negb (String.eqb x "") then Hijack h (Some x) else spec_find r segs
      | _ => spec_find r segs
      end
  end.

Definition spec_class (m p : string) : class :=
  if str_in m spec_methods then spec_find spec_paths (segments p) else Relay.

(* a daemon request that is one of the mutating calls the proxy replaces *)
Definition uri_path (u : string) : string := match split_on "?"%char (fun x => x) u with p :: _ => p | [] => u end.
Definition mutating_bases : list (list string) :=
  [["api"; "v0"; "pin"; "add"]; ["api"; "v0"; "pin"; "rm"]; ["api"; "v0"; "pin"; "update"]; ["api"; "v0"; "add"]; ["api"; "v0"; "repo"; "gc"]].
Definition mutating_dreq (d : dreq) : bool :=
  let '(m, u, _) := d in
  negb (String.eqb m "OPTIONS") &&
  existsb (fun b => seg_eqb (firstn (S (List.length b)) (segments (uri_path u))) ("" :: b)) mutating_bases.

Definition dreq_eqb (a b : dreq) : bool :=
  let '(m, u, x) := a in let '(m', u', x') := b in String.eqb m m' && String.eqb u u' && String.eqb x x'.
Definition callf_eqb (a b : call * bool) : bool := call_eqb (fst a) (fst b) && Bool.eqb (snd a) (snd b).

Definition relay_identity (rq : req) (e : env) (o : obs) : bool :=
  match o_calls o with [] => true | _ => false end
  && list_eqb dreq_eqb (o_dreqs o) [(rq_meth rq, rq_uri rq, rq_body rq)]
  && N.eqb (o_status o) (e_dstatus e)
  && String.eqb (o_body o) (if String.eqb (rq_meth rq) "HEAD" then "" else e_dbody e)
  && negb (o_serr o).

Definition any_failed (cs : list (call * bool)) : bool := existsb snd cs.
Definition mut_calls (cs : list (call * bool)) : list (call * bool) := filter (fun c => mutating (fst c)) cs.
Definition is_nil {A} (l : list A) : bool := match l with [] => true | _ => false end.

(* "answered with an error": an error status, or for add the stream-error trailer
   (for repo/gc the trailer relays per-key errors of a collection that was performed) *)
Definition answered_error (h : handler) (o : obs) : bool :=
  (400 <=? o_status o)%N || (match h with HAdd => o_serr o | _ => false end).

Definition ok_calls (l : list call) : list (call * bool) := map (fun c => (c, false)) l.

(* the operation a successful answer must have performed, with exactly the requested path and options *)
Definition expected_ops (h : handler) (e : env) (q : qvals) (o : obs) : option (list (call * bool)) :=
  match h with
  | HPin => match parse_path e (qget "arg" q) with Some p => Some (ok_calls [CPinPath p (mode_of (qget "type" q)) ""]) | None => None end
  | HUnpin => match parse_path e (qget "arg" q) with Some p => Some (ok_calls [CUnpinPath p (mode_of (qget "type" q)) ""]) | None => None end
  | HPinLs => if String.eqb (qget "arg" q) "" then Some (ok_calls [CPins])
              else match parse_cid e (qget "arg" q) with Some c => Some (ok_calls [CPinGet c]) | None => None end
  | HPinUpdate =>
      match qall "arg" q with
      | from :: to :: _ =>
          match parse_path e from, parse_path e to with
          | Some pf, Some pt =>
              Some (ok_calls ([CResolve pf; CPinPath pt Recursive (e_resolved e)] ++
                              (if String.eqb (qget "unpin" q) "false" then [] else [CUnpin (e_resolved e)])))
          | _, _ => None end
      | _ => None end
  | HAdd =>
      match e_addp e with
      | Some p =>
          if String.eqb (qget "only-hash" q) "true" then None else
          Some (ok_calls ([CBlockAllocate; CBlockPut; CPin (e_root e) (ap_name p) (ap_rmin p) (ap_rmax p) Recursive] ++
                          (if String.eqb (qget "pin" q) "false" then [CUnpin (e_root e)] else [])))
      | None => None end
  | HRepoStat => None   (* handled separately: skipped peers *)
  | HRepoGC => Some (ok_calls [CRepoGC])
  | HUnknown => None
  end.

Definition faithful (h : handler) (e : env) (q : qvals) (o : obs) : bool :=
  match h with
  | HRepoStat =>
      match o_calls o with
      | (CPeers, false) :: rest =>
          forallb (fun c => call_eqb (fst c) CRepoStat) rest && Nat.eqb (List.length rest) (N.to_nat (e_npeers e))
          && N.eqb (o_num o) (N.of_nat (List.length (filter (fun c => negb (snd c)) rest)) * e_reposize e)
      | _ => false end
  | _ => match expected_ops h e q o with
         | Some cs => list_eqb callf_eqb (o_calls o) cs
         | None => false      (* a request with an unparsable part must not be answered with success *)
         end
  end.

(* sub-properties, each with its own code *)
Definition spec_codes (rq : req) (e : env) (o : obs) : list N :=
  if e_redirect e then
    (* non-canonical path: 301 or relay, never a cluster call *)
    if is_nil (o_calls o) && ((N.eqb (o_status o) 301 && is_nil (o_dreqs o)) || relay_identity rq e o) then [] else [15%N]
  else match spec_class (rq_meth rq) (rq_path rq) with
  | Relay => if relay_identity rq e o then [] else [11%N]
  | Hijack h sl =>
      let q := match sl with Some a => qset "arg" a (rq_query rq) | None => rq_query rq end in
      let err := answered_error h o in
      (if existsb mutating_dreq (o_dreqs o) then [13%N] else [])
      ++ (if err && negb (any_failed (o_calls o)) && negb (is_nil (mut_calls (o_calls o))) then [12%N] else [])
      ++ (if negb err && (negb (any_failed (o_calls o)) || handler_eqb h HRepoStat) && negb (faithful h e q o) then [14%N] else [])
      (* the request itself never reaches the daemon: only pre-flight OPTIONS and the header extraction do *)
      ++ (if forallb (fun d => let '(m, u, _) := d in String.eqb m "OPTIONS" || (String.eqb m "POST" && String.eqb u (e_extract e))) (o_dreqs o)
          then [] else [10%N])
  end.

Definition spec_okb (rq : req) (e : env) (o : obs) : bool := is_nil (spec_codes rq e o).

(* ---- model = implementation ---- *)
Definition model_eqb (rq : req) (e : env) (o : obs) : bool :=
  let r := run rq e in
  list_eqb callf_eqb (r_calls r) (o_calls o)
  && N.eqb (r_status r) (o_status o)
  && Bool.eqb (r_serr r) (o_serr o)
  && N.eqb (r_num r) (o_num o)
  && match r_body r with
     | Some b => String.eqb b (o_body o) && list_eqb dreq_eqb (r_dreqs r) (o_dreqs o)
     | None => list_eqb dreq_eqb (r_dreqs r) (filter (fun d => negb (String.eqb (fst (fst d)) "OPTIONS")) (o_dreqs o))
     end.

(* finding recognisers: none (S12 and the pin=false argument defect are repaired by fix: commits) *)
Definition case := (N * (req * env * bool * obs))%type.

Definition check_case (c : case) : list (N * N * N) :=
  let '(id, (rq, e, cmp, o)) := c in
  (if cmp && negb (model_eqb rq e o) then [(id, 1%N, 0%N)] else []) ++
  map (fun code => (id, code, 0%N)) (spec_codes rq e o).

Definition failing (cs : list case) : list (N * N * N) := flat_map check_case cs.
