(* C04 — cluster.go (Pin, pin, setupReplicationFactor, checkPinType, setupPin, Unpin, unpinClusterDag,
   cidsFromMetaPin, PinUpdate, PinPath, UnpinPath), rpc_api.go (ClusterRPCAPI.Pin), api/types.go
   (PinOptions.Equals, PinWithOpts, ProtoMarshal/ProtoUnmarshal as the normal form of what the shared
   state stores), cluster_config.go (isReplicationFactorValid) as executable Gallina. The allocation step
   is C03's model. Definitions only.

   Identifiers are indices: CIDs, peers, origins (multiaddresses), paths are N; names and metadata
   keys / values are N with 0 standing for the empty string. Times are seconds relative to the start of
   the history (the harness keeps every expiry at least an hour away from the clock). *)
From V Require Import Base.Common Model.C03_Alloc.
Open Scope Z_scope.

Inductive ptype := BadT | DataT | MetaT | ClusterDAGT | ShardT.
Definition ptype_eqb (a b : ptype) : bool :=
  match a, b with
  | BadT, BadT | DataT, DataT | MetaT, MetaT | ClusterDAGT, ClusterDAGT | ShardT, ShardT => true
  | _, _ => false end.

(* api.PinOptions. o_mode: 0 recursive, 1 direct (PinMode is an int: other values exist).
   o_expire: None = zero time.Time, Some (s, ns). o_update: None = cid.Undef. *)
Record opts := mk_opts {
  o_rmin : Z; o_rmax : Z; o_name : N; o_mode : N; o_shard : N; o_ualloc : list N;
  o_expire : option (Z * N); o_meta : list (N * N); o_update : option N; o_origins : list N }.

(* api.Pin *)
Record pin := mk_pin { p_opts : opts; p_cid : N; p_ty : ptype; p_allocs : list N; p_depth : Z; p_ref : option N }.

Notation pinset := (list (N * pin)) (only parsing).

Definition set_factors (a b : Z) (o : opts) : opts :=
  mk_opts a b (o_name o) (o_mode o) (o_shard o) (o_ualloc o) (o_expire o) (o_meta o) (o_update o) (o_origins o).
Definition set_name (n : N) (o : opts) : opts :=
  mk_opts (o_rmin o) (o_rmax o) n (o_mode o) (o_shard o) (o_ualloc o) (o_expire o) (o_meta o) (o_update o) (o_origins o).
Definition set_expire (x : option (Z * N)) (o : opts) : opts :=
  mk_opts (o_rmin o) (o_rmax o) (o_name o) (o_mode o) (o_shard o) (o_ualloc o) x (o_meta o) (o_update o) (o_origins o).
Definition set_update (u : option N) (o : opts) : opts :=
  mk_opts (o_rmin o) (o_rmax o) (o_name o) (o_mode o) (o_shard o) (o_ualloc o) (o_expire o) (o_meta o) u (o_origins o).
Definition set_opts (o : opts) (p : pin) : pin := mk_pin o (p_cid p) (p_ty p) (p_allocs p) (p_depth p) (p_ref p).
Definition set_allocs (l : list N) (p : pin) : pin := mk_pin (p_opts p) (p_cid p) (p_ty p) l (p_depth p) (p_ref p).

(* PinMode.ToPinDepth / PinDepth.ToPinMode *)
Definition depth_of_mode (m : N) : Z := if (m =? 1)%N then 0 else -1.
Definition mode_of_depth (d : Z) : N := if d =? 0 then 1%N else 0%N.

(* api.PinWithOpts *)
Definition pin_with_opts (c : N) (o : opts) : pin := mk_pin o c DataT [] (depth_of_mode (o_mode o)) None.

(* What dsstate keeps of a pin (ProtoMarshal then ProtoUnmarshal): user allocations are not stored, the
   mode is re-derived from the depth, the expiry loses its nanoseconds. *)
Definition pb_norm_opts (d : Z) (o : opts) : opts :=
  mk_opts (o_rmin o) (o_rmax o) (o_name o) (mode_of_depth d) (o_shard o) []
          (match o_expire o with Some (s, _) => Some (s, 0%N) | None => None end)
          (o_meta o) (o_update o) (o_origins o).
Definition pb_norm (p : pin) : pin :=
  mk_pin (pb_norm_opts (p_depth p) (p_opts p)) (p_cid p) (p_ty p) (p_allocs p) (p_depth p) (p_ref p).

(* ---- PinOptions.Equals, as written (after 5a1feec and fix-S4b: metadata and origins looked up in both directions) ---- *)
Fixpoint insN (x : N) (l : list N) : list N :=
  match l with [] => [x] | y :: ys => if (x <=? y)%N then x :: l else y :: insN x ys end.
Definition sortN (l : list N) : list N := fold_right insN [] l.

Definition expire_eqb (a b : option (Z * N)) : bool :=
  match a, b with
  | None, None => true
  | Some (s, n), Some (s', n') => (s =? s') && (n =? n')%N
  | _, _ => false end.

Definition is_some {A} (x : option A) : bool := match x with Some _ => true | None => false end.

Definition opts_equal (a b : opts) : bool :=
  (o_name a =? o_name b)%N
  && (o_mode a =? o_mode b)%N
  && (o_rmax a =? o_rmax b)
  && (o_rmin a =? o_rmin b)
  && (o_shard a =? o_shard b)%N
  && Nat.eqb (length (o_ualloc a)) (length (o_ualloc b))
  && list_eqb N.eqb (sortN (o_ualloc a)) (sortN (o_ualloc b))
  && expire_eqb (o_expire a) (o_expire b)
  && forallb (fun kv => (fst kv =? 0)%N || optN_eqb (aget (fst kv) (o_meta b)) (Some (snd kv))) (o_meta a)
  && forallb (fun kv => (fst kv =? 0)%N || is_some (aget (fst kv) (o_meta a))) (o_meta b)
  (* Update deliberately ignored *)
  && Nat.eqb (length (o_origins a)) (length (o_origins b))
  && forallb (fun x => memN x (o_origins b)) (o_origins a)
  && forallb (fun x => memN x (o_origins a)) (o_origins b).

(* ---- configuration and environment ---- *)
Record cfg := mk_cfg { def_min : Z; def_max : Z; follower : bool; alloc_rev : bool }.
(* e_resolve: what ipfs.Resolve answers for a path (absent = error); e_links: the links of the block
   ipfs.BlockGet returns for a CID (absent = error or undecodable block) *)
Record env := mk_env { e_now : Z; e_metrics : list metric; e_resolve : list (N * N); e_links : list (N * list N) }.

Inductive err := EFollower | ENotFound | EBadFactors | EExpired | ETypeChange | EDowngrade | EPinType
               | EAlloc | EUpdateType | EUnpinType | EResolve | EMeta | EOther.
Inductive result := ROk (p : pin) | RErr (e : err).

(* cluster_config.go isReplicationFactorValid *)
Definition factors_valid (a b : Z) : bool :=
  negb ((a =? 0) || (b =? 0)) && negb (b <? a) && negb (a <? -1) && negb (b <? -1)
  && negb (((a =? -1) && negb (b =? -1)) || (negb (a =? -1) && (b =? -1))).

(* setupReplicationFactor: defaults for 0, allocations dropped when pinning everywhere *)
Definition with_defaults (c : cfg) (o : opts) : opts :=
  set_factors (if o_rmin o =? 0 then def_min c else o_rmin o) (if o_rmax o =? 0 then def_max c else o_rmax o) o.
Definition everywhere (o : opts) : bool := (o_rmin o =? -1) && (o_rmax o =? -1).
Definition setup_rf (c : cfg) (p : pin) : pin :=
  let p' := set_opts (with_defaults c (p_opts p)) p in
  if everywhere (p_opts p') then set_allocs [] p' else p'.

(* t.Before(now) / t.After(now) with now = (now s, 0 ns) *)
Definition t_before (t : Z * N) (now : Z) : bool := fst t <? now.
Definition t_after (t : Z * N) (now : Z) : bool := (now <? fst t) || ((fst t =? now) && (0 <? snd t)%N).
Definition expire_past (now : Z) (x : option (Z * N)) : bool :=
  match x with Some t => t_before t now | None => false end.

Definition check_pin_type (p : pin) : bool :=
  match p_ty p with
  | DataT => negb (is_some (p_ref p))
  | ShardT => p_depth p =? 1
  | ClusterDAGT => (p_depth p =? 0) && is_some (p_ref p)
  | MetaT => (match p_allocs p with [] => true | _ => false end) && is_some (p_ref p)
  | BadT => false end.

(* the part of setupPin that runs only when the CID is already pinned *)
Definition setup_existing (p : pin) (existing : option pin) : option err :=
  match existing with
  | None => None
  | Some ex =>
      if negb (ptype_eqb (p_ty ex) (p_ty p)) then Some ETypeChange
      else if (o_mode (p_opts ex) =? 0)%N && negb (o_mode (p_opts p) =? 0)%N then Some EDowngrade
      else if negb (check_pin_type p) then Some EPinType
      else None end.

(* consensus.LogPin / LogUnpin on the shared state (C01/C02 justify the map) *)
Definition log_pin (st : pinset) (p : pin) : pinset := aput (p_cid p) (pb_norm p) st.
Definition log_unpin (st : pinset) (c : N) : pinset := adel c st.

(* what PinUpdate makes of the source pin's options: source recorded, name / expiry overridden when given (and in the future) *)
Definition update_opts (now : Z) (exo : opts) (f : N) (o : opts) : opts :=
  let o2 := set_update (Some f) exo in
  let o3 := if (o_name o =? 0)%N then o2 else set_name (o_name o) o2 in
  match o_expire o with
  | Some t => if t_after t now then set_expire (Some t) o3 else o3
  | None => o3 end.
Definition updated_pin (now : Z) (ex : pin) (f t : N) (o : opts) : pin :=
  mk_pin (update_opts now (p_opts ex) f o) t (p_ty ex) (p_allocs ex) (p_depth ex) (p_ref ex).

(* Cluster.PinUpdate (with the follower guard of fix-S5) *)
Definition pin_update_op (c : cfg) (e : env) (st : pinset) (f t : N) (o : opts) : result * pinset :=
  if follower c then (RErr EFollower, st) else
  match aget f st with
  | None => (RErr ENotFound, st)
  | Some ex =>
      if negb (ptype_eqb (p_ty ex) DataT) then (RErr EUpdateType, st)
      else let p' := updated_pin (e_now e) ex f t o in (ROk p', log_pin st p')
  end.

Definition alloc_input (c : cfg) (e : env) (p : pin) (existing : option pin) (bl : list N) : input :=
  mk_input (o_rmin (p_opts p)) (o_rmax (p_opts p))
           (match existing with Some ex => p_allocs ex | None => [] end)
           (e_metrics e) bl (o_ualloc (p_opts p)) (alloc_rev c).

(* pin() after the follower guard and the update redirect *)
Definition pin_main (c : cfg) (e : env) (ord : list N -> list N) (st : pinset) (p : pin) (bl : list N) : result * pinset :=
  let existing := aget (p_cid p) st in
  let p1 := setup_rf c p in
  if negb (factors_valid (o_rmin (p_opts p1)) (o_rmax (p_opts p1))) then (RErr EBadFactors, st)
  else if expire_past (e_now e) (o_expire (p_opts p1)) then (RErr EExpired, st)
  else match setup_existing p1 existing with
  | Some er => (RErr er, st)
  | None =>
      if ptype_eqb (p_ty p1) MetaT then (ROk p1, log_pin st p1)
      else
        let p2 := match existing with
                  | Some ex => if opts_equal (p_opts p1) (p_opts ex) && (match bl with [] => true | _ => false end)
                               then ex else p1
                  | None => p1 end in
        match p_allocs p2 with
        | _ :: _ => (ROk p2, log_pin st p2)
        | [] =>
            match allocate (e_now e) (alloc_input c e p2 existing bl) ord with
            | Ok l => let p3 := set_allocs l p2 in (ROk p3, log_pin st p3)
            | _ => (RErr EAlloc, st)
            end
        end
  end.

(* pin(): follower guard, update redirect *)
Definition pin_core (c : cfg) (e : env) (ord : list N -> list N) (st : pinset) (p : pin) (bl : list N) : result * pinset :=
  if follower c then (RErr EFollower, st)
  else match o_update (p_opts p) with
  | Some u => if negb (u =? p_cid p)%N then pin_update_op c e st u (p_cid p) (p_opts p)
              else pin_main c e ord st p bl
  | None => pin_main c e ord st p bl
  end.

(* cidsFromMetaPin for a meta pin found in the state: shards (reversed links), cluster DAG, the meta pin *)
Definition cids_from_meta (e : env) (st : pinset) (h : N) (mp : pin) : option (list N) :=
  match p_ref mp with
  | None => None
  | Some r =>
      match aget r st with
      | None => None
      | Some _ => match aget r (e_links e) with
                  | None => None
                  | Some ls => Some (List.rev ls ++ [r; h]) end
      end
  end.

Definition unpin_op (c : cfg) (e : env) (st : pinset) (h : N) : result * pinset :=
  if follower c then (RErr EFollower, st)
  else match aget h st with
  | None => (RErr ENotFound, st)
  | Some p =>
      match p_ty p with
      | DataT => (ROk p, log_unpin st h)
      | MetaT => match cids_from_meta e st h p with
                 | None => (RErr EMeta, st)
                 | Some cs => (ROk p, log_unpin (fold_left log_unpin cs st) h) end
      | _ => (RErr EUnpinType, st)
      end
  end.

Inductive call :=
| CPin (c : N) (o : opts)
| CPinPath (path : N) (o : opts)
| CPinUpdate (f t : N) (o : opts)
| CUnpin (c : N)
| CUnpinPath (path : N)
| CRpcPin (p : pin).

Definition step (c : cfg) (e : env) (ord : list N -> list N) (st : pinset) (k : call) : result * pinset :=
  match k with
  | CPin h o => pin_core c e ord st (pin_with_opts h o) []
  | CPinPath pa o => match aget pa (e_resolve e) with
                     | None => (RErr EResolve, st)
                     | Some h => pin_core c e ord st (pin_with_opts h o) [] end
  | CPinUpdate f t o => pin_update_op c e st f t o
  | CUnpin h => unpin_op c e st h
  | CUnpinPath pa => match aget pa (e_resolve e) with
                     | None => (RErr EResolve, st)
                     | Some h => unpin_op c e st h end
  | CRpcPin p => pin_core c e ord st p []
  end.

(* a history: each call with the environment and the map-order oracle in force when it runs *)
Definition run (c : cfg) (st : pinset) (h : list (env * (list N -> list N) * call)) : pinset :=
  fold_left (fun s x => snd (step c (fst (fst x)) (snd (fst x)) s (snd x))) h st.
