(* C02 — H1 cases (one real Consensus, fault-injecting datastore): replay of the observed trace on the model
   (code 1 = the model cannot explain / does not predict the observation) and the boolean form of the property
   evaluated on the observation alone (codes 10..16). Evaluated with vm_compute. *)
From V Require Import Base.Common Model.C02_Batch Model.C02_BatchTime Model.C02_BatchQueue Model.C02_Set.
Open Scope N_scope.

Definition item := (N * wop)%type.

Inductive tev :=
| TEnq (id : N) (o : wop) (ok : bool)            (* LogPin/LogUnpin with batching: nil | ErrMaxQueueSizeReached *)
| TAdd (id : N) (ok : bool)                      (* the worker called batchingState.Add/Rm for item id; its result *)
| TCommit (p : pres)                             (* the worker called batchingState.Commit; which datastore write batch failed *)
| TDirect (id : N) (o : wop) (p : pres) (ok : bool)  (* LogPin/LogUnpin without batching and its result *)
| TReject (id : N) (o : wop)                     (* LogPin refused the operation with an error other than a full queue: it cannot be serialised *)
| TStopCommit (p : pres)                         (* the worker called Commit while Shutdown was waiting for it *)
| TShutRefused (id : N) (o : wop)                (* LogPin/LogUnpin after Shutdown: refused with an error *)
| TRestart                                       (* Shutdown returned; a new Consensus was started on the same datastore *)
| TNoAge                                         (* batch non-empty, more than 4 x MaxBatchAge waited, no commit attempted *)
| TStuck.                                        (* an accepted, queued operation was not taken by the worker (watchdog) *)

(* batching? queue capacity, max batch size; trace; State().List() at the end; calls seen by the PinTracker RPC service *)
(* h_nofire: MaxBatchAge is an hour or more, the timer cannot expire while the case runs *)
(* every trace event carries the harness clock (microseconds since the case started) at which it was recorded.
   h_age: MaxBatchAge in microseconds. h_slack > 0 (trickle cases): the wall-clock clause is checked, an age-limit commit
   may be late by at most h_slack. h_lat: for every operation of a trickle case, when LogPin/LogUnpin returned nil and
   when its effect was first seen in State() (a very large number when it never was). *)
Record h1 := mk_h1 { h_batching : bool; h_nofire : bool; h_qcap : N; h_size : N; h_age : N; h_slack : N;
                     h_trace : list (N * tev); h_lat : list (N * N);
                     h_final : list (key * val); h_calls : list tcall }.

(* ------------------------------------------------------------------ replay on the (timed) model *)
Record rst := mk_rst { r_b : tbst item; r_l : lrep; r_calls : list tcall; r_bad : bool }.

(* a pin whose bytes do not exist (the harness writes the value 0): api.Pin.ProtoMarshal fails, dsstate.Add can never store it *)
Definition is_bad (o : wop) : bool := match o with WPin _ 0 => true | _ => false end.

Definition hd_id (q : list item) : option N := match q with (i, _) :: _ => Some i | [] => None end.
Definition hd_op (q : list item) : option wop := match q with (_, o) :: _ => Some o | [] => None end.

(* let the model clock catch up with the harness clock (never backwards) *)
Definition tick_to (c : tcfg) (at_ : N) (b : tbst item) : tbst item := tstep c b (Tick (at_ - now (ti b))).

Definition replay_step (c : tcfg) (nofire : bool) (slack : N) (s : rst) (te : N * tev) : rst :=
  let '(at_, e) := te in
  let tb := tick_to c at_ (r_b s) in
  let b := core tb in
  (* the age timer of a non-empty batch expired more than `slack` ago and no commit was attempted: not a timely schedule
     of the model (which arms the timer for the first operation of a batch only) *)
  let overdue := (0 <? slack) && t_active (tm b) && (0 <? cur b) && (twhen (ti tb) + slack <? at_) in
  match e with
  | TEnq id o ok =>
      let room := N.of_nat (length (queue b)) <? qcap (tc c) in
      (* the repaired LogPin refuses what cannot be serialised before it looks at the queue (TReject) *)
      mk_rst (tstep c tb (Ev (Enq (id, o)))) (r_l s) (r_calls s) (r_bad s || negb (Bool.eqb room ok) || is_bad o)
  | TReject id o =>
      mk_rst (tstep c tb (Ev (Reject (id, o)))) (r_l s) (r_calls s) (r_bad s || negb (is_bad o))
  | TAdd id ok =>
      match pc b, blocked b, queue b with
      | PIdle, false, (i, o) :: _ =>
          mk_rst (tstep c tb (Ev (Take ok))) (if ok then batch_op (r_l s) o else r_l s) (r_calls s) (r_bad s || negb (i =? id) || overdue)
      | _, _, _ => mk_rst tb (r_l s) (r_calls s) true
      end
  | TCommit p =>
      if blocked b then mk_rst tb (r_l s) (r_calls s) true else
      let okp := pres_possible (r_l s) (cur_dc (r_l s)) p in
      let '(l', hs) := batch_commit (r_l s) p in
      let calls := r_calls s ++ map tracker_call hs in
      match pc b with
      | PCommit => mk_rst (tstep c tb (Ev (SizeCommit (pres_ok p)))) l' calls (r_bad s || negb okp)
      | PIdle =>
          if t_chan (tm b) then mk_rst (tstep c tb (Ev (OnTimer (pres_ok p)))) l' calls (r_bad s || negb okp)
          else if t_active (tm b) && negb nofire then
            (* the timer expired in between: not before its expiry (half of max_age is allowed for the distance between
               the Reset and the instant the harness saw the item), then the worker read the channel *)
            let early := (0 <? slack) && (at_ + maxage c / 2 <? twhen (ti tb)) in
            let tb1 := tick_to c (twhen (ti tb)) tb in
            mk_rst (tstep c (tstep c tb1 (Ev Fire)) (Ev (OnTimer (pres_ok p)))) l' calls (r_bad s || negb okp || early || overdue)
          else mk_rst tb (r_l s) (r_calls s) true      (* a commit from the timer branch of a timer that cannot fire *)
      end
  | TStopCommit p =>
      if blocked b then mk_rst tb (r_l s) (r_calls s) true else
      let okp := pres_possible (r_l s) (cur_dc (r_l s)) p in
      let '(l', hs) := batch_commit (r_l s) p in
      let calls := r_calls s ++ map tracker_call hs in
      match pc b, queue b with
      | PCommit, _ => mk_rst (tstep c tb (Ev (SizeCommit (pres_ok p)))) l' calls (r_bad s || negb okp)
      | PIdle, [] =>       (* the closed queue is empty: the last commit of the worker, only when the batch holds something *)
          mk_rst (tstep c tb (Ev (StopCommit (pres_ok p)))) l' calls (r_bad s || negb okp || (cur b =? 0))
      | PIdle, _ :: _ => mk_rst tb (r_l s) (r_calls s) true
      end
  | TShutRefused id o => mk_rst (tstep c tb (Ev (Reject (id, o)))) (r_l s) (r_calls s) (r_bad s)
  | TRestart =>
      (* the repaired Shutdown returns when everything accepted has been taken and committed; the new worker starts
         from scratch, the datastore (set, heads) is what it was, curDelta (memory) is gone *)
      let clean := match queue b, pend b, pc b with [], [], PIdle => true | _, _, _ => false end in
      mk_rst tinit (mk_lrep (l_st (r_l s)) (l_height (r_l s)) (l_next (r_l s)) (l_lastf (r_l s)) None) (r_calls s)
             (r_bad s || negb clean)
  | TDirect id o p ok =>
      let '(l', hs, okm) := direct_op (r_l s) o p in
      mk_rst tb l' (r_calls s ++ map tracker_call hs)
             (r_bad s || is_bad o || negb (Bool.eqb ok okm) || negb (pres_possible (r_l s) (delta_add_op (l_st (r_l s)) ([], []) o) p))
  | TNoAge =>
      mk_rst tb (r_l s) (r_calls s)
             (r_bad s || (negb (blocked b) && negb nofire && (t_active (tm b) || t_chan (tm b) || match pc b with PCommit => true | PIdle => false end)))
  | TStuck => mk_rst tb (r_l s) (r_calls s) (r_bad s || negb (blocked b))
  end.

Definition replay (c : tcfg) (nofire : bool) (slack : N) (t : list (N * tev)) : rst :=
  fold_left (replay_step c nofire slack) t (mk_rst tinit linit [] false).

Fixpoint insert_kv (x : key * val) (l : list (key * val)) : list (key * val) :=
  match l with [] => [x] | y :: r => if fst x <=? fst y then x :: l else y :: insert_kv x r end.
Definition sort_kv (l : list (key * val)) : list (key * val) := fold_right insert_kv [] l.
Definition kv_eqb (a b : key * val) : bool := (fst a =? fst b) && (snd a =? snd b).
Definition tcall_eqb (a b : tcall) : bool :=
  match a, b with
  | Track k v, Track k' v' => (k =? k') && (v =? v')
  | Untrack k, Untrack k' => k =? k'
  | _, _ => false end.
Definition has_stuck (t : list (N * tev)) : bool := existsb (fun e => match snd e with TStuck => true | _ => false end) t.

Definition h1_cfg (fixed : bool) (h : h1) : tcfg := mk_tcfg (mk_bcfg (h_qcap h) (h_size h) fixed fixed fixed) (h_age h) false.

Definition model_eqb (fixed : bool) (h : h1) : bool :=
  let s := replay (h1_cfg fixed h) (h_nofire h) (h_slack h) (h_trace h) in
  let b := core (r_b s) in
  negb (r_bad s)
  && match pc b with PIdle => true | PCommit => false end                      (* no commit left unobserved *)
  && (blocked b || has_stuck (h_trace h) || match queue b with [] => true | _ => false end)
  && list_eqb kv_eqb (sort_kv (pinset (l_st (r_l s)))) (sort_kv (h_final h))
  && list_eqb tcall_eqb (r_calls s) (h_calls h).

(* ------------------------------------------------------------------ the property on the observation alone *)
Record acc := mk_acc {
  a_wait : list item;          (* accepted, not yet taken (in acceptance order) *)
  a_refused : list N;
  a_cnt : N;                   (* successful Add/Rm since the last successful commit *)
  a_expect : bool;             (* the size limit was reached: the worker's next call must be Commit *)
  a_pend : list wop;           (* operations added to the batch and not yet successfully committed *)
  a_done : list (list wop);    (* successfully committed batches / direct writes, in order *)
  a_undet : list key;          (* keys with an operation whose write returned an error *)
  e_order : bool; e_refuse : bool; e_size : bool; e_age : bool; e_stuck : bool }.

Definition op_key (o : wop) : key := match o with WPin k _ => k | WUnpin k => k end.

Definition acc_step (qcap maxsize : N) (a : acc) (e : tev) : acc :=
  match e with
  | TEnq id o ok =>
      let room := N.of_nat (length (a_wait a)) <? qcap in
      mk_acc (if ok then a_wait a ++ [(id, o)] else a_wait a) (if ok then a_refused a else id :: a_refused a)
             (a_cnt a) (a_expect a) (a_pend a) (a_done a) (a_undet a)
             (e_order a) (e_refuse a || negb (Bool.eqb room ok)) (e_size a) (e_age a) (e_stuck a)
  | TAdd id ok =>
      match a_wait a with
      | (i, o) :: w =>
          let cnt := if ok then a_cnt a + 1 else a_cnt a in
          mk_acc w (a_refused a) cnt (ok && negb (cnt <? maxsize)) (if ok then a_pend a ++ [o] else a_pend a) (a_done a)
                 (if ok then a_undet a else op_key o :: a_undet a)
                 (e_order a || negb (i =? id)) (e_refuse a || memN id (a_refused a)) (e_size a || a_expect a) (e_age a) (e_stuck a)
      | [] => mk_acc [] (a_refused a) (a_cnt a) (a_expect a) (a_pend a) (a_done a) (a_undet a)
                     true (e_refuse a || memN id (a_refused a)) (e_size a) (e_age a) (e_stuck a)
      end
  | TCommit p =>
      if pres_ok p then mk_acc (a_wait a) (a_refused a) 0 false [] (a_done a ++ [a_pend a]) (a_undet a)
                               (e_order a) (e_refuse a) (e_size a) (e_age a) (e_stuck a)
      else mk_acc (a_wait a) (a_refused a) (a_cnt a) false (a_pend a) (a_done a) (a_undet a)
                  (e_order a) (e_refuse a) (e_size a) (e_age a) (e_stuck a)
  | TDirect id o p ok =>
      mk_acc (a_wait a) (a_refused a) (a_cnt a) (a_expect a) (a_pend a) (if ok then a_done a ++ [[o]] else a_done a)
             (if ok then a_undet a else op_key o :: a_undet a)
             (e_order a) (e_refuse a) (e_size a) (e_age a) (e_stuck a)
  | TStopCommit p =>
      if pres_ok p then mk_acc (a_wait a) (a_refused a) 0 false [] (a_done a ++ [a_pend a]) (a_undet a)
                               (e_order a) (e_refuse a) (e_size a) (e_age a) (e_stuck a)
      else mk_acc (a_wait a) (a_refused a) (a_cnt a) false (a_pend a) (a_done a) (a_undet a)
                  (e_order a) (e_refuse a) (e_size a) (e_age a) (e_stuck a)
  | TShutRefused id o => mk_acc (a_wait a) (id :: a_refused a) (a_cnt a) (a_expect a) (a_pend a) (a_done a) (a_undet a)
                                (e_order a) (e_refuse a) (e_size a) (e_age a) (e_stuck a)
  | TRestart =>          (* what was accepted and is neither taken nor committed when Shutdown returns is lost *)
      let lost := match a_wait a, a_pend a with [], [] => false | _, _ => true end in
      mk_acc [] (a_refused a) 0 false [] (a_done a) (a_undet a)
             (e_order a || lost) (e_refuse a) (e_size a || a_expect a) (e_age a) (e_stuck a)
  | TReject id o =>      (* refused with an error: must have no effect; legitimate only for an operation that cannot be stored *)
      mk_acc (a_wait a) (id :: a_refused a) (a_cnt a) (a_expect a) (a_pend a) (a_done a) (a_undet a)
             (e_order a) (e_refuse a || negb (is_bad o)) (e_size a) (e_age a) (e_stuck a)
  | TNoAge => mk_acc (a_wait a) (a_refused a) (a_cnt a) (a_expect a) (a_pend a) (a_done a) (a_undet a)
                     (e_order a) (e_refuse a) (e_size a) true (e_stuck a)
  | TStuck => mk_acc (a_wait a) (a_refused a) (a_cnt a) (a_expect a) (a_pend a) (a_done a) (a_undet a)
                     (e_order a) (e_refuse a) (e_size a) (e_age a) true
  end.

Definition account (h : h1) : acc :=
  fold_left (acc_step (h_qcap h) (h_size h)) (map snd (h_trace h)) (mk_acc [] [] 0 false [] [] [] false false false false false).

(* last-writer-wins map of a sequence of operations *)
Definition apply_op (m : list (key * val)) (o : wop) : list (key * val) :=
  match o with WPin k v => aput k v m | WUnpin k => adel k m end.
Definition apply_ops (m : list (key * val)) (os : list wop) : list (key * val) := fold_left apply_op os m.

Definition optv_eqb := optN_eqb.

(* ---- shape of the known finding `crdt-republish-same-priority-after-heads-failure` (tag 2):
   a publish failed at the heads write after its delta had been merged, and the operations published again at the
   same height (up to the next successful publish) pin one CID with two different values. Returns those CIDs. *)
Definition trace_ops (t : list tev) : list (N * wop) :=
  flat_map (fun e => match e with TEnq id o _ => [(id, o)] | _ => [] end) t.
Fixpoint dup_pin_keys (os : list wop) : list key :=
  match os with
  | [] => []
  | WPin k v :: r =>
      (if existsb (fun o => match o with WPin k' v' => (k' =? k) && negb (v' =? v) | _ => false end) r then [k] else [])
      ++ dup_pin_keys r
  | _ :: r => dup_pin_keys r
  end.
Record rp := mk_rp { rp_pend : list wop; rp_taint : bool; rp_keys : list key }.
Definition rp_step (ops : list (N * wop)) (a : rp) (e : tev) : rp :=
  match e with
  | TAdd id true => match aget id ops with Some o => mk_rp (rp_pend a ++ [o]) (rp_taint a) (rp_keys a) | None => a end
  | TCommit POk => mk_rp [] false (if rp_taint a then rp_keys a ++ dup_pin_keys (rp_pend a) else rp_keys a)
  | TCommit PFailHeads => mk_rp (rp_pend a) true (rp_keys a)
  | TDirect _ o PFailHeads _ => mk_rp (rp_pend a ++ [o]) true (rp_keys a)
  | TDirect _ o POk _ =>
      if rp_taint a then mk_rp [] false (rp_keys a ++ dup_pin_keys (rp_pend a ++ [o])) else a
  | _ => a
  end.
Definition republish_keys (h : h1) : list key :=
  rp_keys (fold_left (rp_step (trace_ops (map snd (h_trace h)))) (map snd (h_trace h)) (mk_rp [] false [])).

(* keys of a committed batch whose change has no tracker call *)
Fixpoint hooks_uncovered (calls : list tcall) (undet : list key) (m : list (key * val)) (bs : list (list wop)) : list key :=
  match bs with
  | [] => []
  | b :: r =>
      let m' := apply_ops m b in
      filter (fun k =>
        if memN k undet then false else
        match aget k m, aget k m' with
        | _, Some v => if optv_eqb (aget k m) (Some v) then false else negb (existsb (tcall_eqb (Track k v)) calls)
        | Some _, None => negb (existsb (tcall_eqb (Untrack k)) calls)
        | None, None => false
        end) (map op_key b)
      ++ hooks_uncovered calls undet m' r
  end.

Definition tag_for (h : h1) (bad : list key) : N := if subsetb bad (republish_keys h) then 2 else 0.

(* the wall-clock clause on the observation alone: every accepted operation of a trickle case is in effect no later than
   max_age + slack after LogPin/LogUnpin returned *)
(* an operation whose effect never showed (the harness writes 2^50) is not judged here: either it was never committed
   (TNoAge / TStuck: codes 13, 14) or it was and the final pinset lacks its effect (code 15) *)
Definition never_seen : N := 1125899906842624.
(* The limit is the one of theorem batch_accept_to_commit_bound, `accept_to_commit_limit` = qcap * (lt + lc) + max_age + lf + lw,
   counted from the instant LogPin/LogUnpin returned. The harness gives one slack; the monitor splits it: a quarter each for
   the runtime firing the timer (lf) and the worker reading it (lw), the other half for the queue, i.e. lt = lc =
   slack / (4 * qcap) per position. *)
Definition monitor_limit (h : h1) : N :=
  let q := N.max 1 (h_qcap h) in
  let l4 := h_slack h / 4 in
  let lp := h_slack h / (4 * q) in
  accept_to_commit_limit (mk_tcfg (mk_bcfg q (h_size h) true true true) (h_age h) false) l4 l4 lp lp.
Definition late_ops (h : h1) : list (N * N) :=
  if 0 <? h_slack h then filter (fun av => (snd av <? never_seen) && (fst av + monitor_limit h <? snd av)) (h_lat h) else [].

(* an operation that can never take effect was accepted (LogPin returned nil): "a pin accepted on a peer takes effect on
   that peer" cannot hold for it *)
Definition accepted_bad (h : h1) : bool :=
  existsb (fun e => match snd e with
                    | TEnq _ o true => is_bad o
                    | TDirect _ o _ true => is_bad o
                    | _ => false end) (h_trace h).

Definition spec_codes (h : h1) : list (N * N) :=
  let a := account h in
  let undet := a_undet a ++ map op_key (a_pend a) in
  let m := apply_ops [] (concat (a_done a)) in
  let keys := map op_key (concat (a_done a)) ++ map fst (h_final h) in
  let bad15 := filter (fun k => negb (memN k undet || optv_eqb (aget k m) (aget k (h_final h)))) keys in
  let bad16 := hooks_uncovered (h_calls h) undet [] (a_done a)
               ++ map fst (filter (fun kv => negb (memN (fst kv) undet || existsb (tcall_eqb (Track (fst kv) (snd kv))) (h_calls h))) (h_final h)) in
  (if e_order a || (negb (e_stuck a) && match a_wait a with [] => false | _ => true end) then [(10, 0)] else []) ++
  (if e_refuse a then [(11, 0)] else []) ++
  (if e_size a || a_expect a then [(12, 0)] else []) ++
  (if e_age a || match late_ops h with [] => false | _ => true end then [(13, 0)] else []) ++
  (if e_stuck a then [(14, 0)] else []) ++
  (match bad15 with [] => if accepted_bad h then [(15, 0)] else [] | _ => [(15, if accepted_bad h then 0 else tag_for h bad15)] end) ++
  (match bad16 with [] => [] | _ => [(16, tag_for h bad16)] end).

Definition bcase := (N * h1)%type.

(* the correspondence is with the repaired code (fix: re-arm the batch timer when the age-limit commit fails) *)
Definition check_bcase (c : bcase) : list (N * N * N) :=
  let '(id, h) := c in
  (if model_eqb true h then [] else [(id, 1, 0)]) ++ map (fun ct => (id, fst ct, snd ct)) (spec_codes h).

Definition failing_batch (cs : list bcase) : list (N * N * N) := flat_map check_bcase cs.
