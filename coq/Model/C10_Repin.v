(* C10 — cluster.go (alertsHandler body, vacatePeer, repinFromPeer, distances, getTrustedPeers, StateSync,
   PeerRemove's re-pin), util.go (distanceChecker.isClosest), api/types.go (Pin.ExpiredAt) as executable
   Gallina, on top of C04's pin / Unpin model (which contains the update redirect) and C03's allocate.
   Definitions only.

   hp / hc: the blake2b-256 digests of a peer ID / of a CID key, read as big-endian numbers. They are
   arbitrary functions here; the harness supplies the real digests of the IDs in play. *)
From V Require Import Base.Common Model.C03_Alloc Model.C04_ClusterOps.
Open Scope Z_scope.

Definition hashf (tbl : list (N * N)) (x : N) : N := match aget x tbl with Some v => v | None => 0%N end.

(* util.go: xor of the two digests; bytes.Compare on equal-length big-endian arrays is the order of N *)
Definition dist (hp hc : N -> N) (p c : N) : N := N.lxor (hp p) (hc c).
(* isClosest: false as soon as my distance is strictly larger than another peer's *)
Definition is_closest (hp hc : N -> N) (self : N) (others : list N) (c : N) : bool :=
  forallb (fun p => (dist hp hc self c <=? dist hp hc p c)%N) others.

(* getTrustedPeers: consensus peers except this peer, the excluded one and the untrusted ones *)
Definition trusted_others (self : N) (members : list N) (exclude : option N) (trusted : N -> bool) : list N :=
  filter (fun p => negb (p =? self)%N && negb (match exclude with Some x => (p =? x)%N | None => false end) && trusted p) members.

(* per-peer configuration: C04's plus disable_repinning *)
Record pcfg := mk_pcfg { pc_cfg : cfg; pc_norepin : bool }.

(* repinFromPeer: allocations cleared, failed peer excluded, then pin() — including its update redirect *)
Definition repin_from_peer (c : cfg) (e : env) (ord : list N -> list N) (st : pinset) (f : N) (x : pin) : result * pinset :=
  pin_core c e ord st (set_allocs [] x) [f].

(* the loop of alertsHandler / vacatePeer over the listed pins (a snapshot), each re-pin reading the current
   state; the second component is the list of CIDs for which LogPin was issued, in order.
   ord: the Go map order used by allocate, per CID *)
Definition repin_loop (c : cfg) (e : env) (ord : N -> list N -> list N) (f : N) (sel : pin -> bool)
           (snapshot : list pin) (st : pinset) : pinset * list N :=
  fold_left (fun acc x =>
               if memN f (p_allocs x) && sel x then
                 match repin_from_peer c e (ord (p_cid x)) (fst acc) f x with
                 | (ROk _, s') => (s', snd acc ++ [p_cid x])
                 | (RErr _, s') => (s', snd acc) end
               else acc) snapshot (st, []).

(* lord: the order in which the state lists its pins (datastore query order: any permutation) *)
Definition listed (lord : list pin -> list pin) (st : pinset) : list pin := lord (map snd st).

(* one peer handling one alert: (alert recorded?, pinset after, CIDs logged) *)
Definition on_alert (pc : pcfg) (e : env) (ord : N -> list N -> list N) (lord : list pin -> list pin) (hp hc : N -> N)
           (self : N) (members : list N) (trusted : N -> bool) (st : pinset) (is_ping : bool) (f : N) : bool * pinset * list N :=
  if follower (pc_cfg pc) then (false, st, [])
  else if negb is_ping then (true, st, [])
  else if pc_norepin pc then (true, st, [])
  else
    let others := trusted_others self members (Some f) trusted in
    let r := repin_loop (pc_cfg pc) e ord f (fun x => is_closest hp hc self others (p_cid x)) (listed lord st) st in
    (true, fst r, snd r).

(* vacatePeer (PeerRemove): every pin allocated to the peer, no closest test *)
Definition vacate (pc : pcfg) (e : env) (ord : N -> list N -> list N) (lord : list pin -> list pin) (st : pinset) (f : N) : pinset * list N :=
  if pc_norepin pc then (st, [])
  else repin_loop (pc_cfg pc) e ord f (fun _ => true) (listed lord st) st.

(* Pin.ExpiredAt (stored expiries carry no nanoseconds) *)
Definition expired_at (now : Z) (p : pin) : bool := expire_past now (o_expire (p_opts p)).

(* LogUnpin calls of a successful Unpin *)
Definition unpin_logs (e : env) (st : pinset) (h : N) (p : pin) : list N :=
  match p_ty p with
  | MetaT => match cids_from_meta e st h p with Some cs => cs ++ [h] | None => [] end
  | _ => [h] end.

(* StateSync: expired and closest -> Unpin; errors only logged *)
Definition state_sync (pc : pcfg) (e : env) (lord : list pin -> list pin) (hp hc : N -> N)
           (self : N) (members : list N) (trusted : N -> bool) (st : pinset) : pinset * list N :=
  if follower (pc_cfg pc) then (st, [])
  else
    let others := trusted_others self members None trusted in
    fold_left (fun acc x =>
                 if expired_at (e_now e) x && is_closest hp hc self others (p_cid x) then
                   match unpin_op (pc_cfg pc) e (fst acc) (p_cid x) with
                   | (ROk q, s') => (s', snd acc ++ unpin_logs e (fst acc) (p_cid x) q)
                   | (RErr _, s') => (s', snd acc) end
                 else acc) (listed lord st) (st, []).

(* every surviving peer handles the alert, one after the other (sched: who, with which configuration and oracles) *)
Record actor := mk_actor { a_self : N; a_pc : pcfg; a_ord : N -> list N -> list N; a_lord : list pin -> list pin }.

Definition alert_all (e : env) (hp hc : N -> N) (members : list N) (trusted : N -> bool) (is_ping : bool) (f : N)
           (sched : list actor) (st : pinset) : pinset * list (N * list N) :=
  fold_left (fun acc a =>
               let r := on_alert (a_pc a) e (a_ord a) (a_lord a) hp hc (a_self a) members trusted (fst acc) is_ping f in
               (snd (fst r), snd acc ++ [(a_self a, snd r)])) sched (st, []).

Definition sync_all (e : env) (hp hc : N -> N) (members : list N) (trusted : N -> bool)
           (sched : list actor) (st : pinset) : pinset * list (N * list N) :=
  fold_left (fun acc a =>
               let r := state_sync (a_pc a) e (a_lord a) hp hc (a_self a) members trusted (fst acc) in
               (fst r, snd acc ++ [(a_self a, snd r)])) sched (st, []).
