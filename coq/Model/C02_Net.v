(* C02 — who merges what: consensus/crdt/consensus.go `setup` registers a pubsub topic validator that accepts a head
   broadcast iff `IsTrustedPeer(msg.GetFrom())`, i.e. iff this peer trusts the SIGNER of the message (TrustAll, the peer
   itself, or a member of trusted_peers). The peer the message was received from (the validator's second argument, the
   last hop of the gossip) is ignored. Definitions only.

   A published update is a delta with its signer; an arrival at a peer is a published update together with the peer it was
   received from (any path: the issuer itself or any relay). A peer merges an arrival iff its validator accepts it.
   The delivery assumption of C02 (pubsub + bitswap, trusted) is that every published update arrives at every peer; the
   order and the path are arbitrary. *)
From V Require Import Base.Common Model.C02_Set.
Open Scope N_scope.

Record sdelta := mk_sd { sd_signer : peer; sd_delta : delta }.

(* the trust configuration of one peer: trust-all ("*"), or the trusted_peers list *)
Record tpolicy := mk_tp { tp_all : bool; tp_list : list peer }.

(* IsTrustedPeer *)
Definition trusts (pol : peer -> tpolicy) (x p : peer) : bool :=
  tp_all (pol x) || (p =? x) || memN p (tp_list (pol x)).

(* the topic validator of x: func(ctx, _ peer.ID, msg) bool { return IsTrustedPeer(msg.GetFrom()) } *)
Definition validator (pol : peer -> tpolicy) (x : peer) (received_from signer : peer) : bool := trusts pol x signer.

Definition arrival := (peer * sdelta)%type.     (* (received from, update) *)

(* what x merges out of what arrives, in arrival order *)
Definition merged (pol : peer -> tpolicy) (x : peer) (arr : list arrival) : list delta :=
  map (fun a => sd_delta (snd a)) (filter (fun a => validator pol x (fst a) (sd_signer (snd a))) arr).

(* the updates x is meant to hold: those of the signers it trusts *)
Definition inbox (pol : peer -> tpolicy) (x : peer) (pub : list sdelta) : list delta :=
  map sd_delta (filter (fun d => trusts pol x (sd_signer d)) pub).

Definition pinset_of (pol : peer -> tpolicy) (x : peer) (arr : list arrival) : rep := run (merged pol x arr) rempty.
