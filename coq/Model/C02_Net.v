(* C02 — who merges what: consensus/crdt/consensus.go `setup` registers a pubsub topic validator that accepts a head
   broadcast iff `IsTrustedPeer(msg.GetFrom())`, i.e. iff this peer trusts the SIGNER of the message (TrustAll, the peer
   itself, or a member of trusted_peers). The peer the message was received from (the validator's second argument, the
   last hop of the gossip) is ignored. Definitions only.

   A published update is a delta with its signer; an arrival at a peer is a published update together with the peer it was
   received from (any path: the issuer itself or any relay). A peer merges an arrival iff its validator accepts it.
   The delivery assumption of C02 (pubsub + bitswap, trusted) is that every published update arrives at every peer; the
   order and the path are arbitrary. *)
From V Require Import Base.Common Model.C02_Set.
Open Scope N_scope.

Record sdelta := mk_sd { sd_signer : peer; sd_delta : delta }.

(* the trust configuration of one peer: trust-all ("*"), or the trusted_peers list *)
Record tpolicy := mk_tp { tp_all : bool; tp_list : list peer }.

(* IsTrustedPeer *)
Definition trusts (pol : peer -> tpolicy) (x p : peer) : bool :=
  tp_all (pol x) || (p =? x) || memN p (tp_list (pol x)).

(* the topic validator of x: func(ctx, _ peer.ID, msg) bool { return IsTrustedPeer(msg.GetFrom()) } *)
Definition validator (pol : peer -> tpolicy) (x : peer) (received_from signer : peer) : bool := trusts pol x signer.

Definition arrival := (peer * sdelta)%type.     (* (received from, update) *)

(* what x merges out of what arrives, in arrival order *)
Definition merged (pol : peer -> tpolicy) (x : peer) (arr : list arrival) : list delta :=
  map (fun a => sd_delta (snd a)) (filter (fun a => validator pol x (fst a) (sd_signer (snd a))) arr).

(* the updates x is meant to hold: those of the signers it trusts *)
Definition inbox (pol : peer -> tpolicy) (x : peer) (pub : list sdelta) : list delta :=
  map sd_delta (filter (fun d => trusts pol x (sd_signer d)) pub).

Definition pinset_of (pol : peer -> tpolicy) (x : peer) (arr : list arrival) : rep := run (merged pol x arr) rempty.

(* ---- which updates can arrive at all: gossipsub forwards a message only after the forwarder's OWN validator accepted
   it, so a message signed by s travels along links whose intermediate peers all trust s; the receiver then applies its
   own validator. A relay that does not trust the signer stops the message (and never holds its blocks). *)
Definition link := (peer * peer)%type.
Definition neighbours (links : list link) (p : peer) : list peer :=
  flat_map (fun l => if fst l =? p then [snd l] else if snd l =? p then [fst l] else []) links.

(* one round: every peer that holds the message passes it to its neighbours; a neighbour keeps it iff it trusts s *)
Definition spread (pol : peer -> tpolicy) (links : list link) (s : peer) (have : list peer) : list peer :=
  have ++ filter (fun r => trusts pol r s && negb (memN r have)) (flat_map (neighbours links) have).
Fixpoint spread_n (n : nat) (pol : peer -> tpolicy) (links : list link) (s : peer) (have : list peer) : list peer :=
  match n with O => have | S k => spread_n k pol links s (spread pol links s have) end.

(* the peers an update signed by s reaches (and is accepted by), in a network of at most n peers *)
Definition holders (n : nat) (pol : peer -> tpolicy) (links : list link) (s : peer) : list peer := spread_n n pol links s [s].
Definition deliverable (n : nat) (pol : peer -> tpolicy) (links : list link) (s x : peer) : bool := memN x (holders n pol links s).
