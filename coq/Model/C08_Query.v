(* C08 — the query-string form of pin options. Mirrors api/types.go: PinOptions.ToQuery, PinOptions.FromQuery,
   PinMode.String, PinModeFromString; api/add.go: parseIntParam; api/util.go: PeersToStrings, StringsToPeers.
   Real strings: "%d" printing, strconv.Atoi / ParseUint, strings.Join / strings.Split on ",", the "meta-" prefix.
   url.Values.Encode / url.ParseQuery (trusted) carry a key -> value map unchanged: a query is an association list
   with distinct keys. The parsers of peer IDs, CIDs, multiaddresses, RFC 3339 times and durations are trusted
   libraries: their accept/reject outcome on the texts of a case is an input (the oracle). Definitions only. *)
From V Require Import Base.Common Base.C08_Str Model.C08_Codec.
From Coq Require Import DecimalString DecimalZ DecimalN.
Open Scope string_scope.
Open Scope Z_scope.

Definition query := list (string * string).

(* url.Values.Get / Set *)
Definition qget (k : string) (q : query) : string := match slookup k q with Some v => v | None => "" end.
Fixpoint qset (k v : string) (q : query) : query :=
  match q with
  | [] => [(k, v)]
  | (k', v') :: r => if String.eqb k k' then (k, v) :: r else (k', v') :: qset k v r
  end.

(* fmt.Sprintf("%d", _) *)
Definition print_uint (n : N) : string := NilEmpty.string_of_uint (N.to_uint n).
Definition print_int (z : Z) : string := if z <? 0 then String "-" (print_uint (Z.to_N (- z))) else print_uint (Z.to_N z).

Definition parse_digits (s : string) : option N :=
  match s with
  | EmptyString => None
  | _ => option_map N.of_uint (NilEmpty.uint_of_string s)
  end.

(* strconv.Atoi: optional sign, decimal digits, must fit the 64-bit int *)
Definition atoi (s : string) : option Z :=
  let r := match s with
           | String c t =>
               if Ascii.eqb c "-" then option_map (fun n => - Z.of_N n) (parse_digits t)
               else if Ascii.eqb c "+" then option_map Z.of_N (parse_digits t)
               else option_map Z.of_N (parse_digits s)
           | EmptyString => None
           end in
  match r with Some z => if in_int64 z then Some z else None | None => None end.

(* strconv.ParseUint(v, 10, 64) *)
Definition parse_uint64 (s : string) : option N :=
  match parse_digits s with Some n => if (n <? 2 ^ 64)%N then Some n else None | None => None end.

(* PinMode.String / PinModeFromString *)
Definition mode_string (m : Z) : string := if m =? 0 then "recursive" else if m =? 1 then "direct" else "recursive".
Definition mode_from_string (s : string) : Z :=
  if String.eqb s "recursive" || String.eqb s "" then 0 else if String.eqb s "direct" then 1 else 0.

(* outcomes of the trusted parsers on the texts that occur in a case *)
Record oracle := mk_orc {
  orc_peers : list string;                 (* texts peer.Decode accepts *)
  orc_cids : list string;                  (* texts cid.Decode accepts *)
  orc_addrs : list (string * bool);        (* texts multiaddr.NewMultiaddr accepts; whether they carry a /p2p component *)
  orc_times : list (string * (Z * N));     (* RFC 3339 texts: time.UnmarshalText accepts them as this instant; MarshalText prints them *)
  orc_durs : list (string * Z) }.          (* texts time.ParseDuration accepts, in nanoseconds *)

Definition sin (s : string) (l : list string) : bool := existsb (String.eqb s) l.
Definition peer_dec (orc : oracle) (s : string) : bool := sin s (orc_peers orc).
Definition cid_dec (orc : oracle) (s : string) : bool := sin s (orc_cids orc).
Definition addr_dec (orc : oracle) (s : string) : option bool := slookup s (orc_addrs orc).
Definition time_dec (orc : oracle) (s : string) : option (Z * N) := slookup s (orc_times orc).
Definition dur_dec (orc : oracle) (s : string) : option Z := slookup s (orc_durs orc).
Definition time_enc (orc : oracle) (t : Z * N) : option string :=
  option_map fst (find (fun e => (fst (snd e) =? fst t) && (snd (snd e) =? snd t)%N) (orc_times orc)).

Definition meta_prefix : string := "meta-".

(* PinOptions.ToQuery up to q.Encode() *)
Definition to_query (orc : oracle) (o : opts) : result query :=
  let q := qset "replication-min" (print_int (rmin o)) [] in
  let q := qset "replication-max" (print_int (rmax o)) q in
  let q := qset "name" (name o) q in
  let q := qset "mode" (mode_string (mode o)) q in
  let q := qset "shard-size" (print_uint (shard_size o)) q in
  let q := qset "user-allocations" (join_with "," (map tok_str (user_allocs o))) q in
  let qe := match expire o with
            | None => Ok q
            | Some t => match time_enc orc t with Some s => Ok (qset "expire-at" s q) | None => Err end
            end in
  match qe with
  | Err => Err
  | Ok q =>
    let q := fold_left (fun q kv => if String.eqb (fst kv) "" then q else qset (meta_prefix ++ fst kv) (snd kv) q) (metadata o) q in
    let q := match pin_update o with Some c => qset "pin-update" c q | None => q end in
    let q := match origins o with [] => q | _ => qset "origins" (join_with "," (origins o)) q end in
    Ok q
  end.

(* parseIntParam *)
Definition parse_int_param (q : query) (k : string) (old : Z) : result Z :=
  let v := qget k q in
  if String.eqb v "" then Ok old else match atoi v with Some z => Ok z | None => Err end.

(* time.Now().Add(d) on (seconds, nanoseconds) *)
Definition add_ns (t : Z * N) (d : Z) : Z * N :=
  let total := fst t * 1000000000 + Z.of_N (snd t) + d in
  (total / 1000000000, Z.to_N (total mod 1000000000)).

(* the pieces of FromQuery, in the order of the code *)
Definition allocs_of_query (orc : oracle) (old : list tok) (av : string) : list tok :=
  if String.eqb av "" then old else map TOk (filter (peer_dec orc) (split_on comma av)).   (* StringsToPeers skips what does not parse *)

Definition expire_of_query (orc : oracle) (now : Z * N) (old : time) (ev iv : string) : result time :=
  if negb (String.eqb ev "") then
    match time_dec orc ev with Some t => Ok (mk_time (fst t) (snd t)) | None => Err end
  else if negb (String.eqb iv "") then
    match dur_dec orc iv with
    | Some d => if d <? 1000000000 then Err else Ok (mk_time (fst (add_ns now d)) (snd (add_ns now d)))
    | None => Err end
  else Ok old.

Definition meta_pick (q : query) (kv : string * string) : list (string * string) :=
  match strip_prefix meta_prefix (fst kv) with
  | Some mk => if String.eqb mk "" then [] else [(mk, qget (fst kv) q)]
  | None => [] end.
(* for k := range q ...: the resulting map, in its canonical (key-sorted) representation *)
Definition meta_of_query (q : query) : list (string * string) := ksort (flat_map (meta_pick q) q).

Definition update_of_query (orc : oracle) (old : cid) (uv : string) : result cid :=
  if String.eqb uv "" then Ok old else if cid_dec orc uv then Ok (Some uv) else Err.

Definition origins_of_query (orc : oracle) (old : list string) (ov : string) : result (list string) :=
  if String.eqb ov "" then Ok old
  else if forallb (fun s => match addr_dec orc s with Some true => true | _ => false end) (split_on comma ov)
       then Ok (split_on comma ov) else Err.

Definition shard_of_query (old : N) (sv : string) : result N :=
  if String.eqb sv "" then Ok old else match parse_uint64 sv with Some n => Ok n | None => Err end.

(* PinOptions.FromQuery on the receiver value [old], at clock reading [now] *)
Definition from_query (orc : oracle) (now : Z * N) (old : opts) (q0 : query) : result opts :=
  let nm := qget "name" q0 in
  let md := mode_from_string (qget "mode" q0) in
  let rpl := qget "replication" q0 in
  let q := if String.eqb rpl "" then q0 else qset "replication-max" rpl (qset "replication-min" rpl q0) in
  match parse_int_param q "replication-min" (rmin old) with Err => Err | Ok rmn =>
  match parse_int_param q "replication-max" (rmax old) with Err => Err | Ok rmx =>
  match shard_of_query (shard_size old) (qget "shard-size" q) with Err => Err | Ok sh =>
  let ua := allocs_of_query orc (user_allocs old) (qget "user-allocations" q) in
  match expire_of_query orc now (expire old) (qget "expire-at" q) (qget "expire-in" q) with Err => Err | Ok ex =>
  let meta := meta_of_query q in
  match update_of_query orc (pin_update old) (qget "pin-update" q) with Err => Err | Ok upd =>
  match origins_of_query orc (origins old) (qget "origins" q) with Err => Err | Ok og =>
  Ok (mk_opts rmn rmx nm md sh ua ex meta upd og)
  end end end end end end.

(* what the query form may lose: metadata entries with the empty key *)
Definition lossy_q (o : opts) : opts :=
  mk_opts (rmin o) (rmax o) (name o) (mode o) (shard_size o) (user_allocs o) (expire o)
          (filter (fun kv => negb (String.eqb (fst kv) "")) (metadata o)) (pin_update o) (origins o).

Definition plain_text (s : string) : bool := negb (String.eqb s "") && negb (has_char comma s).

Definition opt_time_eqb (a : option (Z * N)) (t : Z * N) : bool :=
  match a with Some x => (fst x =? fst t) && (snd x =? snd t)%N | None => false end.

(* options the query form is meant for, relative to what the trusted parsers accept *)
Definition wf_q (orc : oracle) (o : opts) : bool :=
  in_int64 (rmin o) && in_int64 (rmax o) && ((mode o =? 0) || (mode o =? 1)) && (shard_size o <? 2 ^ 64)%N
  && forallb (fun t => match t with TOk s => plain_text s && peer_dec orc s | _ => false end) (user_allocs o)
  && match expire o with
     | None => true
     | Some t => match time_enc orc t with Some s => negb (String.eqb s "") && opt_time_eqb (time_dec orc s) t | None => false end
                 && negb ((fst t =? zero_sec) && (snd t =? 0)%N)
     end
  && keys_sorted (metadata o)
  && match pin_update o with Some c => negb (String.eqb c "") && cid_dec orc c | None => true end
  && forallb (fun s => plain_text s && match addr_dec orc s with Some true => true | _ => false end) (origins o).
