(* C18 — hand-written exemption table for the lock-discipline obligation: functions whose accesses to a
   tracked field are known to happen before the object is shared with any other goroutine.
   Every entry needs a justification that can be checked by reading the code. Keep it minimal.
   (Props/C18.v repeats the literal table and checks that it is this one; Diag/C18.v uses it too.)

   Currently empty: on the repaired tree (fix-S17a/b/c) every access of every tracked field, including the
   informers' SetClient, is made under the field's designated mutex. Constructors (NewWindow, NewStore,
   NewOperation, NewCluster, ...) initialise the fields in composite literals, which are not field
   accesses of a shared object and are not listed by the translator at all. *)
From V Require Import Model.C18_Table.

Definition exemptions : list exemption := [].
