(* C18 — hand-written exemption table for the lock-discipline obligation: functions whose accesses to a
   tracked field are known to happen before the object is shared with any other goroutine.
   Every entry needs a justification that can be checked by reading the code. Keep it minimal.
   (Props/C18.v repeats the literal table and checks that it is this one; Diag/C18.v uses it too.)

   Currently empty: on the repaired tree (fix-S17a/b/c) every access of every tracked field, including the
   informers' SetClient, is made under the field's designated mutex. Constructors (NewWindow, NewStore,
   NewOperation, NewCluster, ...) initialise the fields in composite literals, which are not field
   accesses of a shared object and are not listed by the translator at all. *)
From V Require Import Model.C18_Table.

Definition exemptions : list exemption := [].

(* Map / slice fields of the owner types that are shared between goroutine entry points without being in the table, and why
   that is safe. Currently empty: on the current tree the translator reports none (Cluster.apis and Cluster.informers are set
   in NewCluster's literal and only ever read afterwards: never assigned, mutated or handed on, so they are not rows at all). *)
Definition shared_exemptions : list shared_exemption := [].
