(* C07 — rpc_api.go authF, the consensus trust functions (raft: everyone; crdt: TrustAll, self,
   sync.Map after Trust/Distrust initialised from the configured list), pubsub topic validator. *)
From Coq Require Import String.
From V Require Import Base.Common Base.Rpc.
Open Scope string_scope.

Fixpoint lookup (k : string) (p : list (string * ept)) : option ept :=
  match p with [] => None | (k', v) :: r => if String.eqb k k' then Some v else lookup k r end.

(* authF: missing entry -> deny; Trusted -> consensus.IsTrustedPeer(caller); Open -> allow; Closed -> deny *)
Definition authorize_entry (e : option ept) (trusted : bool) : bool :=
  match e with
  | None => false
  | Some Trusted => trusted
  | Some Open => true
  | Some Closed => false
  end.
Definition authorize (pol : list (string * ept)) (trusted : bool) (ep : string) : bool :=
  authorize_entry (lookup ep pol) trusted.

(* gorpc: a call made through the local server object is not authorised at all *)
Definition call_allowed (pol : list (string * ept)) (local trusted : bool) (ep : string) : bool :=
  local || authorize pol trusted ep.

Definition mem_str (s : string) (l : list string) : bool := existsb (String.eqb s) l.

(* trust *)
Inductive top := TTrust (p : N) | TDistrust (p : N).
Record crdt_cfg := mk_crdt_cfg { trust_all : bool; self : N; configured : list N }.

Definition apply_top (s : list N) (o : top) : list N :=
  match o with
  | TTrust p => p :: s
  | TDistrust p => filter (fun q => negb (N.eqb p q)) s
  end.
Definition trust_set (cfg : crdt_cfg) (h : list top) : list N := fold_left apply_top h (configured cfg).
Definition trust_crdt (cfg : crdt_cfg) (h : list top) (p : N) : bool :=
  trust_all cfg || N.eqb p (self cfg) || memN p (trust_set cfg h).
Definition trust_raft (p : N) : bool := true.

(* consensus/crdt/config.go applyJSONConfig: the trusted_peers value of the configuration section as decoded from
   JSON (absent key / null = None). TrustAll and TrustedPeers are reset first; entries are read in file order; "*"
   sets TrustAll, empties the list and stops. toJSONConfig writes ["*"] for TrustAll, else the list: ApplyEnvVars
   (no variable set) is applyJSONConfig of toJSONConfig. *)
Inductive tentry := TStar | TPeer (p : N).
Fixpoint load_trusted (l : list tentry) (acc : list N) : bool * list N :=
  match l with
  | [] => (false, acc)
  | TStar :: _ => (true, [])
  | TPeer p :: r => load_trusted r (acc ++ [p])
  end.
Definition cfg_of_json (me : N) (tp : option (list tentry)) : crdt_cfg :=
  match tp with
  | None => mk_crdt_cfg false me []
  | Some l => let '(a, ps) := load_trusted l [] in mk_crdt_cfg a me ps
  end.
Definition json_of_cfg (c : crdt_cfg) : option (list tentry) :=
  Some (if trust_all c then [TStar] else map TPeer (configured c)).
Definition env_pass (c : crdt_cfg) : crdt_cfg := cfg_of_json (self c) (json_of_cfg c).

(* the last Trust/Distrust on p in a history, if any *)
Definition op_peer (o : top) : N := match o with TTrust p | TDistrust p => p end.
Definition last_op (p : N) (h : list top) : option bool :=
  fold_left (fun acc o => if N.eqb (op_peer o) p then Some (match o with TTrust _ => true | _ => false end) else acc) h None.

(* pubsub topic validator of the CRDT component: a message is accepted iff its signer is trusted *)
Definition validator (cfg : crdt_cfg) (h : list top) (signer : N) : bool := trust_crdt cfg h signer.

(* a replica only merges validated broadcasts: deliver returns the updates that get through *)
Definition deliver {U} (cfg : crdt_cfg) (h : list top) (msgs : list (N * U)) : list U :=
  map snd (filter (fun m => validator cfg h (fst m)) msgs).
