(* C13 — correspondence check of the importer model (Model/C13_Importer.v) for single files:
   the DAG the real importer built, as the blocks it handed to DAGService.Add in order, against the model's layout
   (code 1), and the boolean form of the content clause applied to the OBSERVED DAG (codes 30..33).
   Evaluated with vm_compute.

   Observation (harness/adder_sharding/c13_shape_test.go). Every block of the stream up to the first occurrence of the
   returned root gets a number by first appearance of its CID. A block is `OB id links dlen data`:
     links  one (number of the target's CID, recorded size) per dag-pb link, the recorded size being the UnixFS
            blocksize at the same position
     dlen   length of the chunk it carries (raw node: the block; dag-pb node: the UnixFS Data field)
     data   the chunk itself, or None when the harness did not record it (large files: the file is then all
            zeros on both sides, and only lengths are compared)
   Canonicalisation: a block without links is a leaf (raw-leaves on/off, UnixFS type and CID version change the encoding of a
   leaf, not the shape); a block without links and without data is the same whether it is a leaf or an empty internal node. *)
From V Require Import Base.Common Model.C13_Importer.
From Coq Require Import FSets.FMapPositive.
Open Scope N_scope.

Inductive oblock := OB (id : N) (links : list (N * N)) (dlen : N) (data : option bytes).

(* compact notation of the harness: n consecutive ids from a (step 1) or n times the same id (step 0) *)
Definition srange (a n step : N) : list N := map (fun i => a + step * N.of_nat i) (seq 0 (N.to_nat n)).
Definition oleaves (a n step dlen : N) : list oblock := map (fun i => OB i [] dlen None) (srange a n step).
Definition lseg (a n step sz : N) : list (N * N) := map (fun i => (i, sz)) (srange a n step).

(* layout: 0 balanced, 1 trickle; s_bytes = None: the file is s_size zero bytes *)
Record sinput := mk_sinput { s_layout : N; s_ml : N; s_k : N; s_size : N; s_bytes : option bytes }.
Definition case := (N * (sinput * (list oblock * N * N)))%type.      (* blocks in emission order, root id, recorded file size of the root *)

Definition zeros (n : N) : bytes := repeat 0 (N.to_nat n).
Definition file_of (i : sinput) : bytes := match s_bytes i with Some b => b | None => zeros (s_size i) end.

Definition run_layout (i : sinput) : ierr + (tree * N * list tree) :=
  if s_layout i =? 0 then balanced_layout (s_ml i) (chunk (s_k i) (file_of i))
  else trickle_layout (s_ml i) (chunk (s_k i) (file_of i)).

(* ---- the observed DAG, rebuilt block by block in emission order ---- *)
Definition pkey (c : N) : positive := N.succ_pos c.

Fixpoint map_opt {A B} (f : A -> option B) (l : list A) : option (list B) :=
  match l with
  | [] => Some []
  | x :: r => match f x, map_opt f r with Some y, Some ys => Some (y :: ys) | _, _ => None end
  end.

Definition tree_of_block (m : PositiveMap.t tree) (b : oblock) : option tree :=
  match b with
  | OB _ [] dlen data => Some (Leaf (match data with Some d => d | None => zeros dlen end))
  | OB _ links _ _ =>
      match map_opt (fun l => match PositiveMap.find (pkey (fst l)) m with Some c => Some (c, snd l) | None => None end) links with
      | Some ch => Some (Node ch)
      | None => None               (* a link to a block that was not handed to the DAG service before *)
      end
  end.

Definition ob_id (b : oblock) : N := match b with OB id _ _ _ => id end.

Fixpoint rebuild (m : PositiveMap.t tree) (bs : list oblock) (acc : list tree) : option (list tree) :=
  match bs with
  | [] => Some (rev' acc)
  | b :: r => match tree_of_block m b with
              | Some t => rebuild (PositiveMap.add (pkey (ob_id b)) t m) r (t :: acc)
              | None => None
              end
  end.
Definition observed (bs : list oblock) : option (list tree) := rebuild (PositiveMap.empty tree) bs [].

(* ---- comparisons ---- *)
Definition bytes_eqb := list_eqb N.eqb.
Fixpoint shape_eqb (a b : tree) : bool :=
  match a, b with
  | Leaf d, Leaf d' => bytes_eqb d d'
  | Node ch, Node ch' =>
      (fix go (l1 l2 : list (tree * N)) : bool :=
         match l1, l2 with
         | [], [] => true
         | (x, n) :: xs, (y, n') :: ys => N.eqb n n' && shape_eqb x y && go xs ys
         | _, _ => false
         end) ch ch'
  | Leaf [], Node [] => true
  | Node [], Leaf [] => true
  | _, _ => false
  end.

(* code 1: the blocks the model hands to the DAG service, in order, are the observed ones; same recorded file size of the root *)
Definition model_eqb (i : sinput) (bs : list oblock) (rsize : N) : bool :=
  match run_layout i, observed bs with
  | inr (_, z, em), Some obs => list_eqb shape_eqb em obs && N.eqb z rsize
  | _, _ => false
  end.

(* ---- the content clause on the observed DAG ---- *)
(* 30 closed: every link goes to a block emitted before, and the last block emitted is the returned root *)
Fixpoint closed_from (seen : PositiveMap.t unit) (bs : list oblock) : bool :=
  match bs with
  | [] => true
  | OB id links _ _ :: r =>
      forallb (fun l => match PositiveMap.find (pkey (fst l)) seen with Some _ => true | None => false end) links
      && closed_from (PositiveMap.add (pkey id) tt seen) r
  end.
Definition closed_okb (bs : list oblock) (root : N) : bool :=
  closed_from (PositiveMap.empty unit) bs && match rev' bs with b :: _ => N.eqb (ob_id b) root | [] => false end.

Definition obs_root (bs : list oblock) : option tree :=
  match observed bs with Some obs => match rev' obs with t :: _ => Some t | [] => None end | None => None end.

(* 31 readable: the leaves in order are the file; a block that has links carries no data of its own; recorded data lengths are the real ones *)
Definition read_back_okb (i : sinput) (bs : list oblock) : bool :=
  forallb (fun b => match b with
                    | OB _ links dlen data =>
                        (match links with [] => true | _ => N.eqb dlen 0 end)
                        && (match data with Some d => N.eqb (blen d) dlen | None => true end)
                    end) bs
  && match obs_root bs with Some t => bytes_eqb (read_back t) (file_of i) | None => false end.

(* 32 fan-out. balanced: every internal node has between 1 and maxlinks children and all leaves are at the same depth.
   trickle: see trickle_okb. *)
Definition is_leafb (t : tree) : bool := match t with Leaf _ => true | Node _ => false end.
Fixpoint take_while {A} (p : A -> bool) (l : list A) : list A :=
  match l with x :: r => if p x then x :: take_while p r else [] | [] => [] end.
Fixpoint drop_while {A} (p : A -> bool) (l : list A) : list A :=
  match l with x :: r => if p x then drop_while p r else l | [] => [] end.

Fixpoint indexed {A} (i : nat) (l : list A) : list (nat * A) :=
  match l with [] => [] | x :: r => (i, x) :: indexed (S i) r end.

(* the boolean form of tshape (Proofs/C13_ShapeMonitor.v: trickle_okb_iff) *)
Fixpoint trickle_okb (fuel : nat) (ml : N) (md : option nat) (t : tree) {struct fuel} : bool :=
  match fuel with
  | O => false
  | S f =>
      match t with
      | Leaf _ => false
      | Node ch =>
          let lv := take_while is_leafb (map fst ch) in
          let sub := drop_while is_leafb (map fst ch) in
          (N.of_nat (length lv) <=? ml)
          && (match sub with [] => true | _ => N.eqb (N.of_nat (length lv)) ml end)
          && forallb (fun ic => let d := S (fst ic / depthRepeat) in
                                (match md with Some m => Nat.ltb d m | None => true end) && trickle_okb f ml (Some d) (snd ic))
                     (indexed O sub)
      end
  end.

Definition fanout_ok_case (i : sinput) (bs : list oblock) : bool :=
  match obs_root bs with
  | None => false
  | Some t =>
      if s_layout i =? 0 then fanout_okb 1 (s_ml i) t && uniformb (height t) t
      else match t with
           | Leaf [] => true                                   (* the empty file *)
           | Node [] => true
           | _ => trickle_okb (S (length (chunk (s_k i) (file_of i)))) (s_ml i) None t
                  && forallb (fun n => match n with Node [] => false | _ => true end) (postorder t)
           end
  end.

(* 33 recorded sizes: every link records the number of file bytes below it; the root records the file size *)
Definition sizes_ok_case (i : sinput) (bs : list oblock) (rsize : N) : bool :=
  match obs_root bs with
  | None => false
  | Some t => sizes_okb t && N.eqb rsize (tsize t) && N.eqb rsize (blen (file_of i))
  end.

(* flags: Go-side checks that failed (34: the number of UnixFS blocksizes differs from the number of links; 35: the add failed
   or the root is not in the stream; 36: the add did not return, watchdog) *)
Definition check_case (c : case) : list (N * N * N) :=
  let '(id, (i, (bs, root, rsize))) := c in
  let f (code : N) (b : bool) := if b then [] else [(id, code, 0)] in
  f 1 (model_eqb i bs rsize)
  ++ f 30 (closed_okb bs root)
  ++ f 31 (read_back_okb i bs)
  ++ f 32 (fanout_ok_case i bs)
  ++ f 33 (sizes_ok_case i bs rsize).

Definition scase := (N * (sinput * (list oblock * N * N) * list N))%type.
Definition check_scase (c : scase) : list (N * N * N) :=
  let '(id, (i, o, flags)) := c in
  (if memN 35 flags || memN 36 flags then [] else check_case (id, (i, o)))      (* nothing was observed *)
  ++ map (fun k => (id, k, 0)) flags.

Definition failing (cs : list scase) : list (N * N * N) := flat_map check_scase cs.
