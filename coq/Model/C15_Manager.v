(* C15 — the configuration Manager (config/config.go), definitions only.
   A configuration file is, after json.Unmarshal into jsonConfig, a finite map
        (group, component name) -> raw JSON of the section
   with the groups consensus / api / ipfs_connector / state / pin_tracker / monitor / allocator / informer /
   observations / datastore, and the top-level section "cluster" (key ("", "cluster")). Members of the file under any
   other top-level name are not kept by jsonConfig (`retain`). A file with a `source` member (remote configuration)
   is outside this model.
   A Manager holds a set of registered components (RegisterComponent), one configuration object per component, and the
   jsonConfig of the last LoadJSON (Manager.jsonCfg).

     Manager.LoadJSON      = mgr_load      Manager.ToJSON / SaveJSON = mgr_save
     Manager.ToDisplayJSON = mgr_display   Manager.Default           = mgr_default    Manager.Validate = mgr_valid

   A component is used only through the ComponentConfig interface (`cif`): the theorems are proved for every
   implementation of the interface that satisfies the per-section theorems, and instantiated with the generic
   section interpreter of Model/C15_Config.v (`cif_of`). The correspondence check instantiates the same functions with
   components whose outcomes were observed on the real sections (Model/C15_Check.v). *)
From Coq Require Import String Ascii List ZArith Bool NArith.
From V Require Import Model.C15_Config.
Import ListNotations.
Open Scope string_scope.

Definition skey := (string * string)%type.
Definition skey_eqb (a b : skey) : bool := String.eqb (fst a) (fst b) && String.eqb (snd a) (snd b).
Definition cluster_key : skey := ("", "cluster").
(* jsonConfig / getSection: the section types of the Manager *)
Definition groups : list string :=
  ["consensus"; "api"; "ipfs_connector"; "state"; "pin_tracker"; "monitor"; "allocator"; "informer"; "observations"; "datastore"].
Definition known_key (k : skey) : bool := skey_eqb k cluster_key || existsb (String.eqb (fst k)) groups.

(* the raw value bound to a component name: JSON null (a nil *json.RawMessage), a JSON value that is not an object,
   or an object (abstracted to the members the section interpreter looks at) *)
Inductive sraw := SNull | SJunk | SDoc (j : json).
Definition file := list (skey * sraw).

Fixpoint fget (k : skey) (f : file) : option sraw :=
  match f with [] => None | (k', r) :: t => if skey_eqb k k' then Some r else fget k t end.
(* `raw, ok := jsonSection[name]; if ok && raw != nil` / `jcfg.Cluster != nil`: a section set to null counts as missing *)
Definition fpresent (k : skey) (f : file) : option sraw :=
  match fget k f with Some SNull | None => None | Some r => Some r end.
Fixpoint fset (k : skey) (r : sraw) (f : file) : file :=
  match f with
  | [] => [(k, r)]
  | (k', r') :: t => if skey_eqb k k' then (k, r) :: t else (k', r') :: fset k r t end.
(* what json.Unmarshal keeps in jsonConfig *)
Definition retain (f : file) : file := filter (fun e => known_key (fst e)) f.

(* ComponentConfig, as the Manager uses it *)
Record cif := mkCif {
  i_load : sraw -> option cfg;      (* LoadJSON(raw): None = error *)
  i_default : cfg;                  (* Default() *)
  i_valid : cfg -> bool;            (* Validate() == nil *)
  i_save : cfg -> json;             (* ToJSON() *)
  i_display : cfg -> json           (* ToDisplayJSON() *)
}.
Record comp := mkComp { ckey : skey; cimpl : cif }.

(* the section interpreter as a component *)
Definition load_raw (S : schema) (V : validator) (orc : string -> bool) (r : sraw) : option cfg :=
  match r with SDoc j => load S V orc j | SNull | SJunk => None end.
Definition cif_of (S : schema) (V : validator) (orc : string -> bool) : cif :=
  mkCif (load_raw S V orc) (defaults S) (fun c => V orc (cget S c)) (save S) (display S).
Record scomp := mkSComp { sc_key : skey; sc_schema : schema; sc_valid : validator; sc_orc : string -> bool }.
Definition comp_of (sc : scomp) : comp := mkComp (sc_key sc) (cif_of (sc_schema sc) (sc_valid sc) (sc_orc sc)).

(* Manager state: one configuration per registered component (aligned with the list of registered components)
   and the jsonConfig stored by the last LoadJSON *)
Record mgr := mkMgr { m_cfgs : list cfg; m_json : option file }.

Definition has_cluster (reg : list comp) : bool := existsb (fun c => skey_eqb (ckey c) cluster_key) reg.
Fixpoint all_valid (reg : list comp) (cfgs : list cfg) : bool :=
  match reg, cfgs with
  | [], [] => true
  | c :: r, x :: xr => i_valid (cimpl c) x && all_valid r xr
  | _, _ => false end.
(* Validate: a cluster component is registered; every registered component validates *)
Definition mgr_valid (reg : list comp) (m : mgr) : bool := has_cluster reg && all_valid reg (m_cfgs m).

(* LoadJSON, one component: its section if the file has one; otherwise Default() — except the cluster component,
   which is left as it was (`if cfg.clusterConfig != nil && jcfg.Cluster != nil`) *)
Definition load_comp (c : comp) (pre : cfg) (f : file) : option cfg :=
  match fpresent (ckey c) f with
  | Some r => i_load (cimpl c) r
  | None => if skey_eqb (ckey c) cluster_key then Some pre else Some (i_default (cimpl c)) end.
(* the loop order (cluster first, then SectionTypes(), Go map order inside a section type) only decides which
   error is reported; acceptance and the accepted state do not depend on it: the model goes in list order *)
Fixpoint load_all (reg : list comp) (pre : list cfg) (f : file) : option (list cfg) :=
  match reg, pre with
  | [], _ => Some []
  | c :: r, p :: pr =>
      match load_comp c p f with
      | Some x => option_map (cons x) (load_all r pr f)
      | None => None end
  | _ :: _, [] => None end.
(* the bytes: None = json.Unmarshal into jsonConfig fails (not an object, a group that is not an object, ...) *)
Definition mgr_load (reg : list comp) (m0 : mgr) (bytes : option file) : option mgr :=
  match bytes with
  | None => None
  | Some f =>
      match load_all reg (m_cfgs m0) f with
      | None => None
      | Some xs => let m := mkMgr xs (Some (retain f)) in if mgr_valid reg m then Some m else None end
  end.

(* applyUpdateJSONConfigs: every registered component writes its entry into the given jsonConfig *)
Fixpoint put_all (out : cif -> cfg -> json) (reg : list comp) (cfgs : list cfg) (base : file) : file :=
  match reg, cfgs with
  | c :: r, x :: xr => put_all out r xr (fset (ckey c) (SDoc (out (cimpl c) x)) base)
  | _, _ => base end.
Definition loaded_json (m : mgr) : file := match m_json m with Some f => f | None => [] end.
(* ToJSON: Validate first; then starts from the LOADED jsonConfig, so entries without a registered component stay *)
Definition mgr_save (reg : list comp) (m : mgr) : option file :=
  if mgr_valid reg m then Some (put_all i_save reg (m_cfgs m) (loaded_json m)) else None.
(* ToDisplayJSON: starts from an EMPTY jsonConfig: the loaded one is not consulted *)
Definition mgr_display (reg : list comp) (m : mgr) : file := put_all i_display reg (m_cfgs m) [].
(* the variant that starts from the loaded jsonConfig, like ToJSON does (used only to show that the statement
   `manager_display_hides` is not vacuous: this variant does not satisfy it) *)
Definition mgr_display_from_loaded (reg : list comp) (m : mgr) : file := put_all i_display reg (m_cfgs m) (loaded_json m).
(* Default: every registered component; the stored jsonConfig is untouched *)
Definition mgr_default (reg : list comp) (m : mgr) : mgr := mkMgr (map (fun c => i_default (cimpl c)) reg) (m_json m).

(* members that carry the cluster secret, private keys or API credentials, at any depth *)
Definition secret_name (n : string) : bool := existsb (last_segment_is n) secret_names.
(* the boolean form of "the displayable form shows no secret": every secret member anywhere in it is the marker *)
Definition raw_hides (r : sraw) : bool :=
  match r with
  | SDoc d => forallb (fun '(n, v) => negb (secret_name n) || val_eqb v hidden_marker) d
  | SNull | SJunk => true end.
Definition display_hidesb (d : file) : bool := forallb (fun e => raw_hides (snd e)) d.
