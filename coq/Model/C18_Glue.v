(* C18 — how the generated table speaks about the interleaving machine. Definitions only.
   A thread conforms to the table when each of its reads/writes is an instance (on some object o) of a
   non-exempt table entry and is made while holding at least the locks of o the entry lists.
   That real executions conform is what the translator is trusted for (and what the -race run samples). *)
From V Require Import Model.C18_Table Model.C18_Conc.

Definition xname_of (a : access) : xname := (a_ty a, a_field a, match a_part a with Slot => false | Cont => true end).

Definition describes (a : access) (o : N) (held : list hl) (e : ev) : Prop :=
  ((e = Rd (o, xname_of a) /\ a_kind a = KRd) \/ (e = Wr (o, xname_of a) /\ a_kind a = KWr)) /\
  forall l, In l (a_locks a) -> In ((o, (a_ty a, l_name l)), l_excl l) held.

Definition is_access (e : ev) : Prop := match e with Rd _ | Wr _ => True | _ => False end.

Definition conforms (ex : list exemption) (accs : list access) (prog : list ev) : Prop :=
  forall p e r, prog = p ++ e :: r -> is_access e ->
  exists a o, In a accs /\ ~ exempt ex a /\ describes a o (scan p) e.

(* the guard map the table induces: the designated mutex of the same object, for every location that some
   non-exempt entry writes; locations nobody writes need no guard *)
Definition xwrittenb (ex : list exemption) (accs : list access) (x : xname) : bool :=
  existsb (fun b => xname_eqb (xname_of b) x && is_write b && negb (exemptb ex b)) accs.
Definition tguard (ex : list exemption) (accs : list access) (x : loc) : option lock :=
  let '(o, (ty, f, c)) := x in
  if xwrittenb ex accs (ty, f, c)
  then match guard_of ty f with Some g => Some (o, (ty, g)) | None => None end
  else None.
