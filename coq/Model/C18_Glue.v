(* C18 — how the generated table speaks about the interleaving machine. Definitions only.
   A thread conforms to the table when each of its reads/writes is an instance (on some object o) of a
   non-exempt table entry and is made while holding at least the locks of o the entry lists.
   That real executions conform is what the translator is trusted for (and what the -race run samples). *)
From V Require Import Model.C18_Table Model.C18_Conc Model.C18_Wait.

Definition xname_of (a : access) : xname := (a_ty a, a_field a, match a_part a with Slot => false | Cont => true end).

Definition describes (a : access) (o : N) (held : list hl) (e : ev) : Prop :=
  ((e = Rd (o, xname_of a) /\ a_kind a = KRd) \/ (e = Wr (o, xname_of a) /\ a_kind a = KWr)) /\
  forall l, In l (a_locks a) -> In ((o, (a_ty a, l_name l)), l_excl l) held.

Definition is_access (e : ev) : Prop := match e with Rd _ | Wr _ => True | _ => False end.

Definition conforms (ex : list exemption) (accs : list access) (prog : list ev) : Prop :=
  forall p e r, prog = p ++ e :: r -> is_access e ->
  exists a o, In a accs /\ ~ exempt ex a /\ describes a o (scan p) e.

(* the guard map the table induces: the designated mutex of the same object, for every location that some
   non-exempt entry writes; locations nobody writes need no guard *)
Definition xwrittenb (ex : list exemption) (accs : list access) (x : xname) : bool :=
  existsb (fun b => xname_eqb (xname_of b) x && is_write b && negb (exemptb ex b)) accs.
Definition tguard (ex : list exemption) (accs : list access) (x : loc) : option lock :=
  let '(o, (ty, f, c)) := x in
  if xwrittenb ex accs (ty, f, c)
  then match guard_of ty f with Some g => Some (o, (ty, g)) | None => None end
  else None.

(* ---- the wait-for graph of the table and the machine with waits (Model/C18_Wait.v) ----
   A thread conforms to a wait-for graph (edges between the table's names of locks and groups) when every
   acquisition and every wait it makes is an instance of edges of the graph: from each lock it holds there, and
   from each group gs that covers it. That real goroutines conform to the graph generated from the source is,
   again, what the translator is trusted for. *)
Definition lstr (l : lname) : string := (fst l ++ "." ++ snd l)%string.
Definition node_str (x : node) : string := match x with NLock l => lstr l | NGroup g => g end.
Definition has_edge (es : list edge) (a b : string) : Prop := exists w, In (a, b, w) es.
Definition gconforms (es : list edge) (gs : list group) (prog : list gev) : Prop :=
  (forall p l r, prog = p ++ GE (Acq l) :: r \/ prog = p ++ GE (RAcq l) :: r ->
     (forall h, In h (scan (evs p)) -> has_edge es (lstr (snd (fst h))) (lstr (snd l))) /\
     (forall g, In g gs -> has_edge es (snd g) (lstr (snd l)))) /\
  (forall p g r, prog = p ++ GWait g :: r ->
     (forall h, In h (scan (evs p)) -> has_edge es (lstr (snd (fst h))) (snd g)) /\
     (forall g', In g' gs -> has_edge es (snd g') (snd g))).
(* the rank the table's graph induces on the machine's nodes *)
Definition table_rank (es : list edge) (x : node) : nat := rank_of es (node_str x).

(* ---- the part of the table of the pinned source (commit 5201509) that made the wait-for graph cyclic, kept by hand:
   Shutdown waits for the cluster's WaitGroup holding shutdownLock; the goroutines of watchPeers and of ready(), which
   the WaitGroup covers, take shutdownLock; ready() also calls Shutdown itself (as printed by Diag/C18.v on that tree) ---- *)
Definition pinned_waits : list wait_site :=
  [("ipfscluster.Cluster.Shutdown", ["ipfscluster.Cluster.shutdownLock"], "wg:ipfscluster.Cluster.wg", "cluster.go:779")]%string.
Definition pinned_covers : list edge :=
  [("wg:ipfscluster.Cluster.wg", "ipfscluster.Cluster.shutdownLock", "goroutine ipfscluster.Cluster.run cluster.go:587 > Cluster.watchPeers");
   ("wg:ipfscluster.Cluster.wg", "ipfscluster.Cluster.shutdownLock", "goroutine ipfscluster.NewCluster cluster.go:205 > Cluster.ready");
   ("wg:ipfscluster.Cluster.wg", "wg:ipfscluster.Cluster.wg", "goroutine ipfscluster.NewCluster cluster.go:205 > Cluster.ready > Cluster.Shutdown")]%string.
