(* C13 — correspondence check: model trace = observed trace (code 1) and the boolean form of the
   property applied to what the implementation did (codes 10..15). Evaluated with vm_compute. *)
From V Require Import Base.Common Model.C13_Adder.
From Coq Require Import MSets.MSetPositive FSets.FMapPositive.
Open Scope N_scope.

(* ---------- observation as written by the harness ---------- *)
(* CIDs: the harness numbers data blocks by first appearance of their CID in the importer stream
   (< META_BASE); every other CID it sees is decoded as a CBOR link map and numbered >= META_BASE;
   tbl gives the links of each. resolve turns them into the symbolic form of the model. *)
Definition META_BASE : N := 1000000.
Definition nrange (a n : N) : list N := map (fun k => a + N.of_nat k) (seq 0 (N.to_nat n)).

Inductive oevent :=
| OAlloc
| OPut (c : N) (dests : list N)
| OPin (c : N) (ty : ptype) (nm : pname) (allocs : list N) (depth : Z) (ref : option N)
       (rmin rmax : Z) (ssize : N) (kept : bool).
Inductive ores := OOk (root : N) | OErr (class : N).
Definition oputs (c0 n : N) (ds : list N) : list oevent := map (fun c => OPut c ds) (nrange c0 n).

Record input := mk_input { i_shard : bool; i_rmin : Z; i_rmax : Z; i_limit : N; i_maxlinks : N; i_local : bool;
                           i_allocs : list (option (list N)); i_putf : list (N * N * outcome); i_pinf : list N;
                           i_stream : list block; i_root : N; i_abort : bool }.
(* i_abort: the importer returned an error although its last DAGService.Add succeeded (Finalize never called) *)

Definition mkb (c s : N) (l : list N) : block := mkblock c s l false.
Definition mkbs (c s : N) (l : list N) : block := mkblock c s l true.

(* compact notation used by the harness for long runs *)
Definition bseg (c0 n s : N) : list block := map (fun c => mkb c s []) (nrange c0 n).

Fixpoint putf_lookup (fs : list (N * N * outcome)) (j d : N) : outcome :=
  match fs with
  | [] => POk
  | (j', d', o) :: r => if N.eqb j j' && N.eqb d d' then o else putf_lookup r j d
  end.

Definition alloc_lookup (al : list (option (list N))) (k : N) : option (list N) :=
  match al with
  | [] => None
  | _ => nth (N.to_nat (k mod N.of_nat (length al))) al None
  end.

Definition env_of (i : input) : env :=
  mkenv (i_rmin i) (i_rmax i) (i_limit i) (i_maxlinks i) (i_local i)
        (alloc_lookup (i_allocs i)) (putf_lookup (i_putf i)) (fun k => negb (memN k (i_pinf i))).

Fixpoint resolve (fuel : nat) (tbl : list (N * list N)) (i : N) : cid :=
  if i <? META_BASE then CData i
  else match fuel with
       | O => CData i
       | S f => match aget i tbl with
                | Some ls => CNode (map (resolve f tbl) ls)
                | None => CData i        (* a CID that is neither a stream block nor a decodable node put by the adder *)
                end
       end.
Definition res tbl i := resolve 6 tbl i.

Fixpoint to_events (e : env) (tbl : list (N * list N)) (os : list oevent) (a j p : N) : list event :=
  match os with
  | [] => []
  | OAlloc :: r => EAlloc (e_alloc e a) :: to_events e tbl r (a + 1) j p
  | OPut c ds :: r => EPut (res tbl c) ds (ba_add (e_put e j) ds) :: to_events e tbl r a (j + 1) p
  | OPin c ty nm al dp rf rmn rmx ss _ :: r =>
      EPin (mkpin (res tbl c) ty nm al dp (option_map (res tbl) rf) rmn rmx ss) (e_pin e p) :: to_events e tbl r a j (p + 1)
  end.

Definition kept_all (os : list oevent) : bool :=
  forallb (fun o => match o with OPin _ _ _ _ _ _ _ _ _ k => k | _ => true end) os.

(* ---------- equality on the model's types ---------- *)
Fixpoint cid_eqb (a b : cid) : bool :=
  match a, b with
  | CData x, CData y => N.eqb x y
  | CNode l1, CNode l2 =>
      (fix go (l1 l2 : list cid) : bool :=
         match l1, l2 with
         | [], [] => true
         | x :: xs, y :: ys => cid_eqb x y && go xs ys
         | _, _ => false
         end) l1 l2
  | _, _ => false
  end.

Definition ocid_eqb (a b : option cid) : bool :=
  match a, b with Some x, Some y => cid_eqb x y | None, None => true | _, _ => false end.
Definition ptype_eqb (a b : ptype) : bool :=
  match a, b with TData, TData | TMeta, TMeta | TClusterDAG, TClusterDAG | TShard, TShard | TBad, TBad => true | _, _ => false end.
Definition pname_eqb (a b : pname) : bool :=
  match a, b with NBase, NBase | NClusterDAG, NClusterDAG | NOther, NOther => true | NShard x, NShard y => N.eqb x y | _, _ => false end.
Definition listN_eqb := list_eqb N.eqb.
Definition olist_eqb (a b : option (list N)) : bool :=
  match a, b with Some x, Some y => listN_eqb x y | None, None => true | _, _ => false end.
Definition dests_eqb (a b : list N) : bool := Nat.eqb (length a) (length b) && seteqb a b.
Definition pin_eqb (p q : pin) : bool :=
  cid_eqb (pcid p) (pcid q) && ptype_eqb (pty p) (pty q) && pname_eqb (pnm p) (pnm q) && listN_eqb (pallocs p) (pallocs q)
  && Z.eqb (pdepth p) (pdepth q) && ocid_eqb (pref p) (pref q) && Z.eqb (prmin p) (prmin q) && Z.eqb (prmax p) (prmax q)
  && N.eqb (pssize p) (pssize q).
Definition event_eqb (a b : event) : bool :=
  match a, b with
  | EAlloc _, EAlloc _ => true
  | EPut c ds _, EPut c' ds' _ => cid_eqb c c' && dests_eqb ds ds'
  | EPin p ok, EPin q ok' => pin_eqb p q && Bool.eqb ok ok'
  | _, _ => false
  end.

Definition err_class (e : err) : N :=
  match e with EAllocFail => 1 | EPutFail => 2 | EPinFail => 3 | ETooBig => 4 | ENilShard => 4 | EPanic => 5 | EFuel => 9 | EImporter => 4 end.

Definition run (i : input) : result * list event :=
  if i_abort i then
    (if i_shard i then shard_run_aborted (env_of i) (i_stream i) else single_run_aborted (env_of i) (i_stream i))
  else if i_shard i then shard_run (env_of i) (i_stream i) (i_root i) else single_run (env_of i) (i_stream i) (i_root i).

(* a MultiCall to zero destinations issues no call: such a round cannot be observed (it is always the
   last round of a run: BlockAdder.Add fails on it) *)
Definition visible (ev : event) : bool := match ev with EPut _ [] _ => false | _ => true end.

Definition model_eqb (i : input) (o : ores) (os : list oevent) (tbl : list (N * list N)) : bool :=
  let '(r, evs) := run i in
  (match r, o with
   | ROk c, OOk c' => cid_eqb c (res tbl c')
   | RErr er, OErr k => i_abort i || N.eqb (err_class er) k   (* which error the importer reports after aborting is its own business *)
   | _, _ => false
   end) && list_eqb event_eqb (filter visible evs) (to_events (env_of i) tbl os 0 0 0).

(* ---------- the property in boolean form, over a result and a chronological trace ---------- *)
Fixpoint dedup_from (seen : list N) (l : list N) : list N :=
  match l with
  | [] => []
  | x :: r => if memN x seen then dedup_from seen r else x :: dedup_from (x :: seen) r
  end.
Definition dedup (l : list N) : list N := dedup_from [] l.

(* the same function with a logarithmic set (Proofs/C13_Adder.v: dedupF_eq), and other lookup tables, for evaluation speed *)
Fixpoint dedupF_from (seen : PositiveSet.t) (l : list N) : list N :=
  match l with
  | [] => []
  | x :: r => if PositiveSet.mem (key x) seen then dedupF_from seen r else x :: dedupF_from (PositiveSet.add (key x) seen) r
  end.
Definition dedupF (l : list N) : list N := dedupF_from PositiveSet.empty l.
Definition set_of (l : list N) : PositiveSet.t := fold_left (fun s x => PositiveSet.add (key x) s) l PositiveSet.empty.
Definition memS (x : N) (s : PositiveSet.t) : bool := PositiveSet.mem (key x) s.
Definition size_tbl (bs : list block) : PositiveMap.t N :=
  fold_right (fun b m => PositiveMap.add (key (bcid b)) (bsize b) m) (PositiveMap.empty N) bs.   (* first occurrence wins *)
Definition size_ofF (tb : PositiveMap.t N) (c : N) : N := match PositiveMap.find (key c) tb with Some x => x | None => 0 end.

Fixpoint flatten_data (c : cid) : list N :=
  match c with CData n => [n] | CNode ls => flat_map flatten_data ls end.

(* every node below c lies within d hops of c *)
Fixpoint covers (c : cid) (d : nat) {struct c} : bool :=
  match c with
  | CData _ => true
  | CNode ls => match d with
                | O => match ls with [] => true | _ => false end
                | S d' => forallb (fun x => covers x d') ls
                end
  end.

Fixpoint subnodes (c : cid) : list cid :=
  match c with CData _ => [] | CNode ls => c :: flat_map subnodes ls end.

Definition ok_pins (t : list event) : list pin := flat_map (fun ev => match ev with EPin p true => [p] | _ => [] end) t.
Definition all_pins (t : list event) : list pin := flat_map (fun ev => match ev with EPin p _ => [p] | _ => [] end) t.
Definition is_shard_pin (p : pin) : bool := ptype_eqb (pty p) TShard.
Fixpoint puts_from (j : N) (t : list event) : list (cid * list N * N) :=
  match t with
  | [] => []
  | EPut c ds _ :: r => (c, ds, j) :: puts_from (j + 1) r
  | _ :: r => puts_from j r
  end.
Definition data_of (ps : list (cid * list N * N)) : list N :=
  flat_map (fun x => match x with (CData n, _, _) => [n] | _ => [] end) ps.
Definition is_ok (r : result) : bool := match r with ROk _ => true | _ => false end.
Definition cids_of (bs : list block) : list N := map bcid bs.

(* 10 delivered_equals_produced *)
Definition delivered_okb (i : input) (r : result) (t : list event) : bool :=
  if negb (is_ok r) then true else
  let e := env_of i in
  let ps := puts_from 0 t in
  let dl := data_of ps in
  let ds := set_of dl in
  listN_eqb dl (if i_shard i then dedupF (cids_of (i_stream i)) else cids_of (i_stream i))
  && forallb (fun x => match x with (_, ds, j) => existsb (fun d => negb (is_err (e_put e j d))) ds end) ps
  (* closure, under the importer's contract: what the stream contains and links must have been delivered *)
  && (let ss := set_of (cids_of (i_stream i)) in
      (negb (memS (i_root i) ss) || memS (i_root i) ds)
      && forallb (fun b => forallb (fun l => negb (memS l ss) || memS l ds) (blinks b)) (i_stream i))
  && (if i_shard i then
        forallb (fun p => match pty p with
                          | TClusterDAG | TShard => forallb (fun n => existsb (fun x => cid_eqb n (fst (fst x))) ps) (subnodes (pcid p))
                          | _ => true end) (ok_pins t)
      else true).

(* 11 shards_partition *)
Definition partition_okb (i : input) (r : result) (t : list event) : bool :=
  if negb (is_ok r) || negb (i_shard i) then true else
  let sp := filter is_shard_pin (ok_pins t) in
  listN_eqb (flat_map (fun p => flatten_data (pcid p)) sp) (dedupF (cids_of (i_stream i)))
  && forallb (fun p => match pty p with
                       | TClusterDAG => cid_eqb (pcid p) (dag_root (i_maxlinks i) (map pcid sp))
                       | _ => true end) (ok_pins t).

(* 12 shard_under_limit (every shard pin that was issued) *)
Definition size_of (bs : list block) (c : N) : N :=
  match find (fun b => N.eqb (bcid b) c) bs with Some b => bsize b | None => 0 end.
Definition under_limit_okb (i : input) (r : result) (t : list event) : bool :=
  if negb (i_shard i) then true else
  let tb := size_tbl (i_stream i) in
  forallb (fun p => if is_shard_pin p then
                      (pssize p <? i_limit i)
                      && N.eqb (pssize p) (fold_left (fun a c => a + size_ofF tb c) (flatten_data (pcid p)) 0)
                    else true) (all_pins t).

(* 13 shard_depth_covers (every shard pin that was issued) *)
Definition depth_okb (i : input) (r : result) (t : list event) : bool :=
  forallb (fun p => if is_shard_pin p then (pdepth p <? 0)%Z || covers (pcid p) (Z.to_nat (pdepth p)) else true) (all_pins t).

(* 14 final_pins *)
Fixpoint allocs_walk (everywhere : bool) (curr : list N) (t : list event) : bool :=
  match t with
  | [] => true
  | EAlloc (Some a) :: r => allocs_walk everywhere a r
  | EPut c ds _ :: r =>
      (subsetb ds curr || match c with CNode _ => subsetb ds [0] | _ => false end) && allocs_walk everywhere curr r
  | EPin p true :: r =>
      (match pty p with
       | TShard | TData => if everywhere then listN_eqb (pallocs p) [] else listN_eqb (pallocs p) curr
       | _ => true end) && allocs_walk everywhere curr r
  | _ :: r => allocs_walk everywhere curr r
  end.

Fixpoint shard_chain (k : N) (prv : option cid) (sp : list pin) : bool :=
  match sp with
  | [] => true
  | p :: r => pname_eqb (pnm p) (NShard k) && ocid_eqb (pref p) prv && shard_chain (k + 1) (Some (pcid p)) r
  end.

Definition final_pins_okb (i : input) (r : result) (t : list event) : bool :=
  if negb (is_ok r) then true else
  let ps := ok_pins t in
  let root := CData (i_root i) in
  let ew := (i_rmin i <? 0)%Z in
  (match r with ROk c => cid_eqb c root | _ => false end) &&
  if i_shard i then
    let sp := filter is_shard_pin ps in
    match skipn (length sp) ps with
    | [p1; p2] =>
        list_eqb pin_eqb (firstn (length sp) ps) sp
        && negb (Nat.eqb (length sp) 0)
        && forallb (fun p => Z.eqb (prmin p) (i_rmin i) && Z.eqb (prmax p) (i_rmax i)) sp
        && shard_chain 0 None sp
        && ptype_eqb (pty p1) TClusterDAG && pname_eqb (pnm p1) NClusterDAG && Z.eqb (pdepth p1) 0
        && Z.eqb (prmin p1) (-1) && Z.eqb (prmax p1) (-1) && ocid_eqb (pref p1) (Some root) && listN_eqb (pallocs p1) []
        && N.eqb (pssize p1) (i_limit i)
        && ptype_eqb (pty p2) TMeta && pname_eqb (pnm p2) NBase && cid_eqb (pcid p2) root
        && ocid_eqb (pref p2) (Some (pcid p1)) && Z.eqb (prmin p2) (i_rmin i) && Z.eqb (prmax p2) (i_rmax i)
        && N.eqb (pssize p2) (i_limit i)
        && allocs_walk ew [] t
    | _ => false
    end
  else
    match ps with
    | [p] => cid_eqb (pcid p) root && ptype_eqb (pty p) TData && pname_eqb (pnm p) NBase && Z.eqb (pdepth p) (-1)
             && ocid_eqb (pref p) None && Z.eqb (prmin p) (i_rmin i) && Z.eqb (prmax p) (i_rmax i) && N.eqb (pssize p) (i_limit i)
             && (if i_local i then
                   forallb (fun x => listN_eqb (snd (fst x)) [0]) (puts_from 0 t)
                   && (if ew then listN_eqb (pallocs p) []
                       else match i_stream i with
                            | [] => listN_eqb (pallocs p) []        (* nothing was added: no allocation was asked for *)
                            | _ => olist_eqb (Some (pallocs p)) (alloc_lookup (i_allocs i) 0)
                            end)
                 else allocs_walk ew [] t)
    | _ => false
    end.

(* 15 failure_no_root_pin *)
Definition failure_okb (i : input) (r : result) (t : list event) : bool :=
  if is_ok r then true else
  forallb (fun p => negb (cid_eqb (pcid p) (CData (i_root i)))) (ok_pins t).

Definition result_of (tbl : list (N * list N)) (o : ores) : result :=
  match o with
  | OOk c => ROk (res tbl c)
  | OErr 1 => RErr EAllocFail | OErr 2 => RErr EPutFail | OErr 3 => RErr EPinFail | OErr 5 => RErr EPanic
  | OErr _ => RErr ETooBig
  end.

(* flags: numbers (>= 20) of the Go-side differential checks of the real-file-tree part that failed (see docs/C13.md) *)
Definition case := (N * (input * (ores * list oevent * list (N * list N)) * list N))%type.

(* known finding 1 (shape): the importer went on after DAGService.Add returned an error for a block that a LATER
   block links as its FIRST child (go-unixfs balanced.Layout: `newRoot.AddChild(root, ...)` ignores the error when the
   old root - the first leaf, or a full node - becomes the first child of the next level). Any other swallowed error
   (a different block, an adder that ignores errors) is not this finding. *)
Fixpoint swallow_shape (bs : list block) : bool :=
  match bs with
  | [] => true
  | b :: r => (if bswallow b
               then existsb (fun p => match blinks p with l :: _ :: _ => N.eqb l (bcid b) | _ => false end) r
               else true) && swallow_shape r
  end.
Definition is_swallow (i : input) : bool := existsb bswallow (i_stream i) && swallow_shape (i_stream i).

Definition check_case (c : case) : list (N * N * N) :=
  let '(id, (i, (o, os, tbl), flags)) := c in
  let r := result_of tbl o in
  let t := to_events (env_of i) tbl os 0 0 0 in
  let tag : N := if is_swallow i then 1 else 0 in
  let f (code : N) (b : bool) := if b then [] else [(id, code, if N.eqb code 1 then 0 else tag)] in
  f 1 (model_eqb i o os tbl)
  ++ f 10 (delivered_okb i r t)
  ++ f 11 (partition_okb i r t)
  ++ f 12 (under_limit_okb i r t)
  ++ f 13 (depth_okb i r t)
  ++ f 14 (final_pins_okb i r t && kept_all os)
  ++ f 15 (failure_okb i r t)
  ++ map (fun k => (id, k, tag)) flags.

Definition failing (cs : list case) : list (N * N * N) := flat_map check_case cs.
