(* C08 — decoding INTO a value that is already in use, for both codecs, and the loop of the Raft FSM that does so.

   Rules found by experiment on the real libraries (ugorji/go/codec v1.2.6 msgpack with the default handle: no
   MapValueReset, no SliceElementReset, no InterfaceReset; encoding/json of go1.23) and compared with them at every run by
   the decode-onto stream of the api harness (every record type, both codecs):
     struct   both: every key of the wire is decoded into its field, on top of what the field holds; a field whose key is
              absent is NOT touched (and a field with `omitempty` is absent whenever the sender's value is empty);
     map      both: the decoded entries are put into the existing map, all other keys stay: the maps are MERGED; a nil
              map on the wire (msgpack nil, JSON null) resets the destination. Value of a key that exists already:
              ugorji decodes on top of the old value (also through a pointer; a nil wire value makes the entry the zero
              value, i.e. a nil pointer), encoding/json into a new zero value;
     slice    both: the length becomes the wire's length; element i is decoded on top of the old element i when there is
              one (a nil slice on the wire resets). Not modelled: both libraries keep the backing array, so elements
              between an earlier, longer length and the capacity can show through when the slice grows again;
     pointer  both: a non-nil wire value is decoded on top of the pointee when the pointer is set (the pointer is kept),
              into a new value otherwise. Nil on the wire: ugorji leaves a set pointer set and zeroes its pointee,
              encoding/json sets the pointer to nil;
     bare interface (multiaddr.Multiaddr): no decoder (S19) - except that encoding/json, finding the destination
              interface already holding a pointer, decodes into that pointee (the address unmarshals itself);
     leaf     numbers, strings, booleans, byte strings and the types with their own unmarshalers (time, CID, peer ID,
              address wrapper) are overwritten. (JSON null on a number / string / boolean would be a no-op: the encoders
              never write it.)
   The empty collection is the nil one (what the constructors and decoders of the code base produce): a non-nil empty
   map on the wire would leave the old entries in place; not representable here, not generated.

   go-libp2p-raft fsm.go FSM.Apply keeps ONE consensus.Op value for its whole life and runs, for every committed log
   entry,  decodeOp(entry, fsm.op) ; fsm.op.ApplyTo(fsm.state);  decodeOp is the msgpack decoder decoding into the
   EXISTING *LogOp. consensus/raft/log_op.go LogOp.ApplyTo takes the decoded pin out of the op and sets  op.Cid = nil
   before using it, so the next entry finds a nil pointer and is decoded into a fresh Pin. [apply_to] has that reset as
   written ([reset] = true); [reset] = false is the same function without the assignment, kept to show what it is for.

   [stream_decode]: the loops `for { var x T; dec.Decode(&x); use(x) }` of state/dsstate State.Unmarshal (msgpack) and
   cmdutils importState (JSON), with the declaration inside the loop as written ([reuse] = false) or hoisted out of it.
   Definitions only. *)
From V Require Import Base.Common Base.C08_Str Base.C08_Schema Gen.C08Tags Model.C08_Codec Model.C08_Query Model.C08_Status Model.C08_Fmap.
Open Scope string_scope.
Open Scope list_scope.
Open Scope Z_scope.

Section Onto.
Variable c : codec.
Variable sch : schema.

(* the zero value of a type with every struct spelled out (what a zeroed pointee looks like) *)
Fixpoint zero_full (fuel : nat) (t : ty) {struct fuel} : val :=
  match t with
  | TStruct n =>
      match fuel with
      | O => VRec []
      | S f => match fields_of sch n with
               | Some fs => VRec (map (fun fd => zero_full f (f_ty fd)) fs)
               | None => VRec []
               end
      end
  | _ => zero_val t
  end.

(* Go map semantics on the canonical (key-sorted) representation: the decoded entries win, the other old entries stay.
   An empty (nil) old map simply becomes the decoded entries, in the order of the wire. *)
Definition map_merge (old new : list (string * val)) : list (string * val) :=
  match old, new with
  | [], _ => new
  | _, [] => []     (* the empty collection is the nil one: written as nil / null, which resets the destination *)
  | _, _ => ksort (new ++ filter (fun kv => match slookup (fst kv) new with Some _ => false | None => true end) old)
  end.

Definition nth_prev (pl : list val) (z : val) : val * list val :=
  match pl with p0 :: pr => (p0, pr) | [] => (z, []) end.

(* decoding [w] as a value of type [t] on top of [prev]. A [prev] of another shape than [t] (in particular the short
   form VRec [] of a zero struct, or a shorter field list) counts as zero where it has nothing. *)
Fixpoint dec_onto (prev : val) (t : ty) (w : wire) {struct w} : result val :=
  match t, w with
  | TSlice t', WList l =>
      let pl := match prev with VList pl => pl | _ => [] end in
      rbind ((fix go (pl : list val) (l : list wire) {struct l} : result (list val) :=
                match l with
                | [] => Ok []
                | x :: r =>
                    rbind (dec_onto (fst (nth_prev pl (zero_val t'))) t' x)
                          (fun v => rbind (go (snd (nth_prev pl (zero_val t'))) r) (fun vs => Ok (v :: vs)))
                end) pl l) (fun vs => Ok (VList vs))
  | TMap t', WMap m =>
      let pm := match prev with VMap pm => pm | _ => [] end in
      rbind ((fix go (m : list (string * wire)) : result (list (string * val)) :=
                match m with
                | [] => Ok []
                | (k, x) :: r =>
                    (* ugorji decodes the value on top of the value the key had - unless the wire value is nil, which
                       sets the entry to the zero value (a nil pointer) -; encoding/json into a new zero value *)
                    rbind (dec_onto (match c, x, slookup k pm with
                                     | Msgpack, WNil, _ => zero_val t'
                                     | Msgpack, _, Some p0 => p0
                                     | _, _, _ => zero_val t' end) t' x)
                          (fun v => rbind (go r) (fun vs => Ok ((k, v) :: vs)))
                end) m) (fun vs => Ok (VMap (map_merge pm vs)))
  | TPtr t', WNil =>
      (* ugorji keeps a set pointer and zeroes what it points to; encoding/json sets the pointer to nil *)
      match c, prev with
      | Msgpack, VPtr (Some _) => Ok (VPtr (Some (zero_full 4 t')))
      | _, _ => Ok (VPtr None)
      end
  | TPtr t', WSome w' =>
      rbind (dec_onto (match prev with VPtr (Some x) => x | _ => zero_val t' end) t' w') (fun v => Ok (VPtr (Some v)))
  | TStruct n, WMap m =>
      match fields_of sch n with
      | None => Err
      | Some fs =>
          let pvs := match prev with VRec pvs => pvs | _ => [] end in
          rbind ((fix go (fs : list field) (pvs : list val) {struct fs} : result (list val) :=
                    match fs with
                    | [] => Ok []
                    | f :: fr =>
                        let p0 := fst (nth_prev pvs (zero_val (f_ty f))) in
                        let here :=
                          if f_skip c f then Ok p0
                          else (fix look (m : list (string * wire)) : result val :=
                                  match m with
                                  | [] => Ok p0
                                  | (k, x) :: r => if String.eqb (f_key c f) k then dec_onto p0 (f_ty f) x else look r
                                  end) m in
                        rbind here (fun v => rbind (go fr (snd (nth_prev pvs (zero_val (f_ty f))))) (fun vs => Ok (v :: vs)))
                    end) fs pvs) (fun vs => Ok (VRec vs))
      end
  | TMaddrIface, WAddr a =>
      (* a bare interface has no decoder, unless (encoding/json) it already holds a pointer to a value that can unmarshal itself *)
      match c, prev with
      | Json, VAddr (Some _) => Ok (VAddr (Some a))
      | _, _ => Err
      end
  | _, _ => dec c sch t w
  end.

End Onto.

(* ---- the Raft log entry ---- *)

(* LogOp as the msgpack encoder sees it: the rows regenerated from consensus/raft/log_op.go (TagCtx, Cid, Type), on top
   of the API table. The span context (a struct of the tracing library, `omitempty`, zero unless tracing is on) is
   not described; the harness checks that it never appears on the wire. *)
Definition raft_schema : schema := ("LogOp", raft_logop_fields) :: api_schema.
Definition logop_ty : ty := TStruct "LogOp".

(* what the model relies on in that table *)
Definition logop_layout_ok : bool :=
  list_eqb String.eqb (map f_go raft_logop_fields) ["TagCtx"; "Cid"; "Type"]
  && forallb (fun e : string * bool => snd e) raft_logop_opaque
  && match slookup "LogOp" api_schema with None => true | Some _ => false end.
(* The model lays a Pin out in ONE canonical order of its Go fields and converts to and from the order of the generated
   table BY FIELD NAME, so that the order in which api.Pin / api.PinOptions declare their fields (which decides the order
   of keys on the wire, nothing else) is not something the model depends on: swapping two fields in the source is a
   harmless edit and must not break the correspondence. What the model does rely on: the table describes exactly these
   fifteen fields, each once. *)
Definition pin_go_names : list string :=
  ["ReplicationFactorMin"; "ReplicationFactorMax"; "Name"; "Mode"; "ShardSize"; "UserAllocations"; "ExpireAt";
   "Metadata"; "PinUpdate"; "Origins"; "Cid"; "Type"; "Allocations"; "MaxDepth"; "Reference"].
Definition pin_schema_names : list string :=
  match fields_of api_schema "Pin" with Some fs => map f_go fs | None => [] end.
Fixpoint sindex (n : string) (l : list string) : nat :=
  match l with [] => 0 | x :: r => if String.eqb n x then 0 else S (sindex n r) end.
Fixpoint names_nodup (l : list string) : bool :=
  match l with [] => true | x :: r => negb (existsb (String.eqb x) r) && names_nodup r end.
Definition pin_layout_ok : bool :=
  Nat.eqb (List.length pin_schema_names) (List.length pin_go_names) && names_nodup pin_schema_names
  && forallb (fun n => existsb (String.eqb n) pin_schema_names) pin_go_names.
(* the values listed in the order [from], re-listed in the order [to] *)
Definition reorder (from to : list string) (vs : list val) : list val :=
  map (fun n => nth (sindex n from) vs (VInt 0)) to.

(* a record of struct [sn] given by field name: [names] and [vs] in any one order, re-listed in the order of the table *)
Definition rec_by_name (sch : schema) (sn : string) (names : list string) (vs : list val) : val :=
  VRec (reorder names (match fields_of sch sn with Some fs => map f_go fs | None => [] end) vs).

(* api.Pin as a value of the table, and back *)
Definition pin_canon_vals (p : pin) : list val :=
  let o := popts p in
  [VInt (rmin o); VInt (rmax o); VStr (name o); VInt (mode o); VUint (shard_size o); VList (map VPeer (user_allocs o));
   VTime (expire o); VMap (map (fun kv => (fst kv, VStr (snd kv))) (metadata o)); VCid (pin_update o);
   VList (map (fun a => VAddr (Some a)) (origins o));
   VCid (pcid p); VUint (ptype p); VList (map VPeer (allocs p)); VInt (maxdepth p);
   VPtr (match reference p with None => None | Some x => Some (VCid x) end)].
Definition pin_to_val (p : pin) : val := VRec (reorder pin_go_names pin_schema_names (pin_canon_vals p)).

Fixpoint all_some {A} (l : list (option A)) : option (list A) :=
  match l with
  | [] => Some []
  | Some x :: r => match all_some r with Some xs => Some (x :: xs) | None => None end
  | None :: _ => None
  end.
Definition peer_of (v : val) : option tok := match v with VPeer p => Some p | _ => None end.
Definition addr_of (v : val) : option string := match v with VAddr (Some a) => Some a | VAddr None => Some "<nil>" | _ => None end.
Definition meta_of (kv : string * val) : option (string * string) := match snd kv with VStr s => Some (fst kv, s) | _ => None end.

Definition canon_to_pin (vs : list val) : option pin :=
  match vs with
  | [VInt rn; VInt rx; VStr nm; VInt md; VUint sh; VList ua; VTime ex; VMap me; VCid pu; VList og;
     VCid ci; VUint ty; VList al; VInt dp; VPtr rf] =>
      match all_some (map peer_of ua), all_some (map meta_of me), all_some (map addr_of og), all_some (map peer_of al),
            match rf with None => Some None | Some (VCid x) => Some (Some x) | Some _ => None end with
      | Some ua', Some me', Some og', Some al', Some rf' => Some (mk_pin (mk_opts rn rx nm md sh ua' ex me' pu og') ci ty al' dp rf')
      | _, _, _, _, _ => None
      end
  | _ => None
  end.
Definition val_to_pin (v : val) : option pin :=
  match v with
  | VRec vs => if Nat.eqb (List.length vs) (List.length pin_schema_names)
               then canon_to_pin (reorder pin_schema_names pin_go_names vs) else None
  | _ => None
  end.

(* LogOp{TagCtx, Cid, Type} *)
Definition logop_val (tg : string) (p : option val) (ty : Z) : val := VRec [VBytes tg; VPtr p; VInt ty].
Definition logop_zero : val := logop_val "" None 0.

(* what one entry did *)
Inductive step_res :=
  | SEncErr                        (* the submitter could not encode the op: nothing enters the log *)
  | SDecErr                        (* decodeOp failed: FSM.Apply takes its rollback branch (C01); the run ends here *)
  | SNoPin                         (* the decoded op carries no pin: ApplyTo dereferences nil *)
  | SAddErr                        (* state.Add refused the pin (it cannot be serialised): ApplyTo returns an error *)
  | SPinned (tracked stored : pin) (* LogOpPin: the pin handed to the tracker, and the pin read back from the state *)
  | SPinnedLost (tracked : pin)    (* ... stored, but what the state holds does not read back *)
  | SUnpinned (tracked : pin)      (* LogOpUnpin: the pin handed to the tracker; its CID is gone from the state *)
  | SIgnored.                      (* any other type: logged and ignored *)

(* LogOp.ApplyTo on the decoded op: take the pin, (as written) drop it from the op, then act on the type *)
Definition apply_to (reset : bool) (opv : val) : step_res * val :=
  match opv with
  | VRec [tg; VPtr (Some pv); VInt ty] =>
      let opv' := if reset then VRec [tg; VPtr None; VInt ty] else opv in
      match val_to_pin pv with
      | None => (SNoPin, opv')
      | Some p =>
          if ty =? 1 then
            match pin_to_pb p with
            | Err => (SAddErr, opv')
            | Ok m => match pb_to_pin m with
                      | Ok q => (SPinned p (set_cid (pcid p) q), opv')
                      | Err => (SPinnedLost p, opv')
                      end
            end
          else if ty =? 2 then (SUnpinned p, opv')
          else (SIgnored, opv')
      end
  | _ => (SNoPin, opv)
  end.

(* one log entry: the submitter encodes a fresh LogOp{Cid: pin, Type: ty}; the FSM decodes it onto its op and applies it *)
Definition logop_step (reset : bool) (opv : val) (e : Z * pin) : step_res * val :=
  match enc Msgpack raft_schema logop_ty (logop_val "" (Some (pin_to_val (snd e))) (fst e)) with
  | Err => (SEncErr, opv)
  | Ok w =>
      match dec_onto Msgpack raft_schema opv logop_ty w with
      | Err => (SDecErr, opv)
      | Ok opv' => apply_to reset opv'
      end
  end.

(* the FSM loop; it is followed up to the first entry that does not decode *)
Fixpoint logop_apply_seq (reset : bool) (opv : val) (es : list (Z * pin)) : list step_res :=
  match es with
  | [] => []
  | e :: r =>
      let '(res, opv') := logop_step reset opv e in
      match res with
      | SDecErr => [SDecErr]
      | _ => res :: logop_apply_seq reset opv' r
      end
  end.

(* ---- what the property asks of one entry, whatever came before it ---- *)
Definition wf_entry (e : Z * pin) : bool :=
  ((fst e =? 1) || (fst e =? 2))
  && wf_val Msgpack raft_schema true (TStruct "Pin") false (pin_to_val (snd e))
  && wf_pin (snd e).
Definition entry_has_iface (e : Z * pin) : bool := has_iface raft_schema (TStruct "Pin") (pin_to_val (snd e)).

Definition expected (e : Z * pin) : step_res :=
  if fst e =? 1 then SPinned (snd e) (lossy_pb (snd e)) else SUnpinned (snd e).

(* a second pin decoded straight on top of a first one (no ApplyTo in between): the decoder alone *)
Definition pin_onto (a b : pin) : option (result pin) :=
  match enc Msgpack raft_schema logop_ty (logop_val "" (Some (pin_to_val a)) 1),
        enc Msgpack raft_schema logop_ty (logop_val "" (Some (pin_to_val b)) 2) with
  | Ok wa, Ok wb =>
      match dec_onto Msgpack raft_schema logop_zero logop_ty wa with
      | Ok o1 =>
          match dec_onto Msgpack raft_schema o1 logop_ty wb with
          | Ok (VRec [_; VPtr (Some pv); VInt 2]) => match val_to_pin pv with Some q => Some (Ok q) | None => None end
          | Ok _ => None
          | Err => Some Err
          end
      | Err => None
      end
  | _, _ => None
  end.

(* ---- streams of records: for { var x T; dec.Decode(&x); use(x) } ---- *)
Section Stream.
Variable c : codec.
Variable sch : schema.
Variable t : ty.

Fixpoint stream_encode (vs : list val) : result (list wire) :=
  match vs with
  | [] => Ok []
  | v :: r => rbind (enc c sch t v) (fun w => rbind (stream_encode r) (fun ws => Ok (w :: ws)))
  end.

(* [reuse] = false: the destination is declared inside the loop (a fresh zero value per record), as the code has it;
   [reuse] = true: one destination for the whole stream; what is handed out is the destination's content after each record *)
Fixpoint stream_decode (reuse : bool) (dest : val) (ws : list wire) : result (list val) :=
  match ws with
  | [] => Ok []
  | w :: r =>
      rbind (dec_onto c sch (if reuse then dest else zero_val t) t w)
            (fun v => rbind (stream_decode reuse v r) (fun vs => Ok (v :: vs)))
  end.
End Stream.
