(* C08 — the query-string form of the add parameters. Mirrors api/add.go: DefaultAddParams, parseBoolParam,
   parseIntParam, AddParams.ToQueryString, AddParamsFromQuery, on top of the query form of the embedded pin options
   (Model/C08_Query.v). fmt "%t", strconv.ParseBool on real strings. Definitions only.

   ToQueryString: the pin options' query (PinOptions.ToQuery, re-read with url.ParseQuery: trusted, carries the key -> value
   map unchanged), then one Set per add member, every member always written: shard, local, recursive, layout, chunker,
   raw-leaves, hidden, wrap-with-directory, progress, cid-version, hash, stream-channels, nocopy, format.
   AddParamsFromQuery: starts from DefaultAddParams(); the pin options are parsed INTO A FRESH PinOptions (the zero
   value, not the defaults) and replace the default ones wholesale; PinUpdate is forced to undefined; layout and format
   must be one of their names or empty and are taken as they are; chunker and hash replace the default only when
   non-empty; every boolean and cid-version replaces its default only when the key is present and non-empty (an
   unparsable text is an error); raw-leaves defaults to "cid-version > 0" (after cid-version has been read). *)
From V Require Import Base.Common Base.C08_Str Model.C08_Codec Model.C08_Query.
Open Scope string_scope.
Open Scope Z_scope.

Record addp := mk_addp {
  a_opts : opts;
  a_local : bool; a_recursive : bool; a_hidden : bool; a_wrap : bool; a_shard : bool; a_stream : bool;
  a_format : string;
  a_layout : string; a_chunker : string; a_rawleaves : bool; a_progress : bool; a_cidver : Z; a_hash : string; a_nocopy : bool }.

(* DefaultShardSize, DefaultAddParams() *)
Definition default_shard_size : N := 104857600.
Definition default_chunker : string := "size-262144".
Definition default_hash : string := "sha2-256".
Definition default_opts : opts := mk_opts 0 0 "" 0 default_shard_size [] None [] None [].
Definition default_addp : addp :=
  mk_addp default_opts false false false false false true "unixfs" "" default_chunker false false 0 default_hash false.

(* fmt.Sprintf("%t", _) ; strconv.ParseBool *)
Definition print_bool (b : bool) : string := if b then "true" else "false".
Definition parse_bool (s : string) : option bool :=
  if sin s ["1"; "t"; "T"; "TRUE"; "true"; "True"] then Some true
  else if sin s ["0"; "f"; "F"; "FALSE"; "false"; "False"] then Some false
  else None.

(* parseBoolParam *)
Definition parse_bool_param (q : query) (k : string) (old : bool) : result bool :=
  let v := qget k q in
  if String.eqb v "" then Ok old else match parse_bool v with Some b => Ok b | None => Err end.

(* AddParams.ToQueryString up to query.Encode() *)
Definition add_params_to_query (orc : oracle) (p : addp) : result query :=
  match to_query orc (a_opts p) with
  | Err => Err
  | Ok q =>
      let q := qset "shard" (print_bool (a_shard p)) q in
      let q := qset "local" (print_bool (a_local p)) q in
      let q := qset "recursive" (print_bool (a_recursive p)) q in
      let q := qset "layout" (a_layout p) q in
      let q := qset "chunker" (a_chunker p) q in
      let q := qset "raw-leaves" (print_bool (a_rawleaves p)) q in
      let q := qset "hidden" (print_bool (a_hidden p)) q in
      let q := qset "wrap-with-directory" (print_bool (a_wrap p)) q in
      let q := qset "progress" (print_bool (a_progress p)) q in
      let q := qset "cid-version" (print_int (a_cidver p)) q in
      let q := qset "hash" (a_hash p) q in
      let q := qset "stream-channels" (print_bool (a_stream p)) q in
      let q := qset "nocopy" (print_bool (a_nocopy p)) q in
      let q := qset "format" (a_format p) q in
      Ok q
  end.

Definition set_update (u : cid) (o : opts) : opts :=
  mk_opts (rmin o) (rmax o) (name o) (mode o) (shard_size o) (user_allocs o) (expire o) (metadata o) u (origins o).

(* AddParamsFromQuery. [base]: the PinOptions value the pin options are parsed into - as written a fresh one (zero_opts) *)
Definition add_params_from_query_on (base : opts) (orc : oracle) (now : Z * N) (q : query) : result addp :=
  let d := default_addp in
  match from_query orc now base q with Err => Err | Ok o =>
  let o := set_update None o in
  let layout := qget "layout" q in
  if negb (sin layout ["trickle"; "balanced"; ""]) then Err else
  let chunker := if String.eqb (qget "chunker" q) "" then a_chunker d else qget "chunker" q in
  let hashf := if String.eqb (qget "hash" q) "" then a_hash d else qget "hash" q in
  let format := qget "format" q in
  if negb (sin format ["car"; "unixfs"; ""]) then Err else
  match parse_bool_param q "local" (a_local d) with Err => Err | Ok local =>
  match parse_bool_param q "recursive" (a_recursive d) with Err => Err | Ok recursive =>
  match parse_bool_param q "hidden" (a_hidden d) with Err => Err | Ok hidden =>
  match parse_bool_param q "wrap-with-directory" (a_wrap d) with Err => Err | Ok wrap =>
  match parse_bool_param q "shard" (a_shard d) with Err => Err | Ok shard =>
  match parse_bool_param q "progress" (a_progress d) with Err => Err | Ok progress =>
  match parse_int_param q "cid-version" (a_cidver d) with Err => Err | Ok cidver =>
  match parse_bool_param q "raw-leaves" (if 0 <? cidver then true else a_rawleaves d) with Err => Err | Ok rawleaves =>
  match parse_bool_param q "stream-channels" (a_stream d) with Err => Err | Ok stream =>
  match parse_bool_param q "nocopy" (a_nocopy d) with Err => Err | Ok nocopy =>
  Ok (mk_addp o local recursive hidden wrap shard stream format layout chunker rawleaves progress cidver hashf nocopy)
  end end end end end end end end end end end.

Definition add_params_from_query : oracle -> Z * N -> query -> result addp := add_params_from_query_on zero_opts.

(* what the query form loses: of the pin options the metadata entries with the empty key and PinUpdate (forced to
   undefined: "does not make sense for adding"); an EMPTY chunker or hash function reads back as the default one *)
Definition lossy_ap (p : addp) : addp :=
  mk_addp (set_update None (lossy_q (a_opts p))) (a_local p) (a_recursive p) (a_hidden p) (a_wrap p) (a_shard p) (a_stream p)
          (a_format p) (a_layout p) (if String.eqb (a_chunker p) "" then default_chunker else a_chunker p)
          (a_rawleaves p) (a_progress p) (a_cidver p) (if String.eqb (a_hash p) "" then default_hash else a_hash p) (a_nocopy p).

(* add parameters the query form is meant for: pin options as in wf_q, a layout / format the decoder accepts,
   cid-version within the 64-bit int *)
Definition wf_ap (orc : oracle) (p : addp) : bool :=
  wf_q orc (a_opts p) && sin (a_layout p) ["trickle"; "balanced"; ""] && sin (a_format p) ["car"; "unixfs"; ""] && in_int64 (a_cidver p).
