(* C08 — boolean form of the property applied to what the implementation did, and model-vs-implementation
   comparison, evaluated with vm_compute on the harness cases.
   Failure codes: 1 = the model's output differs from the implementation's;
   10 = stored-form round trip of a well-formed pin is not the value minus the documented losses;
   11 = a decoded stored form is not re-encodable / not stable;
   12 = query-form round trip of options loses more than empty metadata keys;
   13 = options decoded from a query do not re-encode to themselves;
   15 / 16 = a well-formed record does not survive msgpack / JSON (tag 1: it carries an element of a bare
        multiaddr.Multiaddr interface type, finding origins-undecodable);
   17 = Pin.Equals / PinOptions.Equals on two well-formed values differs from field-by-field sameness;
   20 = a recorded malformed input still makes its decoder panic / yield a value that cannot be re-encoded;
   14 = a status filter of defined bits / a named pin type / a pin mode does not survive its string form;
   21 = Raft log: a well-formed entry applied by the FSM loop (one shared LogOp decoded into for every entry) did not hand
        the tracker the submitted pin, or the state did not read back its stored form - whatever the earlier entries were
        (tag 1: the pin carries origins);
   23 = add parameters well-formed for the query form (wf_ap) do not come back from ToQueryString / AddParamsFromQuery as
        themselves up to the documented losses (lossy_ap: PinUpdate, empty metadata keys, empty chunker / hash read as the defaults);
   22 = a stream of records (snapshot of a pinset through State.Marshal / Unmarshal, state export / import) does not hand
        every well-formed pin back as its own stored form. *)
From V Require Import Base.Common Base.C08_Str Model.C08_Codec Model.C08_Query Model.C08_Status Base.C08_Schema Gen.C08Tags Model.C08_Fmap Model.C08_Equals Model.C08_Wire Model.C08_Reuse Model.C08_AddParams.
Open Scope Z_scope.

(* ---- decidable equalities on the value types ---- *)
Definition tok_eqb (a b : tok) : bool :=
  match a, b with
  | TEmpty, TEmpty => true
  | TOk s, TOk t => String.eqb s t
  | TBad s, TBad t => String.eqb s t
  | _, _ => false end.
Definition opt_eqb {A} (e : A -> A -> bool) (a b : option A) : bool :=
  match a, b with Some x, Some y => e x y | None, None => true | _, _ => false end.
Definition cid_eqb : cid -> cid -> bool := opt_eqb String.eqb.
Definition time_eqb : time -> time -> bool := opt_eqb (fun x y => (fst x =? fst y) && (snd x =? snd y)%N).
Definition kv_eqb (x y : string * string) : bool := String.eqb (fst x) (fst y) && String.eqb (snd x) (snd y).

Definition opts_eqb (a b : opts) : bool :=
  (rmin a =? rmin b) && (rmax a =? rmax b) && String.eqb (name a) (name b) && (mode a =? mode b)
  && (shard_size a =? shard_size b)%N && list_eqb tok_eqb (user_allocs a) (user_allocs b)
  && time_eqb (expire a) (expire b) && list_eqb kv_eqb (metadata a) (metadata b)
  && cid_eqb (pin_update a) (pin_update b) && list_eqb String.eqb (origins a) (origins b).

Definition pin_eqb (a b : pin) : bool :=
  opts_eqb (popts a) (popts b) && cid_eqb (pcid a) (pcid b) && (ptype a =? ptype b)%N
  && list_eqb tok_eqb (allocs a) (allocs b) && (maxdepth a =? maxdepth b)
  && opt_eqb cid_eqb (reference a) (reference b).

(* ---- what the harness observed ---- *)
Inductive obs_pin := ObsPin (p : pin) | ObsEncErr | ObsDecErr.

Definition obs_pin_eqb (a b : obs_pin) : bool :=
  match a, b with
  | ObsPin p, ObsPin q => pin_eqb p q
  | ObsEncErr, ObsEncErr | ObsDecErr, ObsDecErr => true
  | _, _ => false end.

(* the model's prediction of ProtoMarshal followed by ProtoUnmarshal into a fresh value *)
Definition model_cycle (p : pin) : obs_pin :=
  match pin_to_pb p with
  | Err => ObsEncErr
  | Ok m => match pb_to_pin m with Ok q => ObsPin q | Err => ObsDecErr end
  end.

Inductive obs_q := ObsQ (o : opts) | ObsQEncErr | ObsQDecErr.
Definition obs_q_eqb (a b : obs_q) : bool :=
  match a, b with
  | ObsQ x, ObsQ y => opts_eqb x y
  | ObsQEncErr, ObsQEncErr | ObsQDecErr, ObsQDecErr => true
  | _, _ => false end.

(* ToQuery, the wire, FromQuery into a fresh value *)
Definition model_qcycle (orc : oracle) (o : opts) : obs_q :=
  match to_query orc o with
  | Err => ObsQEncErr
  | Ok q => match from_query orc (0, 0%N) zero_opts q with Ok o' => ObsQ o' | Err => ObsQDecErr end
  end.

(* ---- add parameters through their query form ---- *)
Definition addp_eqb (a b : addp) : bool :=
  opts_eqb (a_opts a) (a_opts b) && Bool.eqb (a_local a) (a_local b) && Bool.eqb (a_recursive a) (a_recursive b)
  && Bool.eqb (a_hidden a) (a_hidden b) && Bool.eqb (a_wrap a) (a_wrap b) && Bool.eqb (a_shard a) (a_shard b)
  && Bool.eqb (a_stream a) (a_stream b) && String.eqb (a_format a) (a_format b) && String.eqb (a_layout a) (a_layout b)
  && String.eqb (a_chunker a) (a_chunker b) && Bool.eqb (a_rawleaves a) (a_rawleaves b) && Bool.eqb (a_progress a) (a_progress b)
  && (a_cidver a =? a_cidver b) && String.eqb (a_hash a) (a_hash b) && Bool.eqb (a_nocopy a) (a_nocopy b).
Inductive obs_a := ObsA (p : addp) | ObsAEncErr | ObsADecErr.
Definition obs_a_eqb (a b : obs_a) : bool :=
  match a, b with
  | ObsA x, ObsA y => addp_eqb x y
  | ObsAEncErr, ObsAEncErr | ObsADecErr, ObsADecErr => true
  | _, _ => false end.
(* ToQueryString, the wire, AddParamsFromQuery *)
Definition model_acycle (orc : oracle) (p : addp) : obs_a :=
  match add_params_to_query orc p with
  | Err => ObsAEncErr
  | Ok q => match add_params_from_query orc (0, 0%N) q with Ok p' => ObsA p' | Err => ObsADecErr end
  end.
Definition spec_a (orc : oracle) (p : addp) (ob : obs_a) : bool :=
  if wf_ap orc p then obs_a_eqb ob (ObsA (lossy_ap p)) else true.

(* ---- generic record values ---- *)
Fixpoint val_eqb (a b : val) {struct a} : bool :=
  match a, b with
  | VInt x, VInt y => x =? y
  | VUint x, VUint y => (x =? y)%N
  | VStr x, VStr y | VBytes x, VBytes y => String.eqb x y
  | VBool x, VBool y => Bool.eqb x y
  | VTime x, VTime y => time_eqb x y
  | VCid x, VCid y => cid_eqb x y
  | VPeer x, VPeer y => tok_eqb x y
  | VAddr x, VAddr y => opt_eqb String.eqb x y
  | VList x, VList y =>
      (fix go (x y : list val) {struct x} : bool :=
         match x, y with [], [] => true | p :: r, q :: s => val_eqb p q && go r s | _, _ => false end) x y
  | VMap x, VMap y =>
      (fix go (x y : list (string * val)) {struct x} : bool :=
         match x, y with
         | [], [] => true
         | (k, p) :: r, (k', q) :: s => String.eqb k k' && val_eqb p q && go r s
         | _, _ => false end) x y
  | VPtr None, VPtr None => true
  | VPtr (Some x), VPtr (Some y) => val_eqb x y
  | VRec x, VRec y =>
      (fix go (x y : list val) {struct x} : bool :=
         match x, y with [], [] => true | p :: r, q :: s => val_eqb p q && go r s | _, _ => false end) x y
  | _, _ => false
  end.

Inductive obs_v := ObsV (v : val) | ObsVEncErr | ObsVDecErr.
Definition obs_v_eqb (a b : obs_v) : bool :=
  match a, b with
  | ObsV x, ObsV y => val_eqb x y
  | ObsVEncErr, ObsVEncErr | ObsVDecErr, ObsVDecErr => true
  | _, _ => false end.

Definition model_vcycle (c : codec) (tn : string) (v : val) : obs_v :=
  match enc c api_schema (TStruct tn) v with
  | Err => ObsVEncErr
  | Ok w => match dec c api_schema (TStruct tn) w with Ok v' => ObsV v' | Err => ObsVDecErr end
  end.

(* well-formed for the property: interface-typed elements included; the recogniser of the finding picks those out *)
Definition spec_v (c : codec) (tn : string) (v : val) (o : obs_v) : bool :=
  if wf_val c api_schema true (TStruct tn) false v then obs_v_eqb o (ObsV v) else true.

(* ---- byte-level stored form ---- *)
Definition bytes_eqb : list N -> list N -> bool := list_eqb N.eqb.
Definition entry_eqb (a b : list N * list N) : bool := bytes_eqb (fst a) (fst b) && bytes_eqb (snd a) (snd b).
(* metadata is a Go map: the real writer emits its entries in any order *)
Definition meta_perm_eqb (a b : list (list N * list N)) : bool :=
  Nat.eqb (length a) (length b) && forallb (fun e => existsb (entry_eqb e) b) a && forallb (fun e => existsb (entry_eqb e) a) b.
Definition wopts_eqb (a b : wopts) : bool :=
  (w_rmin a =? w_rmin b) && (w_rmax a =? w_rmax b) && bytes_eqb (w_name a) (w_name b) && (w_shard a =? w_shard b)%N
  && meta_perm_eqb (w_meta a) (w_meta b) && bytes_eqb (w_update a) (w_update b) && (w_expire a =? w_expire b)%N
  && list_eqb bytes_eqb (w_origins a) (w_origins b).
Definition wpin_eqb (a b : wpin) : bool :=
  bytes_eqb (w_cid a) (w_cid b) && (w_type a =? w_type b)%N && list_eqb bytes_eqb (w_allocs a) (w_allocs b)
  && (w_depth a =? w_depth b) && bytes_eqb (w_ref a) (w_ref b) && opt_eqb wopts_eqb (w_opts a) (w_opts b).

(* ---- Raft log entries through the one shared LogOp ---- *)
Definition step_res_eqb (a b : step_res) : bool :=
  match a, b with
  | SEncErr, SEncErr | SDecErr, SDecErr | SNoPin, SNoPin | SAddErr, SAddErr | SIgnored, SIgnored => true
  | SPinned t s, SPinned t' s' => pin_eqb t t' && pin_eqb s s'
  | SPinnedLost t, SPinnedLost t' | SUnpinned t, SUnpinned t' => pin_eqb t t'
  | _, _ => false
  end.

(* the boolean form of the property on the observed run: every well-formed entry that the run reached comes out as
   [expected] says, which looks at that entry alone. Returns the tag of the first entry that does not (0: none fails). *)
Fixpoint spec_logop (es : list (Z * pin)) (obs : list step_res) : option N :=
  match es, obs with
  | e :: er, o :: or =>
      if wf_entry e && negb (step_res_eqb o (expected e)) then Some (if entry_has_iface e then 1%N else 0%N)
      else spec_logop er or
  | _, _ => None
  end.

Definition onto_eqb (a b : option (result pin)) : bool :=
  match a, b with
  | None, None => true
  | Some Err, Some Err => true
  | Some (Ok p), Some (Ok q) => pin_eqb p q
  | _, _ => false
  end.

(* ---- generic decode onto a used destination; streams of records ---- *)
Definition model_onto (c : codec) (tn : string) (a b : val) : obs_v :=
  match enc c api_schema (TStruct tn) b with
  | Err => ObsVEncErr
  | Ok w => match dec_onto c api_schema a (TStruct tn) w with Ok v => ObsV v | Err => ObsVDecErr end
  end.

(* state export / import: the stored form, written as JSON, read into a fresh api.Pin, stored again *)
Definition import_cycle (p : pin) : obs_pin :=
  match model_cycle p with
  | ObsPin q =>
      match enc Json api_schema (TStruct "Pin") (pin_to_val q) with
      | Err => ObsEncErr
      | Ok w => match dec Json api_schema (TStruct "Pin") w with
                | Err => ObsDecErr
                | Ok v => match val_to_pin v with Some q' => model_cycle q' | None => ObsDecErr end
                end
      end
  | o => o
  end.
Definition stream_model (kind : N) (p : pin) : obs_pin := if (kind =? 0)%N then model_cycle p else import_cycle p.
Definition stream_wf (kind : N) (p : pin) : bool :=
  wf_pin p && ((kind =? 0)%N || (wf_val Json api_schema true (TStruct "Pin") false (pin_to_val (lossy_pb p))
                                 && negb (has_iface api_schema (TStruct "Pin") (pin_to_val (lossy_pb p))))).
Fixpoint spec_stream (kind : N) (ps : list pin) (obs : list obs_pin) : bool :=
  match ps, obs with
  | p :: pr, o :: or => (if stream_wf kind p then obs_pin_eqb o (ObsPin (lossy_pb p)) else true) && spec_stream kind pr or
  | _, _ => true
  end.

Inductive payload :=
  | CAddP (orc : oracle) (p : addp) (ob : obs_a)          (* AddParams through ToQueryString / url / AddParamsFromQuery *)
  | CAddRaw (orc : oracle) (q : query) (ob : obs_a)       (* AddParamsFromQuery on an arbitrary query (no expire-in) *)
  | COnto (c : codec) (tn : string) (a b : val) (o : obs_v)   (* b decoded on top of a destination that holds a *)
  | CStream (kind : N) (ps : list pin) (obs : list obs_pin)   (* 0: State.Marshal / Unmarshal of a pinset; 1: exportState / importState; what each pin reads back as *)
  | CLogOp (es : list (Z * pin)) (obs : list step_res)   (* entries pushed through decode-into-the-shared-op + ApplyTo, what each did *)
  | CLogOnto (a b : pin) (o : option (result pin))        (* b decoded on top of a, no ApplyTo in between *)
  | CPb (p : pin) (o : obs_pin)
  | CPbMsg (old : pin) (m : pbpin) (o o2 : obs_pin)
  | CQuery (orc : oracle) (o : opts) (ob : obs_q)
  | CQRaw (orc : oracle) (now : Z * N) (old : opts) (q : query) (ob ob2 : obs_q)
  | CStatus (m : N) (s : string) (back : N)        (* TrackerStatus(m).String() = s ; TrackerStatusFromString(s) = back *)
  | CStatusRaw (s : string) (back : N)             (* TrackerStatusFromString on an arbitrary string *)
  | CPinType (t : N) (s : string) (back : N)       (* PinType(t).String() ; PinTypeFromString *)
  | CModeStr (m : Z) (s : string) (back : Z)       (* PinMode(m).String() ; PinModeFromString *)
  | CMsgpack (tn : string) (v : val) (o : obs_v)   (* value of record type tn through the msgpack codec into a fresh value *)
  | CJson (tn : string) (v : val) (o : obs_v)
  | CEquals (same : bool) (p q : pin) (b bo : bool)    (* p.Equals(q) = b ; p.PinOptions.Equals(&q.PinOptions) = bo *)
  | CFuzz (dec : string) (clean : bool)                (* replay of one recorded malformed input: did the decoder behave *)
  | CWire (m : wpin) (det real : list N).              (* a pb message, its bytes from proto.Marshal with sorted map keys, and as ProtoMarshal writes them *)

Definition case := (N * payload)%type.

Definition fail_if (b : bool) (id code tag : N) : list (N * N * N) := if b then [(id, code, tag)] else [].

Definition spec_pb (p : pin) (o : obs_pin) : bool :=
  if wf_pin p then obs_pin_eqb o (ObsPin (lossy_pb p)) else true.

Definition spec_pbmsg (old : pin) (o o2 : obs_pin) : bool :=
  match o with
  | ObsDecErr => true
  | ObsEncErr => false
  | ObsPin q =>
      match o2 with
      | ObsPin q2 => if pin_eqb old zero_pin then pin_eqb q2 (retype q) else true
      | _ => false     (* the decoded value could not be re-encoded and read back *)
      end
  end.

Definition spec_q (orc : oracle) (o : opts) (ob : obs_q) : bool :=
  if wf_q orc o then obs_q_eqb ob (ObsQ (lossy_q o)) else true.

Definition spec_qraw (old : opts) (ob ob2 : obs_q) : bool :=
  match ob with
  | ObsQDecErr => true
  | ObsQEncErr => false
  | ObsQ o => if opts_eqb old zero_opts then obs_q_eqb ob2 (ObsQ o) else true
  end.

Definition check_case (c : case) : list (N * N * N) :=
  let '(id, pl) := c in
  match pl with
  | CAddP orc p ob =>
      fail_if (negb (obs_a_eqb (model_acycle orc p) ob)) id 1 0 ++
      fail_if (negb (spec_a orc p ob)) id 23 0
  | CAddRaw orc q ob =>
      fail_if (negb (obs_a_eqb (match add_params_from_query orc (0, 0%N) q with Ok p => ObsA p | Err => ObsADecErr end) ob)) id 1 0
  | COnto c tn a b o => fail_if (negb (obs_v_eqb (model_onto c tn a b) o)) id 1 0
  | CStream kind ps obs =>
      fail_if (negb (pin_layout_ok && list_eqb obs_pin_eqb (map (stream_model kind) ps) obs)) id 1 0 ++
      fail_if (negb (spec_stream kind ps obs)) id 22 0
  | CLogOp es obs =>
      fail_if (negb (logop_layout_ok && pin_layout_ok && list_eqb step_res_eqb (logop_apply_seq true logop_zero es) obs)) id 1 0 ++
      match spec_logop es obs with Some tg => [(id, 21%N, tg)] | None => [] end
  | CLogOnto a b o =>
      fail_if (negb (logop_layout_ok && pin_layout_ok && onto_eqb (pin_onto a b) o)) id 1 0
  | CPb p o =>
      fail_if (negb (obs_pin_eqb (model_cycle p) o)) id 1 0 ++
      fail_if (negb (spec_pb p o)) id 10 0
  | CPbMsg old m o o2 =>
      fail_if (negb (obs_pin_eqb (match pb_unmarshal old m with Ok q => ObsPin q | Err => ObsDecErr end) o
                     && match o with ObsPin q => obs_pin_eqb (model_cycle q) o2 | _ => true end)) id 1 0 ++
      fail_if (negb (spec_pbmsg old o o2)) id 11 0
  | CQuery orc o ob =>
      fail_if (negb (obs_q_eqb (model_qcycle orc o) ob)) id 1 0 ++
      fail_if (negb (spec_q orc o ob)) id 12 0
  | CQRaw orc now old q ob ob2 =>
      fail_if (negb (obs_q_eqb (match from_query orc now old q with Ok o => ObsQ o | Err => ObsQDecErr end) ob
                     && match ob with ObsQ o => obs_q_eqb (model_qcycle orc o) ob2 | _ => true end)) id 1 0 ++
      fail_if (negb (spec_qraw old ob ob2)) id 13 0
  | CStatus m s back =>
      (* the order of the names is the map iteration order: compared as sets *)
      fail_if (negb (list_eqb String.eqb (ssort (split_on comma s)) (ssort (split_on comma (status_string st_table m)))
                     && (back =? status_from_string s)%N)) id 1 0 ++
      fail_if (st_valid_mask m && negb (back =? m)%N) id 14 0
  | CStatusRaw s back =>
      fail_if (negb (back =? status_from_string s)%N) id 1 0
  | CPinType t s back =>
      fail_if (negb (String.eqb s (pintype_string t) && (back =? pintype_from_string s)%N)) id 1 0 ++
      fail_if (existsb (N.eqb t) [1; 2; 4; 8; 16; 30]%N && negb (back =? t)%N) id 14 0
  | CModeStr m s back =>
      fail_if (negb (String.eqb s (mode_string m) && (back =? mode_from_string s))) id 1 0 ++
      fail_if (((m =? 0) || (m =? 1)) && negb (back =? m)) id 14 0
  | CMsgpack tn v o =>
      fail_if (negb (obs_v_eqb (model_vcycle Msgpack tn v) o)) id 1 0 ++
      fail_if (negb (spec_v Msgpack tn v o)) id 15 (if has_iface api_schema (TStruct tn) v then 1 else 0)
  | CJson tn v o =>
      fail_if (negb (obs_v_eqb (model_vcycle Json tn v) o)) id 1 0 ++
      fail_if (negb (spec_v Json tn v o)) id 16 (if has_iface api_schema (TStruct tn) v then 1 else 0)
  | CEquals same p q b bo =>
      fail_if (negb (Bool.eqb (pin_equals same p q) b && Bool.eqb (opts_equals same (Some (popts p)) (Some (popts q))) bo)) id 1 0 ++
      fail_if (negb same && wf_eq_pin p && wf_eq_pin q
               && negb (Bool.eqb b (pin_sameb p q) && Bool.eqb bo (opts_sameb (popts p) (popts q)))) id 17 0
  | CFuzz _ clean => fail_if (negb clean) id 20 0
  | CWire m det real =>
      (* the model writer produces the library's bytes; the model reader reads the library's bytes back *)
      fail_if (negb (bytes_eqb (ser_pin m) det
                     && match parse_pin det with Some m' => wpin_eqb m m' | None => false end
                     && match parse_pin real with Some m' => wpin_eqb m m' | None => false end)) id 1 0
  end.

Definition failing (cs : list case) : list (N * N * N) := flat_map check_case cs.
