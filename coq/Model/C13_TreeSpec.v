(* C13 — vocabulary of the statements about the importer on file trees. Definitions only. *)
From V Require Import Base.Common Model.C13_Adder Model.C13_Check Model.C13_Spec Model.C13_Importer Model.C13_Tree.
Open Scope N_scope.

(* the blocks a block links *)
Definition dkids (n : dnode) : list dnode :=
  match n with DFile t => map DFile (kids t) | DDir ls => map snd ls end.

Definition dinjective_on (l : list dnode) (cid_of : dnode -> N) : Prop :=
  forall a b, In a l -> In b l -> cid_of a = cid_of b -> a = b.
(* a set of blocks closed under links *)
Definition dclosed (em : list dnode) : Prop := forall x c, In x em -> In c (dkids x) -> In c em.
(* the same blocks, in any order and multiplicity (go-mfs emits the directory nodes in Go map order, several times) *)
Definition same_blocks (em em' : list dnode) : Prop := forall x, In x em' <-> In x em.

Definition tblock_of (cid_of enc_size : dnode -> N) (n : dnode) : block :=
  mkblock (cid_of n) (enc_size n) (map cid_of (dkids n)) false.
Definition tstream_of (cid_of enc_size : dnode -> N) (em : list dnode) : list block := map (tblock_of cid_of enc_size) em.

Definition tcontent_of (cid_of : dnode -> N) (n : dnode) : tcontent :=
  match n with
  | DFile (Leaf d) => TLeaf d
  | DFile (Node ch) => TLinks (map (fun l => (cid_of (DFile (fst l)), snd l)) ch)
  | DDir ls => TDir (map (fun l => (fst l, cid_of (snd l))) ls)
  end.
(* the union of the daemons' stores after the add: the CIDs that were put, each with the content of the block that has it *)
Definition tstore_of (cid_of : dnode -> N) (em : list dnode) (delivered : list N) : store :=
  fun x => if memN x delivered then option_map (tcontent_of cid_of) (find (fun n => N.eqb (cid_of n) x) em) else None.

Definition file_height (p : iparams) (bs : bytes) : nat := height (layout_tree (importer (ip_trickle p) (ip_ml p) (ip_k p) bs)).
Definition params_ok (p : iparams) : Prop := 0 < ip_k p /\ min_links (ip_trickle p) <= ip_ml p.

Fixpoint sorted_names (l : list name) : Prop :=
  match l with x :: ((y :: _) as r) => name_leb x y = true /\ sorted_names r | _ => True end.
