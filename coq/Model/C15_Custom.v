(* C15 — load / save rules outside the generic rule set, at the level of the Config members they write
   (definitions only). Gen/ConfigCustoms.v holds the rules the translator recognised in the source; `model_custom_rules`
   below are the ones the model's `custom_load` (Model/C15_Config.v) stands for.

   CRStarLoad lit F L (crdt trusted_peers, applyJSONConfig):
       cfg.F = false; cfg.L = []
       for p in the JSON list: if p == lit { cfg.F = true; cfg.L = []; break }; x, err := parse(p); err -> return; cfg.L += x
   CRStarSave lit F L (toJSONConfig):  if cfg.F { [lit] } else { render cfg.L }
   The model holds the pair (F, L) as what the save side writes. *)
From Coq Require Import String List Bool.
From V Require Import Model.C15_Config.
Import ListNotations.
Open Scope string_scope.

Inductive crule :=
| CRStarLoad (lit flag_member list_member : string)
| CRStarSave (lit flag_member list_member : string).

(* the loop; an element is Some canonical-form when the parser accepts it, None otherwise *)
Fixpoint star_load_from (lit : string) (acc : list string) (l : list (option string)) : option (bool * list string) :=
  match l with
  | [] => Some (false, acc)
  | Some p :: r => if String.eqb p lit then Some (true, []) else star_load_from lit (acc ++ [p]) r
  | None :: _ => None
  end.
Definition star_load (lit : string) (l : list (option string)) : option (bool * list string) := star_load_from lit [] l.
Definition star_save (lit : string) (st : bool * list string) : list string := if fst st then [lit] else snd st.

Definition crule_eqb (a b : crule) : bool :=
  match a, b with
  | CRStarLoad x f l, CRStarLoad x' f' l' | CRStarSave x f l, CRStarSave x' f' l' => String.eqb x x' && String.eqb f f' && String.eqb l l'
  | _, _ => false end.

Fixpoint cr_get (k : string) (l : list (string * crule)) : option crule :=
  match l with [] => None | (k', v) :: r => if String.eqb k k' then Some v else cr_get k r end.

(* what a translated pair of rules (id, id/save) makes of a JSON value: load into (F, L), as the save side renders it *)
Definition custom_sem (rules : list (string * crule)) (id : string) : option (val -> option val) :=
  match cr_get id rules, cr_get (String.append id "/save") rules with
  | Some (CRStarLoad lit f l), Some (CRStarSave lit' f' l') =>
      if String.eqb f f' && String.eqb l l'
      then Some (fun v => match as_tl v with
                          | Some tl => option_map (fun st => VL (star_save lit' st)) (star_load lit tl)
                          | None => None end)
      else None
  | _, _ => None end.

(* the rules `custom_load` stands for *)
Definition model_custom_rules : list (string * crule) := [
  ("crdt.trusted_peers", CRStarLoad "*" "TrustAll" "TrustedPeers");
  ("crdt.trusted_peers/save", CRStarSave "*" "TrustAll" "TrustedPeers")
].

(* a custom rule id is translated when the source's rule is the model's *)
Definition custom_translated (gen : list (string * crule)) (id : string) : bool :=
  match cr_get id gen, cr_get id model_custom_rules with
  | Some r, Some r' => crule_eqb r r'
  | _, _ => false end.

Definition show_crule (r : crule) : string :=
  match r with
  | CRStarLoad lit f l => String.concat "" ["load: element '"; lit; "' sets "; f; " and clears "; l; ", every other element is parsed into "; l]
  | CRStarSave lit f l => String.concat "" ["save: ['"; lit; "'] when "; f; ", else "; l]
  end.
