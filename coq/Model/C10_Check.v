(* C10 — boolean form of the property on what the implementation did in a failure / removal / expiry scenario,
   model-vs-implementation comparison peer by peer (each peer's run starts from the pinset the implementation
   had before it), and the recogniser of the known finding S10. Evaluated with vm_compute on harness cases. *)
From V Require Import Base.Common Model.C03_Alloc Model.C03_Check Model.C04_ClusterOps Model.C04_Check Model.C10_Repin.
Open Scope Z_scope.

(* one peer's run: self, follower, repinning disabled, alert recorded, CIDs logged (LogPin for alert / vacate,
   LogUnpin for sync) in order, whole pinset after *)
Definition astep := (N * bool * bool * bool * list N * list pin)%type.
(* kind: 0 ping alert, 1 other alert, 2 vacate (PeerRemove), 3 state sync *)
Definition scenario := (N * N * list astep)%type.
(* an observed isClosest answer: self, excluded peer, CID, answer *)
Definition cobs := (N * option N * N * bool)%type.
Definition payload := (Z * Z * bool * list (N * N) * list (N * N) * list N * list N * list metric * list (N * list N)
                       * list pin * scenario * list cobs)%type.
Definition case := (N * payload)%type.

Fixpoint dedup (l : list N) : list N :=
  match l with [] => [] | x :: xs => x :: filter (fun y => negb (y =? x)%N) (dedup xs) end.

(* list order read off the observed log: the logged CIDs first, in log order *)
Definition lord_from (logs : list N) (l : list pin) : list pin :=
  flat_map (fun c => filter (fun p => (p_cid p =? c)%N) l) (dedup logs)
  ++ filter (fun p => negb (memN (p_cid p) logs)) l.
(* allocate's map order read off the observed allocation of that CID *)
Definition ord_of (after : pinset) (c : N) : list N -> list N :=
  ord_from (match aget c after with Some p => p_allocs p | None => [] end).

(* the LogUnpin list of one StateSync run is a concatenation of groups: [h] for an ordinary pin, links ++ [ref; h; h] for a
   meta pin (unpinClusterDag, then Unpin itself). Reading the groups back gives the order in which the pins were processed. *)
Fixpoint prefix_eqb (g l : list N) : bool :=
  match g, l with
  | [], _ => true
  | x :: g', y :: l' => (x =? y)%N && prefix_eqb g' l'
  | _ :: _, [] => false end.
Definition meta_groups (ls : list (N * list N)) (st : pinset) : list (N * list N) :=
  flat_map (fun kx => let x := snd kx in
     if ptype_eqb (p_ty x) MetaT then
       match p_ref x with
       | Some r => match aget r ls with Some l => [(fst kx, List.rev l ++ [r; fst kx; fst kx])] | None => [] end
       | None => [] end
     else []) st.
Fixpoint decode_sync (fuel : nat) (groups : list (N * list N)) (logs : list N) : list N :=
  match fuel with
  | O => []
  | S fu =>
      match logs with
      | [] => []
      | k :: rest =>
          match find (fun g => prefix_eqb (snd g) logs) groups with
          | Some g => fst g :: decode_sync fu groups (skipn (length (snd g)) logs)
          | None => k :: decode_sync fu groups rest end
      end
  end.

Definition count_occ_N (x : N) (l : list N) : nat := length (filter (N.eqb x) l).

(* ---- model = implementation, one peer's run ---- *)
Definition run_eqb (dmin dmax : Z) (rv : bool) (hp hc : N -> N) (members : list N) (trusted : N -> bool) (e : env)
           (kind f : N) (st : pinset) (s : astep) : bool :=
  let '(self, fol, norep, recd, logs, after) := s in
  let st' := of_list after in
  let pc := mk_pcfg (mk_cfg dmin dmax fol rv) norep in
  match kind with
  | 0%N | 1%N =>
      let r := on_alert pc e (ord_of st') (lord_from logs) hp hc self members trusted st (kind =? 0)%N f in
      Bool.eqb (fst (fst r)) recd && st_eqb (snd (fst r)) st' && list_eqb N.eqb (snd r) logs
  | 2%N =>
      let r := vacate pc e (ord_of st') (lord_from logs) st f in
      st_eqb (fst r) st' && list_eqb N.eqb (snd r) logs
  | _ =>
      (* some listing order reproduces the observation: the decoded one, or the plain log order *)
      existsb (fun order =>
                 let r := state_sync pc e (lord_from order) hp hc self members trusted st in
                 st_eqb (fst r) st' && list_eqb N.eqb (snd r) logs)
              [decode_sync (S (length logs)) (meta_groups (e_links e) st) logs; logs; List.rev logs]
  end.

Fixpoint runs_eqb dmin dmax rv hp hc members trusted e kind f (st : pinset) (steps : list astep) : bool :=
  match steps with
  | [] => true
  | s :: rest =>
      run_eqb dmin dmax rv hp hc members trusted e kind f st s
      && runs_eqb dmin dmax rv hp hc members trusted e kind f (of_list (snd s)) rest
  end.

Definition closest_eqb (hp hc : N -> N) (members : list N) (trusted : N -> bool) (o : cobs) : bool :=
  let '(self, excl, c, b) := o in
  Bool.eqb (is_closest hp hc self (trusted_others self members excl trusted) c) b.

(* ---- the property on the observation ---- *)
Definition is_update_pin (x : pin) : bool :=
  match o_update (p_opts x) with Some u => negb (u =? p_cid x)%N | None => false end.

Definition final_state (st0 : pinset) (steps : list astep) : pinset :=
  match List.rev steps with [] => st0 | s :: _ => of_list (snd s) end.
Definition all_logs (steps : list astep) : list N := flat_map (fun s => snd (fst s)) steps.
Definition loggers (c : N) (steps : list astep) : nat := length (filter (fun s => memN c (snd (fst s))) steps).
Definition step_fol (s : astep) : bool := snd (fst (fst (fst (fst s)))).
Definition step_norep (s : astep) : bool := snd (fst (fst (fst s))).
Definition step_recd (s : astep) : bool := snd (fst (fst s)).
Definition step_logs (s : astep) : list N := snd (fst s).

Definition same_keys (a b : pinset) : bool := subsetb (akeys a) (akeys b) && subsetb (akeys b) (akeys a).
Definition entry_same (st st' : pinset) (c : N) : bool :=
  match aget c st, aget c st' with Some p, Some q => pin_eqb p q | _, _ => false end.

(* idle runs: follower / repinning disabled / not a ping alert leave the pinset alone and log nothing *)
Fixpoint idle_ok (kind : N) (st : pinset) (steps : list astep) : bool :=
  match steps with
  | [] => true
  | s :: rest =>
      let st' := of_list (snd s) in
      (if step_fol s || ((kind <? 3)%N && step_norep s) || (kind =? 1)%N
       then st_eqb st st' && (match step_logs s with [] => true | _ => false end) else true)
      && (if (kind <? 2)%N then Bool.eqb (step_recd s) (negb (step_fol s)) else true)
      && idle_ok kind st' rest
  end.

(* the per-pin clauses of a failure / removal scenario; returns the CIDs whose clause fails *)
Definition repin_bad (now : Z) (rv : bool) (ms : list metric) (all_trusted all_eligible : bool) (f : N)
           (st0 stF : pinset) (steps : list astep) : list N :=
  flat_map (fun kx =>
    let x := snd kx in let c := fst kx in
    let nlog := loggers c steps in
    let ok :=
      if negb (memN f (p_allocs x)) then entry_same st0 stF c && Nat.eqb nlog 0
      else
        let o := p_opts x in
        let i := mk_input (o_rmin o) (o_rmax o) (p_allocs x) ms [f] [] rv in
        let hcount := healthy_count now i (p_allocs x) in
        (if all_trusted then Nat.leb nlog 1 else true)
        && forallb (fun s => Nat.leb (count_occ_N c (step_logs s)) 1) steps
        && (if negb ((0 <? o_rmin o) && (o_rmin o <=? o_rmax o)) || expired_at now x || ptype_eqb (p_ty x) MetaT
               || negb (nodupb (p_allocs x)) then true        (* outside the premise: factors, expiry, duplicate holders *)
            else if (o_rmin o <=? hcount) then (if hcount <=? o_rmax o then entry_same st0 stF c else true)
            else if reachable now i <? o_rmin o then entry_same st0 stF c
            else if negb all_eligible then true
            else match aget c stF with
                 | None => false
                 | Some y =>
                     negb (memN f (p_allocs y))
                     && C03_Check.spec_okb now i (ObsOk (p_allocs y))
                     && opts_eqb (p_opts y) o                                   (* all of the pin's options preserved *)
                     && ptype_eqb (p_ty y) (p_ty x) && (p_depth y =? p_depth x) && optN_eqb (p_ref y) (p_ref x)
                     && Nat.eqb nlog 1                                           (* by exactly one surviving peer *)
                 end)
    in if ok then [] else [c]) st0.

(* expiry sweep: the CIDs whose clause fails *)
Definition sync_bad (now : Z) (ls : list (N * list N)) (all_trusted all_eligible : bool) (st0 stF : pinset) (steps : list astep) : list N :=
  let collateral := flat_map (fun kx => let m := snd kx in
                       if expired_at now m && ptype_eqb (p_ty m) MetaT
                       then match p_ref m with Some r => r :: (match aget r ls with Some l => l | None => [] end) | None => [] end
                       else []) st0 in
  flat_map (fun kx =>
    let x := snd kx in let c := fst kx in
    let n := count_occ_N c (all_logs steps) in
    let ok :=
      if expired_at now x then
        (if all_trusted && ptype_eqb (p_ty x) DataT && negb (memN c collateral) then Nat.leb n 1 else true)
        && (if all_trusted && all_eligible && ptype_eqb (p_ty x) DataT && negb (memN c collateral)
            then negb (is_some (aget c stF)) && Nat.eqb n 1 else true)
      else if memN c collateral then true
      else entry_same st0 stF c && Nat.eqb n 0
    in if ok then [] else [c]) st0.

(* exactly one of the mutually trusting candidate peers answers "closest" for each CID (peers agreeing on the peerset and
   on whom they trust; members nobody trusts - followers in the usual layout - are no candidates and their own answers
   are not counted) *)
Definition one_closest_ok (members : list N) (trusted : N -> bool) (cs : list cobs) : bool :=
  forallb (fun o => let '(_, excl, c, _) := o in
     let group := filter (fun o' => let '(s', excl', c', _) := o' in trusted s' && optN_eqb excl excl' && (c =? c')%N) cs in
     let cands := filter (fun p => trusted p && negb (match excl with Some x => (p =? x)%N | None => false end)) members in
     (* only when every candidate was asked *)
     if negb (Nat.eqb (length group) (length cands)) then true
     else match cands with [] => true | _ => Nat.eqb (length (filter (fun o' => snd o') group)) 1 end) cs.

Definition step_self (s : astep) : N := fst (fst (fst (fst (fst s)))).

Definition check_case (x : case) : list (N * N * N) :=
  let '(id, (dmin, dmax, rv, hpt, hct, members, untrusted, ms, ls, st0l, (kind, f, steps), cs)) := x in
  let hp := hashf hpt in let hc := hashf hct in
  let trusted := fun p => negb (memN p untrusted) in
  let e := mk_env 0 ms [] ls in
  let st0 := of_list st0l in
  let stF := final_state st0 steps in
  let all_trusted := forallb trusted members in
  let meq := runs_eqb dmin dmax rv hp hc members trusted e kind f st0 steps && forallb (closest_eqb hp hc members trusted) cs in
  (* members that the others do not trust take no part when they run as followers / with re-pinning disabled (the usual
     layout): the clauses about "exactly one" then speak about the mutually trusting members *)
  let idle := fun s => step_fol s || ((kind <? 3)%N && step_norep s) in
  let all_trusted := all_trusted || forallb (fun s => trusted (step_self s) || idle s) steps in
  let tsteps := filter (fun s => trusted (step_self s)) steps in
  let all_eligible := negb (match tsteps with [] => true | _ => false end)
                      && forallb (fun s => negb (idle s)) tsteps
                      && negb (kind =? 1)%N && all_trusted
                      (* every candidate peer ran *)
                      && (if (kind =? 2)%N then true
                          else seteqb (map step_self tsteps)
                                      (filter (fun p => trusted p && negb ((kind <? 2)%N && (p =? f)%N)) members)) in
  let global := nodupb (akeys stF) && idle_ok kind st0 steps && one_closest_ok members trusted cs
                && (if (kind <? 3)%N then same_keys st0 stF else subsetb (akeys stF) (akeys st0)) in   (* nothing removed by re-pinning *)
  let bad := if (kind <? 3)%N then repin_bad 0 rv ms all_trusted all_eligible f st0 stF steps
             else sync_bad 0 ls all_trusted all_eligible st0 stF steps in
  (* S10: every failing clause is about a pin created by pin-update that the failed peer held *)
  let is_s10 := global && (kind <? 3)%N && negb (match bad with [] => true | _ => false end)
                && forallb (fun c => match aget c st0 with Some p => is_update_pin p && memN f (p_allocs p) | None => false end) bad in
  (if meq then [] else [(id, 1%N, 0%N)]) ++
  (if global && (match bad with [] => true | _ => false end) then [] else [(id, 2%N, if is_s10 then 1%N else 0%N)]).

Definition failing (cs : list case) : list (N * N * N) := flat_map check_case cs.
