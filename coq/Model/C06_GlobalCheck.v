(* C06 — cluster-wide view: correspondence with cluster.go globalPinInfoCid / globalPinInfoSlice (code 1) and the
   boolean form of the statement on the implementation's own answer (codes 30, 31). *)
From V Require Import Base.Common Model.C06_Global.
Open Scope N_scope.

Inductive gcase :=
| GCid (self : N) (follower : bool) (members : list N) (pin : option gpin) (replies : list reply) (obs : list (N * N))
| GSlice (self : N) (follower : bool) (members : list N) (replies : list sreply) (obs : list (N * list (N * N))).
Definition case := (N * gcase)%type.

Definition pair_eqb (a b : N * N) : bool := N.eqb (fst a) (fst b) && N.eqb (snd a) (snd b).
Definition set_eqb {A} (eqb : A -> A -> bool) (x y : list A) : bool :=
  Nat.eqb (length x) (length y) && forallb (fun a => existsb (eqb a) y) x && forallb (fun b => existsb (eqb b) x) y.
Definition entry_eqb (a b : N * list (N * N)) : bool := N.eqb (fst a) (fst b) && set_eqb pair_eqb (snd a) (snd b).

Definition shown_b (r : reply) : option N := match r with RInfo _ stb => Some stb | RErr => Some 2 | RAuth => None end.
Definition honest_b (l : list (N * reply)) : bool :=
  forallb (fun dr => match snd dr with RInfo p _ => N.eqb p (fst dr) | _ => true end) l.

(* code 31: allocated peers carry their own report / cluster_error / nothing; other members remote; nobody else *)
Definition view_ok (members : list N) (g : gpin) (replies : list reply) (obs : list (N * N)) : bool :=
  let l := combine (g_alloc g) replies in
  if negb (g_every g) && nodupb (g_alloc g) && honest_b l then
    forallb (fun dr => optN_eqb (aget (fst dr) obs) (shown_b (snd dr))) l
    && forallb (fun m => if memN m (g_alloc g) then true else optN_eqb (aget m obs) (Some 256)) members
    && forallb (fun e => memN (fst e) members || memN (fst e) (g_alloc g)) obs
  else true.

Definition check_case (c : case) : list (N * N * N) :=
  let '(id, g) := c in
  match g with
  | GCid self follower members pin replies obs =>
      (if set_eqb pair_eqb (global_cid self follower members pin replies) obs then [] else [(id, 1, 0)])
      ++ (if nodupb (akeys obs) then [] else [(id, 30, 0)])
      ++ (match pin with
          | Some g => if follower || view_ok members g replies obs then [] else [(id, 31, 0)]
          | None => if follower || forallb (fun m => optN_eqb (aget m obs) (Some 128)) members then [] else [(id, 31, 0)]
          end)
  | GSlice self follower members replies obs =>
      (if set_eqb entry_eqb (global_slice self follower members replies) obs then [] else [(id, 1, 0)])
      ++ (if nodupb (akeys obs) && forallb (fun e => nodupb (akeys (snd e))) obs then [] else [(id, 30, 0)])
      (* code 32: a member that could not be asked is cluster_error for every listed cid *)
      ++ (if forallb (fun mr => match snd mr with
                                | SErr => forallb (fun e => optN_eqb (aget (fst mr) (snd e)) (Some 2)) obs
                                | _ => true end) (combine (if follower then [self] else members) replies)
          then [] else [(id, 32, 0)])
  end.

Definition failing (cs : list case) : list (N * N * N) := flat_map check_case cs.
