(* C07 — the SPECIFICATION tables, written by hand from the property text and the documented intent of
   the endpoints (rpc_api.go: "RPCClosed endpoints can only be called by the local cluster peer on itself",
   "RPCOpen endpoints can be called by any peer"). They are compared with what the code says now
   (Gen/Policy.v, Gen/RPCMethods.v) by the theorems of Props/C07.v; Props/C07.v repeats them literally.
   Definitions only. *)
From Coq Require Import String.
From V Require Import Base.Common Base.Rpc Model.C07_Auth.
Open Scope string_scope.

(* identity, version and the join handshake: the only endpoints an untrusted peer may invoke *)
Definition open_spec : list string := ["Cluster.ID"; "Cluster.Version"; "Cluster.PeerAdd"].

(* What the open endpoints may DO on the peer when they run (they run for anybody, trusted or not). Effects are named after the
   component call they are: "IPFS.<method>", "Tracker.<method>", "Consensus.<method>", "Informer.GetMetric", "Monitor.<method>",
   and "Callback.Cluster.ID" for the RPC the peer sends out during the join handshake. Written from cluster.go as it is today:
   * Cluster.ID (cluster.go ID): reads the identity of the peer: its own id/addresses (host, peer manager), the consensus
     peerset (Consensus.Peers: the membership, not the pinset) and the identity of its IPFS daemon (IPFS.ID: the "id" request,
     which reads nothing of the pinset and changes nothing: api.ID carries the daemon's id and addresses by design);
   * Cluster.Version: a constant;
   * Cluster.PeerAdd (cluster.go PeerAdd): the join handshake: Consensus.AddPeer, then the call-back Cluster.ID to the added
     peer (getIDForPeer). The added peer may be the called peer itself, in which case the call-back runs its own Cluster.ID:
     hence the effects of Cluster.ID as well. Nothing else. *)
Definition open_effects : list (string * list string) := [
  ("Cluster.ID", ["IPFS.ID"; "Consensus.Peers"]);
  ("Cluster.Version", []);
  ("Cluster.PeerAdd", ["Consensus.AddPeer"; "Callback.Cluster.ID"; "IPFS.ID"; "Consensus.Peers"])
].
Definition allowed_effects (ep : string) : list string :=
  match find (fun x => String.eqb (fst x) ep) open_effects with Some x => snd x | None => [] end.

(* the classes of effect the property denies to a peer that is not trusted: driving the IPFS daemon (anything but reading its
   identity), driving the pin tracker, reading or writing the pinset, writing to consensus other than the join (AddPeer),
   and running the informers / publishing metrics (the job of the local-only Cluster.SendInformersMetrics) *)
Definition effect_forbidden (e : string) : bool :=
  (String.prefix "IPFS." e && negb (String.eqb e "IPFS.ID"))
  || String.prefix "Tracker." e
  || (String.prefix "Consensus." e && negb (mem_str e ["Consensus.AddPeer"; "Consensus.Peers"]))
  || String.prefix "Informer." e
  || (String.prefix "Monitor." e && negb (mem_str e ["Monitor.LatestMetrics"; "Monitor.MetricNames"])).

(* meant for local use (the peer's own components, its REST API and proxy): refused to every remote caller.
   Every pinset read/write, every tracker / IPFS / metrics drive that is not part of a broadcast. *)
Definition local_only_spec : list string := [
  "Cluster.BlockAllocate"; "Cluster.ConnectGraph"; "Cluster.Join";
  "Cluster.Pin"; "Cluster.PinGet"; "Cluster.PinPath"; "Cluster.Pins";
  "Cluster.Recover"; "Cluster.RecoverAll"; "Cluster.RepoGC";
  "Cluster.SendInformerMetric"; "Cluster.SendInformersMetrics"; "Cluster.Alerts";
  "Cluster.Status"; "Cluster.StatusAll"; "Cluster.StatusAllLocal"; "Cluster.StatusLocal";
  "Cluster.Unpin"; "Cluster.UnpinPath";
  "PinTracker.RecoverAll"; "PinTracker.Track"; "PinTracker.Untrack";
  "IPFSConnector.BlockGet"; "IPFSConnector.ConfigKey"; "IPFSConnector.Pin"; "IPFSConnector.PinLs";
  "IPFSConnector.PinLsCid"; "IPFSConnector.Resolve"; "IPFSConnector.Unpin";
  "Consensus.Peers";
  "PeerMonitor.LatestMetrics"; "PeerMonitor.MetricNames"
].

(* the inter-peer API (broadcasts, redirects to the Raft leader, block distribution): trusted peers only *)
Definition trusted_spec : list string := [
  "Cluster.PeerRemove"; "Cluster.Peers"; "Cluster.RecoverAllLocal"; "Cluster.RecoverLocal"; "Cluster.RepoGCLocal";
  "PinTracker.Recover"; "PinTracker.Status"; "PinTracker.StatusAll";
  "IPFSConnector.BlockPut"; "IPFSConnector.RepoStat"; "IPFSConnector.SwarmPeers";
  "Consensus.AddPeer"; "Consensus.LogPin"; "Consensus.LogUnpin"; "Consensus.RmPeer"
].

Fixpoint nodup_str (l : list string) : bool :=
  match l with [] => true | x :: r => negb (mem_str x r) && nodup_str r end.
Definition count_str (s : string) (l : list string) : nat := length (filter (String.eqb s) l).
