(* C07 — the SPECIFICATION tables, written by hand from the property text and the documented intent of
   the endpoints (rpc_api.go: "RPCClosed endpoints can only be called by the local cluster peer on itself",
   "RPCOpen endpoints can be called by any peer"). They are compared with what the code says now
   (Gen/Policy.v, Gen/RPCMethods.v) by the theorems of Props/C07.v; Props/C07.v repeats them literally.
   Definitions only. *)
From Coq Require Import String.
From V Require Import Base.Common Base.Rpc Model.C07_Auth.
Open Scope string_scope.

(* identity, version and the join handshake: the only endpoints an untrusted peer may invoke *)
Definition open_spec : list string := ["Cluster.ID"; "Cluster.Version"; "Cluster.PeerAdd"].

(* meant for local use (the peer's own components, its REST API and proxy): refused to every remote caller.
   Every pinset read/write, every tracker / IPFS / metrics drive that is not part of a broadcast. *)
Definition local_only_spec : list string := [
  "Cluster.BlockAllocate"; "Cluster.ConnectGraph"; "Cluster.Join";
  "Cluster.Pin"; "Cluster.PinGet"; "Cluster.PinPath"; "Cluster.Pins";
  "Cluster.Recover"; "Cluster.RecoverAll"; "Cluster.RepoGC";
  "Cluster.SendInformerMetric"; "Cluster.SendInformersMetrics"; "Cluster.Alerts";
  "Cluster.Status"; "Cluster.StatusAll"; "Cluster.StatusAllLocal"; "Cluster.StatusLocal";
  "Cluster.Unpin"; "Cluster.UnpinPath";
  "PinTracker.RecoverAll"; "PinTracker.Track"; "PinTracker.Untrack";
  "IPFSConnector.BlockGet"; "IPFSConnector.ConfigKey"; "IPFSConnector.Pin"; "IPFSConnector.PinLs";
  "IPFSConnector.PinLsCid"; "IPFSConnector.Resolve"; "IPFSConnector.Unpin";
  "Consensus.Peers";
  "PeerMonitor.LatestMetrics"; "PeerMonitor.MetricNames"
].

(* the inter-peer API (broadcasts, redirects to the Raft leader, block distribution): trusted peers only *)
Definition trusted_spec : list string := [
  "Cluster.PeerRemove"; "Cluster.Peers"; "Cluster.RecoverAllLocal"; "Cluster.RecoverLocal"; "Cluster.RepoGCLocal";
  "PinTracker.Recover"; "PinTracker.Status"; "PinTracker.StatusAll";
  "IPFSConnector.BlockPut"; "IPFSConnector.RepoStat"; "IPFSConnector.SwarmPeers";
  "Consensus.AddPeer"; "Consensus.LogPin"; "Consensus.LogUnpin"; "Consensus.RmPeer"
].

Fixpoint nodup_str (l : list string) : bool :=
  match l with [] => true | x :: r => negb (mem_str x r) && nodup_str r end.
Definition count_str (s : string) (l : list string) : nat := length (filter (String.eqb s) l).
