(* C06 — tracker part: correspondence (model = implementation after every event, including filtered listings) and the
   boolean form of the property on the implementation's own observations (codes 20..24). Same cases as C05. *)
From V Require Import Base.Common Model.C05_Tracker Model.C05_Check.
Open Scope N_scope.

(* status classes: `Status` says pin_error where `StatusAll` says unexpectedly_unpinned for the same fact *)
Inductive cls := CPinned | CRemote | CSharded | CUnpinned | CError | CPending | COther.
Definition cls_eqb (a b : cls) : bool :=
  match a, b with
  | CPinned, CPinned | CRemote, CRemote | CSharded, CSharded | CUnpinned, CUnpinned | CError, CError
  | CPending, CPending | COther, COther => true
  | _, _ => false end.
Definition class_bits (b : N) : cls :=
  if N.eqb b 16 then CPinned else if N.eqb b 256 then CRemote else if N.eqb b 2048 then CSharded
  else if N.eqb b 128 then CUnpinned else if err_bits b then CError else if pending_bits b then CPending else COther.
Definition class_of (x : status) : cls := class_bits (st_bits x).
Definition entry_class (l : list (N * N)) (c : N) : cls :=
  match aget c l with Some b => class_bits b | None => CUnpinned end.

Fixpoint run_check6 (n : N) (s : st) (l : list (event * obs)) : bool :=
  match l with
  | [] => true
  | (e, o) :: r =>
      match try_steps (fun s' rt => obs_eqb n s' rt o
                         && forallb (fun m => set_eqb pair_eqb (status_all_obs s' (fst m)) (snd m)) (o_masks o))
                      s (step_candidates n e o) with
      | Some s' => run_check6 n s' r
      | None => false
      end
  end.
Definition model_eqb6 (c : cfg) (l : list (event * obs)) : bool := run_check6 (ncid_of c) (init_of c) l.

(* facts known to the script: shared state, and whether the last finished pin/unpin of a cid failed *)
Record sp6 := mk_sp6 { s6_pinset : list (N * tpin); s6_failed : list N; s6_dm : list (N * N); s6_inf : list (N * N * N * N);
                       s6_all : option (list (N * N)) (* previous listing; None before the first observation *) }.

Definition inflight_of (l : list (N * N * N * N)) (c : N) : option (N * N) :=
  match find (fun q => let '(c', _, _, _) := q in N.eqb c' c) l with
  | Some (_, k, d, _) => Some (k, d) | None => None end.
Definition remote_pin (x : sp6) (c : N) : bool :=
  match aget c (s6_pinset x) with Some p => negb (pmeta p) && premote p | None => false end.

(* before this event the listing said unexpectedly_unpinned for c (no operation, pin allocated here, not held as recorded) *)
Definition was_unexp (x : sp6) (c : N) : bool :=
  match s6_all x with
  | Some l => optN_eqb (aget c l) (Some 4096)
  | None => match aget c (s6_pinset x) with
            | Some p => negb (pmeta p) && negb (premote p) && negb (optN_eqb (aget c (s6_dm x)) (Some (mode_code (pdirect p))))
            | None => false end
  end.

Definition sp6_event (x : sp6) (e : event) (o : obs) : sp6 :=
  let fin ps fl := mk_sp6 ps fl (o_daemon o) (o_inflight o) (Some (o_all o)) in
  let setf (c : N) (b : bool) fl := if b then c :: remove_c c fl else remove_c c fl in
  match e with
  | ETrack p => let c := pcid p in
      fin (aput c p (s6_pinset x)) (if pmeta p then s6_failed x else setf c (N.eqb (o_ret o) 1) (s6_failed x))
  | EUntrack c => fin (adel c (s6_pinset x)) (setf c (N.eqb (o_ret o) 1) (s6_failed x))
  | ERecover c => fin (s6_pinset x) (if N.eqb (o_ret o) 1 then setf c true (s6_failed x) else s6_failed x)
  | ERecoverAll ord =>
      (* the cid a failing RecoverAll stopped at is not reported. Its enqueue failed, so its last pin failed: it was in
         error before (already recorded), or it is the unvisited cid whose listing entry turned from
         unexpectedly_unpinned into pin_error *)
      fin (s6_pinset x)
          (if N.eqb (o_ret o) 1
           then filter (fun c => negb (memN c ord) && optN_eqb (aget c (o_all o)) (Some 4) && was_unexp x c)
                       (map fst (o_all o)) ++ s6_failed x
           else s6_failed x)
  | EComplete c fault =>
      fin (s6_pinset x)
          (match inflight_of (s6_inf x) c with
           | None => s6_failed x
           | Some (k, d) =>
               if fault then (if N.eqb k 1 && remote_pin x c then s6_failed x else setf c true (s6_failed x))
               else if N.eqb k 0 && N.eqb d 1 && optN_eqb (aget c (s6_dm x)) (Some 1) then setf c true (s6_failed x)  (* refused *)
               else setf c false (s6_failed x)
           end)
  | EDaemon _ _ => fin (s6_pinset x) (s6_failed x)
  end.

Definition expected (x : sp6) (o : obs) (c : N) : list cls :=
  if memN c (s6_failed x) then
    CError :: (match aget c (s6_pinset x) with Some p => if pmeta p then [CSharded] else [] | None => [] end)
  else match aget c (s6_pinset x) with
       | None => [CUnpinned]
       | Some p => if pmeta p then [CSharded] else if premote p then [CRemote]
                   else if optN_eqb (o_dm o c) (Some (mode_code (pdirect p))) then [CPinned] else [CError]
       end.

Definition in_cls (a : cls) (l : list cls) : bool := existsb (cls_eqb a) l.

Fixpoint spec_walk6 (n : N) (x : sp6) (l : list (event * obs)) : list N :=
  match l with
  | [] => []
  | (e, o) :: r =>
      let x' := sp6_event x e o in
      let q := o_quiescent o in
      (* 20/21: truthful at quiescence, per-cid view and listing *)
      (if q && negb (forallb (fun c => in_cls (class_bits (o_st o c)) (expected x' o c)) (nrange n)) then [20] else [])
      ++ (if q && negb (forallb (fun c => in_cls (entry_class (o_all o) c) (expected x' o c)) (nrange n)) then [21] else [])
      (* 22: the two views agree (always) *)
      ++ (if forallb (fun c => cls_eqb (class_bits (o_st o c)) (entry_class (o_all o) c)) (nrange n) then [] else [22])
      (* 23: a filtered listing is the unfiltered listing restricted to the filter *)
      ++ (if forallb (fun m => set_eqb pair_eqb (filter (fun e => match_ (snd e) (fst m)) (o_all o)) (snd m)) (o_masks o) then [] else [23])
      (* 24: in progress only while a call is in flight for the cid; queued only while some worker is busy *)
      ++ (if forallb (fun c => let b := o_st o c in
                       (if N.eqb b 32 || N.eqb b 64 then match inflight_of (o_inflight o) c with Some _ => true | None => false end else true)
                       && (if N.eqb b 512 || N.eqb b 1024 then match o_inflight o with [] => false | _ => true end else true)) (nrange n)
          then [] else [24])
      ++ spec_walk6 n x' r
  end.

Definition sp6_init (c : cfg) : sp6 :=
  let '(_, _, _, pins, dm) := c in mk_sp6 (map (fun p => (pcid p, p)) pins) [] dm [] None.

Definition spec_codes6 (c : cfg) (l : list (event * obs)) : list N := nodup N.eq_dec (spec_walk6 (ncid_of c) (sp6_init c) l).

Definition check_case (c : case) : list (N * N * N) :=
  let '(id, (cf, l)) := c in
  (if model_eqb6 cf l then [] else [(id, 1, 0)]) ++ map (fun k => (id, k, 0)) (spec_codes6 cf l).

Definition failing (cs : list case) : list (N * N * N) := flat_map check_case cs.
