From Coq Require Import String.
From V Require Import Base.Common Base.Rpc Model.C07_Auth Gen.Policy.
Open Scope string_scope.

(* observed class of an RPC: 0 authorization error, 1 passed authorization *)
Inductive c07case :=
| CAuth (ep : string) (known : bool) (local trusted : bool) (passed : bool)
| CTrust (cfg : crdt_cfg) (h : list top) (p : N) (obs : bool)
| CRaftTrust (p : N) (obs : bool).

Definition open_spec : list string := ["Cluster.ID"; "Cluster.Version"; "Cluster.PeerAdd"].

Definition check_case (c : N * c07case) : list (N * N * N) :=
  let '(id, k) := c in
  match k with
  | CAuth ep known local trusted passed =>
      (if Bool.eqb (call_allowed policy local trusted ep) passed then [] else [(id, 1%N, 0%N)]) ++
      (* the property itself on the observation: an untrusted remote caller passes only on the open endpoints *)
      (if passed && negb local && negb trusted && negb (mem_str ep open_spec) then [(id, 2%N, 0%N)] else [])
  | CTrust cfg h p obs => if Bool.eqb (trust_crdt cfg h p) obs then [] else [(id, 1%N, 0%N)]
  | CRaftTrust p obs => if Bool.eqb (trust_raft p) obs then [] else [(id, 1%N, 0%N)]
  end.

Definition failing (cs : list (N * c07case)) : list (N * N * N) := flat_map check_case cs.
