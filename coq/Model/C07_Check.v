(* C07 — cases written by the harnesses (root package: RPC authorization grid; package crdt: trust histories and
   validated broadcasts). This module adds, to the Gen-independent part of Model/C07_CheckSpec.v, the comparison
   of every observation with the model over the GENERATED tables (code 1). *)
From Coq Require Import String.
From V Require Import Base.Common Base.Rpc Model.C07_Auth Model.C07_Spec Gen.Policy Gen.RPCMethods.
From V Require Export Model.C07_CheckSpec.
Open Scope string_scope.

Definition seteq_str (a b : list string) : bool :=
  forallb (fun x => mem_str x b) a && forallb (fun x => mem_str x a) b.
Definition ept_opt_eqb (a b : option ept) : bool :=
  match a, b with Some x, Some y => ept_eqb x y | None, None => true | _, _ => false end.

(* the model's verdict on one call of a sequence: authF over the generated table with the trust state at the time of the call *)
Definition seq_model_call (caller : N) (ep : string) (mt : tmode) : bool :=
  call_allowed policy (N.eqb caller 0) (trust_of mt caller) ep.

Definition check_case_gen (c : N * c07case) : list (N * N * N) :=
  let '(id, k) := c in
  match k with
  | CAuth m caller ep passed =>
      fail1 id (Bool.eqb (call_allowed policy (N.eqb caller 0) (trust_of m caller) ep) passed)
  | CAuthSeq m caller ep steps =>
      fail1 id (seq_forall (fun mt passed => Bool.eqb (seq_model_call caller ep mt) passed) m steps)
  | CMethods l => fail1 id (seteq_str l rpc_methods && nodup_str l)
  | CPolicy l =>
      fail1 id (forallb (fun e => ept_opt_eqb (lookup (fst e) policy) (Some (snd e))) l
                && forallb (fun e => ept_opt_eqb (lookup (fst e) l) (Some (snd e))) policy)
  | CPolicyValid ok =>
      fail1 id (Bool.eqb ok (forallb (fun m => match lookup m policy with Some _ => true | None => false end) rpc_methods))
  | _ => []
  end.

Definition check_case (c : N * c07case) : list (N * N * N) := (check_case_gen c ++ check_case_spec c)%list.
Definition failing (cs : list (N * c07case)) : list (N * N * N) := flat_map check_case cs.
