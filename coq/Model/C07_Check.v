(* C07 — cases written by the harnesses (root package: RPC authorization grid; package crdt: trust
   histories and validated broadcasts), compared with the model over the GENERATED tables (code 1) and
   checked against the boolean form of the property over the SPECIFICATION tables (code 2). *)
From Coq Require Import String.
From V Require Import Base.Common Base.Rpc Model.C07_Auth Model.C07_Spec Gen.Policy Gen.RPCMethods.
Open Scope string_scope.

(* trust configuration of the called peer. Peer 0 is the called peer itself. *)
Inductive tmode := MRaft | MCrdt (star : bool) (configured : list N) (h : list top).
Definition trust_of (m : tmode) (p : N) : bool :=
  match m with
  | MRaft => trust_raft p
  | MCrdt star l h => trust_crdt (mk_crdt_cfg star 0%N l) h p
  end.

Inductive c07case :=
(* caller (0 = the peer itself through its own client), endpoint, observed: true = anything but an authorization error *)
| CAuth (m : tmode) (caller : N) (ep : string) (passed : bool)
(* endpoints found by reflection on the service objects; the policy map the configuration carries at run time;
   isRPCPolicyValid's verdict on it *)
| CMethods (l : list string)
| CPolicy (l : list (string * ept))
| CPolicyValid (ok : bool)
(* package crdt: IsTrustedPeer(p) for p = 0..len-1 after the history *)
| CTrust (star : bool) (configured : list N) (h : list top) (obs : list bool)
(* package crdt: an update published by `signer` reached (true) the replica whose trust state is (cfg, h) *)
| CDeliver (star : bool) (configured : list N) (h : list top) (signer : N) (arrived : bool).

Definition seteq_str (a b : list string) : bool :=
  forallb (fun x => mem_str x b) a && forallb (fun x => mem_str x a) b.
Definition ept_opt_eqb (a b : option ept) : bool :=
  match a, b with Some x, Some y => ept_eqb x y | None, None => true | _, _ => false end.

Fixpoint seqN (start : N) (n : nat) : list N :=
  match n with O => [] | S k => start :: seqN (N.succ start) k end.

Definition fail1 (id : N) (b : bool) : list (N * N * N) := if b then [] else [(id, 1%N, 0%N)].
Definition fail2 (id : N) (b : bool) : list (N * N * N) := if b then [] else [(id, 2%N, 0%N)].

Definition check_case (c : N * c07case) : list (N * N * N) :=
  let '(id, k) := c in
  match k with
  | CAuth m caller ep passed =>
      let local := N.eqb caller 0 in
      (fail1 id (Bool.eqb (call_allowed policy local (trust_of m caller) ep) passed) ++
      (* the property on the observation: a remote caller that is let in is calling an open endpoint, or is
         trusted and calling an endpoint that is not local-only *)
      fail2 id (negb passed || local || mem_str ep open_spec
                || (trust_of m caller && negb (mem_str ep local_only_spec))))%list
  | CMethods l => fail1 id (seteq_str l rpc_methods && nodup_str l)
  | CPolicy l =>
      fail1 id (forallb (fun e => ept_opt_eqb (lookup (fst e) policy) (Some (snd e))) l
                && forallb (fun e => ept_opt_eqb (lookup (fst e) l) (Some (snd e))) policy)
  | CPolicyValid ok =>
      fail1 id (Bool.eqb ok (forallb (fun m => match lookup m policy with Some _ => true | None => false end) rpc_methods))
  | CTrust star l h obs =>
      fail1 id (list_eqb Bool.eqb (map (trust_crdt (mk_crdt_cfg star 0%N l) h) (seqN 0 (length obs))) obs)
  | CDeliver star l h signer arrived =>
      (fail1 id (Bool.eqb (validator (mk_crdt_cfg star 0%N l) h signer) arrived) ++
       fail2 id (negb arrived || trust_crdt (mk_crdt_cfg star 0%N l) h signer))%list
  end.

Definition failing (cs : list (N * c07case)) : list (N * N * N) := flat_map check_case cs.
