(* C14 — state/dsstate/datastore.go (Marshal, Unmarshal, Add, List), consensus/raft (SnapshotSave, OfflineState over the
   directory model of C14_Backup.v) and cmdutils/state.go (exportState, importState, the raft and crdt state managers)
   at the level of pinsets. Definitions only.

   A pin is (cid, (content, origins)): `content` identifies every field of the stored pin other than its CID (the
   harness numbers the canonical field-by-field renderings), `origins` is the length of its origin list. The per-pin
   codecs are libraries plus api/types.go (property C08); at this level their only visible behaviour is whether a line
   decodes: encoding/json cannot decode a pin with a non-empty origin list (S19), anything else decodes to itself. *)
From V Require Import Base.Common Model.C14_Backup.
From Coq Require Import Permutation.
Local Open Scope N_scope.

Definition pinv := (N * N)%type.                       (* content, number of origins *)
Definition entry := (N * pinv)%type.                   (* cid, pin *)
Definition pstate := list entry.                       (* the datastore below the state's namespace: one value per key *)

Definition put (e : entry) (s : pstate) : pstate := aput (fst e) (snd e) s.          (* State.Add / ds.Put: replaces *)

(* State.Marshal: one serialEntry per query result; the query order is the datastore's (any order: `ord`) *)
Definition marshal (ord : pstate -> list entry) (s : pstate) : list entry := ord s.
(* State.Unmarshal, as written: every decoded entry is Put; the store is not emptied first *)
Definition unmarshal (es : list entry) (s0 : pstate) : pstate := fold_left (fun s e => put e s) es s0.

(* a Raft snapshot's payload is the marshalled stream *)
Definition snapshot := list entry.

(* raft.OfflineState(cfg, store): LastStateRaw, then Unmarshal onto the given store *)
Definition offline_state (d : dir snapshot) (store0 : pstate) : pstate :=
  match last_state_raw d with Some es => unmarshal es store0 | None => store0 end.

(* ---- cmdutils: the JSON stream ---- *)
Inductive jline := JPin (e : entry) | JBad.             (* JBad: not a JSON pin object *)
Definition decodable (e : entry) : bool := N.eqb (snd (snd e)) 0.

(* exportState: List, then one JSON object per pin *)
Definition export (ord : pstate -> list entry) (s : pstate) : list jline := map JPin (ord s).

(* importState: decode and Add until EOF; the first error aborts *)
Fixpoint import_lines (ls : list jline) (s : pstate) : option pstate :=
  match ls with
  | [] => Some s
  | JBad :: _ => None
  | JPin e :: r => if decodable e then import_lines r (put e s) else None
  end.

(* raftStateManager.ExportState / ImportState (Clean; OfflineState on an in-memory store; importState; SnapshotSave).
   A failed import returns after the Clean: the previous data is in the backups, the live state is empty. *)
Definition raft_export (ord : pstate -> list entry) (d : dir snapshot) : list jline := export ord (offline_state d []).
Inductive imp_res := ImpOk | ImpErr | ImpCrash.

Definition raft_import (keep : nat) (ord : pstate -> list entry) (ls : list jline) (d : dir snapshot) : dir snapshot * imp_res :=
  let d1 := cleanup keep d in
  match import_lines ls (offline_state d1 []) with
  | None => (d1, ImpErr)
  | Some st => (snapshot_save keep (marshal ord st) d1, ImpOk)
  end.

(* crdtStateManager.ImportState: crdt.Clean on the store, an offline batching state, importState, Commit - the Commit only
   when importState added at least one pin (fix-S33: an empty batch is not committed; the cleaned store is the result).
   Without the Commit nothing of the batch is written: a failed import leaves the cleaned (empty) store. *)
Definition crdt_import (ls : list jline) (s : pstate) : pstate * imp_res :=
  match import_lines ls [] with
  | None => ([], ImpErr)
  | Some st => (st, ImpOk)
  end.
(* the code before fix-S33: an empty stream reached Commit with nothing batched, and go-ds-crdt v0.1.21 dereferences its nil
   current delta there (publishDelta -> addDAGNode): the process died after the Clean *)
Definition crdt_import_before_fix (ls : list jline) (s : pstate) : pstate * imp_res :=
  match import_lines ls [] with
  | None => ([], ImpErr)
  | Some st => match ls with [] => ([], ImpCrash) | _ => (st, ImpOk) end
  end.

(* two stores hold the same pinset *)
Definition same_pinset (a b : pstate) : Prop := forall c, aget c a = aget c b.

(* vocabulary of the statements: a store holds one value per key; the datastore's query order is any permutation;
   no pin of the pinset carries origins (the guard of S19) *)
Definition keys_nodup (s : pstate) : Prop := NoDup (map fst s).
Definition order_oracle (ord : pstate -> list entry) : Prop := forall s, Permutation (ord s) s.
Definition no_origins (s : pstate) : Prop := forallb decodable s = true.

(* canonical listing for comparisons: sorted by cid *)
Fixpoint ins_entry (e : entry) (l : list entry) : list entry :=
  match l with [] => [e] | x :: r => if fst e <=? fst x then e :: l else x :: ins_entry e r end.
Definition sorted_entries (s : pstate) : list entry := fold_right ins_entry [] s.
