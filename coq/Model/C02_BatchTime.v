(* C02 layer A with time — consensus/crdt/consensus.go batchWorker and its `time.Timer`, as an event machine with an
   explicit clock. Definitions only.

   The untimed machine of Model/C02_Batch.v says *that* the timer is armed; this one also says *for when*:
   `batchTimer.Reset(maxAge)` sets the expiry to (now + maxAge), the runtime can fire the timer only when the clock has
   reached the expiry (`Fire` before that is not enabled and changes nothing), and the clock only moves with `Tick`.
   The worker is transcribed again, call by call, next to the clock (it does not call `bstep`); Proofs/C02_BatchTime.v
   shows that forgetting the clock gives exactly `bstep`, so every theorem of the untimed machine holds here too.

   Where the code calls Reset:
     * `if batchCurSize == 0 { batchTimer.Reset(maxAge) }` on a dequeued item (the first item of a batch, and again for
       the next item when the Add/Rm of that first item failed, because the counter is still 0);
     * after a failed age-limit commit (fix 051502e; `fixed_S2`).
   `reset_every_item = true` is NOT the code: it is the variant that re-arms the timer on every dequeued item (the batch
   age is then measured from the newest operation); it exists only to show that the age bound distinguishes the two.

   Ghost fields (never read by the control flow): when each pending item was taken, when a failed age-limit commit
   re-armed the timer for the pending batch, when the timer fired into the empty channel. *)
From V Require Import Base.Common Model.C02_Batch.
Open Scope N_scope.

Record tinfo := mk_ti {
  now : N;                 (* the clock *)
  twhen : N;               (* expiry set by the last Reset (meaningful while the timer is active) *)
  ptimes : list N;         (* ghost: clock at the Take of each item of `pend` *)
  rearm : option N;        (* ghost: clock at the last failed age-limit commit since the batch got its first item *)
  fired_at : N }.          (* ghost: clock when the value now in the timer channel was sent *)

Record tbst (A : Type) := mk_tbst { core : bst A; ti : tinfo }.
Arguments mk_tbst {A}. Arguments core {A}. Arguments ti {A}.

Record tcfg := mk_tcfg { tc : bcfg; maxage : N; reset_every_item : bool }.

Inductive cev (A : Type) :=
| Tick (dt : N)            (* time passes *)
| Ev (e : bev A).          (* an event of the untimed machine, taking no time *)
Arguments Tick {A}. Arguments Ev {A}.

Definition tinit {A} : tbst A := mk_tbst binit (mk_ti 0 0 [] None 0).

(* the runtime may fire the timer: it is active and its expiry has been reached *)
Definition fire_enabled {A} (s : tbst A) : bool := t_active (tm (core s)) && (twhen (ti s) <=? now (ti s)).

Definition tstep {A} (c : tcfg) (s : tbst A) (te : cev A) : tbst A :=
  let b := core s in
  let i := ti s in
  match te with
  | Tick dt => mk_tbst b (mk_ti (now i + dt) (twhen i) (ptimes i) (rearm i) (fired_at i))
  | Ev (Enq it) =>
      if N.of_nat (length (queue b)) <? qcap (tc c)
      then mk_tbst (mk_bst (queue b ++ [it]) (cur b) (tm b) (pend b) (committed b) (tlog b) (pc b) (blocked b) (accepted b ++ [it]) (refused b)) i
      else mk_tbst (mk_bst (queue b) (cur b) (tm b) (pend b) (committed b) (tlog b) (pc b) (blocked b) (accepted b) (refused b ++ [it])) i
  | Ev Fire =>
      if fire_enabled s
      then mk_tbst (mk_bst (queue b) (cur b) (t_fire (tm b)) (pend b) (committed b) (tlog b) (pc b) (blocked b) (accepted b) (refused b))
                   (mk_ti (now i) (twhen i) (ptimes i) (rearm i) (if t_chan (tm b) then fired_at i else now i))
      else s
  | Ev (Take add_ok) =>
      if blocked b then s else
      match pc b, queue b with
      | PIdle, it :: q =>
          let first := cur b =? 0 in
          let re := first || reset_every_item c in
          let t1 := if re then t_reset (tm b) else tm b in               (* batchTimer.Reset(maxAge) *)
          let w1 := if re then now i + maxage c else twhen i in
          let r1 := if first then None else rearm i in
          if add_ok then
            let c1 := cur b + 1 in
            mk_tbst (mk_bst q c1 t1 (pend b ++ [it]) (committed b) (tlog b ++ [(it, true)])
                            (if c1 <? maxsize (tc c) then PIdle else PCommit) false (accepted b) (refused b))
                    (mk_ti (now i) w1 (ptimes i ++ [now i]) r1 (fired_at i))
          else mk_tbst (mk_bst q (cur b) t1 (pend b) (committed b) (tlog b ++ [(it, false)]) PIdle false (accepted b) (refused b))
                       (mk_ti (now i) w1 (ptimes i) r1 (fired_at i))
      | _, _ => s
      end
  | Ev (SizeCommit ok) =>
      if blocked b then s else
      match pc b with
      | PCommit =>
          if ok then
            let '(t2, blk) := t_stop_drain (tm b) in
            mk_tbst (mk_bst (queue b) (if blk then cur b else 0) t2 [] (committed b ++ [pend b]) (tlog b) PIdle blk (accepted b) (refused b))
                    (mk_ti (now i) (twhen i) [] None (fired_at i))
          else mk_tbst (mk_bst (queue b) (cur b) (tm b) (pend b) (committed b) (tlog b) PIdle false (accepted b) (refused b)) i
      | PIdle => s
      end
  | Ev (OnTimer ok) =>
      if blocked b then s else
      match pc b with
      | PIdle =>
          if t_chan (tm b) then
            let t1 := t_recv (tm b) in
            if fixed_S28 (tc c) && (cur b =? 0)
            then mk_tbst (mk_bst (queue b) (cur b) t1 (pend b) (committed b) (tlog b) PIdle false (accepted b) (refused b)) i
            else
            if ok then mk_tbst (mk_bst (queue b) 0 t1 [] (committed b ++ [pend b]) (tlog b) PIdle false (accepted b) (refused b))
                               (mk_ti (now i) (twhen i) [] None (fired_at i))
            else if fixed_S2 (tc c)
                 then mk_tbst (mk_bst (queue b) (cur b) (t_reset t1) (pend b) (committed b) (tlog b) PIdle false (accepted b) (refused b))
                              (mk_ti (now i) (now i + maxage c) (ptimes i) (Some (now i)) (fired_at i))
                 else mk_tbst (mk_bst (queue b) (cur b) t1 (pend b) (committed b) (tlog b) PIdle false (accepted b) (refused b)) i
          else s
      | PCommit => s
      end
  | Ev (Reject it) =>
      mk_tbst (mk_bst (queue b) (cur b) (tm b) (pend b) (committed b) (tlog b) (pc b) (blocked b) (accepted b) (refused b ++ [it])) i
  | Ev (StopCommit ok) =>
      if blocked b then s else
      match pc b, queue b with
      | PIdle, [] =>
          if fixed_S35 (tc c) && (0 <? cur b) && ok
          then mk_tbst (mk_bst [] 0 (tm b) [] (committed b ++ [pend b]) (tlog b) PIdle false (accepted b) (refused b))
                       (mk_ti (now i) (twhen i) [] None (fired_at i))
          else s
      | _, _ => s
      end
  end.

Definition trun_from {A} (c : tcfg) (s : tbst A) (tes : list (cev A)) : tbst A := fold_left (tstep c) tes s.
Definition trun {A} (c : tcfg) (tes : list (cev A)) : tbst A := trun_from c tinit tes.

(* the instant the age of the pending batch is counted from: the Take of its first item, or the last failed
   age-limit commit after that *)
Definition age_anchor {A} (s : tbst A) : N :=
  match rearm (ti s) with
  | Some r => r
  | None => match ptimes (ti s) with t :: _ => t | [] => now (ti s) end
  end.

(* A schedule is timely (latencies lf, lw) when the clock never passes the expiry of a running timer by more than lf
   (the runtime fires it in time) nor the instant of a fire by more than lw without the worker reading the channel
   (the worker is scheduled in time). This is the assumption on the Go runtime under which an age bound can hold at all. *)
Definition timely_st {A} (lf lw : N) (s : tbst A) : bool :=
  (negb (t_active (tm (core s))) || (now (ti s) <=? twhen (ti s) + lf))
  && (negb (t_chan (tm (core s))) || (now (ti s) <=? fired_at (ti s) + lw)).

Fixpoint timely_from {A} (lf lw : N) (c : tcfg) (s : tbst A) (tes : list (cev A)) : bool :=
  timely_st lf lw s && match tes with [] => true | e :: r => timely_from lf lw c (tstep c s e) r end.
