(* C08 — the repository's own equality of pins and pin options, as written (after the S4 repair):
   api/types.go: PinOptions.Equals, Pin.Equals; api/util.go: PeersToStrings. Definitions only. *)
From V Require Import Base.Common Base.C08_Str Model.C08_Codec.
Open Scope string_scope.
Open Scope list_scope.
Open Scope Z_scope.

(* time.Time.Equal: same instant *)
Definition time_equal (a b : time) : bool :=
  match a, b with
  | None, None => true
  | Some x, Some y => (fst x =? fst y) && (snd x =? snd y)%N
  | _, _ => false end.

(* sort.Strings(PeersToStrings(l)); strings.Join(_, ",") *)
Definition peers_key (l : list tok) : string := join_with "," (ssort (map tok_str l)).

(* PinOptions.Equals on two distinct non-nil receivers *)
Definition opts_equal (a b : opts) : bool :=
  String.eqb (name a) (name b)
  && (mode a =? mode b)
  && (rmax a =? rmax b)
  && (rmin a =? rmin b)
  && (shard_size a =? shard_size b)%N
  && Nat.eqb (length (user_allocs a)) (length (user_allocs b))
  && String.eqb (peers_key (user_allocs a)) (peers_key (user_allocs b))
  && time_equal (expire a) (expire b)
  (* for k, v := range po.Metadata { v2, ok := po2.Metadata[k]; if k != "" && (!ok || v != v2) { return false } } *)
  && forallb (fun kv => String.eqb (fst kv) "" ||
                        match slookup (fst kv) (metadata b) with Some v2 => String.eqb (snd kv) v2 | None => false end) (metadata a)
  (* for k := range po2.Metadata { if _, ok := po.Metadata[k]; k != "" && !ok { return false } } *)
  && forallb (fun kv => String.eqb (fst kv) "" ||
                        match slookup (fst kv) (metadata a) with Some _ => true | None => false end) (metadata b)
  (* PinUpdate deliberately ignored *)
  && Nat.eqb (length (origins a)) (length (origins b))
  && forallb (fun o1 => existsb (String.eqb o1) (origins b)) (origins a)
  (* for _, o2 := range po2.Origins { found in po.Origins } : the other direction (repair of the one-way comparison) *)
  && forallb (fun o2 => existsb (String.eqb o2) (origins a)) (origins b).

(* po.Equals(po2) with possibly nil receivers; [same]: the two are the same pointer *)
Definition opts_equals (same : bool) (a b : option opts) : bool :=
  match a, b with
  | Some x, Some y => if same then false else opts_equal x y
  | _, _ => false
  end.

Definition ref_equal (a b : option cid) : bool :=
  match a, b with
  | None, None => true
  | Some x, Some y => match x, y with Some s, Some t => String.eqb s t | None, None => true | _, _ => false end
  | _, _ => false end.

(* Pin.Equals on two non-nil receivers; [same]: the same pointer *)
Definition pin_equals (same : bool) (p q : pin) : bool :=
  if same then false
  else match pcid p, pcid q with Some s, Some t => String.eqb s t | None, None => true | _, _ => false end
       && (ptype p =? ptype q)%N
       && (maxdepth p =? maxdepth q)
       && ref_equal (reference p) (reference q)
       && String.eqb (peers_key (allocs p)) (peers_key (allocs q))
       && opts_equal (popts p) (popts q).

(* ---- what "equal" is supposed to mean (the specification the callers rely on) ---- *)
Fixpoint scount (x : string) (l : list string) : nat :=
  match l with [] => O | y :: r => (if String.eqb x y then 1 else 0) + scount x r end.
(* same multiset of strings *)
Definition smultiset_eqb (a b : list string) : bool :=
  forallb (fun x => Nat.eqb (scount x a) (scount x b)) (a ++ b).

Definition meta_sameb (a b : list (string * string)) : bool :=
  forallb (fun kv => String.eqb (fst kv) "" || match slookup (fst kv) b with Some v => String.eqb (snd kv) v | None => false end) a
  && forallb (fun kv => String.eqb (fst kv) "" || match slookup (fst kv) a with Some v => String.eqb (snd kv) v | None => false end) b.

Definition opts_sameb (a b : opts) : bool :=
  String.eqb (name a) (name b) && (mode a =? mode b) && (rmax a =? rmax b) && (rmin a =? rmin b)
  && (shard_size a =? shard_size b)%N
  && smultiset_eqb (map tok_str (user_allocs a)) (map tok_str (user_allocs b))
  && time_equal (expire a) (expire b)
  && meta_sameb (metadata a) (metadata b)
  && smultiset_eqb (origins a) (origins b).

Definition pin_sameb (p q : pin) : bool :=
  match pcid p, pcid q with Some s, Some t => String.eqb s t | None, None => true | _, _ => false end
  && (ptype p =? ptype q)%N && (maxdepth p =? maxdepth q) && ref_equal (reference p) (reference q)
  && smultiset_eqb (map tok_str (allocs p)) (map tok_str (allocs q))
  && opts_sameb (popts p) (popts q).

(* values on which the string-based comparisons are meaningful: valid peer IDs (their text has no "," and is not empty),
   metadata keys distinct (a Go map), no origin listed twice *)
Definition plain_tok (t : tok) : bool :=
  match t with TOk s => negb (String.eqb s "") && negb (has_char comma s) | _ => false end.
Definition wf_eq_opts (o : opts) : bool :=
  forallb plain_tok (user_allocs o) && snodup (skeys (metadata o)) && snodup (origins o).
Definition wf_eq_pin (p : pin) : bool := forallb plain_tok (allocs p) && wf_eq_opts (popts p).
