(* C15 — generic interpreter of the per-section configuration tables (Gen/ConfigSchemas.v).
   Definitions only. Mirrors, for every component `config.go`:
     LoadJSON      = json.Unmarshal ; Default() ; applyJSONConfig  (= field rules ; Validate)
     ToJSON        = toJSONConfig ; json.Marshal (omitempty)
     ToDisplayJSON = config.DisplayJSON (config/util.go:126): omitempty dropped, top-level hidden-tagged fields replaced
     ApplyEnvVars  = toJSONConfig ; envconfig.Process ; applyJSONConfig (on the CURRENT values, not the defaults)
   Parsers of the libraries (time.ParseDuration, multiaddr, peer ID, hex secret, keys) are abstract:
   the input value already says whether the field's parser accepts the text and, if so, its canonical
   rendering (durations: nanoseconds). Floats are integers in units of 1e-6. *)
From Coq Require Import String Ascii List ZArith Bool NArith.
Import ListNotations.
Open Scope string_scope.

Inductive val :=
| VNone                            (* absent key, JSON null, nil *)
| VB (b : bool)
| VZ (z : Z)                       (* integers; durations in ns; floats in 1e-6 *)
| VS (s : string)                  (* plain strings; accepted tokens in canonical form *)
| VL (l : list string)             (* string lists; maps as sorted "k=v" lists *)
| VTL (l : list (option string))   (* input only: list whose elements the parser accepts (Some canonical) or not (None) *)
| VBad                             (* input only: a non-empty string the field's parser rejects *)
| VWrong.                          (* input only: a JSON value of the wrong type for the field *)

Inductive kind := KBool | KInt | KFloat | KStr | KDur | KTok | KList | KMap | KGroup.

Inductive lrule :=
| LAlways                          (* cfg.X = jcfg.X *)
| LIfNonZero                       (* config.SetIfNotDefault, `if j == 0 {default} else {j}`, `if len(j) > 0` *)
| LMergeNonZero                    (* through mergo.Merge(..., WithOverride): zero values are skipped *)
| LPtrIfNonNil                     (* `if jcfg.X != nil { cfg.X = *jcfg.X }` *)
| LDurIfNonEmpty                   (* config.ParseDurations, error returned *)
| LDurIgnoreErr                    (* raft: parse error -> 0, then SetIfNotDefault *)
| LDurSoft (g : N)                 (* config.ParseDurations whose error is discarded (crdt): stops at the first malformed one of group g *)
| LDurZeroOnErr                    (* `t, _ := time.ParseDuration(j); cfg.X = t` *)
| LDurEmptyZero                    (* "" replaced by "0s", then ParseDurations *)
| LParseAlways (empty_ok : bool)   (* `x, err := parse(j); if err != nil { return err }; cfg.X = x` *)
| LParseIfNonEmpty                 (* `if j != "" { parse ... }` *)
| LParseListAlways                 (* every element parsed, result always assigned *)
| LParseListIfNonEmpty             (* `if len(j) > 0 { parse every element }` *)
| LParseListSkipBad                (* api.StringsToPeers: undecodable elements are dropped, result always assigned *)
| LEnum (allowed : list string)    (* switch over literal strings, default: error *)
| LNever                           (* the JSON field is never read *)
| LGroup                           (* a pointer-to-struct member: only its presence matters *)
| LIfParent (p : string) (inner : lrule) (reset : val)  (* inside `if jcfg.P != nil { cfg.G = T{...} ... }` *)
| LCustom (id : string).           (* hand-transcribed, pinned by a hash of its source text *)

Inductive srule :=
| SAlways
| SOmitIfDefault (d : val)         (* `if cfg.X != DefaultX { jcfg.X = cfg.X }` *)
| SNever
| SGroup
| SCustom (id : string).

Record field := mkField {
  fname : string;        (* JSON path, nested members joined with "." *)
  fkind : kind;
  fomit : bool;          (* omitempty *)
  fhidden : bool;        (* hidden:"true" *)
  fload : lrule;
  fsave : srule;
  fdef : val;            (* value after Default() *)
  fcfg_l : string;       (* Config member written by the load rule *)
  fcfg_s : string        (* Config member read by the save rule *)
}.

Record schema := mkSchema {
  sname : string;
  sfields : list field;
  svalidates : bool;         (* apply function ends with `return cfg.Validate()` *)
  svalid_hash : string;      (* hash of the source text of Validate and its helpers *)
  scustom_hashes : list (string * string);  (* custom rule id -> hash of the statements it stands for *)
  senv : string              (* envconfig prefix *)
}.

Definition json := list (string * val).
Definition cfg := list val.            (* positional, aligned with sfields *)

Fixpoint jget (k : string) (j : json) : option val :=
  match j with [] => None | (k', v) :: r => if String.eqb k k' then Some v else jget k r end.
Definition jin (o : option val) : val := match o with None => VNone | Some v => v end.
Definition jval (k : string) (j : json) : val := jin (jget k j).
Definition jhas (k : string) (j : json) : bool :=
  match jget k j with None | Some VNone => false | Some _ => true end.

Fixpoint list_beq {A} (e : A -> A -> bool) (a b : list A) : bool :=
  match a, b with [], [] => true | x :: xs, y :: ys => e x y && list_beq e xs ys | _, _ => false end.
Definition ostr_eqb (a b : option string) : bool :=
  match a, b with Some x, Some y => String.eqb x y | None, None => true | _, _ => false end.
Definition val_eqb (a b : val) : bool :=
  match a, b with
  | VNone, VNone | VBad, VBad | VWrong, VWrong => true
  | VB x, VB y => Bool.eqb x y
  | VZ x, VZ y => Z.eqb x y
  | VS x, VS y => String.eqb x y
  | VL x, VL y => list_beq String.eqb x y
  | VTL x, VTL y => list_beq ostr_eqb x y
  | _, _ => false end.

Definition is_zero (v : val) : bool :=
  match v with VNone | VB false | VZ 0%Z | VS "" | VL [] | VTL [] => true | _ => false end.
Definition zero_of (k : kind) : val :=
  match k with KBool => VB false | KInt | KFloat | KDur => VZ 0 | KStr | KTok => VS "" | KList => VL [] | KMap | KGroup => VNone end.

(* what json.Unmarshal accepts for a member of this kind (after the harness classified strings by the member's parser) *)
Definition well_typed (k : kind) (v : val) : bool :=
  match v, k with
  | VNone, _ => true
  | VB _, KBool => true
  | VZ _, (KInt | KFloat | KDur) => true
  | VS _, (KStr | KTok) => true
  | VS "", KDur => true
  | VBad, (KDur | KTok) => true
  | (VL _ | VTL _), KList => true
  | VL _, KMap => true
  | VB true, KGroup => true
  | _, _ => false end.

(* a value a loaded configuration can hold *)
Definition cfg_typed (k : kind) (v : val) : bool :=
  match v, k with
  | VB _, KBool => true
  | VZ _, (KInt | KFloat | KDur) => true
  | VS _, (KStr | KTok) => true
  | VL _, (KList | KMap) => true
  | VNone, (KMap | KGroup) => true
  | _, _ => false end.

Fixpoint all_some (l : list (option string)) : option (list string) :=
  match l with [] => Some [] | Some x :: r => option_map (cons x) (all_some r) | None :: _ => None end.
Fixpoint keep_some (l : list (option string)) : list string :=
  match l with [] => [] | Some x :: r => x :: keep_some r | None :: r => keep_some r end.
Definition norm_list (v : val) : option (list string) :=
  match v with VL l => Some l | VTL l => all_some l | VNone => Some [] | _ => None end.

(* crdt trusted_peers: the scan stops at the first "*" (TrustAll, rendered ["*"]); an undecodable ID before it is an error *)
Definition is_star_list (q : list string) : bool := match q with [x] => String.eqb x "*" | _ => false end.
Fixpoint star_scan (l : list (option string)) : option (list string) :=
  match l with
  | [] => Some []
  | Some p :: r => if String.eqb p "*" then Some ["*"]
                   else match star_scan r with
                        | Some q => if is_star_list q then Some ["*"] else Some (p :: q)
                        | None => None end
  | None :: _ => None end.
Definition as_tl (v : val) : option (list (option string)) :=
  match v with VL l => Some (map Some l) | VTL l => Some l | VNone => Some [] | _ => None end.

Definition custom_load (id : string) (k : kind) (cur v : val) : option val :=
  if String.eqb id "crdt.trusted_peers" then
    match as_tl v with Some l => option_map VL (star_scan l) | None => None end
  else if String.eqb id "restapi.ssl_cert_file" || String.eqb id "restapi.ssl_key_file" then
    (* cfg.pathSSL*File = jcfg.SSL*File; whether the pair loads is an oracle used by the validator *)
    match v with VNone => Some (VS "") | VS s => Some (VS s) | _ => None end
  else None.

Fixpoint apply_rule (r : lrule) (k : kind) (pp : string -> bool) (cur v : val) : option val :=
  match r with
  | LAlways =>
      match k, v with
      | _, VNone => Some (zero_of k)
      | KList, _ => option_map VL (norm_list v)
      | _, (VBad | VWrong | VTL _) => None
      | _, _ => Some v end
  | LIfNonZero | LMergeNonZero =>
      match k, v with
      | KList, _ => match norm_list v with Some [] => Some cur | Some l => Some (VL l) | None => None end
      | _, (VBad | VWrong | VTL _) => None
      | _, _ => if is_zero v then Some cur else Some v end
  | LPtrIfNonNil => match v with VNone => Some cur | VBad | VWrong | VTL _ => None | _ => Some v end
  | LDurIfNonEmpty => match v with VNone | VS "" => Some cur | VZ d => Some (VZ d) | _ => None end
  | LDurIgnoreErr => match v with VNone | VS "" | VBad => Some cur | VZ d => if Z.eqb d 0 then Some cur else Some (VZ d) | _ => None end
  | LDurSoft _ => match v with VNone | VS "" | VBad => Some cur | VZ d => Some (VZ d) | _ => None end
  | LDurZeroOnErr => match v with VNone | VS "" | VBad => Some (VZ 0) | VZ d => Some (VZ d) | _ => None end
  | LDurEmptyZero => match v with VNone | VS "" => Some (VZ 0) | VZ d => Some (VZ d) | _ => None end
  | LParseAlways eo => match v with VNone | VS "" => if eo then Some (VS "") else None | VS c => Some (VS c) | _ => None end
  | LParseIfNonEmpty => match v with VNone | VS "" => Some cur | VS c => Some (VS c) | _ => None end
  | LParseListAlways => option_map VL (norm_list v)
  | LParseListSkipBad => match v with VL l => Some (VL l) | VTL l => Some (VL (keep_some l)) | VNone => Some (VL []) | _ => None end
  | LParseListIfNonEmpty => match norm_list v with Some [] => Some cur | Some l => Some (VL l) | None => None end
  | LEnum allowed =>
      let s := match v with VS s => Some s | VNone => Some "" | _ => None end in
      match s with Some s => if existsb (String.eqb s) allowed then Some (VS s) else None | None => None end
  | LNever => Some cur
  | LGroup => Some VNone
  | LIfParent p inner reset => if pp p then apply_rule inner k pp reset v else Some cur
  | LCustom id => custom_load id k cur v
  end.

Definition memNb (x : N) (l : list N) : bool := existsb (N.eqb x) l.
Definition is_bad (v : val) : bool := match v with VBad => true | _ => false end.

(* the discarded-error ParseDurations group: once one member is malformed the later ones are not looked at *)
Definition soft_group (r : lrule) : option N := match r with LDurSoft g => Some g | _ => None end.

Fixpoint apply_fields (fs : list field) (base : cfg) (j : json) (ab : list N) : option cfg :=
  match fs, base with
  | [], _ => Some []
  | f :: r, cur :: br =>
      let v := jval (fname f) j in
      match soft_group (fload f) with
      | Some g =>
          if memNb g ab then option_map (cons cur) (apply_fields r br j ab)
          else if is_bad v then option_map (cons cur) (apply_fields r br j (g :: ab))
          else match apply_rule (fload f) (fkind f) (fun p => jhas p j) cur v with
               | Some x => option_map (cons x) (apply_fields r br j ab)
               | None => None end
      | None =>
          match apply_rule (fload f) (fkind f) (fun p => jhas p j) cur v with
          | Some x => option_map (cons x) (apply_fields r br j ab)
          | None => None end
      end
  | _ :: _, [] => None
  end.

Definition typed_ok (S : schema) (j : json) : bool :=
  forallb (fun f => well_typed (fkind f) (jval (fname f) j)) (sfields S).

Definition defaults (S : schema) : cfg := map fdef (sfields S).

Fixpoint cget_from (fs : list field) (c : cfg) (n : string) : val :=
  match fs, c with
  | f :: r, v :: cr => if String.eqb n (fname f) then v else cget_from r cr n
  | _, _ => VNone end.
Definition cget (S : schema) (c : cfg) (n : string) : val := cget_from (sfields S) c n.

(* a validator: oracle for external outcomes (does the TLS pair load, does the ID match the key) -> member access -> ok *)
Definition validator := (string -> bool) -> (string -> val) -> bool.

Definition apply_json (S : schema) (V : validator) (orc : string -> bool) (base : cfg) (j : json) : option cfg :=
  if negb (typed_ok S j) then None
  else match apply_fields (sfields S) base j [] with
       | Some c => if V orc (cget S c) then Some c else None
       | None => None end.

Definition load (S : schema) (V : validator) (orc : string -> bool) (j : json) : option cfg :=
  apply_json S V orc (defaults S) j.

Definition is_dur (k : kind) : bool := match k with KDur => true | _ => false end.
Definition omitted (f : field) (v : val) : bool := fomit f && is_zero v && negb (is_dur (fkind f)).

Definition save_field (f : field) (v : val) : json :=
  match fsave f with
  | SNever => []
  | SGroup => [(fname f, VB true)]
  | SAlways | SCustom _ => if omitted f v then [] else [(fname f, v)]
  | SOmitIfDefault d => if val_eqb v d then [] else if omitted f v then [] else [(fname f, v)]
  end.

Fixpoint save_fields (fs : list field) (c : cfg) : json :=
  match fs, c with f :: r, v :: cr => (save_field f v ++ save_fields r cr)%list | _, _ => [] end.
Definition save (S : schema) (c : cfg) : json := save_fields (sfields S) c.

(* DisplayJSON: marshal, re-read into a copy of the struct whose hidden-tagged TOP-LEVEL members have a type
   that always prints the marker, with omitempty removed *)
Definition hidden_marker := VS "XXX_hidden_XXX".
Definition top_level (n : string) : bool := negb (existsb (fun c => Ascii.eqb c "."%char) (list_ascii_of_string n)).
Definition display_field (f : field) (v : val) : json :=
  if fhidden f && top_level (fname f) then [(fname f, hidden_marker)]
  else match fsave f with
       | SNever => [(fname f, zero_of (fkind f))]
       | SGroup => [(fname f, VB true)]
       | SOmitIfDefault d => if val_eqb v d then [(fname f, zero_of (fkind f))] else [(fname f, v)]
       | _ => [(fname f, v)] end.
Fixpoint display_fields (fs : list field) (c : cfg) : json :=
  match fs, c with f :: r, v :: cr => (display_field f v ++ display_fields r cr)%list | _, _ => [] end.
Definition display (S : schema) (c : cfg) : json := display_fields (sfields S) c.

(* ApplyEnvVars: the saved form of the current configuration, overridden member by member by the environment,
   applied to the current configuration *)
Fixpoint override (j env : json) : json :=
  match env with [] => j | (k, v) :: r => (k, v) :: override j r end.
Definition apply_env (S : schema) (V : validator) (orc : string -> bool) (c : cfg) (env : json) : option cfg :=
  apply_json S V orc c (override (save S c) env).

(* ------------------------------------------------------------------------------------------------
   Well-formed documents, settings, and the table obligations (boolean, evaluated on the generated tables)
   ------------------------------------------------------------------------------------------------ *)
Definition wf_val (v : val) : bool :=
  match v with
  | VBad | VWrong => false
  | VTL l => forallb (fun o => match o with Some _ => true | None => false end) l
  | _ => true end.
(* every member the section knows holds a well-formed value of its type *)
Definition wf_doc (S : schema) (j : json) : bool :=
  forallb (fun f => wf_val (jval (fname f) j) && well_typed (fkind f) (jval (fname f) j)) (sfields S).

Definition is_custom (r : lrule) : bool := match r with LCustom _ => true | _ => false end.
Definition is_never_s (r : srule) : bool := match r with SNever => true | _ => false end.
Definition parent_of (r : lrule) : option string := match r with LIfParent p _ _ => Some p | _ => None end.
Definition is_boolk (k : kind) : bool := match k with KBool => true | _ => false end.
Definition is_groupk (k : kind) : bool := match k with KGroup => true | _ => false end.
Definition canon_in (v : val) : val := match v with VTL l => VL (keep_some l) | _ => v end.

(* a setting given by a document: a member the section saves (not hand-transcribed), bound to a boolean or to a non-zero
   value ("a numeric or duration zero conventionally means use the default"), its enclosing object being present *)
Definition is_setting (f : field) (j : json) : bool :=
  let v := jval (fname f) j in
  negb (is_never_s (fsave f)) && negb (is_custom (fload f)) && negb (is_groupk (fkind f))
  && (match v with VNone => false | _ => true end)
  && (is_boolk (fkind f) || negb (is_zero (canon_in v)))
  && (match parent_of (fload f) with Some p => jhas p j | None => true end).

Definition kind_in (k : kind) (l : list kind) : bool :=
  existsb (fun x => match k, x with
                    | KBool, KBool | KInt, KInt | KFloat, KFloat | KStr, KStr | KDur, KDur | KTok, KTok
                    | KList, KList | KMap, KMap | KGroup, KGroup => true | _, _ => false end) l.

Definition custom_ok (id : string) (k : kind) : bool :=
  (String.eqb id "crdt.trusted_peers" && kind_in k [KList])
  || ((String.eqb id "restapi.ssl_cert_file" || String.eqb id "restapi.ssl_key_file") && kind_in k [KStr]).

(* which (load rule, save rule) pairs keep a loaded value through save and load, and under which side conditions *)
Definition field_ok (f : field) : bool :=
  let k := fkind f in
  cfg_typed k (fdef f) &&
  match fload f, fsave f with
  | LNever, SNever => true
  | LGroup, SGroup => kind_in k [KGroup]
  | LAlways, SAlways => kind_in k [KBool; KInt; KFloat; KStr; KList] || (kind_in k [KMap] && negb (fomit f))
  | (LIfNonZero | LMergeNonZero), SAlways =>
      kind_in k [KInt; KFloat; KStr; KList] || (kind_in k [KBool] && val_eqb (fdef f) (VB false))
  | (LIfNonZero | LMergeNonZero), SOmitIfDefault d => kind_in k [KInt; KFloat; KStr] && val_eqb d (fdef f)
  | LPtrIfNonNil, SAlways => kind_in k [KBool; KInt; KFloat] && negb (fomit f)
  | (LDurIfNonEmpty | LDurIgnoreErr | LDurSoft _ | LDurZeroOnErr | LDurEmptyZero), SAlways => kind_in k [KDur]
  | (LDurIfNonEmpty | LDurSoft _), SOmitIfDefault d => kind_in k [KDur] && val_eqb d (fdef f)
  | (LParseAlways _ | LParseIfNonEmpty), SAlways => kind_in k [KTok]
  | (LParseListAlways | LParseListIfNonEmpty | LParseListSkipBad), SAlways => kind_in k [KList]
  | LEnum _, SAlways => kind_in k [KStr] && negb (fomit f)
  | LIfParent _ LAlways _, SAlways => kind_in k [KBool; KInt; KFloat; KStr] && negb (fomit f)
  | LIfParent _ LDurIfNonEmpty r, SAlways => kind_in k [KDur] && cfg_typed k r
  | LCustom id, (SAlways | SCustom _) => custom_ok id k
  | _, _ => false
  end.

Fixpoint nodup_strs (l : list string) : bool :=
  match l with [] => true | x :: r => negb (existsb (String.eqb x) r) && nodup_strs r end.

Definition is_group_field (g : field) : bool :=
  match fload g, fsave g with LGroup, SGroup => true | _, _ => false end.
Definition parent_ok (fs : list field) (f : field) : bool :=
  match parent_of (fload f) with
  | Some p => existsb (fun g => String.eqb (fname g) p && is_group_field g) fs
  | None => true end.

(* members that carry the cluster secret, private keys or API credentials *)
Definition secret_names : list string := ["secret"; "private_key"; "basic_auth_credentials"].
Definition last_segment_is (n s : string) : bool :=
  String.eqb n s || (let suffix := String.append "." s in
                     let ln := String.length n in let ls := String.length suffix in
                     (ls <=? ln)%nat && String.eqb (substring (ln - ls) ls n) suffix).
Definition secret_tagged (f : field) : bool :=
  negb (existsb (last_segment_is (fname f)) secret_names) || (fhidden f && top_level (fname f)).
Definition same_member (f : field) : bool :=
  String.eqb (fcfg_l f) "" || String.eqb (fcfg_s f) "" || String.eqb (fcfg_l f) (fcfg_s f).

Definition schema_coherentb (S : schema) : bool :=
  let fs := sfields S in
  nodup_strs (map fname fs) && forallb field_ok fs && forallb (parent_ok fs) fs
  && forallb (fun f => negb (fhidden f) || top_level (fname f)) fs
  && forallb secret_tagged fs && forallb same_member fs && svalidates S.

(* diagnosis: the offending members, with the obligation they break *)
Definition sapp (a b : string) : string := String.append a b.
Definition field_diag (fs : list field) (f : field) : list string :=
  app (if field_ok f then [] else [sapp "rule-pair-or-default: " (fname f)])
 (app (if parent_ok fs f then [] else [sapp "parent: " (fname f)])
 (app (if negb (fhidden f) || top_level (fname f) then [] else [sapp "hidden-not-top-level: " (fname f)])
 (app (if secret_tagged f then [] else [sapp "secret-not-hidden: " (fname f)])
      (if same_member f then [] else [sapp "different-config-member: " (fname f)])))).
Definition schema_diag (S : schema) : list string :=
  let fs := sfields S in
  map (fun s => sapp (sname S) (sapp ": " s))
    (app (if nodup_strs (map fname fs) then [] else ["duplicate-json-name"])
    (app (flat_map (field_diag fs) fs)
         (if svalidates S then [] else ["apply-does-not-end-in-Validate"]))).
