(* C18 — boolean form of the structural clause ("no torn result") applied to what the stress harness
   observed. Races, panics, crashes and deadlocks cannot go through Coq: the harness prints them as
   VERIF-DIRECT-VIOLATION; their counts are carried here for the record only. *)
From Coq Require Export List NArith Bool.
Export ListNotations.
Local Open Scope N_scope.

(* a returned slice, as ids (0 = an empty or malformed entry), run-length encoded by the harness as maximal
   runs (first id, length) of consecutive descending ids; the encoding is lossless: *)
Definition run := (N * N)%type.
Fixpoint expand_run (first : N) (len : nat) : list N :=
  match len with O => [] | S n => first :: expand_run (first - 1) n end.
Definition expand (rs : list run) : list N := flat_map (fun r => expand_run (fst r) (N.to_nat (snd r))) rs.

(* a view is whole iff it is the reverse of a contiguous stretch of the ids handed out (1, 2, 3, ...):
   one run, ending at an id >= 1 *)
Definition view_okb (rs : list run) : bool :=
  match rs with
  | [] => true
  | [(first, len)] => (0 <? len) && (len <=? first)
  | _ => false
  end.
Definition view_len (rs : list run) : N := fold_right (fun r a => snd r + a) 0 rs.

Record obs := mkobs {
  o_cap : N;                      (* 0 = no bound; otherwise no view may be longer (window capacity) *)
  o_views : list (list run);      (* the distinct views returned to readers *)
  o_stats : list N;               (* scenario-specific counts of malformed results; all must be 0 *)
  o_races : N; o_panics : N; o_crashed : N }.

Definition spec_okb (o : obs) : bool :=
  forallb (fun v => view_okb v && ((o_cap o =? 0) || (view_len v <=? o_cap o))) (o_views o)
  && forallb (fun s => s =? 0) (o_stats o).

Definition case := (N * obs)%type.
Definition check_case (c : case) : list (N * N * N) :=
  let '(id, o) := c in if spec_okb o then [] else [(id, 2, 0)].
Definition failing (cs : list case) : list (N * N * N) := flat_map check_case cs.
