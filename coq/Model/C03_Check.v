(* C03 — boolean form of the property (spec_okb), applied to what the implementation returned,
   and model-vs-implementation comparison. Evaluated with vm_compute on harness cases. *)
From V Require Import Base.Common Model.C03_Alloc.
Open Scope Z_scope.

Inductive obs := ObsOk (l : list N) | ObsErr.

Definition value_of (i : input) (p : N) : option N :=
  match find (fun m => N.eqb (mpeer m) p) (metrics i) with Some m => mval m | None => None end.
Definition metric_of (i : input) (p : N) : option metric := find (fun m => N.eqb (mpeer m) p) (metrics i).
Definition healthy_p now i p : bool :=
  match metric_of i p with Some m => healthy_m now i m | None => false end.
Definition sortable_p now i p : bool :=
  match metric_of i p with Some m => sortable now i m | None => false end.

Fixpoint monotone (rev : bool) (vs : list N) : bool :=
  match vs with
  | a :: ((b :: _) as r) => (if rev then (b <=? a)%N else (a <=? b)%N) && monotone rev r
  | _ => true end.

Definition vals i (l : list N) : list N := flat_map (fun p => match value_of i p with Some v => [v] | None => [] end) l.

(* every unchosen sortable peer of the group is not strictly better than any chosen one *)
Definition no_better_left now i (group : N -> bool) (chosen : list N) : bool :=
  forallb (fun m =>
    if sortable now i m && group (mpeer m) && negb (memN (mpeer m) chosen) then
      match mval m with
      | Some v => forallb (fun w => if rev i then (v <=? w)%N else (w <=? v)%N) (vals i chosen)
      | None => true end
    else true) (metrics i).

Definition spec_okb (now : Z) (i : input) (o : obs) : bool :=
  if (rmin i <? 0) && (rmax i <? 0) then
    match o with ObsOk [] => true | _ => false end
  else if negb ((0 <? rmin i) && (rmin i <=? rmax i)) then true   (* outside the property's premise *)
  else
    let cur_h := filter (healthy_p now i) (current i) in
    let ncur := Z.of_nat (length cur_h) in
    match o with
    | ObsErr => reachable now i <? rmin i                     (* fails only when min cannot be reached *)
    | ObsOk l =>
        let added := filter (fun p => negb (memN p (current i))) l in
        let addp := filter (fun p => memN p (priority i)) added in
        let addc := filter (fun p => negb (memN p (priority i))) added in
        let hl := Z.of_nat (length (filter (healthy_p now i) l)) in
        negb (reachable now i <? rmin i)
        && nodupb l
        && forallb (sortable_p now i) added                                   (* new peers healthy, numeric, not excluded *)
        && (if ncur <=? rmax i then subsetb cur_h l                           (* healthy holders kept *)
            else (Z.of_nat (length l) =? rmax i) && subsetb l cur_h)          (* more than max: exactly max kept, nothing added *)
        && (rmin i <=? hl) && (hl <=? rmax i)
        && list_eqb N.eqb added (addp ++ addc)                                (* user priority first *)
        && monotone (rev i) (vals i addp) && monotone (rev i) (vals i addc)   (* then strategy order *)
        && no_better_left now i (fun p => memN p (priority i)) addp
        && no_better_left now i (fun p => negb (memN p (priority i))) addc
        && (match addc with [] => true | _ =>                                 (* candidates only after every priority peer *)
              forallb (fun m => if sortable now i m && memN (mpeer m) (priority i) then memN (mpeer m) addp else true) (metrics i) end)
        && (if ncur <? rmin i then true else match added with [] => true | _ => false end) (* nothing new unless below min *)
    end.

Definition tie_free (now : Z) (i : input) : bool :=
  nodupb (flat_map (fun m => if sortable now i m then match mval m with Some v => [v] | None => [] end else []) (metrics i)).

(* model = implementation, up to what the Go map order leaves undetermined *)
Definition model_eqb (now : Z) (i : input) (o : obs) : bool :=
  match allocate now i (fun x => x), o with
  | Ok l, ObsOk l' =>
      let lm := latest_valid now (metrics i) in
      let ncur := Z.of_nat (length (filter (is_cur i) lm)) in
      if rmax i - ncur <? 0 then
        (Nat.eqb (length l) (length l')) && subsetb l' (map mpeer (filter (is_cur i) lm))
      else
        let a := filter (fun p => negb (memN p (current i))) l in
        let a' := filter (fun p => negb (memN p (current i))) l' in
        seteqb (filter (fun p => memN p (current i)) l) (filter (fun p => memN p (current i)) l')
        && (if tie_free now i then list_eqb N.eqb a a' else Nat.eqb (length a) (length a'))
  | ErrBadFactors, ObsErr | ErrNotEnough, ObsErr => true
  | _, _ => false
  end.

Definition case := (N * (Z * input * obs))%type.

Definition check_case (c : case) : list (N * N * N) :=
  let '(id, (now, i, o)) := c in
  (if model_eqb now i o then [] else [(id, 1%N, 0%N)]) ++
  (if spec_okb now i o then [] else [(id, 2%N, 0%N)]).

Definition failing (cs : list case) : list (N * N * N) := flat_map check_case cs.
