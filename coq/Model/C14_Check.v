(* C14 — model-vs-implementation comparison and boolean form of the property, evaluated with
   vm_compute on the cases the harness writes. Definitions only. *)
From V Require Import Base.Common Model.C14_Backup Model.C14_Peerstore.
Local Open Scope N_scope.

(* ------------------------------------------------------------------ *)
(* Backup rotation (package raft: makeBackup / CleanupRaft on real directories)               *)
(* a listing is  live :: old.0 :: old.1 :: ... :: old.(W-1)  ; folders carry (marker, snapshot id) *)
Definition fold_t := folder N.
Definition listing := list (option fold_t).

Definition fold_eqb (a b : fold_t) : bool := N.eqb (fst a) (fst b) && optN_eqb (snd a) (snd b).
Definition ofold_eqb (a b : option fold_t) : bool :=
  match a, b with Some x, Some y => fold_eqb x y | None, None => true | _, _ => false end.

Definition to_olds (l : listing) : nat -> option fold_t := fun i => nth i (tl l) None.
Definition to_dir (l : listing) : dir N := mk_dir (hd None l) (to_olds l).
Definition window (l : listing) : nat := length (tl l).
Definition listing_of (w : nat) (d : dir N) : listing := live d :: map (olds d) (seq O w).

Definition set_live (f : option fold_t) (l : listing) : listing := f :: tl l.

(* model = implementation for one step, from the observed listing before it *)
Definition bk_model_eqb (keep : nat) (before : listing) (st : step N) (after : listing) : bool :=
  list_eqb ofold_eqb (listing_of (window before) (run_step keep (to_dir before) st)) after.

(* boolean form of the rotation clause for one step, on what the implementation left on disk:
   the cleaned folder is the newest backup, the contiguous prefix moved up by one below keep,
   everything beyond the prefix or at/after keep is untouched, the data folder is gone *)
Definition bk_step_okb (keep : nat) (before : listing) (st : step N) (after : listing) : bool :=
  match rotated_of st with
  | [] => true
  | f :: _ =>
      let o := to_olds before in let o' := to_olds after in
      let n := prefix o keep O in
      Nat.eqb (window after) (window before)
      && ofold_eqb (hd None after) None
      && ofold_eqb (o' O) (Some f)
      && forallb (fun i => if (i <? n)%nat && (S i <? keep)%nat then ofold_eqb (o' (S i)) (o i) else true) (seq O (window before))
      && forallb (fun j => if (n <? j)%nat || (keep <=? j)%nat then ofold_eqb (o' j) (o j) else true) (seq O (window before))
  end.

(* boolean form of the history clause: after every step the folders handed to the rotation so far
   are old.0, old.1, ... newest first, as far as keep allows *)
Definition bk_hist_okb (keep : nat) (fs : list fold_t) (after : listing) : bool :=
  forallb (fun i => if (i <? keep)%nat then ofold_eqb (to_olds after i) (nth_error (rev fs) i) else true)
          (seq O (Nat.min (length fs) (window after))).

Fixpoint bk_check (id : N) (keep : nat) (before : listing) (fs : list fold_t) (sts : list (step N)) (obs : list listing)
  : list (N * N * N) :=
  match sts, obs with
  | [], [] => []
  | st :: sts', after :: obs' =>
      let b := set_live (fst st) before in
      let fs' := fs ++ rotated_of st in
      (if bk_model_eqb keep b st after then [] else [(id, 1, 0)]) ++
      (if bk_step_okb keep b st after then [] else [(id, 10, 0)]) ++
      (if bk_hist_okb keep fs' after then [] else [(id, 11, 0)]) ++
      bk_check id keep after fs' sts' obs'
  | _, _ => [(id, 1, 0)]          (* the implementation did not complete the history *)
  end.

(* ------------------------------------------------------------------ *)
(* Peerstore file (package pstoremgr: real LoadPeerstore / ImportPeersFromPeerstore / PeerInfos / SavePeerstoreForPeers) *)
Definition tr_eqb2 (a b : transport) : bool := N.eqb (fst a) (fst b) && Bool.eqb (snd a) (snd b).
Definition otr_eqb (a b : option transport) : bool :=
  match a, b with Some x, Some y => tr_eqb2 x y | None, None => true | _, _ => false end.
Definition paddr_eqb (a b : paddr) : bool :=
  match a, b with
  | PRaw x, PRaw y => N.eqb x y
  | PP2p p t, PP2p q u => N.eqb p q && otr_eqb t u
  | _, _ => false
  end.
Definition opaddr_eqb (a b : option paddr) : bool :=
  match a, b with Some x, Some y => paddr_eqb x y | None, None => true | _, _ => false end.
Definition line_eqb (a b : line) : bool :=
  match a, b with
  | LEmpty, LEmpty => true
  | LText c p, LText d q => N.eqb c d && opaddr_eqb p q
  | _, _ => false
  end.

(* an observed peer info against the model's: non-DNS address lists exactly (sorted by string), DNS ones as a set *)
Definition pinfo_eqb (m o : pinfo) : bool :=
  N.eqb (fst m) (fst o) &&
  (if existsb (fun t => snd t) (snd m) then list_eqb tr_eqb2 (snd m) (sort_by tr_key (snd o))
   else list_eqb tr_eqb2 (snd m) (snd o)).

Fixpoint sorted_nat (l : list nat) : bool :=
  match l with a :: ((b :: _) as r) => (a <=? b)%nat && sorted_nat r | _ => true end.
Fixpoint nodup_nat (l : list nat) : bool :=
  match l with [] => true | a :: r => negb (existsb (Nat.eqb a) r) && nodup_nat r end.

(* model list vs observed list: exactly when the priorities are distinct, else same elements and sorted by priority *)
Definition pinfos_eqb (ps : pstore) (m o : list pinfo) : bool :=
  if nodup_nat (map (fun pi => prio_of ps (fst pi)) m) then list_eqb pinfo_eqb m o
  else Nat.eqb (length m) (length o)
       && forallb (fun x => existsb (pinfo_eqb x) o) m
       && sorted_nat (map (fun pi => prio_of ps (fst pi)) o).

Definition opinfos_eqb (ps : pstore) (m : list pinfo) (o : option (list pinfo)) : bool :=
  match o with Some l => pinfos_eqb ps m l | None => false end.

Definition is_some {A} (o : option A) : bool := match o with Some _ => true | None => false end.

(* an arbitrary file: load, import into an empty host, ask PeerInfos *)
Definition ps_file_check (id self : N) (ls : list line) (query : list N)
           (obs_load : list (option paddr)) (obs_infos : option (list pinfo)) : list (N * N * N) :=
  (if list_eqb opaddr_eqb (load_lines ls) obs_load
      && match import_file true self ls ps_empty with
         | ICrash => negb (is_some obs_infos)
         | IOk ps => opinfos_eqb ps (peer_infos self ps query) obs_infos
         end
   then [] else [(id, 1, 0)]) ++
  (* unparsable lines are skipped rather than fatal: no nil element, no crash *)
  (if forallb is_some obs_load && is_some obs_infos then [] else [(id, 12, 0)]).

Definition ps_build (pre : list (N * list transport * option nat)) : pstore :=
  fold_left (fun ps e => let '(p, trs, pr) := e in
                         let ps1 := fold_left (fun a t => add_addr p t a) trs ps in
                         match pr with Some i => set_prio p i ps1 | None => ps1 end) pre ps_empty.

(* exact equality of two observations of PeerInfos, address lists as sets (the DNS ones come in map order) *)
Definition obs_pinfo_eqb (a b : pinfo) : bool :=
  N.eqb (fst a) (fst b) && list_eqb tr_eqb2 (sort_by tr_key (snd a)) (sort_by tr_key (snd b)).

(* group the loaded addresses by consecutive peer; None if something is not <transport>/p2p/<peer> *)
Fixpoint group_loaded (l : list (option paddr)) : option (list pinfo) :=
  match l with
  | [] => Some []
  | Some (PP2p p (Some t)) :: r =>
      match group_loaded r with
      | Some ((q, ts) :: g) => if N.eqb p q then Some ((q, t :: ts) :: g) else Some ((p, [t]) :: (q, ts) :: g)
      | Some [] => Some [(p, [t])]
      | None => None
      end
  | _ => None
  end.

Definition same_infos (a : option (list pinfo)) (b : list pinfo) : bool :=
  match a with Some l => list_eqb obs_pinfo_eqb l b | None => false end.

(* save on host 1, load and import on host 2 *)
Definition ps_save_check (id self1 self2 : N) (pre : list (N * list transport * option nat)) (query query2 : list N)
           (obs0 : list pinfo) (obs_lines : list line) (obs_load : list (option paddr)) (obs2 : option (list pinfo))
  : list (N * N * N) :=
  let ps1 := ps_build pre in
  (if pinfos_eqb ps1 (peer_infos self1 ps1 query) obs0
      && same_infos (group_loaded (load_lines (save_lines obs0))) obs0         (* the model's file *)
      && same_infos (group_loaded (load_lines obs_lines)) obs0                 (* the real file, address order within a peer aside *)
      && Nat.eqb (length obs_lines) (length (save_lines obs0))
      && list_eqb opaddr_eqb (load_lines obs_lines) obs_load
      && match import_file true self2 obs_lines ps_empty with
         | ICrash => negb (is_some obs2)
         | IOk ps => opinfos_eqb ps (peer_infos self2 ps query2) obs2
         end
   then [] else [(id, 1, 0)]) ++
  (* the file reads back as the same addresses in the same priority order *)
  (if same_infos (group_loaded obs_load) obs0 && same_infos obs2 obs0
   then [] else [(id, 13, 0)]).

(* ------------------------------------------------------------------ *)
Inductive payload :=
| PPsFile (self : N) (ls : list line) (query : list N) (obs_load : list (option paddr)) (obs_infos : option (list pinfo))
| PPsSave (self1 self2 : N) (pre : list (N * list transport * option nat)) (query query2 : list N)
          (obs0 : list pinfo) (obs_lines : list line) (obs_load : list (option paddr)) (obs2 : option (list pinfo))
| PBackup (keep : nat) (olds0 : listing (* old.0 .. old.(W-1) *)) (sts : list (step N)) (obs : list listing).

Definition case := (N * payload)%type.

Definition check_case (c : case) : list (N * N * N) :=
  let '(id, p) := c in
  match p with
  | PBackup keep olds0 sts obs => bk_check id keep (None :: olds0) [] sts obs
  | PPsFile self ls query ol oi => ps_file_check id self ls query ol oi
  | PPsSave s1 s2 pre q q2 o0 ol old o2 => ps_save_check id s1 s2 pre q q2 o0 ol old o2
  end.

Definition failing (cs : list case) : list (N * N * N) := flat_map check_case cs.
