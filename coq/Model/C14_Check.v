(* C14 — model-vs-implementation comparison and boolean form of the property, evaluated with
   vm_compute on the cases the harness writes. Definitions only. *)
From V Require Import Base.Common Model.C14_Backup.
Local Open Scope N_scope.

(* ------------------------------------------------------------------ *)
(* Backup rotation (package raft: makeBackup / CleanupRaft on real directories)               *)
(* a listing is  live :: old.0 :: old.1 :: ... :: old.(W-1)  ; folders carry (marker, snapshot id) *)
Definition fold_t := folder N.
Definition listing := list (option fold_t).

Definition fold_eqb (a b : fold_t) : bool := N.eqb (fst a) (fst b) && optN_eqb (snd a) (snd b).
Definition ofold_eqb (a b : option fold_t) : bool :=
  match a, b with Some x, Some y => fold_eqb x y | None, None => true | _, _ => false end.

Definition to_olds (l : listing) : nat -> option fold_t := fun i => nth i (tl l) None.
Definition to_dir (l : listing) : dir N := mk_dir (hd None l) (to_olds l).
Definition window (l : listing) : nat := length (tl l).
Definition listing_of (w : nat) (d : dir N) : listing := live d :: map (olds d) (seq O w).

Definition set_live (f : option fold_t) (l : listing) : listing := f :: tl l.

(* model = implementation for one step, from the observed listing before it *)
Definition bk_model_eqb (keep : nat) (before : listing) (st : step N) (after : listing) : bool :=
  list_eqb ofold_eqb (listing_of (window before) (run_step keep (to_dir before) st)) after.

(* boolean form of the rotation clause for one step, on what the implementation left on disk:
   the cleaned folder is the newest backup, the contiguous prefix moved up by one below keep,
   everything beyond the prefix or at/after keep is untouched, the data folder is gone *)
Definition bk_step_okb (keep : nat) (before : listing) (st : step N) (after : listing) : bool :=
  match rotated_of st with
  | [] => true
  | f :: _ =>
      let o := to_olds before in let o' := to_olds after in
      let n := prefix o keep O in
      Nat.eqb (window after) (window before)
      && ofold_eqb (hd None after) None
      && ofold_eqb (o' O) (Some f)
      && forallb (fun i => if (i <? n)%nat && (S i <? keep)%nat then ofold_eqb (o' (S i)) (o i) else true) (seq O (window before))
      && forallb (fun j => if (n <? j)%nat || (keep <=? j)%nat then ofold_eqb (o' j) (o j) else true) (seq O (window before))
  end.

(* boolean form of the history clause: after every step the folders handed to the rotation so far
   are old.0, old.1, ... newest first, as far as keep allows *)
Definition bk_hist_okb (keep : nat) (fs : list fold_t) (after : listing) : bool :=
  forallb (fun i => if (i <? keep)%nat then ofold_eqb (to_olds after i) (nth_error (rev fs) i) else true)
          (seq O (Nat.min (length fs) (window after))).

Fixpoint bk_check (id : N) (keep : nat) (before : listing) (fs : list fold_t) (sts : list (step N)) (obs : list listing)
  : list (N * N * N) :=
  match sts, obs with
  | [], [] => []
  | st :: sts', after :: obs' =>
      let b := set_live (fst st) before in
      let fs' := fs ++ rotated_of st in
      (if bk_model_eqb keep b st after then [] else [(id, 1, 0)]) ++
      (if bk_step_okb keep b st after then [] else [(id, 10, 0)]) ++
      (if bk_hist_okb keep fs' after then [] else [(id, 11, 0)]) ++
      bk_check id keep after fs' sts' obs'
  | _, _ => [(id, 1, 0)]          (* the implementation did not complete the history *)
  end.

(* ------------------------------------------------------------------ *)
Inductive payload :=
| PBackup (keep : nat) (olds0 : listing (* old.0 .. old.(W-1) *)) (sts : list (step N)) (obs : list listing).

Definition case := (N * payload)%type.

Definition check_case (c : case) : list (N * N * N) :=
  let '(id, p) := c in
  match p with
  | PBackup keep olds0 sts obs => bk_check id keep (None :: olds0) [] sts obs
  end.

Definition failing (cs : list case) : list (N * N * N) := flat_map check_case cs.
