(* C14 — model-vs-implementation comparison and boolean form of the property, evaluated with
   vm_compute on the cases the harness writes. Definitions only. *)
From V Require Import Base.Common Model.C14_Backup Model.C14_Peerstore Model.C14_State.
Local Open Scope N_scope.

(* ------------------------------------------------------------------ *)
(* Backup rotation (package raft: makeBackup / CleanupRaft on real directories)               *)
(* a listing is  live :: old.0 :: old.1 :: ... :: old.(W-1)  ; folders carry (marker, snapshot id) *)
Definition fold_t := folder N.
Definition listing := list (option fold_t).

Definition fold_eqb (a b : fold_t) : bool := N.eqb (fst a) (fst b) && optN_eqb (snd a) (snd b).
Definition ofold_eqb (a b : option fold_t) : bool :=
  match a, b with Some x, Some y => fold_eqb x y | None, None => true | _, _ => false end.

Definition to_olds (l : listing) : nat -> option fold_t := fun i => nth i (tl l) None.
Definition to_dir (l : listing) : dir N := mk_dir (hd None l) (to_olds l).
Definition window (l : listing) : nat := length (tl l).
Definition listing_of (w : nat) (d : dir N) : listing := live d :: map (olds d) (seq O w).

Definition set_live (f : option fold_t) (l : listing) : listing := f :: tl l.

(* model = implementation for one step, from the observed listing before it *)
Definition bk_model_eqb (keep : nat) (before : listing) (st : step N) (after : listing) : bool :=
  list_eqb ofold_eqb (listing_of (window before) (run_step keep (to_dir before) st)) after.

(* boolean form of the rotation clause for one step, on what the implementation left on disk:
   the cleaned folder is the newest backup, the contiguous prefix moved up by one below keep,
   everything beyond the prefix or at/after keep is untouched, the data folder is gone *)
Definition bk_step_okb (keep : nat) (before : listing) (st : step N) (after : listing) : bool :=
  match rotated_of st with
  | [] => true
  | f :: _ =>
      let o := to_olds before in let o' := to_olds after in
      let n := prefix o keep O in
      Nat.eqb (window after) (window before)
      && ofold_eqb (hd None after) None
      && ofold_eqb (o' O) (Some f)
      && forallb (fun i => if (i <? n)%nat && (S i <? keep)%nat then ofold_eqb (o' (S i)) (o i) else true) (seq O (window before))
      && forallb (fun j => if (n <? j)%nat || (keep <=? j)%nat then ofold_eqb (o' j) (o j) else true) (seq O (window before))
  end.

(* boolean form of the history clause: after every step the folders handed to the rotation so far
   are old.0, old.1, ... newest first, as far as keep allows *)
Definition bk_hist_okb (keep : nat) (fs : list fold_t) (after : listing) : bool :=
  forallb (fun i => if (i <? keep)%nat then ofold_eqb (to_olds after i) (nth_error (rev fs) i) else true)
          (seq O (Nat.min (length fs) (window after))).

Fixpoint bk_check (id : N) (keep : nat) (before : listing) (fs : list fold_t) (sts : list (step N)) (obs : list listing)
  : list (N * N * N) :=
  match sts, obs with
  | [], [] => []
  | st :: sts', after :: obs' =>
      let b := set_live (fst st) before in
      let fs' := fs ++ rotated_of st in
      (if bk_model_eqb keep b st after then [] else [(id, 1, 0)]) ++
      (if bk_step_okb keep b st after then [] else [(id, 10, 0)]) ++
      (if bk_hist_okb keep fs' after then [] else [(id, 11, 0)]) ++
      bk_check id keep after fs' sts' obs'
  | _, _ => [(id, 1, 0)]          (* the implementation did not complete the history *)
  end.

(* ------------------------------------------------------------------ *)
(* Peerstore file (package pstoremgr: real LoadPeerstore / ImportPeersFromPeerstore / PeerInfos / SavePeerstoreForPeers) *)
Definition tr_eqb2 (a b : transport) : bool := N.eqb (fst a) (fst b) && Bool.eqb (snd a) (snd b).
Definition otr_eqb (a b : option transport) : bool :=
  match a, b with Some x, Some y => tr_eqb2 x y | None, None => true | _, _ => false end.
Definition paddr_eqb (a b : paddr) : bool :=
  match a, b with
  | PRaw x, PRaw y => N.eqb x y
  | PP2p p t, PP2p q u => N.eqb p q && otr_eqb t u
  | _, _ => false
  end.
Definition opaddr_eqb (a b : option paddr) : bool :=
  match a, b with Some x, Some y => paddr_eqb x y | None, None => true | _, _ => false end.
Definition line_eqb (a b : line) : bool :=
  match a, b with
  | LEmpty, LEmpty => true
  | LText c p, LText d q => N.eqb c d && opaddr_eqb p q
  | _, _ => false
  end.

(* an observed peer info against the model's: non-DNS address lists exactly (sorted by string), DNS ones as a set *)
Definition pinfo_eqb (m o : pinfo) : bool :=
  N.eqb (fst m) (fst o) &&
  (if existsb (fun t => snd t) (snd m) then list_eqb tr_eqb2 (snd m) (sort_by tr_key (snd o))
   else list_eqb tr_eqb2 (snd m) (snd o)).

Fixpoint sorted_nat (l : list nat) : bool :=
  match l with a :: ((b :: _) as r) => (a <=? b)%nat && sorted_nat r | _ => true end.
Fixpoint nodup_nat (l : list nat) : bool :=
  match l with [] => true | a :: r => negb (existsb (Nat.eqb a) r) && nodup_nat r end.

(* model list vs observed list: exactly when the priorities are distinct, else same elements and sorted by priority *)
Definition pinfos_eqb (ps : pstore) (m o : list pinfo) : bool :=
  if nodup_nat (map (fun pi => prio_of ps (fst pi)) m) then list_eqb pinfo_eqb m o
  else Nat.eqb (length m) (length o)
       && forallb (fun x => existsb (pinfo_eqb x) o) m
       && sorted_nat (map (fun pi => prio_of ps (fst pi)) o).

Definition opinfos_eqb (ps : pstore) (m : list pinfo) (o : option (list pinfo)) : bool :=
  match o with Some l => pinfos_eqb ps m l | None => false end.

Definition is_some {A} (o : option A) : bool := match o with Some _ => true | None => false end.

(* an arbitrary file: load, import into an empty host, ask PeerInfos *)
Definition ps_file_check (id self : N) (ls : list line) (query : list N)
           (obs_load : list (option paddr)) (obs_infos : option (list pinfo)) : list (N * N * N) :=
  (if list_eqb opaddr_eqb (load_lines ls) obs_load
      && match import_file true self ls ps_empty with
         | ICrash => negb (is_some obs_infos)
         | IOk ps => opinfos_eqb ps (peer_infos self ps query) obs_infos
         end
   then [] else [(id, 1, 0)]) ++
  (* unparsable lines are skipped rather than fatal: no nil element, no crash *)
  (if forallb is_some obs_load && is_some obs_infos then [] else [(id, 12, 0)]).

Definition ps_build (pre : list (N * list transport * option nat)) : pstore :=
  fold_left (fun ps e => let '(p, trs, pr) := e in
                         let ps1 := fold_left (fun a t => add_addr p t a) trs ps in
                         match pr with Some i => set_prio p i ps1 | None => ps1 end) pre ps_empty.

(* exact equality of two observations of PeerInfos, address lists as sets (the DNS ones come in map order) *)
Definition obs_pinfo_eqb (a b : pinfo) : bool :=
  N.eqb (fst a) (fst b) && list_eqb tr_eqb2 (sort_by tr_key (snd a)) (sort_by tr_key (snd b)).

(* group the loaded addresses by consecutive peer; None if something is not <transport>/p2p/<peer> *)
Fixpoint group_loaded (l : list (option paddr)) : option (list pinfo) :=
  match l with
  | [] => Some []
  | Some (PP2p p (Some t)) :: r =>
      match group_loaded r with
      | Some ((q, ts) :: g) => if N.eqb p q then Some ((q, t :: ts) :: g) else Some ((p, [t]) :: (q, ts) :: g)
      | Some [] => Some [(p, [t])]
      | None => None
      end
  | _ => None
  end.

Definition same_infos (a : option (list pinfo)) (b : list pinfo) : bool :=
  match a with Some l => list_eqb obs_pinfo_eqb l b | None => false end.

(* save on host 1, load and import on host 2 *)
Definition ps_save_check (id self1 self2 : N) (pre : list (N * list transport * option nat)) (query query2 : list N)
           (obs0 : list pinfo) (obs_lines : list line) (obs_load : list (option paddr)) (obs2 : option (list pinfo))
  : list (N * N * N) :=
  let ps1 := ps_build pre in
  (if pinfos_eqb ps1 (peer_infos self1 ps1 query) obs0
      && same_infos (group_loaded (load_lines (save_lines obs0))) obs0         (* the model's file *)
      && same_infos (group_loaded (load_lines obs_lines)) obs0                 (* the real file, address order within a peer aside *)
      && Nat.eqb (length obs_lines) (length (save_lines obs0))
      && list_eqb opaddr_eqb (load_lines obs_lines) obs_load
      && match import_file true self2 obs_lines ps_empty with
         | ICrash => negb (is_some obs2)
         | IOk ps => opinfos_eqb ps (peer_infos self2 ps query2) obs2
         end
   then [] else [(id, 1, 0)]) ++
  (* the file reads back as the same addresses in the same priority order *)
  (if same_infos (group_loaded obs_load) obs0 && same_infos obs2 obs0
   then [] else [(id, 13, 0)]).

(* ------------------------------------------------------------------ *)
(* Pinsets: dsstate Marshal/Unmarshal, raft SnapshotSave/OfflineState/LastStateRaw, cmdutils export/import *)
Definition pinv_eqb (a b : pinv) : bool := N.eqb (fst a) (fst b) && N.eqb (snd a) (snd b).
Definition entry_eqb (a b : entry) : bool := N.eqb (fst a) (fst b) && pinv_eqb (snd a) (snd b).
Definition entries_eqb (a b : list entry) : bool := list_eqb entry_eqb a b.
Definition oentries_eqb (a : list entry) (b : option (list entry)) : bool :=
  match b with Some l => entries_eqb a l | None => false end.

(* the pinsets of a case are numbered; a table gives the (cid-sorted) entries of each number *)
Definition ptable := list (N * list entry).
Definition pinset_of (t : ptable) (i : N) : list entry := match aget i t with Some l => l | None => [] end.
Definition id_of (t : ptable) (es : list entry) : N :=
  match find (fun x => entries_eqb (snd x) es) t with Some x => fst x | None => 999999 end.

(* dsstate: Marshal, then Unmarshal onto an empty store *)
Definition marshal_check (id : N) (pins : list entry) (obs : option (list entry)) : list (N * N * N) :=
  (if oentries_eqb (sorted_entries (unmarshal (marshal (fun x => x) pins) [])) obs then [] else [(id, 1, 0)]) ++
  (if oentries_eqb pins obs then [] else [(id, 14, 0)]).

(* raft: a history of SnapshotSave / CleanupRaft / bare data folders on one directory; after every operation the
   listing (folder payloads resolved by reading them offline) and what OfflineState / LastStateRaw return *)
Inductive sop := OSave (i : N) | OClean | OBare (marker : N) | OMore (i : N) (* a newer snapshot written into the same data folder, as a running peer does *) | OStart (* a real peer is started on the data folder, then shut down *).

Definition snap_listing (t : ptable) (w : nat) (d : dir snapshot) : listing :=
  map (fun f => match f with
                | Some (m, Some es) => Some (m, Some (id_of t (sorted_entries (unmarshal es []))))
                | Some (m, None) => Some (m, None)
                | None => None end) (live d :: map (olds d) (seq O w)).

Definition from_listing (t : ptable) (l : listing) : dir snapshot :=
  let conv := fun f : option fold_t => match f with
                       | Some (m, Some i) => Some (m, Some (pinset_of t i))
                       | Some (m, None) => Some (m, None)
                       | None => None end in
  mk_dir (conv (hd None l)) (fun i => conv (to_olds l i)).

Definition sop_model (keep : nat) (t : ptable) (op : sop) (d : dir snapshot) : dir snapshot :=
  match op with
  | OSave i => snapshot_save keep (marshal (fun x => x) (pinset_of t i)) d
  | OClean => cleanup keep d
  | OBare m => mk_dir (Some (m, None)) (olds d)
  | OMore i => mk_dir (Some (match live d with Some (m, _) => m | None => 0 end, Some (marshal (fun x => x) (pinset_of t i)))) (olds d)
  | OStart => d
  end.

(* the rotation step an operation implies on the directory, if any *)
Definition sop_step (op : sop) (before : listing) : option (step N) :=
  match op, hd None before with
  | OSave _, Some (m, Some i) => Some (Some (m, Some i), true)
  | OClean, Some (m, Some i) => Some (Some (m, Some i), true)
  | _, _ => None
  end.

Fixpoint snap_check (id : N) (keep : nat) (t : ptable) (before : listing) (ops : list sop)
         (obs : list (listing * list entry * list entry)) : list (N * N * N) :=
  match ops, obs with
  | [], [] => []
  | op :: ops', (after, off, raw) :: obs' =>
      let d' := sop_model keep t op (from_listing t before) in
      (if list_eqb ofold_eqb (snap_listing t (window before) d') after
          && entries_eqb (sorted_entries (offline_state d' [])) off
          && entries_eqb (sorted_entries (match last_state_raw d' with Some es => unmarshal es [] | None => [] end)) raw
       then [] else [(id, 1, 0)]) ++
      (* saving a pinset as a snapshot and reading it offline reproduces it *)
      (match op with
       | OSave i | OMore i => if entries_eqb off (pinset_of t i) && entries_eqb raw (pinset_of t i) then [] else [(id, 15, 0)]
       | OStart => match hd None before with
                   | Some (_, Some i) => if entries_eqb off (pinset_of t i) then [] else [(id, 15, 0)]
                   | _ => [] end
       | _ => [] end) ++
      (* data that held a snapshot stays recoverable as the newest backup, older ones shift *)
      (match sop_step op before with
       | Some st => let after' := match op with OSave _ => set_live None after | _ => after end in
                    if bk_step_okb keep before st after' then [] else [(id, 10, 0)]
       | None => [] end) ++
      snap_check id keep t after ops' obs'
  | _, _ => [(id, 1, 0)]
  end.

(* cmdutils: export from one place, import in another through a state manager *)
Definition has_origins (es : list entry) : bool := existsb (fun e => negb (decodable e)) es.

Definition imp_code (r : imp_res) : N := match r with ImpOk => 0 | ImpErr => 1 | ImpCrash => 2 end.

(* finding recognisers (shapes of the input, not the property) *)
Definition is_S19 (exported : list entry) : bool := has_origins exported.                 (* some pin has origins *)

Definition export_check (id : N) (mgr : N) (keep : nat) (t : ptable) (src : N) (dst0 : option N)
           (exported : list entry) (lines : list jline) (edited : bool)
           (obs_res : N (* 0 ok, 1 error, 2 panic *)) (obs_after : list entry) (obs_listing : listing) : list (N * N * N) :=
  (* the export holds exactly the source pinset *)
  (if entries_eqb (sorted_entries exported) (pinset_of t src) then [] else [(id, 1, 0); (id, 16, 0)]) ++
  (if N.eqb mgr 0 then
     let d0 := mk_dir (match dst0 with Some i => Some (7, Some (pinset_of t i)) | None => None end) (fun _ => None) in
     let '(d', r) := raft_import keep (fun x => x) lines d0 in
     if N.eqb (imp_code r) obs_res && entries_eqb (sorted_entries (offline_state d' [])) obs_after
        && list_eqb ofold_eqb (snap_listing t (Nat.pred (length obs_listing)) d') obs_listing
     then [] else [(id, 1, 0)]
   else
     let '(s', r) := crdt_import lines (match dst0 with Some i => pinset_of t i | None => [] end) in
     if N.eqb (imp_code r) obs_res && entries_eqb (sorted_entries s') obs_after then [] else [(id, 1, 0)]) ++
  (* export then import reproduces the pinset and replaces whatever was there *)
  (if edited then [] else
     if N.eqb obs_res 0 && entries_eqb obs_after (pinset_of t src) then []
     else [(id, 17, if is_S19 exported then 1 else 0)]) ++
  (* an import never takes the process down, whatever the stream *)
  (if N.eqb obs_res 2 then [(id, 18, 0)] else []).

(* ------------------------------------------------------------------ *)
Inductive payload :=
| PMarshal (pins : list entry) (obs : option (list entry))
| PSnap (keep : nat) (t : ptable) (olds0 : listing) (ops : list sop) (obs : list (listing * list entry * list entry))
| PExport (mgr : N) (keep : nat) (t : ptable) (src : N) (dst0 : option N) (exported : list entry) (lines : list jline)
          (edited : bool) (obs_res : N) (obs_after : list entry) (obs_listing : listing)
| PPsFile (self : N) (ls : list line) (query : list N) (obs_load : list (option paddr)) (obs_infos : option (list pinfo))
| PPsSave (self1 self2 : N) (pre : list (N * list transport * option nat)) (query query2 : list N)
          (obs0 : list pinfo) (obs_lines : list line) (obs_load : list (option paddr)) (obs2 : option (list pinfo))
| PBackup (keep : nat) (olds0 : listing (* old.0 .. old.(W-1) *)) (sts : list (step N)) (obs : list listing).

Definition case := (N * payload)%type.

Definition check_case (c : case) : list (N * N * N) :=
  let '(id, p) := c in
  match p with
  | PBackup keep olds0 sts obs => bk_check id keep (None :: olds0) [] sts obs
  | PMarshal pins obs => marshal_check id pins obs
  | PSnap keep t olds0 ops obs => snap_check id keep t (None :: olds0) ops obs
  | PExport mgr keep t src dst0 ex ls ed ok aft lst => export_check id mgr keep t src dst0 ex ls ed ok aft lst
  | PPsFile self ls query ol oi => ps_file_check id self ls query ol oi
  | PPsSave s1 s2 pre q q2 o0 ol old o2 => ps_save_check id s1 s2 pre q q2 o0 ol old o2
  end.

Definition failing (cs : list case) : list (N * N * N) := flat_map check_case cs.
