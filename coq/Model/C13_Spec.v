(* C13 — vocabulary of the statements (definitions only). Traces are chronological lists of events. *)
From V Require Import Base.Common Model.C13_Adder Model.C13_Check.
Open Scope N_scope.

(* projections of a trace *)
Definition puts (t : list event) : list (cid * list N * option (list N)) :=
  flat_map (fun ev => match ev with EPut c ds r => [(c, ds, r)] | _ => [] end) t.
Definition data_puts (t : list event) : list N :=
  flat_map (fun ev => match ev with EPut (CData n) _ _ => [n] | _ => [] end) t.
Definition put_cids (t : list event) : list cid :=
  flat_map (fun ev => match ev with EPut c _ _ => [c] | _ => [] end) t.
Definition alloc_results (t : list event) : list (option (list N)) :=
  flat_map (fun ev => match ev with EAlloc r => [r] | _ => [] end) t.

(* the importer's contract *)
Definition link_closed (s : list block) : Prop := forall b l, In b s -> In l (blinks b) -> In l (cids_of s).
Inductive reach (s : list block) (root : N) : N -> Prop :=
| reach_root : reach s root root
| reach_link c b l : reach s root c -> In b s -> bcid b = c -> In l (blinks b) -> reach s root l.
(* content addressing: equal CIDs are equal blocks, in particular of equal size *)
Definition sizes_by_cid (s : list block) : Prop :=
  forall b b', In b s -> In b' s -> bcid b = bcid b' -> bsize b = bsize b'.

Definition sum_sizes (s : list block) (l : list N) : N := fold_right (fun c a => size_of s c + a) 0 l.

(* one flushed shard: its links in order, the allocation it was created with, its accounted size *)
Record shrec := mkshrec { r_links : list N; r_allocs : list N; r_size : N }.

Definition shard_cid (e : env) (x : shrec) : cid := dag_root (e_maxlinks e) (map CData (r_links x)).

Fixpoint shard_pins_of (e : env) (k : N) (prv : option cid) (xs : list shrec) : list pin :=
  match xs with
  | [] => []
  | x :: r =>
      mkpin (shard_cid e x) TShard (NShard k) (if (e_rmin e <? 0)%Z then [] else r_allocs x)
            (if N.of_nat (length (r_links x)) <=? e_maxlinks e then 1%Z else 2%Z) prv (e_rmin e) (e_rmax e) (r_size x)
      :: shard_pins_of e (k + 1) (Some (shard_cid e x)) r
  end.

Definition cdag_cid (e : env) (xs : list shrec) : cid := dag_root (e_maxlinks e) (map (shard_cid e) xs).
Definition cdag_pin (e : env) (root : N) (xs : list shrec) : pin :=
  mkpin (cdag_cid e xs) TClusterDAG NClusterDAG [] 0%Z (Some (CData root)) (-1)%Z (-1)%Z (e_limit e).
Definition meta_pin (e : env) (root : N) (xs : list shrec) : pin :=
  mkpin (CData root) TMeta NBase [] 0%Z (Some (cdag_cid e xs)) (e_rmin e) (e_rmax e) (e_limit e).
Definition single_pin (e : env) (root : N) (al : list N) : pin :=
  mkpin (CData root) TData NBase (if (e_rmin e <? 0)%Z then [] else al) (-1)%Z None (e_rmin e) (e_rmax e) (e_limit e).

(* the trace follows the oracles: the k-th call of each kind got the k-th scripted answer, and every
   pin satisfies P *)
Fixpoint wf (e : env) (P : pin -> bool -> Prop) (a j p : N) (evs : list event) : Prop :=
  match evs with
  | [] => True
  | EAlloc r :: t => r = e_alloc e a /\ wf e P (a + 1) j p t
  | EPut c ds r :: t => r = ba_add (e_put e j) ds /\ wf e P a (j + 1) p t
  | EPin q ok :: t => ok = e_pin e p /\ P q ok /\ wf e P a j (p + 1) t
  end.

Definition is_node (c : cid) : Prop := match c with CNode _ => True | CData _ => False end.

(* what holds of every shard pin ever issued, whatever happens afterwards *)
Definition shard_pin_good (e : env) (s : list block) (q : pin) : Prop :=
  exists l, pcid q = dag_root (e_maxlinks e) (map CData l) /\ pssize q = sum_sizes s l /\ pssize q < e_limit e
            /\ pdepth q = (if N.of_nat (length l) <=? e_maxlinks e then 1%Z else 2%Z).

(* every destination of every put belongs to the allocation in force; shard / data pins carry it *)
Definition within_allocation (e : env) (t : list event) : Prop := allocs_walk (e_rmin e <? 0)%Z [] t = true.

(* the importer stops at the first error of DAGService.Add (its contract) *)
Definition strict (s : list block) : Prop := forall b, In b s -> bswallow b = false.
Definition any_pin (q : pin) (ok : bool) : Prop := True.
