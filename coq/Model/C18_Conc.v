(* C18 — the concurrency model: threads are lists of events, a machine interleaves them under
   sync.Mutex / sync.RWMutex semantics. Definitions only.

   Locks and locations are (instance, name): the name is the (type, field) the Go source uses, the instance
   tells the objects of one type apart. The machine is permissive about readers (RLock is enabled whenever
   no other thread holds the lock exclusively), which includes every schedule Go's RWMutex allows; the
   writer preference of Go's RWMutex (a blocked Lock stops new RLocks) only matters for deadlocks and is
   accounted for in `stuck` below. *)
From Coq Require Export String List NArith Bool Arith.
Export ListNotations.

Definition lname := (string * string)%type.          (* package.Type, mutex field *)
Definition xname := (string * string * bool)%type.   (* package.Type, field, true = what the field refers to *)
Definition lock := (N * lname)%type.
Definition loc := (N * xname)%type.

Inductive ev := Acq (l : lock) | Rel (l : lock) | RAcq (l : lock) | RRel (l : lock) | Rd (x : loc) | Wr (x : loc).

Definition lname_eqb (a b : lname) : bool := String.eqb (fst a) (fst b) && String.eqb (snd a) (snd b).
Definition lock_eqb (a b : lock) : bool := N.eqb (fst a) (fst b) && lname_eqb (snd a) (snd b).
Definition xname_eqb (a b : xname) : bool :=
  String.eqb (fst (fst a)) (fst (fst b)) && String.eqb (snd (fst a)) (snd (fst b)) && Bool.eqb (snd a) (snd b).
Definition loc_eqb (a b : loc) : bool := N.eqb (fst a) (fst b) && xname_eqb (snd a) (snd b).

(* locks held by a thread: (lock, exclusive?) *)
Definition hl := (lock * bool)%type.
Definition hl_eqb (a b : hl) : bool := lock_eqb (fst a) (fst b) && Bool.eqb (snd a) (snd b).
Fixpoint rm1 (h : hl) (s : list hl) : list hl :=
  match s with [] => [] | y :: ys => if hl_eqb h y then ys else y :: rm1 h ys end.
Definition upd (s : list hl) (e : ev) : list hl :=
  match e with
  | Acq l => (l, true) :: s | Rel l => rm1 (l, true) s
  | RAcq l => (l, false) :: s | RRel l => rm1 (l, false) s
  | _ => s end.
(* the locks a thread holds after having executed the events p *)
Definition scan (p : list ev) : list hl := fold_left upd p [].
Definition holds_excl (p : list ev) (l : lock) : Prop := In (l, true) (scan p).
Definition holds_any (p : list ev) (l : lock) : Prop := In (l, true) (scan p) \/ In (l, false) (scan p).

(* machine state: per thread, the events done and the events still to do *)
Record th := { done_ : list ev; todo : list ev }.
Definition st := nat -> th.

Definition enabled (s : st) (i : nat) (e : ev) : Prop :=
  match e with
  | Acq l => forall j, j <> i -> ~ holds_any (done_ (s j)) l
  | RAcq l => forall j, j <> i -> ~ holds_excl (done_ (s j)) l
  | _ => True end.

Definition set (s : st) (i : nat) (t : th) : st := fun j => if Nat.eqb j i then t else s j.

Inductive step : st -> st -> Prop :=
| Step s i e rest : todo (s i) = e :: rest -> enabled s i e ->
    step s (set s i {| done_ := done_ (s i) ++ [e]; todo := rest |}).

Inductive reach (s0 : st) : st -> Prop :=
| R0 : reach s0 s0
| RS s s' : reach s0 s -> step s s' -> reach s0 s'.

Definition init_ok (s0 : st) : Prop := forall i, done_ (s0 i) = [].
(* the state runs the programs progs *)
Definition prog_inv (progs : nat -> list ev) (s : st) : Prop := forall i, progs i = done_ (s i) ++ todo (s i).

(* ---- data races ---- *)
Definition conflict (e1 e2 : ev) : option loc :=
  match e1, e2 with
  | Wr x, Wr y | Wr x, Rd y | Rd x, Wr y => if loc_eqb x y then Some x else None
  | _, _ => None end.
(* two different threads are about to perform conflicting accesses of one location *)
Definition race (s : st) : Prop := exists i j e1 r1 e2 r2 x, i <> j /\
  todo (s i) = e1 :: r1 /\ todo (s j) = e2 :: r2 /\ conflict e1 e2 = Some x.

(* lock discipline of one thread program for a guard map: every write of x is done holding guard x
   exclusively, every read holding it at least shared; None = a location nobody writes *)
Definition guarded (guard : loc -> option lock) (p : list ev) (e : ev) : Prop :=
  match e with
  | Wr x => match guard x with Some g => holds_excl p g | None => False end
  | Rd x => match guard x with Some g => holds_any p g | None => True end
  | _ => True end.
Definition disciplined (guard : loc -> option lock) (prog : list ev) : Prop :=
  forall p e r, prog = p ++ e :: r -> guarded guard p e.

(* ---- lock deadlocks ---- *)
Definition waited (t : th) : option lock :=
  match todo t with Acq l :: _ | RAcq l :: _ => Some l | _ => None end.
(* thread i cannot move: its next event is Lock of a lock somebody else holds, or RLock of a lock that
   somebody else holds exclusively or is about to Lock (Go's RWMutex makes new readers wait for a pending writer) *)
Definition stuck (s : st) (i : nat) : Prop :=
  match todo (s i) with
  | Acq l :: _ => exists j, j <> i /\ holds_any (done_ (s j)) l
  | RAcq l :: _ => exists j, j <> i /\ (holds_excl (done_ (s j)) l \/ exists r, todo (s j) = Acq l :: r)
  | _ => False end.
(* some thread (of the first n) is unfinished and every unfinished one is stuck on a lock *)
Definition deadlocked (n : nat) (s : st) : Prop :=
  (exists i, i < n /\ todo (s i) <> []) /\ forall i, i < n -> todo (s i) <> [] -> stuck s i.

(* a thread acquires locks in strictly increasing rank (in particular never a lock it already holds) *)
Definition ordered (rank : lname -> nat) (prog : list ev) : Prop :=
  forall p l r, prog = p ++ Acq l :: r \/ prog = p ++ RAcq l :: r ->
  forall h, In h (scan p) -> rank (snd (fst h)) < rank (snd l).
(* a finished thread holds nothing *)
Definition balanced (prog : list ev) : Prop := scan prog = [].
