(* C17, cluster level — evaluation of harness cases (vm_compute).
   A case is a script of cluster-level operations (PeerRemove, PeerAdd, Shutdown, restart, join, user pin / unpin, and
   the harness' control of when a peer receives configuration entries) run on real Cluster objects, with what was
   observed after every operation: the error flag, the log entries the operation committed (in commit order), the whole
   pinset, the peerset, which peers are still running; and at the end, per peer, c.removed, the number of Clean calls
   and the listing of its Raft data folder with its backups.
   code 1: Model/C17_Cluster.v, run operation by operation from the observed pinset, predicts something else;
   code 2: the observation violates the property (boolean form below). *)
From V Require Import Base.Common Model.C03_Alloc Model.C03_Check Model.C04_ClusterOps Model.C04_Check Model.C10_Repin Model.C10_Check
  Model.C14_Backup Model.C14_Check Model.C17_Members Model.C17_Cluster.
Open Scope N_scope.

(* per peer: index, follower, repinning disabled, leave on shutdown, BackupsRotate, ready, started, snapshot on shutdown
   succeeds, listing of its data folder at the start *)
Definition pinfo := (N * bool * bool * bool * nat * bool * bool * bool * listing)%type.
Definition pi_idx (x : pinfo) : N := let '(i, _, _, _, _, _, _, _, _) := x in i.
Definition pi_fol (x : pinfo) : bool := let '(_, f, _, _, _, _, _, _, _) := x in f.
Definition pi_norepin (x : pinfo) : bool := let '(_, _, n, _, _, _, _, _, _) := x in n.
Definition pi_leave (x : pinfo) : bool := let '(_, _, _, l, _, _, _, _, _) := x in l.
Definition pi_keep (x : pinfo) : nat := let '(_, _, _, _, k, _, _, _, _) := x in k.
Definition pi_ready (x : pinfo) : bool := let '(_, _, _, _, _, r, _, _, _) := x in r.
Definition pi_started (x : pinfo) : bool := let '(_, _, _, _, _, _, s, _, _) := x in s.
Definition pi_snap (x : pinfo) : bool := let '(_, _, _, _, _, _, _, s, _) := x in s.
Definition pi_listing (x : pinfo) : listing := let '(_, _, _, _, _, _, _, _, l) := x in l.

Inductive xdesc :=
| XRemove (caller target : N) (failc : list N) (out : N)   (* out: 0 committed, 1 appended-but-error, 2 refused, 3 not known *)
| XAdd (caller target : N) (out : N) (id_ok : bool)
| XShutdown (p : N) (out : N)
| XFreeze (p : N)          (* p stops receiving configuration entries *)
| XThaw (p : N)
| XRestart (p : N) (rdy : bool)
| XJoin (p via : N) (out : N)
| XCall (caller : N).      (* a user pin / unpin: C04's subject; the pinset is taken from the observation *)

(* description, error reported, entries committed (in order), pinset after, peerset after, running peers after *)
Definition xop := (xdesc * bool * list tev * list pin * list N * list N)%type.
(* index, running, c.removed, Clean calls, listing *)
Definition pfinal := (N * bool * bool * nat * listing)%type.
Definition payload := (N * Z * Z * bool * list metric * list N * list pinfo * list pin * list xop * list pfinal)%type.
Definition case := (N * payload)%type.

Definition tev_eqb (a b : tev) : bool :=
  match a, b with
  | TPin c x, TPin d y => (c =? d) && (x =? y)
  | TUnpin c x, TUnpin d y => (c =? d) && (x =? y)
  | TRm p, TRm q => p =? q
  | TAdd p, TAdd q => p =? q
  | _, _ => false
  end.

(* every list of outcomes of at most two attempts (CommitRetries = 1 in the rig with real Raft) *)
Definition outcomes2 : list (list outcome) :=
  flat_map (fun a => [a] :: map (fun b => [a; b]) [Done; LostAfter; Failed]) [Done; LostAfter; Failed].
Definition outs (out : N) : list (list outcome) :=
  match out with 0 => [[Done]] | 1 => [[LostAfter]] | 2 => [[Failed]] | _ => outcomes2 end.
Definition snap_of (b : bool) : option N := if b then Some 0 else None.
Definition pins_of (es : list tev) : list N := flat_map (fun e => match e with TPin c _ => [c] | _ => [] end) es.

(* ---------------- pass 1: the model ---------------- *)
Definition peer_of (dmin dmax : Z) (rv : bool) (x : pinfo) : N * cpeer :=
  (pi_idx x, mk_cpeer (pi_started x) (pi_ready x) false 0 (to_dir (pi_listing x)) 0
                      (mk_pcfg (mk_cfg dmin dmax (pi_fol x) rv) (pi_norepin x)) (pi_leave x) (pi_keep x)).
Definition with_st (s : cstate) (st : pinset) : cstate :=
  mk_cstate (cs_init s) (cs_lg s) st (cs_tr s) (cs_clock s) (cs_peers s).

Definition settle1 (frozen : list N) (s : cstate) (x : pinfo) : cstate :=
  let p := pi_idx x in
  if is_running s p && negb (memN p frozen)
  then fst (clstep (fst (clstep s (EvDeliver p))) (EvWatchTick p (snap_of (pi_snap x))))
  else s.
Definition settle (pis : list pinfo) (frozen : list N) (s : cstate) : cstate := fold_left (settle1 frozen) pis s.

Definition running_of (pis : list pinfo) (s : cstate) : list N := filter (is_running s) (map pi_idx pis).
Definition new_entries (s s' : cstate) : list tev := map snd (skipn (length (cs_tr s)) (cs_tr s')).
Definition pinfo_of (pis : list pinfo) (p : N) : option pinfo := find (fun x => pi_idx x =? p) pis.
Definition psnap (pis : list pinfo) (p : N) : option N :=
  match pinfo_of pis p with Some x => snap_of (pi_snap x) | None => None end.

(* one operation on the model: the first list of per-attempt outcomes that explains error flag and peerset *)
Definition try_outs (s : cstate) (mk : list outcome -> cev) (out : N) (err : bool) (peers_after : list N) : option cstate :=
  match find (fun os => let r := clstep s (mk os) in Bool.eqb (snd r) err && seteqb (cfg_peers (fst r)) peers_after) (outs out) with
  | Some os => Some (fst (clstep s (mk os)))
  | None => None
  end.

Definition model_op (ms : list metric) (pis : list pinfo) (frozen : list N) (s : cstate) (o : xop) : option cstate * list N :=
  let '(d, err, es, after, peers_after, _) := o in
  let st' := of_list after in
  match d with
  | XRemove caller target failc out =>
      (* the monitor answers with the metrics of the current peerset only (metrics.PeersetFilter) *)
      let ms' := filter (fun m => memN (mpeer m) (cfg_peers s)) ms in
      let ro := mk_ror (mk_env 0 ms' [] []) (ord_of st') (lord_from (pins_of es)) failc in
      (try_outs s (fun os => EvPeerRemove caller target ro os) out err peers_after, frozen)
  | XAdd caller target out id_ok => (try_outs s (fun os => EvPeerAdd caller target os id_ok) out err peers_after, frozen)
  | XShutdown p out => (try_outs s (fun os => EvShutdown p os (psnap pis p)) out err peers_after, frozen)
  | XFreeze p => (Some (fst (clstep s (EvDeliver 1000000))), p :: frozen)
  | XThaw p => (Some (fst (clstep s (EvDeliver 1000000))), filter (fun q => negb (q =? p)) frozen)
  | XRestart p rdy =>
      (* the harness reports a restart that could not take place (already running, or no data folder left) as an error *)
      let eff := match aget p (cs_peers s) with
                 | Some q => negb (cp_running q) && (match live (cp_dir q) with Some _ => true | None => false end)
                 | None => false end in
      (if Bool.eqb err (negb eff) then Some (fst (clstep s (EvRestart p rdy))) else None, frozen)
  | XJoin p via out => (try_outs s (fun os => EvJoin p via 0 os) out err peers_after, frozen)
  | XCall caller =>
      (Some (mk_cstate (cs_init s) (cs_lg s) st' (cs_tr s ++ map (fun e => (cs_clock s, e)) es) (S (cs_clock s)) (cs_peers s)), frozen)
  end.

Fixpoint model_run (ms : list metric) (pis : list pinfo) (frozen : list N) (s : cstate) (ops : list xop) : option cstate :=
  match ops with
  | [] => Some s
  | o :: rest =>
      let '(d, err, es, after, peers_after, running_after) := o in
      match model_op ms pis frozen s o with
      | (Some s1, frozen') =>
          let s2 := settle pis frozen' s1 in
          if list_eqb tev_eqb (new_entries s s2) es && st_eqb (cs_st s2) (of_list after)
             && seteqb (cfg_peers s2) peers_after && seteqb (running_of pis s2) running_after
          then model_run ms pis frozen' (with_st s2 (of_list after)) rest
          else None
      | (None, _) => None
      end
  end.

Definition final_eqb (s : cstate) (f : pfinal) : bool :=
  let '(p, running, removed, cleans, l) := f in
  match aget p (cs_peers s) with
  | Some q => Bool.eqb (cp_running q) running && Bool.eqb (cp_removed q) removed && Nat.eqb (cp_cleans q) cleans
              && list_eqb ofold_eqb (listing_of (window l) (cp_dir q)) l
  | None => false
  end.

Definition model_eqb (x : payload) : bool :=
  let '(kind, dmin, dmax, rv, ms, init, pis, pins0, ops, finals) := x in
  let s0 := mk_cstate init [] (of_list pins0) [] 0 (map (peer_of dmin dmax rv) pis) in
  match model_run ms pis [] s0 ops with
  | Some s => forallb (final_eqb s) finals
  | None => false
  end.

(* ---------------- pass 2: the property on the observations ---------------- *)
Definition is_unpin (e : tev) : bool := match e with TUnpin _ _ => true | _ => false end.
(* re-pins by the caller first, then at most the configuration entry of the target: nothing after it *)
Fixpoint remove_order_ok (caller target : N) (seen_rm : bool) (es : list tev) : bool :=
  match es with
  | [] => true
  | TPin _ b :: r => negb seen_rm && (b =? caller) && remove_order_ok caller target seen_rm r
  | TRm p :: r => negb seen_rm && (p =? target) && remove_order_ok caller target true r
  | _ :: _ => false
  end.

Record sstate := mk_sstate {
  ss_st : pinset; ss_peers : list N; ss_running : list N; ss_views : list (N * list N); ss_out : list N;
  ss_ready : list (N * bool) (* readiness of the current incarnation of the peers that were started again *) }.

Definition view_of (ss : sstate) (peers_after : list N) (q : N) : list N :=
  match aget q (ss_views ss) with Some v => v | None => peers_after end.

Definition spec_op (rv : bool) (ms : list metric) (pis : list pinfo) (ss : sstate) (o : xop) : bool * bool * sstate :=
  let '(d, err, es, after, peers_after, running_after) := o in
  let st := ss_st ss in let st' := of_list after in
  let starts := match d with XRestart p _ | XJoin p _ _ => if err then [] else [p] | _ => [] end in
  let ready' := match d with
                | XRestart p rdy => if err then ss_ready ss else aput p rdy (ss_ready ss)
                | XJoin p _ _ => aput p (negb err) (ss_ready ss)
                | _ => ss_ready ss end in
  let stops := match d with XShutdown p _ => [p] | _ => [] end in
  let views' := match d with
                | XFreeze p => match aget p (ss_views ss) with Some _ => ss_views ss | None => aput p (ss_peers ss) (ss_views ss) end
                | XThaw p => adel p (ss_views ss)
                | _ => ss_views ss end in
  let ss1 := mk_sstate st' peers_after running_after views'
                       (ss_out ss ++ filter (fun q => negb (memN q peers_after)) (map pi_idx pis)) ready' in
  (* which peers run: a removed peer (in its own view) has stopped itself; a member has not; nobody starts by itself *)
  let run_ok :=
    forallb (fun x =>
      let q := pi_idx x in
      let may_run := memN q (ss_running ss) || memN q starts in
      let in_view := memN q (match aget q views' with Some v => v | None => peers_after end) in
      if memN q running_after then may_run && negb (memN q stops) && in_view
      else negb may_run || memN q stops || memN q starts || negb in_view) pis in
  let op_ok :=
    match d with
    | XRemove caller target failc out =>
        let cinfo := pinfo_of pis caller in
        let active := memN caller (ss_running ss) in
        let idle := match cinfo with Some x => pi_fol x || pi_norepin x | None => true end in
        remove_order_ok caller target false es                                   (* re-homing first *)
        && same_keys st st'                                                     (* no pin dropped or created *)
        && (if idle || negb active then st_eqb st st' && (match pins_of es with [] => true | _ => false end) else true)
        && (if err then true else negb (memN target peers_after))               (* success = no member *)
        && forallb (fun q => (q =? target) || Bool.eqb (memN q (ss_peers ss)) (memN q peers_after)) (map pi_idx pis ++ ss_peers ss ++ peers_after)
        && (if memN target (ss_peers ss) && negb (memN target peers_after) then existsb is_rm es else negb (existsb is_rm es))
        && (* C10's per-pin clauses for the peer that ran the re-pin loop; pins made by pin-update are C10's recorded finding *)
           (let steps := [(caller, false, false, false, pins_of es, after)] in
            let eligible := active && negb idle && (match failc with [] => true | _ => false end) in
            forallb (fun c => match aget c st with Some p => is_update_pin p | None => false end)
                    (repin_bad 0 rv (filter (fun m => memN (mpeer m) (ss_peers ss)) ms) true eligible target st st' steps))
    | XCall caller => forallb (fun e => match e with TPin _ b | TUnpin _ b => b =? caller | _ => false end) es
                      && seteqb peers_after (ss_peers ss)
    | XAdd caller target out id_ok =>
        st_eqb st st' && forallb (fun e => match e with TAdd p => p =? target | _ => false end) es
        && forallb (fun q => (q =? target) || Bool.eqb (memN q (ss_peers ss)) (memN q peers_after)) (map pi_idx pis ++ ss_peers ss ++ peers_after)
        && (if err then true else memN target peers_after || negb id_ok)
    | XJoin p via out =>
        st_eqb st st' && forallb (fun e => match e with TAdd q => q =? p | _ => false end) es
        && (if err then true else memN p peers_after)
    | XShutdown p out =>
        st_eqb st st' && forallb (fun e => match e with TRm q => q =? p | _ => false end) es
        && forallb (fun q => (q =? p) || Bool.eqb (memN q (ss_peers ss)) (memN q peers_after)) (map pi_idx pis ++ ss_peers ss ++ peers_after)
    | _ => st_eqb st st' && (match es with [] => true | _ => false end) && seteqb peers_after (ss_peers ss)
    end in
  (op_ok && nodupb peers_after, run_ok, ss1).

(* (what each operation did to log, pinset and peerset; who runs after it; state at the end) *)
Fixpoint spec_run (rv : bool) (ms : list metric) (pis : list pinfo) (ss : sstate) (ops : list xop) : bool * bool * sstate :=
  match ops with
  | [] => (true, true, ss)
  | o :: rest => let '(ok, rk, ss1) := spec_op rv ms pis ss o in
                 let '(ok', rk', ss2) := spec_run rv ms pis ss1 rest in (ok && ok', rk && rk', ss2)
  end.

Definition olds_eqb (a b : listing) : bool := list_eqb ofold_eqb (tl a) (tl b).
Definition explicit_stop (ops : list xop) (p : N) : bool :=
  existsb (fun o => match fst (fst (fst (fst (fst o)))) with XShutdown q _ => q =? p | _ => false end) ops.

(* the end of the script, per peer: a peer that stopped because it was removed (and had become ready) has no data folder left,
   CleanupRaft ran once for it and its backups are C14's rotation of the folder the shutdown left; a peer that was never out of
   the peerset and does not leave on shutdown never cleaned: folder and backups as they were *)
Definition final_ok (pis : list pinfo) (ops : list xop) (ss : sstate) (f : pfinal) : bool :=
  let '(p, running, removed, cleans, l) := f in
  match pinfo_of pis p with
  | None => false
  | Some x =>
      let l0 := pi_listing x in
      let keep := pi_keep x in
      let was_started := pi_started x || (match aget p (ss_ready ss) with Some _ => true | None => false end) in
      let ready := match aget p (ss_ready ss) with Some b => b | None => pi_ready x end in
      let watcher_stopped := was_started && negb running && negb (explicit_stop ops p) in
      Bool.eqb running (memN p (ss_running ss))
      && (if running then negb removed else true)
      && Nat.leb cleans 1
      (* stopped by its watcher: marked removed; ready -> cleaned once, folder gone, backups rotated *)
      && (if watcher_stopped then
            removed
            && (if ready then
                  Nat.eqb cleans 1 && ofold_eqb (hd None l) None
                  && match hd None l0 with
                     | Some (m, sn) =>
                         let f := (m, if pi_snap x then Some 0 else sn) in
                         match snd f with
                         | Some _ => bk_step_okb keep l0 (Some f, true) l
                         | None => olds_eqb l0 l
                         end
                     | None => true
                     end
                else Nat.eqb cleans 0)
          else true)
      (* never out of the peerset, not leaving: never cleaned, data in place *)
      && (if negb (pi_leave x) && negb (memN p (ss_out ss)) then
            Nat.eqb cleans 0 && negb removed && olds_eqb l0 l
            && match hd None l0, hd None l with
               | Some (m, _), Some (m', _) => m =? m'
               | None, None => true
               | None, Some _ => true
               | Some _, None => false
               end
          else true)
      && (if Nat.eqb cleans 0 then olds_eqb l0 l else true)
  end.

(* the three parts of the property on the observation: (operations, running peers, data folders at the end) *)
Definition spec_parts (x : payload) : bool * bool * bool :=
  let '(kind, dmin, dmax, rv, ms, init, pis, pins0, ops, finals) := x in
  let ss0 := mk_sstate (of_list pins0) init (map pi_idx (filter pi_started pis)) []
                       (filter (fun q => negb (memN q init)) (map pi_idx pis)) [] in
  let '(ok, rk, ss) := spec_run rv ms pis ss0 ops in
  (ok, rk, forallb (final_ok pis ops ss) finals && Nat.eqb (length finals) (length pis)).
Definition spec_okb (x : payload) : bool := let '(a, b, c) := spec_parts x in a && b && c.

(* code 20: an operation's effect on log / pinset / peerset (re-homing before the configuration entry, no pin dropped, disabled
   re-pinning only removes, success = no member, C10's per-pin outcome); code 21: a removed peer did not stop itself, or a member
   did; code 22: data folders at the end (removed and ready: cleaned once, rotated per C14; never out of the peerset: untouched) *)
Definition check_case (c : case) : list (N * N * N) :=
  let '(id, x) := c in
  let '(a, b, f) := spec_parts x in
  (if model_eqb x then [] else [(id, 1, 0)]) ++
  (if a then [] else [(id, 20, 0)]) ++ (if b then [] else [(id, 21, 0)]) ++ (if f then [] else [(id, 22, 0)]).
Definition failing (cs : list case) : list (N * N * N) := flat_map check_case cs.
