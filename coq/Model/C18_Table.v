(* C18 — vocabulary of the generated lock/field access table (Gen/Locksets.v) and the boolean
   obligations evaluated on it. Definitions only. The table itself is regenerated from the Go
   source at every run by tools/gen/locksets.go. *)
From Coq Require Export String List NArith Bool.
Export ListNotations.
Local Open Scope string_scope.

Inductive akind := KRd | KWr | KEsc.   (* read, write, a reference into the structure leaves the function *)
Inductive part := Slot | Cont.          (* the field itself / what a reference field points to (map, backing array, ring) *)
Record lk := L { l_name : string; l_excl : bool; l_sec : N }.   (* mutex field of the same instance, exclusive?, critical-section number *)
Record access := A {
  a_ty : string;        (* package.Type *)
  a_field : string;
  a_part : part;
  a_fn : string;        (* package.Type.Method or package.func: the function whose body contains the access *)
  a_via : string;       (* ">callee>callee" when the access sits in a same-package callee that was handed the structure *)
  a_kind : akind;
  a_unknown : bool;     (* the walk could not follow the locking of this function (or the owner of the field) *)
  a_locks : list lk;    (* locks of the same instance held at the access *)
  a_pos : string }.

(* ---- designated guards: which mutex field protects which field (the discipline being claimed) ---- *)
Definition guards : list (string * string * string) := [
  ("ipfscluster.Cluster", "alerts", "alertsMux");
  ("ipfscluster.Cluster", "shutdownB", "shutdownLock");
  ("ipfscluster.Cluster", "removed", "shutdownLock");
  ("ipfscluster.Cluster", "readyB", "shutdownLock");
  ("optracker.OperationTracker", "operations", "mu");
  ("optracker.Operation", "phase", "mu");
  ("optracker.Operation", "error", "mu");
  ("optracker.Operation", "ts", "mu");
  ("metrics.Store", "byName", "mux");
  ("metrics.Window", "window", "wMu");
  ("metrics.Checker", "failedPeers", "failedPeersMu");
  ("disk.Informer", "rpcClient", "mu");
  ("numpin.Informer", "rpcClient", "mu");
  ("stateless.Tracker", "shutdown", "shutdownMu");
  ("crdt.Consensus", "shutdown", "shutdownLock");
  ("crdt.Consensus", "crdt", "shutdownLock")].

Definition guard_of (ty f : string) : option string :=
  match find (fun g => String.eqb (fst (fst g)) ty && String.eqb (snd (fst g)) f) guards with
  | Some g => Some (snd g) | None => None end.

Definition part_eqb (p q : part) : bool := match p, q with Slot, Slot | Cont, Cont => true | _, _ => false end.
Definition same_loc (a b : access) : bool :=
  String.eqb (a_ty a) (a_ty b) && String.eqb (a_field a) (a_field b) && part_eqb (a_part a) (a_part b).

(* exemptions: functions whose accesses happen before the object is shared (fn name, justification) *)
Definition exemption := (string * string)%type.
Definition exemptb (ex : list exemption) (a : access) : bool := existsb (fun e => String.eqb (fst e) (a_fn a)) ex.

Definition is_write (a : access) : bool := match a_kind a with KRd => false | _ => true end.
(* some non-exempt access writes this location: only then can an access to it race *)
Definition writtenb (ex : list exemption) (accs : list access) (a : access) : bool :=
  existsb (fun b => same_loc a b && is_write b && negb (exemptb ex b)) accs.

Definition holdsb (g : string) (need_excl : bool) (ls : list lk) : bool :=
  existsb (fun l => String.eqb (l_name l) g && (l_excl l || negb need_excl)) ls.

Definition guardedb (a : access) (need_excl : bool) : bool :=
  match guard_of (a_ty a) (a_field a) with Some g => holdsb g need_excl (a_locks a) | None => false end.

(* the premise of lockset_drf for one table entry *)
Definition access_okb (ex : list exemption) (accs : list access) (a : access) : bool :=
  exemptb ex a ||
  (negb (a_unknown a) &&
   match a_kind a with
   | KEsc => false
   | KWr => guardedb a true
   | KRd => negb (writtenb ex accs a) || guardedb a false
   end).

(* ---- what the boolean form means (Prop versions; Proofs/C18_Table.v: access_okb_sound) ---- *)
Definition exempt (ex : list exemption) (a : access) : Prop := exists e, In e ex /\ fst e = a_fn a.
Definition written (ex : list exemption) (accs : list access) (a : access) : Prop :=
  exists b, In b accs /\ same_loc a b = true /\ a_kind b <> KRd /\ ~ exempt ex b.
Definition holds_guard (a : access) (need_excl : bool) : Prop :=
  exists g l, guard_of (a_ty a) (a_field a) = Some g /\ In l (a_locks a) /\ l_name l = g /\ (need_excl = true -> l_excl l = true).

(* the premise of lockset_drf, for one entry: a write holds the designated guard exclusively, a read of a
   location that anything writes holds it at least shared; the walk followed the function; nothing escapes *)
Definition access_ok (ex : list exemption) (accs : list access) (a : access) : Prop :=
  exempt ex a \/
  (a_unknown a = false /\ a_kind a <> KEsc /\
   (a_kind a = KWr -> holds_guard a true) /\
   (a_kind a = KRd -> written ex accs a -> holds_guard a false)).


Definition discipline_okb (ex : list exemption) (accs : list access) : bool := forallb (access_okb ex accs) accs.
Definition offending (ex : list exemption) (accs : list access) : list access := filter (fun a => negb (access_okb ex accs a)) accs.

Definition show_lk (l : lk) : string := l_name l ++ (if l_excl l then ":W" else ":R").
Definition show_access (a : access) : string :=
  a_pos a ++ " " ++ a_fn a ++ a_via a ++ " " ++
  (match a_kind a with KRd => "reads " | KWr => "writes " | KEsc => "leaks a reference to " end) ++
  a_ty a ++ "." ++ a_field a ++ (match a_part a with Slot => "" | Cont => "[contents]" end) ++
  " holding {" ++ String.concat "," (map show_lk (a_locks a)) ++ "}" ++
  (if a_unknown a then " (locking not followed)" else "") ++
  (match guard_of (a_ty a) (a_field a) with Some g => "; guard " ++ g | None => "; no guard designated" end).

(* ---- lock order: longest-path ranks by relaxation; acyclic iff every edge goes strictly upwards ---- *)
Definition edge := (string * string * string)%type.   (* held, acquired, where *)
Fixpoint rget (k : string) (r : list (string * nat)) : nat :=
  match r with [] => 0 | (k', v) :: t => if String.eqb k k' then v else rget k t end.
Fixpoint rset (k : string) (v : nat) (r : list (string * nat)) : list (string * nat) :=
  match r with [] => [(k, v)] | (k', v') :: t => if String.eqb k k' then (k, v) :: t else (k', v') :: rset k v t end.
Definition relax1 (r : list (string * nat)) (e : edge) : list (string * nat) :=
  let v := S (rget (fst (fst e)) r) in if Nat.ltb (rget (snd (fst e)) r) v then rset (snd (fst e)) v r else r.
Fixpoint relax_n (n : nat) (es : list edge) (r : list (string * nat)) : list (string * nat) :=
  match n with O => r | S n' => relax_n n' es (fold_left relax1 es r) end.
Definition ranks (es : list edge) : list (string * nat) := relax_n (length es) es [].
Definition rank_of (es : list edge) (l : string) : nat := rget l (ranks es).
Definition edge_okb (es : list edge) (e : edge) : bool := Nat.ltb (rank_of es (fst (fst e))) (rank_of es (snd (fst e))).
Definition lock_order_okb (es : list edge) : bool := forallb (edge_okb es) es.
(* edges that lie on a cycle or lead out of one *)
Definition bad_edges (es : list edge) : list string :=
  map (fun e => fst (fst e) ++ " -> " ++ snd (fst e) ++ " at " ++ snd e) (filter (fun e => negb (edge_okb es e)) es).

(* ---- the wait-for graph: nesting pairs + (held lock -> group waited for) + (group -> what a covered unit acquires / waits for) ---- *)
Definition wait_site := (string * list string * string * string)%type.   (* function [-> callees], locks held, group, position *)
Definition wait_site_edges (w : wait_site) : list edge :=
  let '(fn, held, g, pos) := w in map (fun h => (h, g, fn ++ " " ++ pos)) held.
Definition wait_edges (nesting : list edge) (waits : list wait_site) (covers : list edge) : list edge :=
  nesting ++ flat_map wait_site_edges waits ++ covers.
Definition wait_graph_okb (nesting : list edge) (waits : list wait_site) (covers : list edge) : bool :=
  lock_order_okb (wait_edges nesting waits covers).

(* the simple cycles of a (small) graph, each as its list of edges: those through the first node, then those of the
   graph without that node, ... (for the diagnosis only; the obligation is the rank test above) *)
Definition e_src (e : edge) : string := fst (fst e).
Definition e_dst (e : edge) : string := snd (fst e).
Fixpoint cyc_walk (fuel : nat) (es : list edge) (start cur : string) (path : list edge) : list (list edge) :=
  match fuel with
  | O => []
  | S f =>
    flat_map (fun e =>
      if String.eqb (e_src e) cur then
        if String.eqb (e_dst e) start then [rev (e :: path)]
        else if String.eqb (e_dst e) cur || existsb (fun p => String.eqb (e_src p) (e_dst e)) path then []
        else cyc_walk f es start (e_dst e) (e :: path)
      else []) es
  end.
Fixpoint cycles_aux (nodes : list string) (es : list edge) : list (list edge) :=
  match nodes with
  | [] => []
  | v :: vs => cyc_walk (S (length es)) es v v [] ++
               cycles_aux vs (filter (fun e => negb (String.eqb (e_src e) v) && negb (String.eqb (e_dst e) v)) es)
  end.
Fixpoint dedup (l : list string) : list string :=
  match l with [] => [] | x :: t => x :: filter (fun y => negb (String.eqb x y)) (dedup t) end.
Definition cycles (es : list edge) : list (list edge) := cycles_aux (dedup (map e_src es)) es.
Definition show_cycle (c : list edge) : string :=
  match c with
  | [] => ""
  | e :: _ => "cycle: " ++ e_src e ++ String.concat "" (map (fun x => " -> " ++ e_dst x ++ " [" ++ snd x ++ "]") c)
  end.
(* the cycles when the rank test fails (if it fails and no cycle is found, the edges the ranks do not respect) *)
Definition wait_cycles (nesting : list edge) (waits : list wait_site) (covers : list edge) : list string :=
  let es := wait_edges nesting waits covers in
  if lock_order_okb es then []
  else match cycles es with [] => bad_edges es | cs => map show_cycle (firstn 16 cs) end.
Definition show_wait (w : wait_site) : string :=
  let '(fn, held, g, pos) := w in pos ++ " " ++ fn ++ " waits for " ++ g ++ " holding {" ++ String.concat "," held ++ "}".

(* ---- awaited goroutines are always started ----
   A plain receive from a channel field ends only when somebody closes the channel (or sends). It is accepted when some
   closer is (a) sure to reach its close whenever it runs (deferred first thing / nothing returns before it) and (b) sure
   to have been started: by a `go` statement that sits under no condition the wait does not sit under as well, in a
   constructor-like function (no receiver: an early return there hands out no object), or in a code unit that has no
   return statement before the `go` statement and is itself sure to have been started. Syntactic, conservative. *)
Definition chan_wait := (string * string * list string * list string * string)%type.      (* function, group, held, conditions, position *)
Definition closer := (string * string * bool * string)%type.                            (* group, code unit, close is sure, position *)
Definition launch := (string * string * bool * list string * list string * string)%type. (* started, by, constructor, conditions, returns before, position *)
Definition subsetb (xs ys : list string) : bool := forallb (fun x => existsb (String.eqb x) ys) xs.
Fixpoint startedb (fuel : nat) (ls : list launch) (u : string) (conds : list string) : bool :=
  match fuel with
  | O => false
  | S f => existsb (fun l : launch => let '(lu, by_, ctor, cs, exits, _) := l in
             String.eqb lu u && subsetb cs conds &&
             (ctor || (match exits with [] => true | _ => false end && startedb f ls by_ conds))) ls
  end.
Definition chan_wait_okb (ls : list launch) (cl : list closer) (w : chan_wait) : bool :=
  let '(_, g, _, conds, _) := w in
  existsb (fun c : closer => let '(cg, u, sure, _) := c in String.eqb cg g && sure && startedb 6 ls u conds) cl.
Definition started_okb (ls : list launch) (cl : list closer) (ws : list chan_wait) : bool := forallb (chan_wait_okb ls cl) ws.
(* why a code unit is not sure to have been started (first launch site found) *)
Fixpoint why_not_started (fuel : nat) (ls : list launch) (u : string) (conds : list string) : string :=
  match fuel with
  | O => u ++ ": launch chain too long"
  | S f =>
    match filter (fun l : launch => let '(lu, _, _, _, _, _) := l in String.eqb lu u) ls with
    | [] => u ++ " is not started by any go statement"
    | (_, by_, ctor, cs, exits, pos) :: _ =>
      if negb (subsetb cs conds) then u ++ " is started by " ++ by_ ++ " at " ++ pos ++ " only under {" ++ String.concat "; " cs ++ "}"
      else if ctor then u ++ " is started"
      else match exits with
           | [] => why_not_started f ls by_ conds
           | _ => u ++ " is started by " ++ by_ ++ " at " ++ pos ++ " after " ++ String.concat ", " exits ++
                  " (return statements of " ++ by_ ++ " that come first): not on every path"
           end
    end
  end.
Definition show_unstarted (ls : list launch) (cl : list closer) (w : chan_wait) : string :=
  let '(fn, g, held, conds, pos) := w in
  pos ++ " " ++ fn ++ " waits for " ++ g ++ " holding {" ++ String.concat "," held ++ "}: " ++
  match filter (fun c : closer => let '(cg, _, _, _) := c in String.eqb cg g) cl with
  | [] => "nobody closes it"
  | cs => String.concat " | " (map (fun c : closer => let '(_, u, sure, cpos) := c in
            if sure then "its closer " ++ why_not_started 6 ls u conds
            else "its closer " ++ u ++ " does not reach the close at " ++ cpos ++ " on every path") cs)
  end.
Definition unstarted (ls : list launch) (cl : list closer) (ws : list chan_wait) : list string :=
  map (show_unstarted ls cl) (filter (fun w => negb (chan_wait_okb ls cl w)) ws).

(* ---- no new shared state outside the table ----
   A row of shared_untracked is a map / slice field of an owner type that the table does not track although it is mutated,
   assigned or handed on outside a constructor and used by code reachable from two goroutine entry points. Each must be
   either added to the table (with a guard) or listed, with a justification, in the exemption list (Model/C18_Exempt.v). *)
Definition shared_row := (string * string * string * list string * list string)%type.   (* type, field, kind, entry points, use sites *)
Definition shared_exemption := (string * string * string)%type.                        (* type, field, justification *)
Definition shared_exemptb (ex : list shared_exemption) (r : shared_row) : bool :=
  let '(ty, f, _, _, _) := r in existsb (fun e : shared_exemption => String.eqb (fst (fst e)) ty && String.eqb (snd (fst e)) f) ex.
Definition untracked_shared (ex : list shared_exemption) (rows : list shared_row) : list shared_row :=
  filter (fun r => negb (shared_exemptb ex r)) rows.
Definition show_shared (r : shared_row) : string :=
  let '(ty, f, k, entries, sites) := r in
  ty ++ "." ++ f ++ " (" ++ k ++ ") is not in the table but is shared: reachable from {" ++ String.concat "; " entries ++
  "}; used at " ++ String.concat ", " sites.

(* the table still contains the waits the property is about: (group, must the table list code units it covers?) *)
Definition expected_waits : list (string * bool) :=
  [("wg:ipfscluster.Cluster.wg", true);      (* Cluster.Shutdown collects the goroutines of NewCluster / run / Join *)
   ("wg:stateless.Tracker.wg", false)].      (* Tracker.Shutdown waits for a WaitGroup nothing is registered in *)
Definition wait_covered_okb (waits : list wait_site) (members : list (string * string * string)) (x : string * bool) : bool :=
  existsb (fun w => String.eqb (snd (fst w)) (fst x)) waits &&
  (negb (snd x) || existsb (fun m => String.eqb (fst (fst m)) (fst x)) members).
Definition wait_coverage_okb waits members : bool := forallb (wait_covered_okb waits members) expected_waits.
Definition wait_uncovered waits members : list string :=
  map (fun x : string * bool => fst x ++ ": no Wait() on it in the table" ++ (if snd x then ", or no code unit it covers" else ""))
      (filter (fun x => negb (wait_covered_okb waits members x)) expected_waits).

(* ---- accessors: all reads/writes a value-returning function makes under one guard share one critical section ---- *)
Definition guard_sec (a : access) : N :=
  match guard_of (a_ty a) (a_field a) with
  | Some g => match find (fun l => String.eqb (l_name l) g) (a_locks a) with Some l => l_sec l | None => 0%N end
  | None => 0%N end.
Definition same_guard (a b : access) : bool :=
  String.eqb (a_ty a) (a_ty b) &&
  match guard_of (a_ty a) (a_field a), guard_of (a_ty b) (a_field b) with
  | Some g, Some h => String.eqb g h | _, _ => false end.
Definition atomic_fn_okb (ex : list exemption) (accs : list access) (fn : string) : bool :=
  let mine := filter (fun a => String.eqb (a_fn a) fn && negb (exemptb ex a) && writtenb ex accs a) accs in
  forallb (fun a => negb (N.eqb (guard_sec a) 0) &&
                    forallb (fun b => negb (same_guard a b) || N.eqb (guard_sec a) (guard_sec b)) mine) mine.
Definition atomic_okb (ex : list exemption) (accs : list access) (fns : list string) : bool := forallb (atomic_fn_okb ex accs) fns.
Definition torn_accessors (ex : list exemption) (accs : list access) (fns : list string) : list string :=
  map (fun fn => fn ++ ": its accesses are not all inside one critical section of the guard (" ++
                 String.concat " " (map (fun a => a_pos a) (filter (fun a => String.eqb (a_fn a) fn && writtenb ex accs a) accs)) ++ ")")
      (filter (fun fn => negb (atomic_fn_okb ex accs fn)) fns).

(* ---- the table still covers what the property names ---- *)
Definition covers_okb (tracked locks : list (string * string * string)) (accs : list access) (g : string * string * string) : bool :=
  let '(ty, f, m) := g in
  existsb (fun t => String.eqb (fst (fst t)) ty && String.eqb (snd (fst t)) f) tracked
  && existsb (fun t => String.eqb (fst (fst t)) ty && String.eqb (snd (fst t)) m) locks
  && existsb (fun a => String.eqb (a_ty a) ty && String.eqb (a_field a) f) accs.
Definition coverage_okb tracked locks accs : bool := forallb (covers_okb tracked locks accs) guards.
Definition uncovered tracked locks accs : list string :=
  map (fun g => fst (fst g) ++ "." ++ snd (fst g) ++ ": not in the table, or its designated guard " ++ snd g ++ " is not a mutex field of the type")
      (filter (fun g => negb (covers_okb tracked locks accs g)) guards).

Definition show_leak (l : string * string * string * string) : string :=
  let '(fn, lock, what, pos) := l in pos ++ " " ++ fn ++ " " ++ lock ++ " " ++ what.
