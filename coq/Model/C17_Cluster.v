(* C17 — the cluster-level part of peer removal and addition: executable transcription (definitions only).

   What is transcribed, and from where (cluster.go unless said otherwise):
   * ev PeerRemove   Cluster.PeerRemove AS WRITTEN: vacatePeer first (C10's repin loop: every pin allocated to the target is
                     re-pinned with the target blacklisted, unless DisableRepinning; an error of one re-pin - allocation
                     impossible, LogPin refused - is only logged and the loop goes on), THEN consensus.RmPeer (C17_Members'
                     cons_rm: retry loop over raftWrapper.RemovePeer), whose error is the result of the call. Nothing is
                     undone when RmPeer fails after the re-pins;
   * ev PeerAdd      Cluster.PeerAdd: consensus.AddPeer (cons_add), then the ID of the new peer is fetched (an RPC that may fail);
   * ev Join         Cluster.Join on a freshly started peer: PeerAdd at the contacted peer, then consensus.WaitForSync;
   * ev WatchTick    one tick of watchPeers: consensus.Peers() - the peer's own LATEST configuration, i.e. of the entries it has
                     received (C17_Members.report) - lacks this peer -> c.removed = true, Shutdown;
   * do_shutdown     Cluster.Shutdown AS WRITTEN: LeaveOnShutdown && readyB && !removed -> removed = true and a best-effort
                     RmPeer(self) whose error is only logged; consensus.Shutdown (raft.go Shutdown: snapshotOnShutdown, then
                     raft and boltdb are closed); removed && readyB -> consensus.Clean = raft.go CleanupRaft = C14's cleanup
                     (a folder with a snapshot is rotated into the backups, one without is deleted); then the other components.
                     Without removed the data folder stays as the shutdown left it;
   * ev Restart      the process is started again on the data folder it left (not after a clean: such a peer has to join again).
   The shared pinset is one value (C01/C04 justify it); the Raft log appears as its membership entries (C17_Members) and as a
   trace of committed entries - pins, unpins, configuration changes - each tagged with the number of the event that caused it.
   Nondeterminism is explicit in the events: who calls, per-attempt outcomes of hashicorp/raft (committed / appended-but-error /
   refused: this covers "who is leader" and RPC failures of the redirect), which LogPin calls fail, Go map and datastore orders,
   whether the snapshot on shutdown succeeded, when a peer receives configuration entries and when its watcher ticks.
   Assumed: the Shutdown of the monitor, API, IPFS connector, tracker, informers and tracer succeed (a failure there makes
   Shutdown return early without closing doneCh). *)
From V Require Import Base.Common Model.C03_Alloc Model.C04_ClusterOps Model.C10_Repin Model.C14_Backup Model.C17_Members.
Open Scope N_scope.

(* ---- the trace of committed log entries ---- *)
Inductive tev :=
| TPin (c by_ : N)      (* an acknowledged LogPin of CID c issued by peer by_ *)
| TUnpin (c by_ : N)
| TRm (p : N)           (* a configuration entry removing p *)
| TAdd (p : N).         (* a configuration entry adding p *)
Definition trace := list (nat * tev).

Definition is_pin (e : tev) : bool := match e with TPin _ _ => true | _ => false end.
Definition is_rm (e : tev) : bool := match e with TRm _ => true | _ => false end.
Definition mem_of (e : tev) : list mentry := match e with TRm p => [ERm p] | TAdd p => [EAdd p] | _ => [] end.
Definition tev_of (e : mentry) : list tev := match e with ERm p => [TRm p] | EAdd p => [TAdd p] | EOp _ => [] end.
(* the configuration entries a call appended to the log lg, which became lg' *)
Definition mem_trace (k : nat) (lg lg' : list mentry) : trace :=
  map (fun e => (k, e)) (flat_map tev_of (skipn (length lg) lg')).

(* ---- one peer ---- *)
Record cpeer := mk_cpeer {
  cp_running : bool;   (* the Cluster object has not completed Shutdown (doneCh is open) *)
  cp_ready : bool;     (* c.readyB *)
  cp_removed : bool;   (* c.removed *)
  cp_recv : nat;       (* configuration entries its Raft has received *)
  cp_dir : dir N;      (* its Raft data folder and the rotated backups next to it (folders: marker, newest snapshot) *)
  cp_cleans : nat;     (* how many times CleanupRaft ran for it (ghost) *)
  cp_pc : pcfg;        (* replication defaults, follower mode, DisableRepinning *)
  cp_leave : bool;     (* LeaveOnShutdown *)
  cp_keep : nat }.     (* raft BackupsRotate *)

Definition set_run (q : cpeer) (running ready removed : bool) (recv : nat) (d : dir N) (cleans : nat) : cpeer :=
  mk_cpeer running ready removed recv d cleans (cp_pc q) (cp_leave q) (cp_keep q).

Record cstate := mk_cstate {
  cs_init : list N;            (* the initial peerset *)
  cs_lg : list mentry;         (* the configuration entries of the Raft log *)
  cs_st : pinset;              (* the shared pinset *)
  cs_tr : trace;               (* committed entries in commit order *)
  cs_clock : nat;              (* number of events so far *)
  cs_peers : list (N * cpeer) }.

Definition cfg_peers (s : cstate) : list N := peers_of (cs_init s) (cs_lg s).
(* what consensus.Peers() answers on peer q: the configuration of the entries it has received *)
Definition sees (s : cstate) (q : cpeer) : list N := peers_of (cs_init s) (firstn (cp_recv q) (cs_lg s)).
Definition is_running (s : cstate) (p : N) : bool :=
  match aget p (cs_peers s) with Some q => cp_running q | None => false end.

(* ---- oracles of one vacatePeer run ---- *)
Record repin_or := mk_ror {
  r_env : env;                          (* time, metrics *)
  r_ord : N -> list N -> list N;        (* allocate's Go map order, per CID *)
  r_lord : list pin -> list pin;        (* the order in which the state lists its pins *)
  r_fail : list N }.                    (* CIDs whose LogPin is refused by the consensus component *)

(* vacatePeer: C10's loop over the listed pins; a refused LogPin leaves the entry alone and logs nothing *)
Definition vacate_f (pc : pcfg) (o : repin_or) (st : pinset) (f : N) : pinset * list N :=
  if pc_norepin pc then (st, [])
  else repin_loop (pc_cfg pc) (r_env o) (r_ord o) f (fun x => negb (memN (p_cid x) (r_fail o))) (listed (r_lord o) st) st.

(* raft.go Shutdown -> snapshotOnShutdown: when it succeeds the data folder's newest snapshot is the new one *)
Definition snap_dir (snap : option N) (d : dir N) : dir N :=
  match snap, live d with
  | Some x, Some (m, _) => mk_dir (Some (m, Some x)) (olds d)
  | _, _ => d
  end.

(* Cluster.Shutdown of a running peer q (its identity p), in event number k *)
Definition do_shutdown (s : cstate) (k : nat) (p : N) (q : cpeer) (os : list outcome) (snap : option N) : cstate :=
  let leave := cp_leave q && cp_ready q && negb (cp_removed q) in
  let lg' := if leave then fst (cons_rm (cs_init s) (cs_lg s) p os) else cs_lg s in
  let removed' := cp_removed q || leave in
  let d1 := snap_dir snap (cp_dir q) in
  let clean := removed' && cp_ready q in
  let d2 := if clean then cleanup (cp_keep q) d1 else d1 in
  let q' := set_run q false (cp_ready q) removed' (cp_recv q) d2 (if clean then S (cp_cleans q) else cp_cleans q) in
  mk_cstate (cs_init s) lg' (cs_st s) (cs_tr s ++ mem_trace k (cs_lg s) lg') (cs_clock s) (aput p q' (cs_peers s)).

(* the log entries of a user call (C04's step) *)
Definition call_entries (e : env) (st : pinset) (by_ : N) (k : call) (r : result) : list tev :=
  match r with
  | RErr _ => []
  | ROk q =>
      match k with
      | CUnpin _ | CUnpinPath _ => map (fun c => TUnpin c by_) (unpin_logs e st (p_cid q) q)
      | _ => [TPin (p_cid q) by_]
      end
  end.

Inductive cev :=
| EvPeerRemove (caller target : N) (o : repin_or) (os : list outcome)
| EvPeerAdd (caller target : N) (os : list outcome) (id_ok : bool)
| EvJoin (p via : N) (marker : N) (os : list outcome)
| EvDeliver (p : N)                         (* p's Raft receives the configuration entries it lacks *)
| EvWatchTick (p : N) (snap : option N)     (* one tick of p's watchPeers; snap: outcome of the snapshot on shutdown *)
| EvShutdown (p : N) (os : list outcome) (snap : option N)
| EvRestart (p : N) (rdy : bool)            (* rdy: the consensus component became ready *)
| EvCall (caller : N) (e : env) (ord : list N -> list N) (k : call) (log_ok : bool).

Definition with_clock (s : cstate) : cstate :=
  mk_cstate (cs_init s) (cs_lg s) (cs_st s) (cs_tr s) (S (cs_clock s)) (cs_peers s).
Definition with_peer (s : cstate) (p : N) (q : cpeer) : cstate :=
  mk_cstate (cs_init s) (cs_lg s) (cs_st s) (cs_tr s) (cs_clock s) (aput p q (cs_peers s)).

(* one event: the state after it and whether the call reported an error (false for events that are no calls) *)
Definition clstep1 (s : cstate) (ev : cev) : cstate * bool :=
  let k := cs_clock s in
  match ev with
  | EvPeerRemove caller target o os =>
      match aget caller (cs_peers s) with
      | Some q =>
          if cp_running q then
            let v := vacate_f (cp_pc q) o (cs_st s) target in
            let r := cons_rm (cs_init s) (cs_lg s) target os in
            (mk_cstate (cs_init s) (fst r) (fst v)
                       (cs_tr s ++ map (fun c => (k, TPin c caller)) (snd v) ++ mem_trace k (cs_lg s) (fst r))
                       (cs_clock s) (cs_peers s), snd r)
          else (s, true)
      | None => (s, true)
      end
  | EvPeerAdd caller target os id_ok =>
      if is_running s caller then
        let r := cons_add (cs_init s) (cs_lg s) target os in
        (mk_cstate (cs_init s) (fst r) (cs_st s) (cs_tr s ++ mem_trace k (cs_lg s) (fst r)) (cs_clock s) (cs_peers s),
         snd r || negb id_ok)
      else (s, true)
  | EvJoin p via marker os =>
      match aget p (cs_peers s) with
      | Some q =>
          if cp_running q then (s, true)
          else
            let d := match live (cp_dir q) with Some _ => cp_dir q | None => mk_dir (Some (marker, None)) (olds (cp_dir q)) end in
            let started := set_run q true false false (cp_recv q) d (cp_cleans q) in
            if p =? via then (with_peer s p started, false)
            else if is_running s via then
              let r := cons_add (cs_init s) (cs_lg s) p os in
              let q' := if snd r then started else set_run q true true false (length (fst r)) d (cp_cleans q) in
              (mk_cstate (cs_init s) (fst r) (cs_st s) (cs_tr s ++ mem_trace k (cs_lg s) (fst r)) (cs_clock s)
                         (aput p q' (cs_peers s)), snd r)
            else (with_peer s p started, true)
      | None => (s, true)
      end
  | EvDeliver p =>
      match aget p (cs_peers s) with
      | Some q => if cp_running q
                  then (with_peer s p (set_run q true (cp_ready q) (cp_removed q) (length (cs_lg s)) (cp_dir q) (cp_cleans q)), false)
                  else (s, false)
      | None => (s, false)
      end
  | EvWatchTick p snap =>
      match aget p (cs_peers s) with
      | Some q =>
          if cp_running q && negb (memN p (sees s q))
          then (do_shutdown s k p (set_run q true (cp_ready q) true (cp_recv q) (cp_dir q) (cp_cleans q)) [] snap, false)
          else (s, false)
      | None => (s, false)
      end
  | EvShutdown p os snap =>
      match aget p (cs_peers s) with
      | Some q => if cp_running q then (do_shutdown s k p q os snap, false) else (s, false)
      | None => (s, false)
      end
  | EvRestart p rdy =>
      match aget p (cs_peers s) with
      | Some q =>
          match live (cp_dir q) with
          | Some _ => if cp_running q then (s, false)
                      else (with_peer s p (set_run q true rdy false (cp_recv q) (cp_dir q) (cp_cleans q)), false)
          | None => (s, false)
          end
      | None => (s, false)
      end
  | EvCall caller e ord c log_ok =>
      match aget caller (cs_peers s) with
      | Some q =>
          if cp_running q && log_ok then
            let r := C04_ClusterOps.step (pc_cfg (cp_pc q)) e ord (cs_st s) c in
            (mk_cstate (cs_init s) (cs_lg s) (snd r)
                       (cs_tr s ++ map (fun x => (k, x)) (call_entries e (cs_st s) caller c (fst r)))
                       (cs_clock s) (cs_peers s),
             match fst r with ROk _ => false | RErr _ => true end)
          else (s, true)
      | None => (s, true)
      end
  end.

Definition clstep (s : cstate) (ev : cev) : cstate * bool :=
  let r := clstep1 s ev in (with_clock (fst r), snd r).

Definition clrun (s : cstate) (evs : list cev) : cstate := fold_left (fun s e => fst (clstep s e)) evs s.

(* a cluster that has not run yet: nothing logged, nobody removed, nothing cleaned *)
Definition fresh_peer (q : cpeer) : bool := negb (cp_removed q) && Nat.eqb (cp_cleans q) 0.
Definition clinit_ok (s : cstate) : bool :=
  match cs_lg s, cs_tr s with [], [] => true | _, _ => false end
  && Nat.eqb (cs_clock s) 0 && forallb (fun pq => fresh_peer (snd pq)) (cs_peers s).
