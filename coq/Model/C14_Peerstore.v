(* C14 — pstoremgr/pstoremgr.go: SavePeerstore, LoadPeerstore, ImportPeer(s), SetPriority, filteredPeerAddrs,
   PeerInfos (peerSort) as executable Gallina. Definitions only.

   The multiaddress and peer-ID parsers are libraries: a line of the file is given with the outcome of
   ma.NewMultiaddr on it, and a parsed address with the outcome of peer.SplitAddr on it (abstract total
   parsers whose accept/reject outcome is an input of the model). Transport addresses are numbered in the
   order of their strings, so "sort by string" (byString) is "sort by number". *)
From V Require Import Base.Common.
From Coq Require Sorting.Sorted.
Local Open Scope N_scope.

Definition transport := (N * bool)%type.             (* (number, madns.Matches) *)

Inductive paddr :=
| PRaw (r : N)                                       (* parses, but does not end in /p2p/<id>: AddrInfoFromP2pAddr fails *)
| PP2p (p : N) (tr : option transport).              (* <transport>/p2p/<p>; None: the address is just /p2p/<p> *)

Inductive line :=
| LEmpty
| LText (first : N) (parsed : option paddr).         (* first byte of the line; ma.NewMultiaddr: None = error *)

Definition slash : N := 47.

(* LoadPeerstore. A Go []ma.Multiaddr can hold nil: the result is a list of options.
   fixed = false is the loop as it was before the S14 repair (log the parse error, append anyway),
   fixed = true is the loop with the `continue` after the log line. *)
Fixpoint load_lines_gen (fixed : bool) (ls : list line) : list (option paddr) :=
  match ls with
  | [] => []
  | LEmpty :: r => load_lines_gen fixed r
  | LText c p :: r =>
      if negb (N.eqb c slash) then load_lines_gen fixed r       (* not going to be a multiaddress: skip *)
      else match p with
           | Some a => Some a :: load_lines_gen fixed r
           | None => if fixed then load_lines_gen fixed r else None :: load_lines_gen fixed r
           end
  end.

Definition load_lines := load_lines_gen true.          (* the code under test (with the S14 repair) *)
Definition load_lines_before_fix := load_lines_gen false.

(* the host's peerstore, as far as pstoremgr uses it: address sets and the "cluster" priority tag *)
Record pstore := mk_pstore { ps_addrs : list (N * list transport); ps_prio : list (N * nat) }.
Definition ps_empty := mk_pstore [] [].

Definition tr_eqb (a b : transport) : bool := N.eqb (fst a) (fst b).
Definition add_set (t : transport) (l : list transport) : list transport := if existsb (tr_eqb t) l then l else l ++ [t].

Definition addrs_of (ps : pstore) (p : N) : list transport := match aget p (ps_addrs ps) with Some l => l | None => [] end.
Definition add_addr (p : N) (t : transport) (ps : pstore) : pstore :=
  mk_pstore (aput p (add_set t (addrs_of ps p)) (ps_addrs ps)) (ps_prio ps).
Definition set_prio (p : N) (i : nat) (ps : pstore) : pstore := mk_pstore (ps_addrs ps) (aput p i (ps_prio ps)).
Definition prio_of (ps : pstore) (p : N) : nat := match aget p (ps_prio ps) with Some i => i | None => O end.

(* ImportPeer(addr, connect=false, ttl>0) with a non-nil host; /dnsaddr addresses (which need a resolver) are outside the model.
   Returns the peer when err == nil. *)
Definition import_peer (self : N) (a : paddr) (ps : pstore) : option N * pstore :=
  match a with
  | PRaw _ => (None, ps)
  | PP2p p tr =>
      if N.eqb p self then (Some p, ps)                  (* do not add ourselves *)
      else (Some p, match tr with Some t => add_addr p t ps | None => ps end)
  end.

Inductive import_res := ICrash | IOk (ps : pstore).

(* ImportPeers: priority = position in the slice; a nil element is dereferenced by ImportPeer (addr.Protocols()) *)
Fixpoint import_peers_from (self : N) (i : nat) (addrs : list (option paddr)) (ps : pstore) : import_res :=
  match addrs with
  | [] => IOk ps
  | None :: _ => ICrash
  | Some a :: r =>
      let '(pid, ps1) := import_peer self a ps in
      let ps2 := match pid with Some p => set_prio p i ps1 | None => ps1 end in
      import_peers_from self (S i) r ps2
  end.
Definition import_peers self addrs ps := import_peers_from self O addrs ps.

(* ImportPeersFromPeerstore *)
Definition import_file (fixed : bool) self (ls : list line) ps := import_peers self (load_lines_gen fixed ls) ps.

(* insertion sort on a key *)
Fixpoint ins_by {A} (key : A -> nat) (x : A) (l : list A) : list A :=
  match l with [] => [x] | y :: ys => if (key x <=? key y)%nat then x :: l else y :: ins_by key x ys end.
Definition sort_by {A} (key : A -> nat) (l : list A) : list A := fold_right (ins_by key) [] l.

Definition tr_key (t : transport) : nat := N.to_nat (fst t).

(* filteredPeerAddrs: only the DNS addresses if there are any, else all, sorted by string. (The DNS addresses come out
   in the peerstore's map order; the model lists them sorted too and the comparison treats them as a set.) *)
Definition filtered_addrs (ps : pstore) (p : N) : list transport :=
  let all := addrs_of ps p in
  let dns := filter (fun t => snd t) all in
  match dns with [] => sort_by tr_key all | _ => sort_by tr_key dns end.

Definition pinfo := (N * list transport)%type.

(* PeerInfos: skip ourselves and peers without addresses, then sort by the priority tag (missing tag = 0).
   sort.Sort is not stable: equal priorities come out in any order; the model keeps the given order. *)
Definition peer_infos (self : N) (ps : pstore) (peers : list N) : list pinfo :=
  let infos := flat_map (fun p => if N.eqb p self then [] else
                                  match filtered_addrs ps p with [] => [] | l => [(p, l)] end) peers in
  sort_by (fun pi => prio_of ps (fst pi)) infos.

(* SavePeerstore: one line per address, <transport>/p2p/<peer>; infos without addresses are skipped.
   A multiaddress prints with a leading '/' and parses back to itself (library round trip, exercised on
   the real file by the harness at every run). *)
Definition save_lines (infos : list pinfo) : list line :=
  flat_map (fun pi => map (fun t => LText slash (Some (PP2p (fst pi) (Some t)))) (snd pi)) infos.

(* the file after SavePeerstore when it held `prev` before: os.Create truncates, nothing of the previous content is
   left (the file is rewritten at every shutdown, usually over a longer one) *)
Definition save_onto (prev : list line) (infos : list pinfo) : list line := save_lines infos.

(* the addresses of `infos` with their /p2p/<peer> suffix, in order *)
Definition loaded_of (infos : list pinfo) : list (option paddr) :=
  flat_map (fun pi => map (fun t => Some (PP2p (fst pi) (Some t))) (snd pi)) infos.

(* ---- vocabulary of the statements ---- *)
(* what a line contributes: its address when it starts with '/' and parses, nothing otherwise *)
Definition keep_line (l : line) : list (option paddr) :=
  match l with
  | LText c (Some a) => if N.eqb c slash then [Some a] else []
  | _ => []
  end.

(* peer infos as PeerInfos returns them: distinct peers, each with a non-empty address list sorted by string,
   either all DNS or none *)
Definition wf_addrs (trs : list transport) : Prop :=
  trs <> [] /\ Sorted.StronglySorted (fun a b => (tr_key a < tr_key b)%nat) trs /\
  (forallb (fun t => snd t) trs = true \/ forallb (fun t => negb (snd t)) trs = true).
Definition wf_infos (infos : list pinfo) : Prop :=
  NoDup (map fst infos) /\ forall pi, In pi infos -> wf_addrs (snd pi).

(* the whole trip: what another host reports after loading the file written for `infos` *)
Definition reload (self2 : N) (infos : list pinfo) (query : list N) : option (list pinfo) :=
  match import_file true self2 (save_lines infos) ps_empty with
  | ICrash => None
  | IOk ps => Some (peer_infos self2 ps query)
  end.
