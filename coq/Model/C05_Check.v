(* C05 — correspondence check: the model is stepped along the script the harness executed and compared, after every
   event, with what the real Tracker showed (code 1); the implementation's own observations are checked against the
   boolean form of the property (codes 10..14) without consulting the model state. *)
From V Require Import Base.Common Model.C05_Tracker.
Open Scope N_scope.

(* observation after one event, all from the implementation:
   ret (0 ok, 1 full queue, 2 other error), Status bits of cid 0..n-1, StatusAll(0) as (cid, bits),
   daemon as (cid, 1 recursive | 2 direct), IPFS calls in flight as (cid, 0 pin | 1 unpin, direct, tag),
   StatusAll(f) for some masks f (used by C06 only) *)
Definition obs := (N * list N * list (N * N) * list (N * N) * list (N * N * N * N) * list (N * list (N * N)))%type.
Definition o_ret (o : obs) : N := let '(r, _, _, _, _, _) := o in r.
Definition o_status (o : obs) : list N := let '(_, x, _, _, _, _) := o in x.
Definition o_all (o : obs) : list (N * N) := let '(_, _, x, _, _, _) := o in x.
Definition o_daemon (o : obs) : list (N * N) := let '(_, _, _, x, _, _) := o in x.
Definition o_inflight (o : obs) : list (N * N * N * N) := let '(_, _, _, _, x, _) := o in x.
Definition o_masks (o : obs) : list (N * list (N * N)) := let '(_, _, _, _, _, x) := o in x.

(* qcap, npin, number of cids, initial shared state, initial daemon *)
Definition cfg := (nat * nat * N * list tpin * list (N * N))%type.
Definition case := (N * (cfg * list (event * obs)))%type.

Definition nrange (n : N) : list N := map N.of_nat (seq 0 (N.to_nat n)).
Definition pair_eqb (a b : N * N) : bool := N.eqb (fst a) (fst b) && N.eqb (snd a) (snd b).
Definition quad_eqb (a b : N * N * N * N) : bool :=
  let '(a1, a2, a3, a4) := a in let '(b1, b2, b3, b4) := b in N.eqb a1 b1 && N.eqb a2 b2 && N.eqb a3 b3 && N.eqb a4 b4.
Definition set_eqb {A} (eqb : A -> A -> bool) (x y : list A) : bool :=
  Nat.eqb (length x) (length y) && forallb (fun a => existsb (eqb a) y) x && forallb (fun b => existsb (eqb b) x) y.

Definition mode_code (d : bool) : N := if d then 2 else 1.
Definition init_of (c : cfg) : st :=
  let '(q, n, _, pins, dm) := c in
  init q n (map (fun p => (pcid p, p)) pins) (map (fun e => (fst e, N.eqb (snd e) 2)) dm).
Definition ncid_of (c : cfg) : N := let '(_, _, n, _, _) := c in n.

Definition call_obs (s : st) (cl : call) : N * N * N * N :=
  match ckd cl with
  | KPin => match aget (ccid cl) (table s) with
            | Some o => (ccid cl, 0, if pdirect (opin o) then 1 else 0, ptag (opin o))
            | None => (ccid cl, 0, 7, 7) end
  | _ => (ccid cl, 1, 0, 0)
  end.
Definition ret_code (r : ret) : N := match r with ROk => 0 | RFull => 1 end.

Definition status_all_obs (s : st) (f : N) : list (N * N) := map (fun e => (fst e, st_bits (snd e))) (status_all s f).

Definition obs_eqb (n : N) (s : st) (r : ret) (o : obs) : bool :=
  N.eqb (ret_code r) (o_ret o)
  && list_eqb N.eqb (map (fun c => st_bits (status_of s c)) (nrange n)) (o_status o)
  && set_eqb pair_eqb (status_all_obs s 0) (o_all o)
  && set_eqb pair_eqb (map (fun e => (fst e, mode_code (snd e))) (ipfs s)) (o_daemon o)
  && set_eqb quad_eqb (map (call_obs s) (calls s)) (o_inflight o).

(* RecoverAll visits the listing in Go map order and stops at the first cid that cannot be queued. The harness reports
   the cids visited before that point (the returned list); the cid it stopped at is not reported, so the check tries
   every unvisited cid as the next one of the order (the order is an explicit argument of the model: ERecoverAll ord). *)
Definition step_candidates (n : N) (e : event) (o : obs) : list event :=
  match e with
  | ERecoverAll ord =>
      if N.eqb (o_ret o) 1
      then map (fun c => ERecoverAll (ord ++ [c])) (filter (fun c => negb (memN c ord)) (nrange n)) ++ [e]
      else [e]
  | _ => [e]
  end.
Fixpoint try_steps (chk : st -> ret -> bool) (s : st) (cands : list event) : option st :=
  match cands with
  | [] => None
  | e :: r => let '(s', rt) := step s e in if chk s' rt then Some s' else try_steps chk s r
  end.
Fixpoint run_check (n : N) (s : st) (l : list (event * obs)) : bool :=
  match l with
  | [] => true
  | (e, o) :: r =>
      match try_steps (fun s' rt => obs_eqb n s' rt o) s (step_candidates n e o) with
      | Some s' => run_check n s' r
      | None => false
      end
  end.
Definition model_eqb (c : cfg) (l : list (event * obs)) : bool := run_check (ncid_of c) (init_of c) l.

(* ---- boolean form of the property, on the implementation's observations only ---- *)
Definition err_bits (b : N) : bool := N.eqb b 2 || N.eqb b 4 || N.eqb b 8 || N.eqb b 4096.
Definition pending_bits (b : N) : bool := N.eqb b 32 || N.eqb b 64 || N.eqb b 512 || N.eqb b 1024.
Definition o_quiescent (o : obs) : bool :=
  match o_inflight o with [] => true | _ => false end && negb (existsb pending_bits (o_status o)).
Definition o_st (o : obs) (c : N) : N := nth (N.to_nat c) (o_status o) 0.
Definition o_dm (o : obs) (c : N) : option N := aget c (o_daemon o).
Definition dm_is (x : option N) (m : option N) : bool := optN_eqb x m.

Record sp := mk_sp {
  sp_pinset : list (N * tpin);   (* shared state, from the script *)
  sp_last : list (N * instr);
  sp_hist : list tpin;           (* every pin ever recorded *)
  sp_unt : list N;               (* last instruction Untrack, no daemon interference since *)
  sp_remok : list N;             (* remote pin whose local unpin returned success *)
  sp_prev_dm : list (N * N);     (* daemon before this event *)
  sp_prev_inf : list (N * N * N * N);
  sp_prev_q : bool;              (* previous observation quiescent *)
  sp_heal : option (list (N * N)) (* a RecoverAll round is being completed without faults; daemon at its start *)
}.

Definition local_pin (p : tpin) : bool := negb (pmeta p) && negb (premote p).
Definition remove_c (c : N) (l : list N) : list N := filter (fun x => negb (N.eqb x c)) l.

(* code 10: at quiescence the daemon matches the last instruction or the status is an error *)
Definition conv_ok (n : N) (x : sp) (o : obs) : bool :=
  forallb (fun c =>
    (match aget c (sp_pinset x) with
     | Some p => if local_pin p then dm_is (o_dm o c) (Some (mode_code (pdirect p))) || err_bits (o_st o c) else true
     | None => true end)
    && (if memN c (sp_unt x) then dm_is (o_dm o c) None || err_bits (o_st o c) else true)
    && (if memN c (sp_remok x) then dm_is (o_dm o c) None else true)) (nrange n).

(* code 11: an instruction is queued/in progress after a nil return, an error status after ErrFullQueue *)
Definition inst_ok (e : event) (o : obs) : bool :=
  match e with
  | ETrack p =>
      if pmeta p then N.eqb (o_ret o) 0
      else if premote p then   (* best effort: the local unpin is requested *)
        N.eqb (o_ret o) 0 && N.eqb (o_st o (pcid p)) 256
        && existsb (fun q => let '(c', k, _, _) := q in N.eqb c' (pcid p) && N.eqb k 1) (o_inflight o)
      else if N.eqb (o_ret o) 1 then N.eqb (o_st o (pcid p)) 4
      else N.eqb (o_ret o) 0 && (N.eqb (o_st o (pcid p)) 512 || N.eqb (o_st o (pcid p)) 32)
  | EUntrack c =>
      if N.eqb (o_ret o) 1 then N.eqb (o_st o c) 8
      else N.eqb (o_ret o) 0 && (N.eqb (o_st o c) 1024 || N.eqb (o_st o c) 64)
  | ERecover c => if N.eqb (o_ret o) 1 then err_bits (o_st o c) else N.eqb (o_ret o) 0
  | ERecoverAll _ => N.leb (o_ret o) 1
  | _ => N.eqb (o_ret o) 0
  end.

(* code 13: after a RecoverAll that returned nil and whose calls all succeed, the daemon matches the shared state
   (except where the daemon itself refuses: direct over recursive) and removed cids are unpinned *)
Definition heal_ok (n : N) (x : sp) (d0 : list (N * N)) (o : obs) : bool :=
  forallb (fun c =>
    (match aget c (sp_pinset x) with
     | Some p => if local_pin p && negb (pdirect p && optN_eqb (aget c d0) (Some 1))
                 then dm_is (o_dm o c) (Some (mode_code (pdirect p))) else true
     | None => true end)
    && (if memN c (sp_unt x) then dm_is (o_dm o c) None else true)) (nrange n).

(* code 14: every pin request in flight carries options recorded for that cid *)
Definition opts_ok (x : sp) (o : obs) : bool :=
  forallb (fun q => let '(c, k, d, t) := q in
    if N.eqb k 0 then existsb (fun p => N.eqb (pcid p) c && N.eqb (if pdirect p then 1 else 0) d && N.eqb (ptag p) t) (sp_hist x)
    else true) (o_inflight o).

Definition sp_event (x : sp) (e : event) (o : obs) : sp :=
  let base ps la hi un ro he := mk_sp ps la hi un ro (o_daemon o) (o_inflight o) (o_quiescent o) he in
  match e with
  | ETrack p => let c := pcid p in
      base (aput c p (sp_pinset x)) (aput c (ITrack p) (sp_last x)) (p :: sp_hist x) (remove_c c (sp_unt x)) (remove_c c (sp_remok x)) None
  | EUntrack c =>
      base (adel c (sp_pinset x)) (aput c IUntrack (sp_last x)) (sp_hist x) (c :: remove_c c (sp_unt x)) (remove_c c (sp_remok x)) None
  | ERecover _ => base (sp_pinset x) (sp_last x) (sp_hist x) (sp_unt x) (sp_remok x) None
  | ERecoverAll _ =>
      base (sp_pinset x) (sp_last x) (sp_hist x) (sp_unt x) (sp_remok x)
           (if sp_prev_q x && N.eqb (o_ret o) 0 then Some (sp_prev_dm x) else None)
  | EComplete c fault =>
      let ro := match aget c (sp_last x) with
                | Some (ITrack p) =>
                    if premote p && negb fault && existsb (fun q => let '(c', k, _, _) := q in N.eqb c' c && N.eqb k 1) (sp_prev_inf x)
                    then c :: remove_c c (sp_remok x) else sp_remok x
                | _ => sp_remok x end in
      base (sp_pinset x) (sp_last x) (sp_hist x) (sp_unt x) ro (if fault then None else sp_heal x)
  | EDaemon c _ => base (sp_pinset x) (sp_last x) (sp_hist x) (remove_c c (sp_unt x)) (remove_c c (sp_remok x)) None
  end.

Fixpoint spec_walk (n : N) (x : sp) (l : list (event * obs)) : list N :=
  match l with
  | [] => []
  | (e, o) :: r =>
      let x' := sp_event x e o in
      (if o_quiescent o && negb (conv_ok n x' o) then [10] else [])
      ++ (if inst_ok e o then [] else [11])
      ++ (match sp_heal x' with Some d0 => if o_quiescent o && negb (heal_ok n x' d0 o) then [13] else [] | None => [] end)
      ++ (if opts_ok x' o then [] else [14])
      ++ spec_walk n x' r
  end.

Definition sp_init (c : cfg) : sp :=
  let '(_, _, _, pins, dm) := c in
  mk_sp (map (fun p => (pcid p, p)) pins) [] pins [] [] dm [] true None.

Definition spec_codes (c : cfg) (l : list (event * obs)) : list N := nodup N.eq_dec (spec_walk (ncid_of c) (sp_init c) l).

Definition check_case (c : case) : list (N * N * N) :=
  let '(id, (cf, l)) := c in
  (if model_eqb cf l then [] else [(id, 1, 0)]) ++ map (fun k => (id, k, 0)) (spec_codes cf l).

Definition failing (cs : list case) : list (N * N * N) := flat_map check_case cs.
