(* C12 — the hand-written routing table in compiled form and its comparison with the generated one, insensitive to the
   order of routes that cannot match a common path. Definitions only (Proofs/C12_Proxy.v, Diag/C12.v). *)
From V Require Import Base.Common Base.C11_Http Base.C11_RouteOrder Gen.ProxyRoutes Model.C12_Proxy Model.C12_Check.
Open Scope string_scope.
Open Scope list_scope.

Definition lit (l : list string) : list tseg := map TLit l.

(* each listed path contributes its /{arg} form (when it has one) and then its exact form *)
Definition expand (tbl : list (list string * handler * bool)) : list croute :=
  flat_map (fun r : list string * handler * bool => let '(base, h, sl) := r in
    (if sl then [(lit ("" :: base) ++ [TVar "arg"], h, true)] else []) ++ [(lit ("" :: base), h, false)]) tbl.

Definition croute_eqb (a b : croute) : bool :=
  let '(t, h, sl) := a in let '(t', h', sl') := b in list_eqb tseg_eqb t t' && handler_eqb h h' && Bool.eqb sl sl'.
(* the subrouter has no StrictSlash and one method set for all routes: two routes are apart when no path matches both templates *)
Definition croute_apart (a b : croute) : bool := tpl_disjoint (fst (fst a)) (fst (fst b)).
(* rs2 is rs1 up to exchanging neighbours that are apart = a permutation of rs1 in which every two routes that are not
   apart keep their relative order (Base/C11_RouteOrder.v: trace_equiv) *)
Definition croutes_equiv (rs1 rs2 : list croute) : bool := trace_equiv croute_eqb croute_apart rs1 rs2.

Definition show_handler (h : handler) : string :=
  match h with HPin => "pinHandler" | HUnpin => "unpinHandler" | HPinLs => "pinLsHandler" | HPinUpdate => "pinUpdateHandler"
  | HAdd => "addHandler" | HRepoStat => "repoStatHandler" | HRepoGC => "repoGCHandler" | HUnknown => "(unknown handler)" end.
Definition show_croute (r : croute) : string :=
  let '(t, h, sl) := r in (show_tpl t ++ " -> " ++ (if sl then "slashHandler " else "") ++ show_handler h)%string.

(* the real differences between the generated table and the hand-written one ([] exactly when croutes_equiv holds) *)
Definition croutes_diff (c sp : list croute) : list string :=
  if croutes_equiv c sp then [] else
  let d := map (fun r => ("registered but not listed in spec_paths: " ++ show_croute r)%string) (surplus croute_eqb c sp)
        ++ map (fun r => ("listed in spec_paths but not registered: " ++ show_croute r)%string) (surplus croute_eqb sp c)
        ++ map (fun xy : croute * croute => ("registration order matters and differs from spec_paths: " ++ show_croute (fst xy)
                                              ++ " is registered before " ++ show_croute (snd xy))%string)
               (inverted croute_eqb croute_apart c sp) in
  match d with [] => ["the registered routes are not expand spec_paths up to the order of routes that are apart"] | _ => d end.
