(* C01 — Raft consensus of ipfs-cluster: executable transcription (definitions only).

   What is transcribed, and from where:
   * store_norm        api/types.go  Pin.ProtoMarshal / ProtoUnmarshal  (the form in which dsstate stores a pin)
   * wire_ok           api/types.go  PinOptions.Origins []multiaddr.Multiaddr cannot be decoded from msgpack (S19)
   * apply_entry       go-libp2p-raft fsm.go FSM.Apply (decode onto the REUSED op - an entry that decodes without setting a
                       field leaves the previous entry's Type in place (optype) -, rollback branch, flags)
                       + consensus/raft/log_op.go LogOp.ApplyTo (Add/Rm on the state, one async tracker call)
   * snap request/persist   fsm.go FSM.Snapshot / fsmSnapshot.Persist (Persist encodes the state it finds when it RUNS)
   * restore           fsm.go FSM.Restore + state/dsstate/datastore.go State.Unmarshal (+ the consensus/raft wrapper that
                       empties the state first, fix of S1)
   * view              consensus/raft/consensus.go Consensus.State + fsm.go getState
   * offline           consensus/raft/consensus.go OfflineState (newest snapshot decoded onto an empty store)
   The schedule chosen by hashicorp/raft (who applies what when, who snapshots, who is sent which snapshot, who restarts)
   is the event list; theorems quantify over every event list. *)
From V Require Import Base.Common.
Open Scope N_scope.

(* ---- pins (indices into the harness universes: cids, peers, strings, addresses) ---- *)
Record pin := mkpin {
  p_cid : N; p_type : N; p_maxdepth : Z; p_allocs : list N; p_mode : N; p_rmin : Z; p_rmax : Z;
  p_name : N; p_shard : N; p_ualloc : list N; p_exp : option (Z * N); p_meta : list (N * N);
  p_update : option N; p_origins : list N; p_ref : option N }.

(* string index 7 of the harness universe is a byte string that is not valid UTF-8 *)
Definition bad_utf8 (s : N) : bool := s =? 7.
Definition pin_badutf (p : pin) : bool :=
  bad_utf8 (p_name p) || existsb (fun kv => bad_utf8 (fst kv) || bad_utf8 (snd kv)) (p_meta p).

Definition wrap32 (z : Z) : Z := ((z + 2147483648) mod 4294967296 - 2147483648)%Z.
(* convertPinType then 1 << t : the highest set bit; 0 becomes BadType = 1 *)
Definition hibit (t : N) : N := if t =? 0 then 1 else 2 ^ (N.log2 t).
(* PinDepth.ToPinMode *)
Definition mode_of_depth (d : Z) : N := if (d =? 0)%Z then 1 else 0.

Definition store_norm (p : pin) : pin :=
  let d := wrap32 (p_maxdepth p) in
  mkpin (p_cid p) (hibit (p_type p)) d (p_allocs p) (mode_of_depth d) (wrap32 (p_rmin p)) (wrap32 (p_rmax p))
        (p_name p) (p_shard p) []
        (match p_exp p with Some (s, _) => if (s =? 0)%Z then None else Some (s, 0) | None => None end)
        (p_meta p) (p_update p) (p_origins p) (p_ref p).

(* the msgpack form of a LogOp decodes iff its pin has no origins *)
Definition wire_ok (p : pin) : bool := match p_origins p with [] => true | _ => false end.

(* ---- pinset: association list strictly sorted by cid ---- *)
Definition pinset := list (N * pin).
Fixpoint sput (k : N) (v : pin) (m : pinset) : pinset :=
  match m with
  | [] => [(k, v)]
  | (k', v') :: r => if k <? k' then (k, v) :: m else if k =? k' then (k, v) :: r else (k', v') :: sput k v r
  end.
Fixpoint sdel (k : N) (m : pinset) : pinset :=
  match m with
  | [] => []
  | (k', v') :: r => if k <? k' then m else if k =? k' then r else (k', v') :: sdel k r
  end.
Definition sget (k : N) (m : pinset) : option pin := aget k m.

(* ---- log operations ---- *)
Inductive logop :=
| LPin (p : pin)      (* LogOp{Type: LogOpPin} *)
| LUnpin (p : pin)    (* LogOp{Type: LogOpUnpin} *)
| LOther (p : pin)    (* LogOp with an unknown Type: ignored by ApplyTo *)
| LJunk               (* bytes that decode neither as a LogOp nor as a state dump *)
| LMap                (* a msgpack map with keys that are not LogOp fields: refused as a LogOp (ErrorIfNoField), decodes as an
                         (empty) state dump, i.e. a bogus rollback *)
| LMapEmpty.          (* the empty msgpack map {0x80}: decodes WITHOUT error as a LogOp and leaves every field of the reused
                         LogOp as it was (no API call can submit such an entry; raw Raft.Apply only) *)

(* what the tracker is told: Track/Untrack, cid, type, max depth, mode, allocations *)
Inductive tcall := TCall (track : bool) (c t : N) (d : Z) (m : N) (a : list N).
Definition track_of (p : pin) : tcall := TCall true (p_cid p) (p_type p) (p_maxdepth p) (p_mode p) (p_allocs p).
Definition untrack_of (p : pin) : tcall := TCall false (p_cid p) 0 0%Z 0 [].

(* the effect of one op on a pinset (ApplyTo on a decoded, serialisable op) *)
Definition apply_op (s : pinset) (op : logop) : pinset :=
  match op with
  | LPin p => sput (p_cid p) (store_norm p) s
  | LUnpin p => sdel (p_cid p) s
  | _ => s
  end.
Definition replay (ops : list logop) : pinset := fold_left apply_op ops [].

(* ---- one replica ---- *)
Record node := mknode {
  st : pinset;            (* the dsstate behind the FSM *)
  applied : nat;          (* number of log entries this FSM has been given (position of the next one) *)
  inited : bool;          (* fsm.initialized *)
  incons : bool;          (* fsm.inconsistent *)
  dirty : bool;           (* the reused LogOp still holds a half-decoded pin with nil origins *)
  crashed : bool;         (* the process panicked inside FSM.Apply *)
  pending : option nat;   (* FSM.Snapshot returned, Persist not yet run: the index hashicorp/raft will label it with *)
  snaps : list (nat * pinset);  (* the snapshot store of this node, in order of writing: (label, content) of what it persisted and of what was installed on it *)
  calls : list tcall;     (* tracker calls issued so far, newest first *)
  optype : N              (* LogOp.Type left in the reused LogOp by the last entry that decoded: 1 pin, 2 unpin, 0 none / unknown *)
}.
Definition node0 : node := mknode [] 0 false false false false None [] [] 0.
(* the cid of a pin whose Cid field was never decoded (cid.Undef; the harness prints it as 998) *)
Definition undef_cid : N := 998.

Definition apply_entry (op : logop) (nd : node) : node :=
  if crashed nd then nd else
  let nxt := S (applied nd) in
  match op with
  | LJunk => mknode (st nd) nxt (inited nd) true (dirty nd) false (pending nd) (snaps nd) (calls nd) (optype nd)
  | LMap => mknode (st nd) nxt true false (dirty nd) false (pending nd) (snaps nd) (calls nd) (optype nd)
  | LMapEmpty =>
      (* decodeOp succeeds and changes nothing; ApplyTo runs on the stale Type and on whatever pin the reused op holds:
         nil after any ApplyTo (-> nil dereference in state.Add / pin.Cid), or the half-decoded pin of a failed decode *)
      if optype nd =? 1 then mknode (st nd) (applied nd) (inited nd) (incons nd) (dirty nd) true (pending nd) (snaps nd) (calls nd) (optype nd)
      else if optype nd =? 2 then
        if dirty nd   (* state.Rm of the undefined cid of the half-decoded pin: no effect; Untrack is issued; op.Cid = nil *)
        then mknode (st nd) nxt true (incons nd) false false (pending nd) (snaps nd) (TCall false undef_cid 0 0%Z 0 [] :: calls nd) (optype nd)
        else mknode (st nd) (applied nd) (inited nd) (incons nd) (dirty nd) true (pending nd) (snaps nd) (calls nd) (optype nd)
      else mknode (st nd) nxt true (incons nd) false false (pending nd) (snaps nd) (calls nd) (optype nd)   (* "unknown LogOp type. Ignoring" *)
  | LPin p =>
      if negb (wire_ok p) then mknode (st nd) nxt true false true false (pending nd) (snaps nd) (calls nd) (optype nd)
      else if dirty nd then mknode (st nd) (applied nd) (inited nd) (incons nd) true true (pending nd) (snaps nd) (calls nd) 1
      else if pin_badutf p then mknode (st nd) nxt (inited nd) true false false (pending nd) (snaps nd) (calls nd) 1
      else mknode (sput (p_cid p) (store_norm p) (st nd)) nxt true (incons nd) false false (pending nd) (snaps nd) (track_of p :: calls nd) 1
  | LUnpin p =>
      if negb (wire_ok p) then mknode (st nd) nxt true false true false (pending nd) (snaps nd) (calls nd) (optype nd)
      else mknode (sdel (p_cid p) (st nd)) nxt true (incons nd) false false (pending nd) (snaps nd) (untrack_of p :: calls nd) 2
  | LOther p =>
      if negb (wire_ok p) then mknode (st nd) nxt true false true false (pending nd) (snaps nd) (calls nd) (optype nd)
      else mknode (st nd) nxt true (incons nd) false false (pending nd) (snaps nd) (calls nd) 0
  end.

(* FSM.Restore as consensus/raft hands it to hashicorp/raft (restoreFSM, fix of S1): the state is emptied, then the
   snapshot is decoded onto it (State.Unmarshal puts every entry). [restore_merge] is Unmarshal alone, onto whatever the
   state holds: what go-libp2p-raft's FSM.Restore does by itself, and what OfflineState does onto a new datastore. *)
Definition restore_merge (cur snap : pinset) : pinset := fold_left (fun acc kv => sput (fst kv) (snd kv) acc) snap cur.
Definition restore_onto (cur snap : pinset) : pinset := restore_merge [] snap.

Definition snap_req (nd : node) : node :=
  if crashed nd then nd else
  mknode (st nd) (applied nd) (inited nd) (incons nd) (dirty nd) false
         (if inited nd && negb (incons nd) then Some (applied nd) else None) (snaps nd) (calls nd) (optype nd).
Definition snap_persist (nd : node) : node :=
  match pending nd with
  | Some l => mknode (st nd) (applied nd) (inited nd) (incons nd) (dirty nd) (crashed nd) None (snaps nd ++ [(l, st nd)]) (calls nd) (optype nd)
  | None => nd
  end.
Definition restore (s : nat * pinset) (nd : node) : node :=
  if crashed nd then nd else
  mknode (restore_onto (st nd) (snd s)) (fst s) true false (dirty nd) false (pending nd) (snaps nd) (calls nd) (optype nd).
(* InstallSnapshot: hashicorp/raft writes the received snapshot into the replica's OWN snapshot store (installSnapshot: Create, copy,
   Close), then hands it to FSM.Restore: the store of a replica holds the snapshots it persisted and the ones it was sent *)
Definition install (s : nat * pinset) (nd : node) : node :=
  if crashed nd then nd else
  mknode (restore_onto (st nd) (snd s)) (fst s) true false (dirty nd) false (pending nd) (snaps nd ++ [s]) (calls nd) (optype nd).
(* a new process on the same stores: empty datastore, fresh FSM and LogOp; snapshots and the tracker's record survive *)
Definition restart (nd : node) : node := mknode [] 0 false false false false None (snaps nd) (calls nd) 0.

(* ---- the cluster ---- *)
Record cluster := mkcluster { log : list logop; nodes : list node }.
Definition init (k : nat) : cluster := mkcluster [] (repeat node0 k).

Fixpoint upd (n : nat) (f : node -> node) (l : list node) : list node :=
  match l, n with
  | [], _ => []
  | x :: r, O => f x :: r
  | x :: r, S m => x :: upd m f r
  end.
Definition getn (n : nat) (cl : cluster) : node := nth n (nodes cl) node0.

Inductive mevent :=
| MCommit (op : logop)          (* LogPin/LogUnpin (or a raw Raft.Apply) submits op; if accepted it becomes the next committed entry *)
| MApply (n : nat)              (* node n's FSM is given its next entry *)
| MSnapReq (n : nat)            (* FSM.Snapshot on n *)
| MPersist (n : nat)            (* the snapshot requested on n is written to n's snapshot store *)
| MRestore (n src k : nat)      (* FSM.Restore on n of the k-th snapshot of src's store: src = n, the own store (at start); src <> n, an install from
                                   the leader, which also puts the snapshot into n's store *)
| MRestart (n : nat).           (* n's process ends (shutdown, crash or kill) and starts again on its stores *)

(* Consensus.LogPin refuses, before committing, a pin that does not ProtoMarshal (fix of S24): such an op never reaches the log *)
Definition accepts (op : logop) : bool := match op with LPin p => negb (pin_badutf p) | _ => true end.

Definition step (cl : cluster) (e : mevent) : cluster :=
  match e with
  | MCommit op => if accepts op then mkcluster (log cl ++ [op]) (nodes cl) else cl
  | MApply n =>
      match nth_error (log cl) (applied (getn n cl)) with
      | Some op => mkcluster (log cl) (upd n (apply_entry op) (nodes cl))
      | None => cl
      end
  | MSnapReq n => mkcluster (log cl) (upd n snap_req (nodes cl))
  | MPersist n => mkcluster (log cl) (upd n snap_persist (nodes cl))
  | MRestore n src k =>
      match nth_error (snaps (getn src cl)) k with
      | Some s => mkcluster (log cl) (upd n (if Nat.eqb src n then restore s else install s) (nodes cl))
      | None => cl
      end
  | MRestart n => mkcluster (log cl) (upd n restart (nodes cl))
  end.
Definition run (cl : cluster) (es : list mevent) : cluster := fold_left step es cl.

(* Consensus.State: empty while nothing was agreed, an error while inconsistent *)
Definition view (nd : node) : option pinset :=
  if negb (inited nd) then Some [] else if incons nd then None else Some (st nd).

(* the newest snapshot of a store (the file store orders by (term, index)): the highest label; among equal labels the one
   written last *)
Fixpoint newest (l : list (nat * pinset)) : option (nat * pinset) :=
  match l with
  | [] => None
  | s :: r => match newest r with Some t => if Nat.ltb (fst t) (fst s) then Some s else Some t | None => Some s end
  end.
(* OfflineState: the newest snapshot in the store decoded onto an empty datastore *)
Definition offline (nd : node) : pinset :=
  match newest (snaps nd) with None => [] | Some s => restore_merge [] (snd s) end.

(* ---- vocabulary of the statements ---- *)
Definition op_key (op : logop) : option N :=
  match op with LPin p => Some (p_cid p) | LUnpin p => Some (p_cid p) | _ => None end.
Definition writes (c : N) (op : logop) : bool := match op_key op with Some k => k =? c | None => false end.
(* ops a..b-1 of l *)
Definition slice (a b : nat) (l : list logop) : list logop := firstn (b - a) (skipn a l).

(* an op that decodes from msgpack (no origins, S19) and is no raw junk: the premise under which the FSM behaves as a
   log of pin/unpin *)
Definition clean_op (op : logop) : bool :=
  match op with
  | LPin p => wire_ok p
  | LUnpin p => wire_ok p
  | LOther p => wire_ok p
  | LJunk => false
  | LMap => false
  | LMapEmpty => false
  end.
Definition clean_ev (e : mevent) : bool := match e with MCommit op => clean_op op | _ => true end.

(* well-formed pins of the property: one real type bit, depth consistent with the type, int32 factors *)
Definition in32 (z : Z) : bool := ((-2147483648 <=? z) && (z <=? 2147483647))%Z.
Definition wf_pin (p : pin) : bool :=
  in32 (p_rmin p) && in32 (p_rmax p) && in32 (p_maxdepth p) &&
  (if p_type p =? 2 then ((p_mode p =? 0) && (p_maxdepth p =? -1)%Z) || ((p_mode p =? 1) && (p_maxdepth p =? 0)%Z)
   else if p_type p =? 4 then (p_maxdepth p =? 0)%Z
   else if p_type p =? 8 then (p_maxdepth p =? 0)%Z
   else if p_type p =? 16 then (1 <=? p_maxdepth p)%Z
   else false).

(* what an op writes to its cid: the stored pin, or nothing *)
Definition effect (op : logop) : option pin := match op with LPin p => Some (store_norm p) | _ => None end.
(* the last write to c in ops, if any *)
Fixpoint lastw (c : N) (ops : list logop) : option (option pin) :=
  match ops with
  | [] => None
  | op :: r => match lastw c r with Some e => Some e | None => if writes c op then Some (effect op) else None end
  end.

(* "s is the replay of the first M entries, except for cids that entries a..M-1 write again":
   what a replica restored from a snapshot that was persisted late looks like while it replays *)
Definition catching_up (lg : list logop) (a : nat) (s : pinset) : Prop :=
  exists M, (a <= M <= length lg)%nat /\
    forall c, sget c s = sget c (replay (firstn M lg)) \/ existsb (writes c) (slice a M lg) = true.

(* guards of the theorems, as predicates on a schedule. None is an assumption about hashicorp/raft: a snapshot IS installed
   on a replica that is ahead of it (observed: a reconnected follower that had applied index 7 was sent the leader's snapshot of
   index 6, three times; FSM.Restore ran each time and entries 7.. were applied again). `restore` therefore moves `applied`
   to the label of the snapshot in either direction. *)
(* a snapshot restored on a replica between its FSM.Snapshot and the Persist of that snapshot is not older than the label of
   the pending one (a special case of ev_atomic below; with it the pending snapshot, though written late, does not LACK an
   entry below its label) *)
Definition ev_pinned (cl : cluster) (e : mevent) : bool :=
  match e with
  | MRestore n src k =>
      match pending (getn n cl), nth_error (snaps (getn src cl)) k with
      | Some l, Some s => Nat.leb l (fst s)
      | _, _ => true
      end
  | _ => true
  end.
(* nothing is applied or restored on a replica between its FSM.Snapshot and the Persist of that snapshot *)
Definition ev_atomic (cl : cluster) (e : mevent) : bool :=
  match e with
  | MApply n | MRestore n _ _ => match pending (getn n cl) with None => true | Some _ => false end
  | _ => true
  end.
Fixpoint run_ok (P : cluster -> mevent -> bool) (cl : cluster) (es : list mevent) : bool :=
  match es with [] => true | e :: r => P cl e && run_ok P (step cl e) r end.

(* Consensus.Shutdown of replica n, under shutdownLock (commit() holds its read side around CommitOp, so no operation is
   committed at n - and none acknowledged at n - in between): the final snapshot is requested and written; then Raft stops.
   The process starting again on the same folder restores the newest snapshot (its k-th). *)
Definition shutdown (n : nat) : list mevent := [MSnapReq n; MPersist n].
Definition from_disk (n k : nat) : list mevent := [MRestart n; MRestore n n k].

