(* C17 — evaluation of harness cases (vm_compute).
   A case = the C01 trace of the run (pinsets, see Model/C01_Check.v) + the membership observations:
   every Consensus.AddPeer / RmPeer call with its result, and Peers() of every live member after quiescence.
   code 1: a model (C01 FSM model or the membership wrappers) predicts something else than was observed;
   code 2: the membership observations violate the property; code 10: the pinset observations do (joiner included);
   code 11: a joiner reported itself ready before it had received its own add entry. *)
From V Require Import Base.Common Model.C01_RaftLog Model.C01_Check Model.C17_Members.
Open Scope N_scope.

Inductive xevent :=
| XAdd (p : N) (err landed : bool)   (* Consensus.AddPeer(p) returned (err); landed = p is a member afterwards *)
| XRm (p : N) (err landed : bool)    (* Consensus.RmPeer(p) returned (err); landed = p is no member afterwards *)
| XPeers (n : N) (ps : list N)       (* Peers() on live member n after quiescence *)
| XReady (n : N) (self : bool).      (* Consensus.WaitForSync returned on joiner n; self = n listed itself in its own Peers() at that
                                        moment, i.e. its latest configuration - that of the entries it has RECEIVED - holds its own add entry *)

(* every list of outcomes of at most two attempts (CommitRetries = 1 in the rig) *)
Definition outcomes2 : list (list outcome) :=
  flat_map (fun a => [a] :: map (fun b => [a; b]) [Done; LostAfter; Failed]) [Done; LostAfter; Failed].

(* pass 1: the wrappers as written explain each call for some outcome hashicorp/raft may have produced *)
Definition xmodel_step (init : list N) (lg : list mentry) (e : xevent) : list mentry * bool :=
  match e with
  | XAdd p err landed =>
      match find (fun os => let r := cons_add init lg p os in
                            Bool.eqb (snd r) err && Bool.eqb (memN p (peers_of init (fst r))) landed) outcomes2 with
      | Some os => (fst (cons_add init lg p os), true)
      | None => (lg, false)
      end
  | XRm p err landed =>
      match find (fun os => let r := cons_rm init lg p os in
                            Bool.eqb (snd r) err && Bool.eqb (negb (memN p (peers_of init (fst r)))) landed) outcomes2 with
      | Some os => (fst (cons_rm init lg p os), true)
      | None => (lg, false)
      end
  | XPeers n ps => (lg, seteqb ps (peers_of init lg) && nodupb ps)
  | XReady n self => (lg, self)      (* C17_Members.ready: a member is ready only as a voter in its own latest configuration *)
  end.
Fixpoint xmodel_run (init : list N) (lg : list mentry) (es : list xevent) : bool :=
  match es with [] => true | e :: r => let '(lg', ok) := xmodel_step init lg e in ok && xmodel_run init lg' r end.

(* pass 2: the property on the observations: success means member / non-member, nothing else changes, a present peer
   added or an absent one removed is a successful no-op, the last peer is not removable, all members agree *)
Definition xspec_step (s : list N) (e : xevent) : list N * bool :=
  match e with
  | XAdd p err landed =>
      if memN p s then (s, negb err && landed)
      else if landed then (s ++ [p], true) else (s, err)
  | XRm p err landed =>
      if negb (memN p s) then (s, negb err && landed)
      else if (Nat.eqb (length s) 1) then (s, err && negb landed)
      else if landed then (removeN p s, true) else (s, err)
  | XPeers n ps => (s, seteqb ps s && nodupb ps)
  | XReady _ _ => (s, true)          (* judged by xready_ok (code 11) *)
  end.
Fixpoint xspec_run (s : list N) (es : list xevent) : bool :=
  match es with [] => true | e :: r => let '(s', ok) := xspec_step s e in ok && xspec_run s' r end.

(* S25: WaitForSync returned on a member whose raft AppliedIndex equalled its LastIndex (what WaitForUpdates checks) while
   its FSM had been given fewer entries than were committed when its join returned (the observed trace, not the verdict) *)
Fixpoint early_ready (ap : list (N * N)) (es : list oevent) : bool :=
  match es with
  | [] => false
  | OApply n j :: r => early_ready (aput n (j + 1) ap) r
  | ORestore n _ _ lbl :: r => early_ready (aput n lbl ap) r
  | ORestart n :: r => early_ready (aput n 0 ap) r
  | OReady n m0 q _ :: r => (q && match aget n ap with Some a => a <? m0 | None => 0 <? m0 end) || early_ready ap r
  | _ :: r => early_ready ap r
  end.
(* a joiner reports itself ready only once it has received its own add entry (it is a voter in its own latest configuration) *)
Definition xready_ok (xs : list xevent) : bool :=
  forallb (fun e => match e with XReady _ self => self | _ => true end) xs.
(* S25 is about a joiner that HAS received everything (its own add entry included) and whose FSM queue is not drained; a joiner
   that is ready without even having received its own add entry is another failure and must not be recognised as S25 *)
Definition tag17 (cmds : list logop) (es : list oevent) (xs : list xevent) : N :=
  if negb (xready_ok xs) then 0 else if early_ready [] es then 4 else tag_of cmds es.

Definition case := (N * (N * list logop * list oevent * list N * list xevent))%type.
Definition check_case (c : case) : list (N * N * N) :=
  let '(id, (k, cmds, es, init, xs)) := c in
  (if model_eqb k cmds es && xmodel_run init [] xs then [] else [(id, 1, 0)]) ++
  (if xspec_run init xs then [] else [(id, 2, 0)]) ++
  (if xready_ok xs then [] else [(id, 11, 0)]) ++
  (if spec_okb k cmds es then [] else [(id, 10, tag17 cmds es xs)]).
Definition failing (cs : list case) : list (N * N * N) := flat_map check_case cs.
